(* Feasibility probe written during the design phase (not part of the framework). *)
From Coq Require Import List Bool ZArith NArith Lia.
Import ListNotations.
Require Import Base. (* probe only: coqc Base.v first *)

Definition K_Ref : str := [82;101;102]%N.
Definition K_Join : str := [70;110;58;58;74;111;105;110]%N.
Definition K_If : str := [70;110;58;58;73;102]%N.
Definition NOVALUE : str := [65;87;83]%N. (* stand-in *)
Definition is_fn (k:str) : bool := str_eqb k K_Ref || str_eqb k K_Join || str_eqb k K_If.

Record env := { params : list (str*value); conds : list (str*bool) }.

Definition is_novalue (v:value) : bool := match v with VStr s => str_eqb s NOVALUE | _ => false end.

Fixpoint join (d:str) (l:list str) : str :=
  match l with [] => [] | [x] => x | x::xs => x ++ d ++ join d xs end.

Definition as_strs (l:list value) : res (list str) :=
  fold_right (fun v acc => match v with VStr s => (a <- acc ;; Ok (s::a)) | _ => Err EUndefined end) (Ok []) l.

Definition undefined_param (s:str) : str := [85;78;68]%N ++ s.

Fixpoint resolve (e:env) (v:value) {struct v} : res value :=
  match v with
  | VList l =>
      l' <- (fix go (l:list value) : res (list value) :=
               match l with
               | [] => Ok []
               | x::xs => x' <- resolve e x ;; xs' <- go xs ;;
                          Ok (if is_novalue x' then xs' else x'::xs')
               end) l ;;
      Ok (VList l')
  | VDict [(k, body)] =>
      if str_eqb k K_Ref then
        b <- resolve e body ;;
        match b with
        | VStr s => match lookup s (params e) with Some x => Ok x | None => Ok (VStr (undefined_param s)) end
        | _ => Err EType
        end
      else if str_eqb k K_Join then
        match body with
        | VList [d; l] =>
            d' <- resolve e d ;; l' <- resolve e l ;;
            match d', l' with
            | VStr ds, VList ls => ss <- as_strs ls ;; Ok (VStr (join ds ss))
            | _, _ => Err EUndefined
            end
        | _ => Err EValue
        end
      else if str_eqb k K_If then
        match body with
        | VList [VStr c; t; f] =>
            match lookup c (conds e) with
            | Some true => resolve e t
            | _ => resolve e f
            end
        | _ => Err EValue
        end
      else
        b <- resolve e body ;; Ok (if is_novalue b then VDict [] else VDict [(k,b)])
  | VDict d =>
      d' <- (fix go (d:list (str*value)) : res (list (str*value)) :=
               match d with
               | [] => Ok []
               | (k,x)::xs => x' <- resolve e x ;; xs' <- go xs ;;
                              Ok (if is_novalue x' then xs' else (k,x')::xs')
               end) d ;;
      Ok (VDict d')
  | _ => Ok v
  end.

(* Declarative big-step spec *)
Inductive Eval (e:env) : value -> value -> Prop :=
| E_null : Eval e VNull VNull
| E_bool b : Eval e (VBool b) (VBool b)
| E_int z : Eval e (VInt z) (VInt z)
| E_str s : Eval e (VStr s) (VStr s)
| E_list l l' : EvalList e l l' -> Eval e (VList l) (VList l')
| E_ref body s x : Eval e body (VStr s) -> lookup s (params e) = Some x -> Eval e (VDict [(K_Ref, body)]) x
| E_ref_undef body s : Eval e body (VStr s) -> lookup s (params e) = None ->
    Eval e (VDict [(K_Ref, body)]) (VStr (undefined_param s))
| E_join d l ds ls ss : Eval e d (VStr ds) -> Eval e l (VList ls) -> as_strs ls = Ok ss ->
    Eval e (VDict [(K_Join, VList [d; l])]) (VStr (join ds ss))
| E_if_true c t f v : lookup c (conds e) = Some true -> Eval e t v -> Eval e (VDict [(K_If, VList [VStr c; t; f])]) v
| E_if_false c t f v : lookup c (conds e) <> Some true -> Eval e f v -> Eval e (VDict [(K_If, VList [VStr c; t; f])]) v
| E_dict d d' : (forall k b, d = [(k,b)] -> is_fn k = false) -> EvalDict e d d' -> Eval e (VDict d) (VDict d')
with EvalList (e:env) : list value -> list value -> Prop :=
| EL_nil : EvalList e [] []
| EL_keep x x' xs xs' : Eval e x x' -> is_novalue x' = false -> EvalList e xs xs' -> EvalList e (x::xs) (x'::xs')
| EL_drop x x' xs xs' : Eval e x x' -> is_novalue x' = true -> EvalList e xs xs' -> EvalList e (x::xs) xs'
with EvalDict (e:env) : list (str*value) -> list (str*value) -> Prop :=
| ED_nil : EvalDict e [] []
| ED_keep k x x' xs xs' : Eval e x x' -> is_novalue x' = false -> EvalDict e xs xs' -> EvalDict e ((k,x)::xs) ((k,x')::xs')
| ED_drop k x x' xs xs' : Eval e x x' -> is_novalue x' = true -> EvalDict e xs xs' -> EvalDict e ((k,x)::xs) xs'.

Ltac inv H := inversion H; subst; clear H.
Ltac bind_inv :=
  repeat match goal with
  | H : bind ?r _ = Ok _ |- _ => let E := fresh "E" in destruct r eqn:E; simpl in H; [|discriminate]
  end.

Lemma resolve_list_sound e l :
  Forall (fun v => forall v', resolve e v = Ok v' -> Eval e v v') l ->
  forall l', (fix go (l:list value) : res (list value) :=
               match l with
               | [] => Ok []
               | x::xs => x' <- resolve e x ;; xs' <- go xs ;;
                          Ok (if is_novalue x' then xs' else x'::xs')
               end) l = Ok l' -> EvalList e l l'.
Proof.
  induction 1 as [|x xs Hx Hxs IH]; intros l' H.
  - inv H. constructor.
  - bind_inv. inv H. destruct (is_novalue a) eqn:En.
    + eapply EL_drop; eauto.
    + eapply EL_keep; eauto.
Qed.

Lemma resolve_dict_sound e d :
  Forall (fun kv => forall v', resolve e (snd kv) = Ok v' -> Eval e (snd kv) v') d ->
  forall d', (fix go (d:list (str*value)) : res (list (str*value)) :=
               match d with
               | [] => Ok []
               | (k,x)::xs => x' <- resolve e x ;; xs' <- go xs ;;
                              Ok (if is_novalue x' then xs' else (k,x')::xs')
               end) d = Ok d' -> EvalDict e d d'.
Proof.
  induction 1 as [|[k x] xs Hx Hxs IH]; intros d' H.
  - inv H. constructor.
  - simpl in Hx. bind_inv. inv H. destruct (is_novalue a) eqn:En.
    + eapply ED_drop; eauto.
    + eapply ED_keep; eauto.
Qed.


Fixpoint vsize (v:value) : nat :=
  match v with
  | VList l => S (fold_right (fun x acc => vsize x + acc) 0 l)
  | VDict d => S (fold_right (fun kv acc => vsize (snd kv) + acc) 0 d)
  | _ => 1
  end.
Lemma vsize_in_list x l : In x l -> vsize x < vsize (VList l).
Proof. induction l as [|y l IH]; simpl; [tauto|]. intros [->|H]; [lia|]. specialize (IH H). simpl in IH. lia. Qed.
Lemma vsize_in_dict k x d : In (k,x) d -> vsize x < vsize (VDict d).
Proof. induction d as [|[k' y] d IH]; simpl; [tauto|]. intros [H|H]; [inversion H; subst; lia|]. specialize (IH H). simpl in IH. lia. Qed.

Theorem resolve_sound e : forall n v, vsize v < n -> forall v', resolve e v = Ok v' -> Eval e v v'.
Proof.
  induction n as [|n IH]; intros v Hs v' Hr; [lia|].
  destruct v as [| | | |l|d]; try (inv Hr; constructor).
  - (* list *) simpl in Hr. bind_inv. inv Hr. constructor. eapply resolve_list_sound; eauto.
    apply Forall_forall. intros x Hx w Hw. eapply IH; eauto. pose proof (vsize_in_list x l Hx). lia.
  - (* dict *)
    assert (Hsub : forall k x, In (k,x) d -> forall w, resolve e x = Ok w -> Eval e x w).
    { intros k x Hx w Hw. eapply IH; eauto. pose proof (vsize_in_dict k x d Hx). lia. }
    destruct d as [|[k body] [|kv2 rest]].
    + inv Hr. apply E_dict; [intros; discriminate | constructor].
    + cbn [resolve] in Hr.
      destruct (str_eqb k K_Ref) eqn:Ek1.
      { apply str_eqb_spec in Ek1; subst k. bind_inv. destruct a as [| | |s| |]; try discriminate.
        assert (Eval e body (VStr s)) by (eapply Hsub; [left; reflexivity|assumption]).
        destruct (lookup s (params e)) eqn:El; inv Hr; [eapply E_ref|eapply E_ref_undef]; eauto. }
      destruct (str_eqb k K_Join) eqn:Ek2.
      { apply str_eqb_spec in Ek2; subst k.
        destruct body as [| | | |l|]; try discriminate.
        destruct l as [|dl [|l [|? ?]]]; try discriminate.
        bind_inv. destruct a; try discriminate. destruct a0; try discriminate. bind_inv. inv Hr.
        eapply E_join; eauto; eapply IH; eauto; simpl in Hs |- *; lia. }
      destruct (str_eqb k K_If) eqn:Ek3.
      { apply str_eqb_spec in Ek3; subst k.
        destruct body as [| | | |l|]; try discriminate.
        destruct l as [|c [|t [|f [|? ?]]]]; try (destruct c; discriminate); try discriminate.
        destruct c as [| | |cs| |]; try discriminate.
        destruct (lookup cs (conds e)) as [[|]|] eqn:El.
        - eapply E_if_true; eauto. eapply IH; eauto. simpl in Hs |- *; lia.
        - eapply E_if_false; [congruence|]. eapply IH; eauto. simpl in Hs |- *; lia.
        - eapply E_if_false; [congruence|]. eapply IH; eauto. simpl in Hs |- *; lia. }
      bind_inv. inv Hr.
      assert (Eval e body a) by (eapply Hsub; [left; reflexivity|assumption]).
      destruct (is_novalue a) eqn:En; (apply E_dict;
        [ intros k0 b0 Heq; inv Heq; unfold is_fn; rewrite Ek1, Ek2, Ek3; reflexivity | ]).
      * eapply ED_drop; eauto; constructor.
      * eapply ED_keep; eauto; constructor.
    + (* >= 2 keys *)
      remember ((k,body)::kv2::rest) as d eqn:Hd.
      assert (Hr' : (d' <- (fix go (d:list (str*value)) : res (list (str*value)) :=
               match d with
               | [] => Ok []
               | (k,x)::xs => x' <- resolve e x ;; xs' <- go xs ;;
                              Ok (if is_novalue x' then xs' else (k,x')::xs')
               end) d ;; Ok (VDict d')) = Ok v').
      { subst d. exact Hr. }
      clear Hr. bind_inv. inv Hr'. apply E_dict.
      { intros k0 b0 Heq. discriminate. }
      eapply resolve_dict_sound; eauto.
      apply Forall_forall. intros [k0 x0] Hin w Hw. simpl in *. eapply Hsub; eauto.
Qed.
Print Assumptions resolve_sound.
