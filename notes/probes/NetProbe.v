(* Feasibility probe (design phase): networks as (addr, plen) over a W-bit space, arithmetic model. *)
From Coq Require Import ZArith Lia Bool.
Open Scope Z_scope.

Section Net.
Variable W : Z.
Hypothesis HW : 0 < W.

Definition blk (l:Z) : Z := 2 ^ (W - l).            (* block size of a /l network *)
Definition mk_net (x l:Z) : Z * Z := ((x / blk l) * blk l, l).   (* host bits masked off *)
Definition wf (n:Z*Z) : Prop := let '(a,l) := n in 0 <= l <= W /\ 0 <= a < 2^W /\ a mod blk l = 0.
Definition in_net (x:Z) (n:Z*Z) : Prop := let '(a,l) := n in a <= x < a + blk l.
Definition slash_zero (n:Z*Z) : bool := let '(a,l) := n in (a =? 0) && (l =? 0).
Definition subnet_of (n m:Z*Z) : bool :=
  let '(a,l) := n in let '(b,k) := m in (b <=? a) && (a + blk l <=? b + blk k).

Lemma blk_pos l : 0 <= l <= W -> 0 < blk l.
Proof. intros. unfold blk. apply Z.pow_pos_nonneg; lia. Qed.

Lemma blk_full : blk 0 = 2^W. Proof. unfold blk. f_equal. lia. Qed.

Lemma blk_lt l : 0 < l <= W -> blk l < 2^W.
Proof. intros. unfold blk. apply Z.pow_lt_mono_r; lia. Qed.

Lemma mk_net_wf x l : 0 <= l <= W -> 0 <= x < 2^W -> wf (mk_net x l).
Proof.
  intros Hl Hx. unfold wf, mk_net. pose proof (blk_pos l Hl) as Hb.
  pose proof (Z.mul_div_le x (blk l) Hb) as Hle.
  assert (0 <= x / blk l) by (apply Z.div_pos; lia).
  assert (0 <= x / blk l * blk l) by (apply Z.mul_nonneg_nonneg; lia).
  repeat split; try lia.
  apply Z.mod_mul. lia.
Qed.

Lemma mk_net_contains x l : 0 <= l <= W -> 0 <= x -> in_net x (mk_net x l).
Proof.
  intros Hl Hx. unfold in_net, mk_net. pose proof (blk_pos l Hl) as Hb.
  pose proof (Z.mul_div_le x (blk l) Hb). pose proof (Z.mul_succ_div_gt x (blk l) Hb). lia.
Qed.

Theorem slash_zero_iff n : wf n ->
  (slash_zero n = true <-> forall x, 0 <= x < 2^W -> in_net x n).
Proof.
  destruct n as [a l]. unfold wf, slash_zero, in_net. intros (Hl & Ha & Hal). split.
  - rewrite andb_true_iff, !Z.eqb_eq. intros [-> ->] x Hx. rewrite blk_full. lia.
  - intros H. rewrite andb_true_iff, !Z.eqb_eq.
    assert (Ha0 : a = 0). { specialize (H 0). assert (0 <= 0 < 2^W) by (split; [lia|apply Z.pow_pos_nonneg; lia]). specialize (H H0). lia. }
    split; [exact Ha0|]. subst a.
    destruct (Z.eq_dec l 0) as [|Hne]; [assumption|exfalso].
    assert (Hlt : blk l < 2^W) by (apply blk_lt; lia).
    specialize (H (2^W - 1)). assert (0 <= 2^W - 1 < 2^W) by (pose proof (Z.pow_pos_nonneg 2 W); lia).
    specialize (H H0). lia.
Qed.

Theorem subnet_of_iff n m : wf n -> wf m ->
  (subnet_of n m = true <-> forall x, in_net x n -> in_net x m).
Proof.
  destruct n as [a l], m as [b k]. unfold wf, subnet_of, in_net. intros (Hl & Ha & _) (Hk & Hb & _).
  pose proof (blk_pos l Hl). pose proof (blk_pos k Hk).
  rewrite andb_true_iff, !Z.leb_le. split.
  - intros [? ?] x ?. lia.
  - intros Hx. pose proof (Hx a). pose proof (Hx (a + blk l - 1)). lia.
Qed.
End Net.
Print Assumptions slash_zero_iff.
Print Assumptions subnet_of_iff.
