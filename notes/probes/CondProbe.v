(* Feasibility probe (design phase): declaration-order-independent condition values.
   Names are nat here (any type with decidable equality works). *)
From Coq Require Import List Bool Arith Lia Permutation.
Import ListNotations.

Inductive cexpr :=
| CLit (b:bool) | CRef (n:nat) | CNot (c:cexpr) | CAnd (l:list cexpr) | COr (l:list cexpr).

Section CexprInd.
  Variable P : cexpr -> Prop.
  Hypothesis Hlit : forall b, P (CLit b).
  Hypothesis Href : forall n, P (CRef n).
  Hypothesis Hnot : forall c, P c -> P (CNot c).
  Hypothesis Hand : forall l, Forall P l -> P (CAnd l).
  Hypothesis Hor : forall l, Forall P l -> P (COr l).
  Fixpoint cexpr_ind' (e:cexpr) : P e :=
    let go := fix go (l:list cexpr) : Forall P l :=
      match l with [] => Forall_nil _ | x::xs => Forall_cons _ (cexpr_ind' x) (go xs) end in
    match e with
    | CLit b => Hlit b | CRef n => Href n | CNot c => Hnot c (cexpr_ind' c)
    | CAnd l => Hand l (go l) | COr l => Hor l (go l)
    end.
End CexprInd.

Fixpoint ev (k : nat -> bool) (e : cexpr) : bool :=
  match e with
  | CLit b => b
  | CRef n => k n
  | CNot c => negb (ev k c)
  | CAnd l => forallb (ev k) l
  | COr l => existsb (ev k) l
  end.

Fixpoint refs (e:cexpr) : list nat :=
  match e with
  | CLit _ => [] | CRef n => [n] | CNot c => refs c
  | CAnd l | COr l => flat_map refs l
  end.

Lemma ev_ext k k' e : (forall n, In n (refs e) -> k n = k' n) -> ev k e = ev k' e.
Proof.
  induction e using cexpr_ind'; simpl; intros Hk; auto.
  - f_equal; auto.
  - induction H as [|x xs Hx Hxs IH]; simpl; [reflexivity|]. simpl in Hk. f_equal.
    + apply Hx. intros n Hn. apply Hk. apply in_or_app; auto.
    + apply IH. intros n Hn. apply Hk. apply in_or_app; auto.
  - induction H as [|x xs Hx Hxs IH]; simpl; [reflexivity|]. simpl in Hk. f_equal.
    + apply Hx. intros n Hn. apply Hk. apply in_or_app; auto.
    + apply IH. intros n Hn. apply Hk. apply in_or_app; auto.
Qed.

Definition memb (n:nat) (l:list nat) : bool := existsb (Nat.eqb n) l.
Definition rm (n:nat) (l:list nat) : list nat := filter (fun x => negb (Nat.eqb n x)) l.

Lemma memb_In n l : memb n l = true <-> In n l.
Proof. unfold memb. rewrite existsb_exists. split; [intros (x&Hx&He); apply Nat.eqb_eq in He; subst; auto| intros H; exists n; split; auto; apply Nat.eqb_refl]. Qed.
Lemma memb_rm x n l : memb x (rm n l) = memb x l && negb (Nat.eqb n x).
Proof.
  unfold rm. induction l as [|y l IH]; simpl; [reflexivity|].
  destruct (Nat.eqb n y) eqn:E1; simpl.
  - rewrite IH. apply Nat.eqb_eq in E1; subst y. destruct (Nat.eqb x n) eqn:E2; simpl; [|reflexivity].
    apply Nat.eqb_eq in E2; subst. rewrite Nat.eqb_refl. simpl. rewrite andb_false_r. reflexivity.
  - rewrite IH. destruct (Nat.eqb x y) eqn:E2; simpl; [|reflexivity].
    apply Nat.eqb_eq in E2; subst. rewrite E1. reflexivity.
Qed.
Lemma filter_len {A} (f:A->bool) l : length (filter f l) <= length l.
Proof. induction l as [|x l IH]; simpl; [lia|]. destruct (f x); simpl; lia. Qed.
Lemma rm_length n l : In n l -> length (rm n l) < length l.
Proof.
  unfold rm. induction l as [|y l IH]; simpl; [tauto|]. intros [->|H].
  - rewrite Nat.eqb_refl. simpl. pose proof (filter_len (fun x => negb (n =? x)) l). lia.
  - destruct (n =? y); simpl; [pose proof (filter_len (fun x => negb (n =? x)) l); lia| specialize (IH H); lia].
Qed.

Section CV.
Variable look : nat -> option cexpr.

Fixpoint cv (fuel:nat) (rem:list nat) (n:nat) : bool :=
  match fuel with
  | 0 => false
  | S f =>
      if memb n rem then
        match look n with
        | None => false
        | Some e => ev (cv f (rm n rem)) e
        end
      else false
  end.

(* 1. depends on `rem` only as a set  =>  invariant under any permutation of the declarations *)
Lemma cv_set_ext f : forall rem rem' n, (forall x, memb x rem = memb x rem') -> cv f rem n = cv f rem' n.
Proof.
  induction f as [|f IH]; intros rem rem' n H; simpl; [reflexivity|].
  rewrite <- H. destruct (memb n rem); [|reflexivity]. destruct (look n) as [e|]; [|reflexivity].
  apply ev_ext. intros m _. apply IH. intros x. rewrite !memb_rm, H. reflexivity.
Qed.

Corollary cv_perm f rem rem' n : Permutation rem rem' -> cv f rem n = cv f rem' n.
Proof.
  intros HP. apply cv_set_ext. intros x.
  destruct (memb x rem) eqn:E1, (memb x rem') eqn:E2; auto.
  - apply memb_In in E1. apply (Permutation_in _ HP) in E1. apply memb_In in E1. congruence.
  - apply memb_In in E2. apply (Permutation_in _ (Permutation_sym HP)) in E2. apply memb_In in E2. congruence.
Qed.

(* 2. fuel adequacy: any fuel above |rem| gives the same answer (the 0-fuel branch is unreachable) *)
Lemma cv_fuel : forall f1 f2 rem n, length rem < f1 -> length rem < f2 -> cv f1 rem n = cv f2 rem n.
Proof.
  induction f1 as [|f1 IH]; intros f2 rem n H1 H2; [lia|]. destruct f2 as [|f2]; [lia|]. simpl.
  destruct (memb n rem) eqn:Em; [|reflexivity]. destruct (look n) as [e|]; [|reflexivity].
  apply ev_ext. intros m _. apply memb_In in Em. pose proof (rm_length n rem Em). apply IH; lia.
Qed.

(* 3. undeclared or in-progress reference is false *)
Lemma cv_not_in f rem n : memb n rem = false -> cv f rem n = false.
Proof. destruct f; simpl; [reflexivity|]. intros ->. reflexivity. Qed.

(* 4. acyclic declarations: the value is THE solution of the defining equations *)
Variable rank : nat -> nat.
Hypothesis acyclic : forall n e m, look n = Some e -> In m (refs e) -> rank m < rank n.

Lemma cv_low_ext f : forall rem rem' m,
  (forall x, rank x <= rank m -> memb x rem = memb x rem') -> cv f rem m = cv f rem' m.
Proof.
  induction f as [|f IH]; intros rem rem' m H; simpl; [reflexivity|].
  rewrite <- (H m (le_n _)). destruct (memb m rem); [|reflexivity].
  destruct (look m) as [e|] eqn:El; [|reflexivity].
  apply ev_ext. intros r Hr. apply IH. intros x Hx.
  pose proof (acyclic m e r El Hr). rewrite !memb_rm, H by lia. reflexivity.
Qed.

Lemma cv_S f rem n : cv (S f) rem n =
  if memb n rem then match look n with None => false | Some e => ev (cv f (rm n rem)) e end else false.
Proof. reflexivity. Qed.

Theorem cv_equations full n e :
  memb n full = true -> look n = Some e ->
  cv (S (length full)) full n = ev (cv (S (length full)) full) e.
Proof.
  intros Hn El. rewrite cv_S at 1. rewrite Hn, El. apply ev_ext. intros r Hr.
  pose proof (acyclic n e r El Hr) as Hlt.
  apply memb_In in Hn. pose proof (rm_length n full Hn) as Hlen.
  rewrite (cv_fuel (length full) (S (length full)) (rm n full) r) by lia.
  apply cv_low_ext. intros x Hx. rewrite memb_rm.
  destruct (Nat.eqb n x) eqn:E; [apply Nat.eqb_eq in E; subst; lia|]. simpl. apply andb_true_r.
Qed.
End CV.
Print Assumptions cv_equations.
Print Assumptions cv_perm.
Print Assumptions cv_fuel.
