(* Feasibility probe (design phase): action expansion as set algebra over an ARBITRARY catalogue.
   Elements are an abstract ordered type; here nat with <, standing for strings with code-point order. *)
From Coq Require Import List Bool Arith Lia Sorting.Sorted Permutation.
Import ListNotations.

Section Expand.
Variable matches : nat -> nat -> bool.      (* matches pattern action *)

(* sorted, duplicate-free insertion: the model of Python's sorted(set(...)) *)
Fixpoint ins (x:nat) (l:list nat) : list nat :=
  match l with
  | [] => [x]
  | y::ys => if x <? y then x::l else if x =? y then l else y :: ins x ys
  end.
Definition nodup_sort (l:list nat) : list nat := fold_right ins [] l.

Lemma ins_In x y l : In y (ins x l) <-> y = x \/ In y l.
Proof.
  induction l as [|z l IH]; simpl; [intuition|].
  destruct (x <? z) eqn:E1; simpl; [intuition|].
  destruct (x =? z) eqn:E2; simpl.
  - apply Nat.eqb_eq in E2; subst. intuition.
  - rewrite IH. intuition.
Qed.
Lemma nodup_sort_In y l : In y (nodup_sort l) <-> In y l.
Proof. induction l as [|x l IH]; simpl; [tauto|]. rewrite ins_In, IH. intuition. Qed.

Definition ssorted := StronglySorted lt.
Lemma ins_sorted x l : ssorted l -> ssorted (ins x l).
Proof.
  induction 1 as [|y ys Hs IH Hy]; simpl; [repeat constructor|].
  destruct (x <? y) eqn:E1.
  - apply Nat.ltb_lt in E1. constructor; [constructor; assumption|].
    constructor; [assumption|]. eapply Forall_impl; [|exact Hy]. intros; lia.
  - destruct (x =? y) eqn:E2; [constructor; assumption|].
    apply Nat.ltb_ge in E1. apply Nat.eqb_neq in E2. constructor; [assumption|].
    apply Forall_forall. intros z Hz. apply ins_In in Hz. destruct Hz as [->|Hz]; [lia|].
    rewrite Forall_forall in Hy. auto.
Qed.
Lemma nodup_sort_sorted l : ssorted (nodup_sort l).
Proof. induction l; simpl; [constructor| apply ins_sorted; assumption]. Qed.

(* strongly sorted lists with the same members are EQUAL: canonical form *)
Lemma ssorted_ext l1 : forall l2, ssorted l1 -> ssorted l2 -> (forall x, In x l1 <-> In x l2) -> l1 = l2.
Proof.
  induction l1 as [|a l1 IH]; intros l2 H1 H2 H.
  - destruct l2 as [|b l2]; [reflexivity|]. exfalso. apply (H b). left; reflexivity.
  - destruct l2 as [|b l2]; [exfalso; apply (H a); left; reflexivity|].
    inversion H1 as [|? ? Hs1 Ha]; inversion H2 as [|? ? Hs2 Hb]; subst.
    rewrite Forall_forall in Ha, Hb.
    assert (a = b).
    { destruct (proj1 (H a) (or_introl eq_refl)) as [E|E]; [congruence|].
      destruct (proj2 (H b) (or_introl eq_refl)) as [E'|E']; [congruence|].
      specialize (Hb _ E). specialize (Ha _ E'). lia. }
    subst b. f_equal. apply IH; auto. intros x. split; intros Hx.
    + destruct (proj1 (H x) (or_intror Hx)) as [E|E]; [|assumption]. subst. specialize (Ha _ Hx). lia.
    + destruct (proj2 (H x) (or_intror Hx)) as [E|E]; [|assumption]. subst. specialize (Hb _ Hx). lia.
Qed.

Variable cat : list nat.
Definition any_match (ps:list nat) (a:nat) : bool := existsb (fun p => matches p a) ps.
Definition expand (ps:list nat) : list nat := nodup_sort (filter (any_match ps) cat).
Definition expand_not (ps:list nat) : list nat := nodup_sort (filter (fun a => negb (any_match ps a)) cat).

Theorem action_mem ps a : In a (expand ps) <-> In a cat /\ exists p, In p ps /\ matches p a = true.
Proof. unfold expand. rewrite nodup_sort_In, filter_In. unfold any_match. rewrite existsb_exists. tauto. Qed.

Theorem notaction_mem ps a : In a (expand_not ps) <-> In a cat /\ forall p, In p ps -> matches p a = false.
Proof.
  unfold expand_not. rewrite nodup_sort_In, filter_In, negb_true_iff. unfold any_match. split.
  - intros [Hc H]. split; [assumption|]. intros p Hp. destruct (matches p a) eqn:E; [|reflexivity].
    assert (existsb (fun p => matches p a) ps = true) by (apply existsb_exists; eauto). congruence.
  - intros [Hc H]. split; [assumption|]. destruct (existsb (fun p => matches p a) ps) eqn:E; [|reflexivity].
    apply existsb_exists in E. destruct E as (p & Hp & Hm). rewrite (H p Hp) in Hm. discriminate.
Qed.

Theorem sorted_nodup ps : ssorted (expand ps) /\ ssorted (expand_not ps).
Proof. split; apply nodup_sort_sorted. Qed.

(* partition: disjoint, and together exactly the catalogue *)
Theorem partition_disjoint ps a : In a (expand ps) -> In a (expand_not ps) -> False.
Proof.
  rewrite action_mem, notaction_mem. intros [_ (p & Hp & Hm)] [_ H]. rewrite (H p Hp) in Hm. discriminate.
Qed.
Theorem partition_cover ps a : In a cat <-> In a (expand ps) \/ In a (expand_not ps).
Proof.
  unfold expand, expand_not. rewrite !nodup_sort_In, !filter_In. destruct (any_match ps a); simpl; intuition.
Qed.

(* list = union of members; NotAction of a list = INTERSECTION of the members' complements (De Morgan) *)
Theorem union_law ps qs : expand (ps ++ qs) = nodup_sort (expand ps ++ expand qs).
Proof.
  apply ssorted_ext; try apply nodup_sort_sorted. intros a.
  rewrite nodup_sort_In, in_app_iff, !action_mem. split.
  - intros [Hc (p & Hp & Hm)]. apply in_app_iff in Hp. destruct Hp; [left|right]; eauto.
  - intros [[Hc (p & Hp & Hm)]|[Hc (p & Hp & Hm)]]; (split; [assumption|]); exists p; rewrite in_app_iff; auto.
Qed.
Theorem demorgan_law ps qs a :
  In a (expand_not (ps ++ qs)) <-> In a (expand_not ps) /\ In a (expand_not qs).
Proof.
  rewrite !notaction_mem. split.
  - intros [Hc H]. split; (split; [assumption|]); intros p Hp; apply H; rewrite in_app_iff; auto.
  - intros [[Hc H1] [_ H2]]. split; [assumption|]. intros p Hp. apply in_app_iff in Hp. destruct Hp; auto.
Qed.

(* the buggy statement-level NotAction (union of complements) is a different set: refuted below *)
End Expand.

Example union_of_complements_is_wrong :
  let matches := Nat.eqb in let cat := [1;2;3] in
  nodup_sort (expand_not matches cat [1] ++ expand_not matches cat [2]) <> expand_not matches cat [1;2].
Proof. vm_compute. discriminate. Qed.
Print Assumptions union_law.
Print Assumptions demorgan_law.
