(* Feasibility probe written during the design phase (not part of the framework). *)
From Coq Require Import List Bool ZArith NArith Lia.
Import ListNotations.

Definition str := list N.
Fixpoint str_eqb (a b: str) : bool :=
  match a, b with
  | [], [] => true
  | x::a', y::b' => N.eqb x y && str_eqb a' b'
  | _, _ => false
  end.
Lemma str_eqb_spec a b : str_eqb a b = true <-> a = b.
Proof.
  revert b; induction a as [|x a IH]; destruct b as [|y b]; simpl; try (split; congruence).
  rewrite andb_true_iff, N.eqb_eq, IH. split; [intros [-> ->]; reflexivity| intros H; inversion H; auto].
Qed.
Lemma str_eqb_refl a : str_eqb a a = true. Proof. apply str_eqb_spec; reflexivity. Qed.

Inductive value :=
| VNull | VBool (b:bool) | VInt (z:Z) | VStr (s:str)
| VList (l:list value) | VDict (d:list (str * value)).

(* Strong induction principle for the nested type *)
Section ValueInd.
  Variable P : value -> Prop.
  Hypothesis Hnull : P VNull.
  Hypothesis Hbool : forall b, P (VBool b).
  Hypothesis Hint : forall z, P (VInt z).
  Hypothesis Hstr : forall s, P (VStr s).
  Hypothesis Hlist : forall l, Forall P l -> P (VList l).
  Hypothesis Hdict : forall d, Forall (fun kv => P (snd kv)) d -> P (VDict d).
  Fixpoint value_ind' (v : value) : P v :=
    match v with
    | VNull => Hnull | VBool b => Hbool b | VInt z => Hint z | VStr s => Hstr s
    | VList l => Hlist l ((fix go (l:list value) : Forall P l :=
                             match l with [] => Forall_nil _ | x::xs => Forall_cons _ (value_ind' x) (go xs) end) l)
    | VDict d => Hdict d ((fix go (d:list (str*value)) : Forall (fun kv => P (snd kv)) d :=
                             match d with [] => Forall_nil _ | (k,x)::xs => Forall_cons (k,x) (value_ind' x) (go xs) end) d)
    end.
End ValueInd.

Fixpoint lookup {A} (k:str) (d:list (str*A)) : option A :=
  match d with [] => None | (k',v)::d' => if str_eqb k k' then Some v else lookup k d' end.

Inductive err := EValue | EType | EIndex | EUndefined.
Inductive res (A:Type) := Ok (a:A) | Err (e:err).
Arguments Ok {A}. Arguments Err {A}.
Definition bind {A B} (r:res A) (f:A->res B) : res B := match r with Ok a => f a | Err e => Err e end.
Notation "x <- r ;; k" := (bind r (fun x => k)) (at level 61, r at next level, right associativity).
