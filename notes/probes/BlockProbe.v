(* Feasibility probe (design phase): IAM condition-block combination with Python's short-circuit
   all()/any() and exceptions (None).  Leaf tests are abstract: test op key pval ctx : option bool
   (None = KeyError / TypeError inside the lambda). *)
From Coq Require Import List Bool.
Import ListNotations.

(* Python: all(f(x) for x in l) where f may raise: left-to-right, stops at first False, raises at first exception *)
Fixpoint all_sc {A} (f:A -> option bool) (l:list A) : option bool :=
  match l with
  | [] => Some true
  | x::xs => match f x with None => None | Some false => Some false | Some true => all_sc f xs end
  end.
Fixpoint any_sc {A} (f:A -> option bool) (l:list A) : option bool :=
  match l with
  | [] => Some false
  | x::xs => match f x with None => None | Some true => Some true | Some false => any_sc f xs end
  end.

Lemma all_sc_true {A} (f:A->option bool) l : all_sc f l = Some true <-> Forall (fun x => f x = Some true) l.
Proof.
  induction l as [|x l IH]; simpl; [split; auto|].
  destruct (f x) as [[|]|] eqn:E.
  - rewrite IH. split; [intros; constructor; auto| intros H; inversion H; auto].
  - split; [discriminate| intros H; inversion H; congruence].
  - split; [discriminate| intros H; inversion H; congruence].
Qed.
Lemma any_sc_true {A} (f:A->option bool) l :
  any_sc f l = Some true -> Exists (fun x => f x = Some true) l.
Proof.
  induction l as [|x l IH]; simpl; [discriminate|].
  destruct (f x) as [[|]|] eqn:E; intros H; [left; assumption| right; auto | discriminate].
Qed.
Lemma all_sc_total {A} (f:A->option bool) l : all_sc f l = Some true \/ all_sc f l = Some false \/ all_sc f l = None.
Proof. destruct (all_sc f l) as [[|]|]; auto. Qed.
Lemma all_sc_none {A} (f:A->option bool) l : all_sc f l = None -> Exists (fun x => f x = None) l.
Proof.
  induction l as [|x l IH]; simpl; [discriminate|].
  destruct (f x) as [[|]|] eqn:E; intros H; [right; auto| discriminate | left; assumption].
Qed.

Section Block.
Variable key pval cval : Type.
Variable ctx_get : key -> option (list cval).          (* context value(s) for a key; None = absent *)
Variable test : bool -> pval -> cval -> option bool.   (* negated? -> policy value -> context value *)

Inductive qual := QNone | QAll | QAny.
Record group := { g_neg : bool; g_ifexists : bool; g_qual : qual; g_key : key; g_vals : list pval }.

(* one context value against the policy values: alternatives for positive, jointly excluded for negated *)
Definition value_ok (g:group) (c:cval) : option bool :=
  if g_neg g then all_sc (fun p => test true p c) (g_vals g)
  else any_sc (fun p => test false p c) (g_vals g).

Definition group_eval (g:group) : option bool :=
  match ctx_get (g_key g) with
  | None => if g_ifexists g then Some true else None          (* KeyError -> None unless IfExists *)
  | Some cs =>
      match g_qual g with
      | QAll => all_sc (value_ok g) cs
      | QAny | QNone => any_sc (value_ok g) cs
      end
  end.

Definition block_eval (b:list group) : option bool := all_sc group_eval b.

(* the property: satisfied exactly when every operator is satisfied for every one of its keys *)
Theorem block_true_iff b : block_eval b = Some true <-> Forall (fun g => group_eval g = Some true) b.
Proof. apply all_sc_true. Qed.

(* per-key independence: a group's verdict depends only on its own key's context value *)
Theorem group_key_local (g:group) (ctx_get' : key -> option (list cval)) :
  ctx_get (g_key g) = ctx_get' (g_key g) ->
  group_eval g =
  match ctx_get' (g_key g) with
  | None => if g_ifexists g then Some true else None
  | Some cs => match g_qual g with QAll => all_sc (value_ok g) cs | _ => any_sc (value_ok g) cs end
  end.
Proof. unfold group_eval. intros ->. destruct (ctx_get' (g_key g)); [destruct (g_qual g)|]; reflexivity. Qed.

Theorem block_total b : block_eval b = Some true \/ block_eval b = Some false \/ block_eval b = None.
Proof. apply all_sc_total. Qed.

Theorem block_none_only_if b : block_eval b = None -> Exists (fun g => group_eval g = None) b.
Proof. apply all_sc_none. Qed.

Theorem ifexists_absent g : g_ifexists g = true -> ctx_get (g_key g) = None -> group_eval g = Some true.
Proof. unfold group_eval. intros -> ->. reflexivity. Qed.
End Block.
Print Assumptions block_true_iff.
