(* Feasibility probe written during the design phase (not part of the framework):
   glob matcher, structural on the pattern with an inner fix on the string for '*',
   proved sound and complete against an inductive spec for ANY alphabet with decidable equality.
   coqc GlobProbe.v  ->  "Closed under the global context" *)
From Coq Require Import List Bool Arith Lia.
Import ListNotations.
Section Glob.
Variable A : Type.
Variable eqb : A -> A -> bool.
Hypothesis eqb_spec : forall a b, eqb a b = true <-> a = b.
Inductive tok := Lit (a:A) | Any1 | AnyStar.
Inductive gm : list tok -> list A -> Prop :=
| gm_nil : gm [] []
| gm_lit a p s : gm p s -> gm (Lit a :: p) (a :: s)
| gm_any a p s : gm p s -> gm (Any1 :: p) (a :: s)
| gm_star0 p s : gm p s -> gm (AnyStar :: p) s
| gm_star1 a p s : gm (AnyStar :: p) s -> gm (AnyStar :: p) (a :: s).
Fixpoint gmb (p : list tok) : list A -> bool :=
  match p with
  | [] => fun s => match s with [] => true | _ => false end
  | Lit a :: p' => fun s => match s with c :: s' => eqb a c && gmb p' s' | [] => false end
  | Any1 :: p' => fun s => match s with _ :: s' => gmb p' s' | [] => false end
  | AnyStar :: p' =>
      fix star (s : list A) : bool :=
        gmb p' s || match s with [] => false | _ :: s' => star s' end
  end.
Lemma gmb_ok p : forall s, gmb p s = true <-> gm p s.
Proof.
  induction p as [|t p IH]; intros s.
  - destruct s; simpl; split; intro H; try constructor; try discriminate; inversion H.
  - destruct t.
    + destruct s as [|c s]; simpl.
      * split; [discriminate| intro H; inversion H].
      * rewrite andb_true_iff, eqb_spec, IH. split.
        -- intros [-> H]. now constructor.
        -- intro H; inversion H; subst; auto.
    + destruct s as [|c s]; simpl.
      * split; [discriminate| intro H; inversion H].
      * rewrite IH. split; intro H; [now constructor| now inversion H].
    + induction s as [|c s IHs]; simpl.
      * rewrite orb_false_r, IH. split; intro H; [now constructor|]. inversion H; auto.
      * rewrite orb_true_iff, IH. split.
        -- intros [H|H]; [now apply gm_star0|]. apply gm_star1. apply IHs. exact H.
        -- intro H; inversion H; subst; [now left|]. right. apply IHs. assumption.
Qed.
End Glob.
Print Assumptions gmb_ok.
