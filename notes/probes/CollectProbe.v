(* Feasibility probe (design phase): "every embedded policy document exactly once".
   Spec = a FILTER over the flat enumeration of all positions (with their ancestors);
   algorithm = the recursive cast-then-collect with cut at recognised nodes.  The recogniser is abstract. *)
From Coq Require Import List Bool Arith Lia.
Import ListNotations.

Inductive gv := GLeaf (n:nat) | GList (l:list gv) | GDict (d:list (nat * gv)).

Fixpoint gsize (v:gv) : nat :=
  match v with
  | GLeaf _ => 1
  | GList l => S (fold_right (fun x a => gsize x + a) 0 l)
  | GDict d => S (fold_right (fun kv a => gsize (snd kv) + a) 0 d)
  end.

Section Collect.
Variable doc : Type.
(* Some docs = "this node validates as one of the typed property models and directly yields docs"
   (1 for a policy document, 1 named for a wrapper, 0 for a tag / rule / statement ...) *)
Variable recog : gv -> option (list doc).

Definition children (v:gv) : list gv :=
  match v with GLeaf _ => [] | GList l => l | GDict d => map snd d end.

(* ---- algorithm: recursive, does not descend below a recognised node ---- *)
Fixpoint collect (v:gv) : list doc :=
  match recog v with
  | Some ds => ds
  | None =>
      match v with
      | GLeaf _ => []
      | GList l => flat_map collect l
      | GDict d => flat_map (fun kv => collect (snd kv)) d
      end
  end.

(* ---- specification: enumerate ALL positions with "was an ancestor recognised?" flag, then filter ---- *)
Fixpoint positions (cut:bool) (v:gv) : list (bool * gv) :=
  (cut, v) ::
  let cut' := cut || match recog v with Some _ => true | None => false end in
  match v with
  | GLeaf _ => []
  | GList l => flat_map (positions cut') l
  | GDict d => flat_map (fun kv => positions cut' (snd kv)) d
  end.

Definition yield (p : bool * gv) : list doc :=
  let '(cut, x) := p in if cut then [] else match recog x with Some ds => ds | None => [] end.

Definition embedded (v:gv) : list doc := flat_map yield (positions false v).

Lemma flat_map_flat_map {A B C} (f:A->list B) (g:B->list C) l :
  flat_map g (flat_map f l) = flat_map (fun x => flat_map g (f x)) l.
Proof. induction l; simpl; [reflexivity|]. rewrite flat_map_app. congruence. Qed.

Lemma flat_map_ext_in {A B} (f g:A->list B) l : (forall x, In x l -> f x = g x) -> flat_map f l = flat_map g l.
Proof. induction l; simpl; intros H; [reflexivity|]. rewrite H, IHl; auto. Qed.

Lemma flat_map_nil {A B} (f:A->list B) l : (forall x, In x l -> f x = []) -> flat_map f l = [].
Proof. induction l; simpl; intros H; [reflexivity|]. rewrite H, IHl; auto. Qed.

Lemma in_list_size x l : In x l -> gsize x < gsize (GList l).
Proof. induction l as [|y l IH]; simpl; [tauto|]. intros [->|H]; [lia|]. specialize (IH H). simpl in IH. lia. Qed.
Lemma in_dict_size k x d : In (k,x) d -> gsize x < gsize (GDict d).
Proof. induction d as [|[k' y] d IH]; simpl; [tauto|]. intros [H|H]; [inversion H; subst; lia|]. specialize (IH H). simpl in IH. lia. Qed.

(* below a cut nothing is yielded *)
Lemma cut_yields_nothing : forall n v, gsize v < n -> flat_map yield (positions true v) = [].
Proof.
  induction n as [|n IH]; intros v Hs; [lia|].
  destruct v as [m|l|d]; simpl; [reflexivity| |].
  - rewrite flat_map_flat_map. apply flat_map_nil. intros x Hx. apply IH. pose proof (in_list_size x l Hx). lia.
  - rewrite flat_map_flat_map. apply flat_map_nil. intros [k x] Hx. apply IH. pose proof (in_dict_size k x d Hx). simpl. lia.
Qed.

Theorem exactly_once : forall n v, gsize v < n -> collect v = embedded v.
Proof.
  unfold embedded. induction n as [|n IH]; intros v Hs; [lia|].
  destruct v as [m|l|d]; simpl.
  - destruct (recog (GLeaf m)); simpl; rewrite ?app_nil_r; reflexivity.
  - destruct (recog (GList l)) as [ds|] eqn:E; simpl.
    + rewrite flat_map_flat_map. rewrite flat_map_nil; [rewrite app_nil_r; reflexivity|].
      intros x Hx. apply (cut_yields_nothing (S (gsize x))). lia.
    + rewrite flat_map_flat_map. apply flat_map_ext_in. intros x Hx. apply IH. pose proof (in_list_size x l Hx). lia.
  - destruct (recog (GDict d)) as [ds|] eqn:E; simpl.
    + rewrite flat_map_flat_map. rewrite flat_map_nil; [rewrite app_nil_r; reflexivity|].
      intros [k x] Hx. apply (cut_yields_nothing (S (gsize x))). simpl. lia.
    + rewrite flat_map_flat_map. apply flat_map_ext_in. intros [k x] Hx. apply IH. pose proof (in_dict_size k x d Hx). simpl. lia.
Qed.
End Collect.
Print Assumptions exactly_once.
