(* Generic property values of an unmodelled resource (C13, C18).

   [gvalue] is the JSON value pycfmodel receives, ANNOTATED at every node with the answers of the leaf
   oracles, computed by the harness with pydantic / the standard library IN ISOLATION (never through
   pycfmodel's casting code):
     scalar leaves  : what TypeAdapter(ResolvableInt / ResolvableDate / ResolvableDatetime / ResolvableIPNetwork)
                      answers for the leaf, and whether Python's float() reads it as a number;
     string leaves  : additionally what json.loads answers (itself an annotated tree);
     object nodes   : which member of the `Properties` union TypeAdapter(Properties) accepts for the node on its own,
                      the canonical dump of the instance it builds, the PolicyName and the statements (Sid, Condition)
                      of the policy document it holds.
   [tval] is what the generic cast produces. *)
From Coq Require Import List Bool NArith ZArith Lia.
From PV Require Import Base.Str Base.Value.
Import ListNotations.
Local Open Scope N_scope.

(* members of pycfmodel.model.resources.properties.types.Properties, in source order *)
Inductive pk := PkPolicy | PkPolicyDocument | PkEgress | PkIngress | PkStatement | PkCondition | PkTag.
Definition pk_eqb (a b : pk) : bool :=
  match a, b with
  | PkPolicy, PkPolicy | PkPolicyDocument, PkPolicyDocument | PkEgress, PkEgress | PkIngress, PkIngress
  | PkStatement, PkStatement | PkCondition, PkCondition | PkTag, PkTag => true
  | _, _ => false
  end.
Lemma pk_eqb_spec a b : pk_eqb a b = true <-> a = b.
Proof. destruct a, b; simpl; split; congruence. Qed.

(* leaf oracles *)
Record sann := {
  a_int : option Z;                 (* TypeAdapter(ResolvableInt) *)
  a_float : bool;                   (* float(text) succeeds / the leaf is a JSON number or boolean *)
  a_date : option str;              (* TypeAdapter(ResolvableDate): isoformat() of the result *)
  a_datetime : option str;          (* TypeAdapter(ResolvableDatetime): isoformat() *)
  a_net : option (tkind * str);     (* TypeAdapter(ResolvableIPNetwork): KNet4/KNet6, str() of the network *)
  a_abort_date : bool;              (* the date parser RAISES something that is not a ValidationError (year 0) *)
  a_abort_datetime : bool           (* the same for the datetime parser *)
}.
Definition no_ann : sann :=
  {| a_int := None; a_float := false; a_date := None; a_datetime := None; a_net := None;
     a_abort_date := false; a_abort_datetime := false |}.

(* recogniser oracle for an object node *)
Record recog := {
  r_kind : pk;
  r_dump : str;                     (* canonical text of model_dump() of the instance the oracle built *)
  r_name : option str;              (* PolicyName, for a Policy wrapper *)
  r_doc : value                     (* statements of the document: VList [VList [sid; condition-or-VNull]; ...] *)
}.

Inductive gvalue :=
| GNull
| GBool (b : bool) (a : sann)
| GInt (z : Z) (a : sann)
| GFloat (text : str) (a : sann)                       (* text = repr() of the Python float *)
| GStr (s : str) (j : option gvalue) (a : sann)        (* j = json.loads s *)
| GList (l : list gvalue)
| GDict (d : list (str * gvalue)) (r : option recog).

Fixpoint gsize (g : gvalue) : nat :=
  match g with
  | GStr _ (Some j) _ => S (gsize j)
  | GList l => S (fold_right (fun x acc => gsize x + acc) 0 l)%nat
  | GDict d _ => S (fold_right (fun kv acc => gsize (snd kv) + acc) 0 d)%nat
  | _ => 1%nat
  end.
Lemma gsize_in_list x l : In x l -> (gsize x < gsize (GList l))%nat.
Proof.
  induction l as [|y l IH]; simpl; [tauto|]. intros [->|H]; [lia|]. specialize (IH H). simpl in IH. lia.
Qed.
Lemma gsize_in_dict k x d r : In (k, x) d -> (gsize x < gsize (GDict d r))%nat.
Proof.
  induction d as [|[k' y] d IH]; simpl; [tauto|].
  intros [H|H]; [inversion H; subst; lia|]. specialize (IH H). simpl in IH. lia.
Qed.

(* the plain JSON value under the annotations *)
Fixpoint strip (g : gvalue) : value :=
  match g with
  | GNull => VNull
  | GBool b _ => VBool b
  | GInt z _ => VInt z
  | GFloat t _ => VTyped KFloat t
  | GStr s _ _ => VStr s
  | GList l => VList (map strip l)
  | GDict d _ => VDict (map (fun kv => match kv with (k, x) => (k, strip x) end) d)
  end.

Inductive tval :=
| TNull
| TBool (b : bool)
| TInt (z : Z)
| TFloat (text : str)
| TStr (s : str)
| TDate (text : str)
| TDatetime (text : str)
| TNet (k : tkind) (text : str)
| TFn (raw : value)                                   (* FunctionDict: the object as written *)
| TProp (r : recog)                                   (* an instance of a member of the Properties union *)
| TList (l : list tval)
| TGeneric (d : list (str * tval)).                   (* pycfmodel.model.generic.Generic *)

Fixpoint tsize (t : tval) : nat :=
  match t with
  | TList l => S (fold_right (fun x acc => tsize x + acc) 0 l)%nat
  | TGeneric d => S (fold_right (fun kv acc => tsize (snd kv) + acc) 0 d)%nat
  | _ => 1%nat
  end.

(* ---- encodings used by the runner ---- *)
Definition K_FN : str := [0; 102; 110].                 (* "\0fn" *)
Definition K_PROP : str := [0; 112; 114; 111; 112].     (* "\0prop" *)
Definition K_DUMP : str := [0; 100; 117; 109; 112].     (* "\0dump" *)

Definition pk_code (k : pk) : Z :=
  match k with PkPolicy => 0 | PkPolicyDocument => 1 | PkEgress => 2 | PkIngress => 3 | PkStatement => 4
  | PkCondition => 5 | PkTag => 6 end%Z.
Definition pk_of_code (z : Z) : option pk :=
  match z with
  | 0 => Some PkPolicy | 1 => Some PkPolicyDocument | 2 => Some PkEgress | 3 => Some PkIngress
  | 4 => Some PkStatement | 5 => Some PkCondition | 6 => Some PkTag | _ => None
  end%Z.

(* what the harness sees as Properties.<name>: value and Python type *)
Fixpoint tenc (t : tval) : value :=
  match t with
  | TNull => VNull
  | TBool b => VBool b
  | TInt z => VInt z
  | TFloat x => VTyped KFloat x
  | TStr s => VStr s
  | TDate x => VTyped KDate x
  | TDatetime x => VTyped KDatetime x
  | TNet k x => VTyped k x
  | TFn raw => VDict [(K_FN, raw)]
  | TProp r => VDict [(K_PROP, VInt (pk_code (r_kind r))); (K_DUMP, VStr (r_dump r))]
  | TList l => VList (map tenc l)
  | TGeneric d => VDict (map (fun kv => match kv with (k, x) => (k, tenc x) end) d)
  end.

(* model_dump(): typed atoms stay objects, Generic -> dict, FunctionDict -> its members, property models -> their dump *)
Fixpoint tdump (t : tval) : value :=
  match t with
  | TFn raw => raw
  | TProp r => VDict [(K_DUMP, VStr (r_dump r))]
  | TList l => VList (map tdump l)
  | TGeneric d => VDict (map (fun kv => match kv with (k, x) => (k, tdump x) end) d)
  | _ => tenc t
  end.

(* decoding of the annotated tree sent by the harness:
   VNull | [1;b;ann] | [2;z;ann] | [3;text;ann] | [4;s;[]|[j];ann] | [5;[..]] | [6;{..};null|[kind;dump;name;doc]]
   ann = [int|null; floatflag; date|null; datetime|null; net|null; abort_date; abort_datetime] *)
Definition ostr (v : value) : option (option str) :=
  match v with VNull => Some None | VStr s => Some (Some s) | _ => None end.
Definition dec_ann (v : value) : option sann :=
  match v with
  | VList [i; VBool f; d; dt; n; VBool ad; VBool adt] =>
      match (match i with VNull => Some None | VInt z => Some (Some z) | _ => None end), ostr d, ostr dt,
            (match n with VNull => Some None | VTyped KNet4 t => Some (Some (KNet4, t)) | VTyped KNet6 t => Some (Some (KNet6, t))
             | _ => None end) with
      | Some i', Some d', Some dt', Some n' =>
          Some {| a_int := i'; a_float := f; a_date := d'; a_datetime := dt'; a_net := n';
                  a_abort_date := ad; a_abort_datetime := adt |}
      | _, _, _, _ => None
      end
  | _ => None
  end.
Definition dec_recog (v : value) : option (option recog) :=
  match v with
  | VNull => Some None
  | VList [VInt k; VStr dump; nm; doc] =>
      match pk_of_code k, ostr nm with
      | Some k', Some nm' => Some (Some {| r_kind := k'; r_dump := dump; r_name := nm'; r_doc := doc |})
      | _, _ => None
      end
  | _ => None
  end.

Fixpoint gdec (v : value) : option gvalue :=
  match v with
  | VNull => Some GNull
  | VList [VInt 1; VBool b; a] => option_map (GBool b) (dec_ann a)
  | VList [VInt 2; VInt z; a] => option_map (GInt z) (dec_ann a)
  | VList [VInt 3; VStr t; a] => option_map (GFloat t) (dec_ann a)
  | VList [VInt 4; VStr s; VList []; a] => option_map (GStr s None) (dec_ann a)
  | VList [VInt 4; VStr s; VList [j]; a] =>
      match gdec j, dec_ann a with
      | Some j', Some a' => Some (GStr s (Some j') a')
      | _, _ => None
      end
  | VList [VInt 5; VList l] =>
      option_map GList
        ((fix go (l : list value) : option (list gvalue) :=
            match l with
            | [] => Some []
            | x :: xs => match gdec x, go xs with Some x', Some xs' => Some (x' :: xs') | _, _ => None end
            end) l)
  | VList [VInt 6; VDict d; r] =>
      match (fix go (d : list (str * value)) : option (list (str * gvalue)) :=
               match d with
               | [] => Some []
               | (k, x) :: xs => match gdec x, go xs with Some x', Some xs' => Some ((k, x') :: xs') | _, _ => None end
               end) d, dec_recog r with
      | Some d', Some r' => Some (GDict d' r')
      | _, _ => None
      end
  | _ => None
  end.
