(* C15 -- the schema interpreter: validation of plain data against a field type of the generated schema table, and model_dump().

   [validate S modelled strict leafv n t v] is the model of pydantic validating [v] against the annotation translated to [t]
   (python mode, lax): model classes with their declared fields, defaults, extra mode and pycfmodel's own validator hooks;
   Optional, List, Dict[str, .]; unions in left-to-right mode (first accepting member) and in smart mode (unambiguous cases only); Resolvable[t] = t then FunctionDict; the resource union of C14.
   Leaves are validated by [leafv] (Typed/Leaves.v: pycfmodel's own validators modelled, pydantic-core's an oracle).
   [n] bounds the nesting depth of MODEL CLASSES (explicit fuel; running out is the explicit error ERecursion).
   [dump] is model_dump() in python mode: every declared field (None defaults included), then the extra fields. *)
From Coq Require Import List Bool NArith ZArith Lia.
From PV Require Import Base.Str Base.Value Resolver.Consts Typed.Schema Typed.Dispatch Typed.Leaves.
Import ListNotations.
Local Open Scope N_scope.

(* validated values: leaves carry what model_dump() returns for them (None is the leaf VNull) *)
Inductive tval :=
| XLeaf (v : value)
| XList (l : list tval)
| XDict (d : list (str * tval))                                            (* Dict[str, T] *)
| XModel (cls : str) (fields : list (str * tval)) (extra : list (str * value)).   (* an instance of class cls *)

Fixpoint dump (x : tval) : value :=
  match x with
  | XLeaf v => v
  | XList l => VList (map dump l)
  | XDict d => VDict (map (fun kv => (fst kv, dump (snd kv))) d)
  | XModel _ fs ex => VDict (map (fun kv => (fst kv, dump (snd kv))) fs ++ ex)
  end.

(* errors that are not a refusal of the input: the model declines (EUndefined) or ran out of fuel *)
Definition is_hard (e : err) : bool := match e with EUndefined | ERecursion => true | _ => false end.

(* a union in left-to-right mode: the first member that accepts *)
Fixpoint first_ok (rs : list (res tval)) : res tval :=
  match rs with
  | [] => Err EValidation
  | Ok x :: _ => Ok x
  | Err e :: r => if is_hard e then Err e else first_ok r
  end.

(* a union in pydantic's "smart" mode: WHICH accepting member wins is decided by pydantic's exactness ranking (an oracle).
   The model speaks only when the answer does not depend on it -- exactly one member accepts -- and declines otherwise. *)
Definition is_soft (r : res tval) : bool := match r with Err e => negb (is_hard e) | Ok _ => false end.
Fixpoint smart_ok (rs : list (res tval)) : res tval :=
  match rs with
  | [] => Err EValidation
  | Ok x :: r => if forallb is_soft r then Ok x else Err EUndefined
  | Err e :: r => if is_hard e then Err e else smart_ok r
  end.

Fixpoint mapM {A B} (f : A -> res B) (l : list A) : res (list B) :=
  match l with
  | [] => Ok []
  | x :: r => y <- f x ;; ys <- mapM f r ;; Ok (y :: ys)
  end.

Fixpoint nodupb (l : list str) : bool :=
  match l with [] => true | x :: r => negb (mem_str x r) && nodupb r end.

Section Validate.
  Variable S : list cschema.                       (* the class table *)
  Variable modelled : list (str * str).            (* (Type string, class name) *)
  Variable strict : bool.                          (* GenericResource._strict *)
  Variable leafv : leaf -> value -> res value.

  (* GenericResource.check_type (before-validator of Type) *)
  Definition check_type (v : value) : res value :=
    match v with
    | VNull => Ok VNull
    | VStr s => if strict && is_modelled modelled s then Err EValidation else Ok v
    | _ => Err EValidation
    end.
  Definition before_hook (h : fhook) (v : value) : res value :=
    match h with
    | HTagValue => Ok (tag_value_hook v)
    | HCheckType => check_type v
    | HNone | HEffect => Ok v
    end.
  Definition after_hook (h : fhook) (x : tval) : res tval :=
    match h, x with
    | HEffect, XLeaf w => w' <- effect_hook w ;; Ok (XLeaf w')
    | _, _ => Ok x
    end.
  Definition class_hook (h : chook) (d : list (str * value)) : list (str * value) :=
    match h with CNone => d | CRemoveColon => remove_colon d end.

  (* the value of a field that is not given: its default, unvalidated (pydantic does not validate defaults) *)
  Definition default_tval (f : field) : tval :=
    match f_default f, f_type f with
    | DEmptyDict, TOpt (TDictOf _) | DEmptyDict, TDictOf _ => XDict []
    | DEmptyDict, _ => XLeaf (VDict [])
    | _, _ => XLeaf VNull
    end.

  Definition validate_field (rec : ftype -> value -> res tval) (d : list (str * value)) (f : field) : res (str * tval) :=
    match lookup (f_name f) d with
    | Some v =>
        v1 <- before_hook (f_hook f) v ;;
        x <- rec (f_type f) v1 ;;
        x' <- after_hook (f_hook f) x ;;
        Ok (f_name f, x')
    | None => match f_default f with DRequired => Err EValidation | _ => Ok (f_name f, default_tval f) end
    end.

  Definition extras_of (c : cschema) (d : list (str * value)) : list (str * value) :=
    filter (fun kv => negb (mem_str (fst kv) (map f_name (c_fields c)))) d.

  Definition validate_model (rec : ftype -> value -> res tval) (c : cschema) (v : value) : res tval :=
    match v with
    | VDict d0 =>
        let d := class_hook (c_hook c) d0 in
        if negb (nodupb (keys d)) then Err EUndefined       (* two spellings of one key: outside the domain *)
        else
          fs <- mapM (validate_field rec d) (c_fields c) ;;
          match c_extra c, extras_of c d with
          | Forbid, _ :: _ => Err EValidation
          | Ignore, _ => Ok (XModel (c_name c) fs [])
          | _, ex => Ok (XModel (c_name c) fs ex)
          end
    | _ => Err EValidation
    end.

  Definition by_name (rec : ftype -> value -> res tval) (name : str) (v : value) : res tval :=
    match find_class S name with
    | Some c => validate_model rec c v
    | None => Err EUndefined
    end.

  (* one level: the structure of the annotation is followed by structural recursion; a model class is handed to [bn] *)
  Definition validate_step (bn : str -> value -> res tval) : ftype -> value -> res tval :=
    fix vt (t : ftype) (v : value) {struct t} : res tval :=
      match t with
      | TLeaf k => w <- leafv k v ;; Ok (XLeaf w)
      | TOpt t' => match v with VNull => Ok (XLeaf VNull) | _ => vt t' v end
      | TList t' =>
          match v with
          | VList l => xs <- mapM (vt t') l ;; Ok (XList xs)
          | _ => Err EValidation
          end
      | TDictOf t' =>
          match v with
          | VDict d => xs <- mapM (fun kv => x <- vt t' (snd kv) ;; Ok (fst kv, x)) d ;; Ok (XDict xs)
          | _ => Err EValidation
          end
      | TUnionLR ts => first_ok (map (fun t' => vt t' v) ts)
      | TUnionSmart ts => smart_ok (map (fun t' => vt t' v) ts)
      | TResolvable t' => first_ok [vt t' v; w <- leafv LFn v ;; Ok (XLeaf w)]
      | TModel name => bn name v
      | TResource =>
          (* Union[ResourceModels (tagged by Type), GenericResource], left to right *)
          match v with
          | VDict d =>
              match type_of d with
              | TyStr s =>
                  match class_of modelled s with
                  | Some c => first_ok [bn c v; bn GENERIC v]
                  | None => bn GENERIC v
                  end
              | TyMissing => bn GENERIC v
              | TyOther => Err EValidation
              end
          | _ => Err EValidation
          end
      end.

  (* [n] = how deep model classes may nest; the fields of a class are validated with one unit less *)
  Fixpoint validate (n : nat) : ftype -> value -> res tval :=
    match n with
    | O => validate_step (fun _ _ => Err ERecursion)
    | Datatypes.S n' => validate_step (by_name (validate n'))
    end.
End Validate.

(* ---- the unions of a type / of a table that are written as unions (Resolvable[t] = [t; FunctionDict] needs no assumption);
        the flag says "smart mode" ---- *)
Fixpoint unions_of (t : ftype) : list (bool * list ftype) :=
  match t with
  | TLeaf _ | TModel _ | TResource => []
  | TList t' | TDictOf t' | TOpt t' | TResolvable t' => unions_of t'
  | TUnionLR ts => (false, ts) :: flat_map unions_of ts
  | TUnionSmart ts => (true, ts) :: flat_map unions_of ts
  end.
Definition unions_of_table (S : list cschema) : list (bool * list ftype) :=
  flat_map (fun c => flat_map (fun f => unions_of (f_type f)) (c_fields c)) S.

(* ---- well-formedness of a table (a decidable check; proved for the generated table in Typed/RoundtripTable.v) ---- *)
Definition no_colon (k : str) : bool := negb (existsb (N.eqb 58) k).
Definition field_wf (f : field) : bool :=
  match f_default f with
  | DNone => match f_type f with TOpt _ => true | _ => false end
  | DEmptyDict => match f_type f with
                  | TOpt (TDictOf _) | TDictOf _ | TOpt (TLeaf LDictAny) | TLeaf LDictAny => true
                  | _ => false
                  end
  | DRequired => true
  end &&
  match f_hook f with
  | HNone => true
  | HEffect => match f_type f with TResolvable (TLeaf LStr) => true | _ => false end
  | HTagValue => match f_type f with TResolvable (TLeaf LStrNum) => true | _ => false end
  | HCheckType => match f_type f with TOpt (TLeaf LStr) => true | _ => false end
  end.
Definition class_wf (c : cschema) : bool :=
  nodupb (map f_name (c_fields c)) && forallb field_wf (c_fields c) &&
  match c_hook c with
  | CNone => true
  | CRemoveColon => forallb (fun f => no_colon (f_name f)) (c_fields c) &&
                    match c_extra c with Forbid => true | _ => false end
  end.
Definition table_wf (S : list cschema) : bool := forallb class_wf S.

(* the resource union: every modelled class has a required field Type : Literal[its own type string] and no class hook;
   GenericResource has Type guarded by check_type *)
Definition type_field (S : list cschema) (c : str) : option field :=
  match find_class S c with
  | Some cs => match c_hook cs with CNone => find_field (c_fields cs) K_Type | _ => None end
  | None => None
  end.
Definition modelled_wf (S : list cschema) (modelled : list (str * str)) : bool :=
  forallb (fun sc => match type_field S (snd sc) with
                     | Some f => match f_type f, f_hook f, f_default f with
                                 | TLeaf (LLit s), HNone, DRequired => str_eqb s (fst sc)
                                 | _, _, _ => false
                                 end
                     | None => false
                     end) modelled &&
  match type_field S GENERIC with
  | Some f => match f_hook f, f_default f with HCheckType, DNone => true | _, _ => false end
  | None => false
  end.
