(* C13 for the modelled resource classes of the LIVE schema: the hand-written rows of PdSpec.SPEC_TABLE (the 18 classes this
   development was written against, with their accessor overrides) extended by one row per NEWLY modelled class of gen/PdPaths.v.
   A new class that inherits Resource.policy_documents (no override) is read by the walking accessor, whose semantics does not
   depend on the class: its row is built from the generated paths.  A new class that OVERRIDES the accessor has semantics this
   development cannot know; Typed/PdCheck.v fails on it (fail-closed). *)
From Coq Require Import List Bool Ascii String.
From PV Require Import Base.Str Typed.PdSpec.
From PVGen Require PdPaths.
Import ListNotations.
Local Open Scope string_scope.

Definition gen_row := (string * (bool * list (string * string)))%type.

Definition spec_row (t : string) : option crow := find (fun r => String.eqb (c_type r) t) SPEC_TABLE.
Definition known_type (t : string) : bool := match spec_row t with Some _ => true | None => false end.
Definition walk_row (row : gen_row) : crow :=
  {| c_type := fst row; c_acc := AWalk; c_dedicated := []; c_paths := snd (snd row) |}.
(* the row of a class of the live schema:
   - a known class with an accessor OVERRIDE keeps its hand-written row (its document-capable paths are pinned: the override reads
     particular fields, a path it does not read would hide documents);
   - a known class read by the inherited WALK takes its paths from the live schema (the walk visits every field: a property added
     upstream to such a class, typed as a document or as a generic object, is searched like the others);
   - a class modelled since is a walking row. *)
Definition full_row (row : gen_row) : crow :=
  match spec_row (fst row) with
  | Some r => match c_acc r with
              | AWalk => {| c_type := c_type r; c_acc := AWalk; c_dedicated := c_dedicated r; c_paths := snd (snd row) |}
              | _ => r
              end
  | None => walk_row row
  end.
Definition EXTRA_ROWS : list gen_row := filter (fun row => negb (known_type (fst row))) PdPaths.PD_TABLE.
Definition FULL_TABLE : list crow := map full_row PdPaths.PD_TABLE.

Definition find_row_full (t : str) : option crow := find (fun r => str_eqb (of_string (c_type r)) t) FULL_TABLE.

(* decidable equality of generated rows *)
Definition pair_eqb (a b : string * string) : bool := String.eqb (fst a) (fst b) && String.eqb (snd a) (snd b).
Fixpoint pairs_eqb (a b : list (string * string)) : bool :=
  match a, b with
  | [], [] => true
  | x :: a', y :: b' => pair_eqb x y && pairs_eqb a' b'
  | _, _ => false
  end.

Lemma pair_eqb_eq a b : pair_eqb a b = true -> a = b.
Proof.
  destruct a as [a1 a2], b as [b1 b2]. unfold pair_eqb. simpl. intros H. apply andb_true_iff in H. destruct H as [H1 H2].
  apply String.eqb_eq in H1. apply String.eqb_eq in H2. subst. reflexivity.
Qed.
Lemma pairs_eqb_eq a : forall b, pairs_eqb a b = true -> a = b.
Proof.
  induction a as [|x a IH]; intros [|y b] H; simpl in H; try discriminate; [reflexivity|].
  apply andb_true_iff in H. destruct H as [H1 H2]. apply pair_eqb_eq in H1. apply IH in H2. subst. reflexivity.
Qed.

(* a row describes a generated row: same type string, same document-capable paths, same override flag -- except that for a class
   with NO document-capable path the flag is immaterial (an override that skips the walk of such a class finds what the walk finds:
   nothing; what it returns is tied by the correspondence check of the class) *)
Definition no_paths (r : crow) : bool := match c_paths r with [] => true | _ => false end.
Definition row_compat (r : crow) (row : gen_row) : bool :=
  String.eqb (c_type r) (fst row) && pairs_eqb (c_paths r) (snd (snd row)) &&
  (Bool.eqb (is_override (c_acc r)) (fst (snd row)) || no_paths r).
Lemma row_compat_spec r t ov paths : row_compat r (t, (ov, paths)) = true ->
  c_type r = t /\ c_paths r = paths /\ (ov = is_override (c_acc r) \/ paths = []).
Proof.
  unfold row_compat. simpl. intros H. apply andb_true_iff in H. destruct H as [H H3]. apply andb_true_iff in H. destruct H as [H1 H2].
  apply String.eqb_eq in H1. apply pairs_eqb_eq in H2. split; [exact H1|]. split; [exact H2|].
  apply orb_true_iff in H3. destruct H3 as [H3|H3].
  - left. apply Bool.eqb_prop in H3. symmetry. exact H3.
  - right. rewrite <- H2. unfold no_paths in H3. destruct (c_paths r); [reflexivity|discriminate].
Qed.
