(* C19 -- the cost of whole parse in the magnitude-free cost model: [validate_c] is the schema interpreter of
   Typed/Roundtrip.v with a step counter.

   WHAT A STEP IS.  One step per node of the input visited, per union alternative that visits it:
     - a leaf validator call costs 1, whatever the value (a number of any magnitude, an address range of any width,
       a text of any length: the counter does not look inside a leaf).  class Generic, Any and the unparametrised
       Dict / List are leaves of the schema (Typed/Schema.v): the subtree under them is ONE step here; the walk that
       re-casts a generic subtree is the subject of C18 (Typed/Cast.v: structural recursion over that subtree);
     - List / Dict[str, .] / a model class cost 1 for the container node plus the cost of the members visited; a class
       visits the members named by its fields (hooks -- check_type, Tag coercion, Effect, remove_colon -- and the
       look-up of defaults are per-node work and cost nothing more); pydantic collects the errors of ALL members, so the
       counter does not stop at the first failing member (the RESULT does, as in [mapM]);
     - a left-to-right union pays for its alternatives up to and including the first that accepts (or that declines /
       runs out of fuel); a smart union pays for all of them; Resolvable[t] pays t and, when t refuses, the FunctionDict
       leaf; the resource union pays the dedicated class and, when it refuses, GenericResource.

   THEOREMS.  [validate_c_fst]: the counter does not disturb the result.  [cost_bound]: for EVERY table, annotation,
   value, fuel and leaf validators,
        steps  <=  weight tbl modelled n t * vsize v
   where [vsize] is the node count of the value and [weight] is computed from the table, the annotation and the fuel
   alone (how many times one node can be visited: alternatives add up, class nesting takes the heaviest field).  In
   closed form ([cost_bound_pow]): weight n t <= fwidth t * U ^ n, U = the largest number of alternatives a single field
   annotation of the table spreads over one node -- exponential in the fuel only if a class reaches itself through a
   union; that is inherent (each level may try every alternative on the same nodes).  For a union-free table and
   annotation U = 1 and the bound is LINEAR with constant 1 ([cost_linear_plain]): steps <= vsize v.  For the class table
   generated from the live classes the weight at the runner's fuel is a number computed by the kernel
   ([live_weight], at most LIVE_K = 64): parse costs at most that many steps per node of the template ([cost_bound_live]). *)
From Coq Require Import List Bool NArith ZArith Lia.
From PV Require Import Base.Str Base.Value Resolver.Consts.
From PV Require Import Typed.Schema Typed.Dispatch Typed.Leaves Typed.Roundtrip Typed.RoundtripFacts Typed.RoundtripRun.
From PV Require Import Typed.ParseClean.
From PV Require Typed.RoundtripTable.
From PVGen Require Schema.
Import ListNotations.

(* ---------------------------------------------------------------------------------------------------------------- *)
(* the combinators, with the counter *)
Fixpoint mapM_c {A B} (f : A -> res B * nat) (l : list A) : res (list B) * nat :=
  match l with
  | [] => (Ok [], 0)
  | x :: r => let p := f x in let q := mapM_c f r in
              (y <- fst p ;; ys <- fst q ;; Ok (y :: ys), snd p + snd q)
  end.
Fixpoint first_ok_c (rs : list (res tval * nat)) : res tval * nat :=
  match rs with
  | [] => (Err EValidation, 0)
  | p :: r =>
      match fst p with
      | Ok x => (Ok x, snd p)
      | Err e => if is_hard e then (Err e, snd p) else let q := first_ok_c r in (fst q, snd p + snd q)
      end
  end.
Fixpoint smart_ok_c (rs : list (res tval * nat)) : res tval * nat :=
  match rs with
  | [] => (Err EValidation, 0)
  | p :: r =>
      match fst p with
      | Ok x => (if forallb is_soft (map fst r) then Ok x else Err EUndefined, snd p + list_sum (map snd r))
      | Err e => if is_hard e then (Err e, snd p) else let q := smart_ok_c r in (fst q, snd p + snd q)
      end
  end.

Section CostDef.
  Variable tbl : list cschema.
  Variable modelled : list (str * str).
  Variable strict : bool.
  Variable leafv : leaf -> value -> res value.

  Definition validate_field_c (rec : ftype -> value -> res tval * nat) (d : list (str * value)) (f : field)
    : res (str * tval) * nat :=
    match lookup (f_name f) d with
    | Some v =>
        match before_hook modelled strict (f_hook f) v with
        | Ok v1 => let p := rec (f_type f) v1 in
                   (x <- fst p ;; x' <- after_hook (f_hook f) x ;; Ok (f_name f, x'), snd p)
        | Err e => (Err e, 0)
        end
    | None => (match f_default f with DRequired => Err EValidation | _ => Ok (f_name f, default_tval f) end, 0)
    end.

  Definition validate_model_c (rec : ftype -> value -> res tval * nat) (c : cschema) (v : value) : res tval * nat :=
    match v with
    | VDict d0 =>
        let d := class_hook (c_hook c) d0 in
        if negb (nodupb (keys d)) then (Err EUndefined, 1)
        else
          let q := mapM_c (validate_field_c rec d) (c_fields c) in
          (fs <- fst q ;;
           match c_extra c, extras_of c d with
           | Forbid, _ :: _ => Err EValidation
           | Ignore, _ => Ok (XModel (c_name c) fs [])
           | _, ex => Ok (XModel (c_name c) fs ex)
           end, 1 + snd q)
    | _ => (Err EValidation, 1)
    end.

  Definition by_name_c (rec : ftype -> value -> res tval * nat) (name : str) (v : value) : res tval * nat :=
    match find_class tbl name with
    | Some c => validate_model_c rec c v
    | None => (Err EUndefined, 1)
    end.

  Definition validate_step_c (bn : str -> value -> res tval * nat) : ftype -> value -> res tval * nat :=
    fix vt (t : ftype) (v : value) {struct t} : res tval * nat :=
      match t with
      | TLeaf k => (w <- leafv k v ;; Ok (XLeaf w), 1)
      | TOpt t' => match v with VNull => (Ok (XLeaf VNull), 1) | _ => vt t' v end
      | TList t' =>
          match v with
          | VList l => let q := mapM_c (vt t') l in (xs <- fst q ;; Ok (XList xs), 1 + snd q)
          | _ => (Err EValidation, 1)
          end
      | TDictOf t' =>
          match v with
          | VDict d => let q := mapM_c (fun kv => let p := vt t' (snd kv) in (x <- fst p ;; Ok (fst kv, x), snd p)) d in
                       (xs <- fst q ;; Ok (XDict xs), 1 + snd q)
          | _ => (Err EValidation, 1)
          end
      | TUnionLR ts => first_ok_c (map (fun t' => vt t' v) ts)
      | TUnionSmart ts => smart_ok_c (map (fun t' => vt t' v) ts)
      | TResolvable t' => first_ok_c [vt t' v; (w <- leafv LFn v ;; Ok (XLeaf w), 1)]
      | TModel name => bn name v
      | TResource =>
          match v with
          | VDict d =>
              match type_of d with
              | TyStr s =>
                  match class_of modelled s with
                  | Some c => first_ok_c [bn c v; bn GENERIC v]
                  | None => bn GENERIC v
                  end
              | TyMissing => bn GENERIC v
              | TyOther => (Err EValidation, 1)
              end
          | _ => (Err EValidation, 1)
          end
      end.

  Fixpoint validate_c (n : nat) : ftype -> value -> res tval * nat :=
    match n with
    | O => validate_step_c (fun _ _ => (Err ERecursion, 1))
    | S n' => validate_step_c (by_name_c (validate_c n'))
    end.

  (* ---- how many times one node can be visited: a function of the table, the annotation and the fuel ---- *)
  Definition cweight (w : ftype -> nat) (c : cschema) : nat :=
    let ws := map (fun f => w (f_type f)) (c_fields c) in
    Nat.max 1 (if nodupb (map f_name (c_fields c)) then list_max ws else list_sum ws).
  Fixpoint tweight (wm : str -> nat) (t : ftype) : nat :=
    match t with
    | TLeaf _ => 1
    | TOpt t' | TList t' | TDictOf t' => Nat.max 1 (tweight wm t')
    | TUnionLR ts | TUnionSmart ts => list_sum (map (tweight wm) ts)
    | TResolvable t' => tweight wm t' + 1
    | TModel name => wm name
    | TResource => Nat.max 1 (list_max (map (fun sc => wm (snd sc)) modelled) + wm GENERIC)
    end.
  Fixpoint mweight (n : nat) (name : str) : nat :=
    match n with
    | O => 1
    | S n' => match find_class tbl name with
              | Some c => cweight (tweight (mweight n')) c
              | None => 1
              end
    end.
  Definition weight (n : nat) (t : ftype) : nat := tweight (mweight n) t.

  (* closed form: the alternatives one annotation spreads over a node (classes counted once), the largest such number
     over the fields of the table *)
  Definition fwidth (t : ftype) : nat := tweight (fun _ => 1) t.
  Definition table_width : nat := Nat.max 1 (list_max (map (cweight fwidth) tbl)).
End CostDef.

(* the union-free fragment *)
Fixpoint plain (t : ftype) : bool :=
  match t with
  | TLeaf _ | TModel _ => true
  | TList t' | TDictOf t' | TOpt t' => plain t'
  | TUnionLR _ | TUnionSmart _ | TResolvable _ | TResource => false
  end.
Definition plain_class (c : cschema) : bool :=
  nodupb (map f_name (c_fields c)) && forallb (fun f => plain (f_type f)) (c_fields c).
Definition plain_table (tbl : list cschema) : bool := forallb plain_class tbl.

(* ---------------------------------------------------------------------------------------------------------------- *)
(* arithmetic of sums and maxima over lists *)
Lemma list_sum_cons x l : list_sum (x :: l) = x + list_sum l.
Proof. reflexivity. Qed.
Ltac lsum := cbn [map]; repeat rewrite list_sum_cons; try change (list_sum []) with 0.
Lemma list_sum_le_map {A} (f g : A -> nat) l : (forall a, In a l -> f a <= g a) -> list_sum (map f l) <= list_sum (map g l).
Proof.
  induction l as [|a l IH]; intros H; lsum; [lia|].
  pose proof (H a (or_introl eq_refl)). specialize (IH (fun b Hb => H b (or_intror Hb))). lia.
Qed.
Lemma list_sum_mul_l {A} (g : A -> nat) k l : list_sum (map (fun x => k * g x) l) = k * list_sum (map g l).
Proof. induction l as [|a l IH]; lsum; [lia | rewrite IH; lia]. Qed.
Lemma list_sum_mul_r {A} (g : A -> nat) k l : list_sum (map (fun x => g x * k) l) = list_sum (map g l) * k.
Proof. induction l as [|a l IH]; lsum; [lia | rewrite IH; lia]. Qed.
Lemma list_max_cons x l : list_max (x :: l) = Nat.max x (list_max l).
Proof. reflexivity. Qed.
Lemma list_max_In x l : In x l -> x <= list_max l.
Proof.
  induction l as [|y l IH]; [intros []|]. rewrite list_max_cons. intros [-> | H]; [lia | specialize (IH H); lia].
Qed.
Lemma list_max_map_In {A} (f : A -> nat) a l : In a l -> f a <= list_max (map f l).
Proof. intros H. apply list_max_In. apply in_map. exact H. Qed.
Lemma list_max_scale {A} (f g : A -> nat) M l : (forall a, In a l -> f a <= g a * M) -> list_max (map f l) <= list_max (map g l) * M.
Proof.
  induction l as [|a l IH]; intros H; cbn [map]; [cbn; lia|]. rewrite !list_max_cons.
  pose proof (H a (or_introl eq_refl)). specialize (IH (fun b Hb => H b (or_intror Hb))).
  pose proof (Nat.le_max_l (g a) (list_max (map g l))). pose proof (Nat.le_max_r (g a) (list_max (map g l))).
  apply Nat.max_lub; nia.
Qed.
Lemma list_sum_scale {A} (f g : A -> nat) M l : (forall a, In a l -> f a <= g a * M) -> list_sum (map f l) <= list_sum (map g l) * M.
Proof. intros H. rewrite <- list_sum_mul_r. apply list_sum_le_map. exact H. Qed.
Lemma max1_scale x y M : 1 <= M -> x <= y * M -> Nat.max 1 x <= Nat.max 1 y * M.
Proof. intros. pose proof (Nat.le_max_l 1 y). pose proof (Nat.le_max_r 1 y). apply Nat.max_lub; nia. Qed.
Lemma node_bound X D : 1 + X * D <= Nat.max 1 X * S D.
Proof. pose proof (Nat.le_max_l 1 X). pose proof (Nat.le_max_r 1 X). nia. Qed.

Definition dsum (d : list (str * value)) : nat := list_sum (map (fun kv => vsize (snd kv)) d).
Definition osize (o : option value) : nat := match o with Some v => vsize v | None => 0 end.
Lemma vsize_list l : vsize (VList l) = S (list_sum (map vsize l)).
Proof. cbn [vsize]. f_equal. induction l as [|x l IH]; cbn [fold_right]; lsum; [reflexivity | rewrite IH; reflexivity]. Qed.
Lemma vsize_dict d : vsize (VDict d) = S (dsum d).
Proof. cbn [vsize]. f_equal. unfold dsum. induction d as [|x d IH]; cbn [fold_right]; lsum; [reflexivity | rewrite IH; reflexivity]. Qed.
Lemma vsize_tag v : vsize (tag_value_hook v) = vsize v.
Proof. destruct v; reflexivity. Qed.
Lemma dsum_class_hook h d : dsum (class_hook h d) = dsum d.
Proof. destruct h; cbn [class_hook]; [reflexivity|]. unfold dsum, remove_colon. rewrite map_map. reflexivity. Qed.
Lemma lookup_le_dsum k d : osize (lookup k d) <= dsum d.
Proof.
  unfold dsum. induction d as [|[k' x] d IH]; cbn [lookup]; lsum; cbn [osize]; [lia|].
  destruct (str_eqb k k'); cbn [osize snd]; lia.
Qed.
(* fields with distinct names look at distinct members of the object *)
Lemma sum_if_nodup (fs : list field) k a (g : field -> nat) : NoDup (map f_name fs) ->
  list_sum (map (fun f => if str_eqb (f_name f) k then a else g f) fs) <= a + list_sum (map g fs).
Proof.
  induction fs as [|f fs IH]; intros Hn; lsum; [lia|]. cbn [map] in Hn. inv Hn.
  destruct (str_eqb (f_name f) k) eqn:E.
  - apply str_eqb_spec in E.
    assert (list_sum (map (fun f0 => if str_eqb (f_name f0) k then a else g f0) fs) = list_sum (map g fs)) as ->; [|lia].
    f_equal. apply map_ext_in. intros f0 Hin. destruct (str_eqb (f_name f0) k) eqn:E0; [|reflexivity].
    apply str_eqb_spec in E0. exfalso. apply H1. rewrite E, <- E0. apply in_map. exact Hin.
  - specialize (IH H2). lia.
Qed.
Lemma lookup_sum_nodup (fs : list field) d : NoDup (map f_name fs) ->
  list_sum (map (fun f => osize (lookup (f_name f) d)) fs) <= dsum d.
Proof.
  intros Hn. unfold dsum. induction d as [|[k x] d IH]; cbn [lookup]; lsum; cbn [snd].
  - cbn [osize]. induction fs as [|f fs IHf]; lsum; [lia|]. cbn [map] in Hn. inv Hn. specialize (IHf H2). lia.
  - etransitivity; [|apply Nat.add_le_mono_l; exact IH].
    etransitivity; [|apply (sum_if_nodup fs k (vsize x) (fun f => osize (lookup (f_name f) d)) Hn)].
    apply Nat.eq_le_incl. f_equal. apply map_ext. intros f. destruct (str_eqb (f_name f) k); reflexivity.
Qed.

(* ---------------------------------------------------------------------------------------------------------------- *)
(* the combinators: result and cost *)
Lemma mapM_c_fst {A B} (f : A -> res B * nat) (g : A -> res B) l : (forall a, In a l -> fst (f a) = g a) -> fst (mapM_c f l) = mapM g l.
Proof.
  induction l as [|a l IH]; intros H; cbn [mapM_c mapM]; [reflexivity|]. cbv zeta. cbn [fst].
  rewrite (H a (or_introl eq_refl)), (IH (fun b Hb => H b (or_intror Hb))). reflexivity.
Qed.
Lemma mapM_c_cost {A B} (f : A -> res B * nat) (g : A -> nat) l : (forall a, In a l -> snd (f a) <= g a) -> snd (mapM_c f l) <= list_sum (map g l).
Proof.
  induction l as [|a l IH]; intros H; cbn [mapM_c]; lsum; [cbn; lia|]. cbv zeta. cbn [snd].
  pose proof (H a (or_introl eq_refl)). specialize (IH (fun b Hb => H b (or_intror Hb))). lia.
Qed.
Lemma first_ok_c_fst rs : fst (first_ok_c rs) = first_ok (map fst rs).
Proof.
  induction rs as [|p rs IH]; cbn [first_ok_c map first_ok]; [reflexivity|].
  destruct (fst p) as [x|e]; [reflexivity|]. destruct (is_hard e); [reflexivity|]. cbv zeta. cbn [fst]. exact IH.
Qed.
Lemma first_ok_c_cost rs : snd (first_ok_c rs) <= list_sum (map snd rs).
Proof.
  induction rs as [|p rs IH]; cbn [first_ok_c]; lsum; [cbn; lia|].
  destruct (fst p) as [x|e]; [cbn [snd]; lia|]. destruct (is_hard e); [cbn [snd]; lia|]. cbv zeta. cbn [snd]. lia.
Qed.
Lemma smart_ok_c_fst rs : fst (smart_ok_c rs) = smart_ok (map fst rs).
Proof.
  induction rs as [|p rs IH]; cbn [smart_ok_c map smart_ok]; [reflexivity|].
  destruct (fst p) as [x|e]; [reflexivity|]. destruct (is_hard e); [reflexivity|]. cbv zeta. cbn [fst]. exact IH.
Qed.
Lemma smart_ok_c_cost rs : snd (smart_ok_c rs) <= list_sum (map snd rs).
Proof.
  induction rs as [|p rs IH]; cbn [smart_ok_c]; lsum; [cbn; lia|].
  destruct (fst p) as [x|e]; [cbn [snd]; lia|]. destruct (is_hard e); [cbn [snd]; lia|]. cbv zeta. cbn [snd]. lia.
Qed.

(* ---------------------------------------------------------------------------------------------------------------- *)
Section CostFacts.
  Variable tbl : list cschema.
  Variable modelled : list (str * str).
  Variable strict : bool.
  Variable leafv : leaf -> value -> res value.
  Notation vstep := (validate_step modelled leafv).
  Notation vstep_c := (validate_step_c modelled leafv).
  Notation val := (validate tbl modelled strict leafv).
  Notation val_c := (validate_c tbl modelled strict leafv).
  Notation tw := (tweight modelled).
  Notation mw := (mweight tbl modelled).
  Notation fw := (fwidth modelled).
  Notation U := (table_width tbl modelled).

  (* ================================================================================================================ *)
  (* the counter does not disturb the result *)
  Lemma step_c_fst bnc bn : (forall name v, fst (bnc name v) = bn name v) ->
    forall t v, fst (vstep_c bnc t v) = vstep bn t v.
  Proof.
    intros Hbn. induction t as [k|t IHt|t IHt|ts IHts|ts IHts|t IHt|name| |t IHt] using ftype_ind'; intros v.
    - reflexivity.
    - cbn [validate_step_c validate_step]. destruct v; try reflexivity. cbv zeta. cbn [fst].
      rewrite (mapM_c_fst _ (vstep bn t)); [reflexivity | intros x _; apply IHt].
    - cbn [validate_step_c validate_step]. destruct v; try reflexivity. cbv zeta. cbn [fst].
      rewrite (mapM_c_fst _ (fun kv => x <- vstep bn t (snd kv) ;; Ok (fst kv, x))); [reflexivity|].
      intros kv _. cbn [fst]. rewrite IHt. reflexivity.
    - cbn [validate_step_c validate_step]. rewrite first_ok_c_fst, map_map. f_equal. apply map_ext_in.
      intros t' Hin. rewrite Forall_forall in IHts. exact (IHts t' Hin v).
    - cbn [validate_step_c validate_step]. rewrite smart_ok_c_fst, map_map. f_equal. apply map_ext_in.
      intros t' Hin. rewrite Forall_forall in IHts. exact (IHts t' Hin v).
    - cbn [validate_step_c validate_step]. rewrite first_ok_c_fst. cbn [map fst]. rewrite IHt. reflexivity.
    - cbn [validate_step_c validate_step]. apply Hbn.
    - cbn [validate_step_c validate_step]. destruct v as [ | | | | | |l|d]; try reflexivity.
      destruct (type_of d) as [|s|]; [apply Hbn | | reflexivity].
      destruct (class_of modelled s) as [c|]; [|apply Hbn].
      rewrite first_ok_c_fst. cbn [map]. rewrite !Hbn. reflexivity.
    - cbn [validate_step_c validate_step]. destruct v; try reflexivity; apply IHt.
  Qed.

  Lemma model_c_fst recc rec : (forall t v, fst (recc t v) = rec t v) ->
    forall c v, fst (validate_model_c modelled strict recc c v) = validate_model modelled strict rec c v.
  Proof.
    intros Hrec c v. unfold validate_model_c, validate_model. destruct v; try reflexivity. cbv zeta.
    destruct (negb (nodupb (keys (class_hook (c_hook c) d)))); [reflexivity|]. cbn [fst].
    rewrite (mapM_c_fst _ (validate_field modelled strict rec (class_hook (c_hook c) d))); [reflexivity|].
    intros f _. unfold validate_field_c, validate_field. destruct (lookup (f_name f) (class_hook (c_hook c) d)); [|reflexivity].
    destruct (before_hook modelled strict (f_hook f) v); [|reflexivity]. cbv zeta. cbn [fst bind]. rewrite Hrec. reflexivity.
  Qed.

  Theorem validate_c_fst n : forall t v, fst (val_c n t v) = val n t v.
  Proof.
    induction n as [|n IH]; intros t v; cbn [validate_c validate].
    - apply step_c_fst. reflexivity.
    - apply step_c_fst. intros name v0. unfold by_name_c, by_name. destruct (find_class tbl name); [|reflexivity].
      apply model_c_fst. exact IH.
  Qed.

  (* ================================================================================================================ *)
  (* the bound *)
  Lemma step_cost wm bnc : (forall name v, snd (bnc name v) <= wm name * vsize v) ->
    forall t v, snd (vstep_c bnc t v) <= tw wm t * vsize v.
  Proof.
    intros Hbn. induction t as [k|t IHt|t IHt|ts IHts|ts IHts|t IHt|name| |t IHt] using ftype_ind'; intros v;
      pose proof (vsize_pos v) as Hpos.
    - cbn [validate_step_c tweight snd]. lia.
    - (* List *) cbn [validate_step_c tweight]. destruct v as [ | | | | | |l|d]; try (cbn [snd]; nia).
      cbv zeta. cbn [snd]. rewrite vsize_list.
      pose proof (mapM_c_cost (vstep_c bnc t) (fun x => tw wm t * vsize x) l (fun x _ => IHt x)) as M.
      rewrite list_sum_mul_l in M. pose proof (node_bound (tw wm t) (list_sum (map vsize l))). lia.
    - (* Dict *) cbn [validate_step_c tweight]. destruct v as [ | | | | | |l|d]; try (cbn [snd]; nia).
      cbv zeta. cbn [snd]. rewrite vsize_dict. unfold dsum.
      match goal with |- 1 + snd (mapM_c ?f d) <= _ =>
        pose proof (mapM_c_cost f (fun kv => tw wm t * vsize (snd kv)) d (fun kv _ => IHt (snd kv))) as M end.
      rewrite list_sum_mul_l in M. pose proof (node_bound (tw wm t) (list_sum (map (fun kv => vsize (snd kv)) d))). lia.
    - (* left-to-right union *) cbn [validate_step_c tweight]. etransitivity; [apply first_ok_c_cost|]. rewrite map_map.
      rewrite <- list_sum_mul_r. apply list_sum_le_map. intros t' Hin. rewrite Forall_forall in IHts. exact (IHts t' Hin v).
    - (* smart union *) cbn [validate_step_c tweight]. etransitivity; [apply smart_ok_c_cost|]. rewrite map_map.
      rewrite <- list_sum_mul_r. apply list_sum_le_map. intros t' Hin. rewrite Forall_forall in IHts. exact (IHts t' Hin v).
    - (* Resolvable *) cbn [validate_step_c tweight]. etransitivity; [apply first_ok_c_cost|]. lsum; cbn [snd].
      specialize (IHt v). nia.
    - cbn [validate_step_c tweight]. apply Hbn.
    - (* resource union *) cbn [validate_step_c tweight].
      set (R := list_max (map (fun sc => wm (snd sc)) modelled)).
      destruct v as [ | | | | | |l|d]; try (cbn [snd]; nia).
      pose proof (Hbn GENERIC (VDict d)) as Hg.
      destruct (type_of d) as [|s|]; [nia | | cbn [snd]; nia].
      destruct (class_of modelled s) as [c|] eqn:Ec; [|nia].
      etransitivity; [apply first_ok_c_cost|]. lsum. pose proof (Hbn c (VDict d)) as Hc.
      assert (wm c <= R) as Hle.
      { unfold class_of in Ec. apply lookup_In in Ec. exact (list_max_map_In (fun sc => wm (snd sc)) (s, c) modelled Ec). }
      nia.
    - (* Optional *) cbn [validate_step_c tweight].
      destruct v; [cbn [snd vsize]; nia | match goal with |- snd (vstep_c bnc t ?x) <= _ => pose proof (IHt x) end; nia ..].
  Qed.

  Lemma field_cost recc (w : ftype -> nat) d f : (forall t v, snd (recc t v) <= w t * vsize v) ->
    snd (validate_field_c modelled strict recc d f) <= w (f_type f) * osize (lookup (f_name f) d).
  Proof.
    intros Hrec. unfold validate_field_c. destruct (lookup (f_name f) d) as [v|]; cbn [osize]; [|cbn [snd]; lia].
    destruct (before_hook_cases modelled strict (f_hook f) v) as [-> | (v1 & -> & Hv1)]; [cbn [snd]; lia|]. cbv zeta. cbn [snd].
    assert (vsize v1 = vsize v) as <- by (destruct Hv1 as [-> | ->]; [reflexivity | apply vsize_tag]). apply Hrec.
  Qed.

  Lemma model_cost recc (w : ftype -> nat) : (forall t v, snd (recc t v) <= w t * vsize v) ->
    forall c v, snd (validate_model_c modelled strict recc c v) <= cweight w c * vsize v.
  Proof.
    intros Hrec c v. pose proof (vsize_pos v) as Hpos. unfold validate_model_c, cweight.
    destruct v as [ | | | | | |l|d0]; try (cbn [snd]; nia). cbv zeta.
    set (d := class_hook (c_hook c) d0). destruct (negb (nodupb (keys d))); [cbn [snd]; nia|]. cbn [snd].
    rewrite vsize_dict, <- (dsum_class_hook (c_hook c) d0). fold d.
    pose proof (mapM_c_cost (validate_field_c modelled strict recc d) (fun f => w (f_type f) * osize (lookup (f_name f) d))
                  (c_fields c) (fun f _ => field_cost recc w d f Hrec)) as M.
    destruct (nodupb (map f_name (c_fields c))) eqn:En.
    - (* distinct field names: distinct members *)
      set (W := list_max (map (fun f => w (f_type f)) (c_fields c))).
      assert (list_sum (map (fun f => w (f_type f) * osize (lookup (f_name f) d)) (c_fields c)) <= W * dsum d) as B.
      { etransitivity; [apply (list_sum_le_map _ (fun f => W * osize (lookup (f_name f) d)))|].
        - intros f Hin. apply Nat.mul_le_mono_r. exact (list_max_map_In (fun f => w (f_type f)) f (c_fields c) Hin).
        - rewrite list_sum_mul_l. apply Nat.mul_le_mono_l. apply lookup_sum_nodup. apply nodupb_NoDup. exact En. }
      pose proof (node_bound W (dsum d)). lia.
    - (* a table that repeats a field name: every field may look at the same member *)
      set (W := list_sum (map (fun f => w (f_type f)) (c_fields c))).
      assert (list_sum (map (fun f => w (f_type f) * osize (lookup (f_name f) d)) (c_fields c)) <= W * dsum d) as B.
      { etransitivity; [apply (list_sum_le_map _ (fun f => w (f_type f) * dsum d))|].
        - intros f _. apply Nat.mul_le_mono_l. apply lookup_le_dsum.
        - rewrite list_sum_mul_r. apply Nat.le_refl. }
      pose proof (node_bound W (dsum d)). lia.
  Qed.

  Definition bnc_of (n : nat) : str -> value -> res tval * nat :=
    match n with O => fun _ _ => (Err ERecursion, 1) | S n' => by_name_c tbl modelled strict (val_c n') end.
  Lemma validate_c_eq n : val_c n = vstep_c (bnc_of n).
  Proof. destruct n; reflexivity. Qed.
  Lemma bnc_cost n : forall name v, snd (bnc_of n name v) <= mw n name * vsize v.
  Proof.
    induction n as [|n IH]; intros name v; pose proof (vsize_pos v) as Hpos; cbn [bnc_of mweight]; [cbn [snd]; lia|].
    unfold by_name_c. destruct (find_class tbl name) as [c|]; [|cbn [snd]; lia].
    apply model_cost. intros t v0. rewrite validate_c_eq. apply step_cost. exact IH.
  Qed.

  Theorem cost_bound n t v : snd (val_c n t v) <= weight tbl modelled n t * vsize v.
  Proof. rewrite validate_c_eq. unfold weight. apply step_cost. apply bnc_cost. Qed.

  (* ================================================================================================================ *)
  (* the weight in closed form *)
  Lemma tweight_scale wm M : 1 <= M -> (forall name, wm name <= M) -> forall t, tw wm t <= fw t * M.
  Proof.
    intros HM Hwm. unfold fwidth.
    induction t as [k|t IHt|t IHt|ts IHts|ts IHts|t IHt|name| |t IHt] using ftype_ind'; cbn [tweight].
    - lia.
    - apply max1_scale; assumption.
    - apply max1_scale; assumption.
    - apply list_sum_scale. rewrite Forall_forall in IHts. exact IHts.
    - apply list_sum_scale. rewrite Forall_forall in IHts. exact IHts.
    - nia.
    - specialize (Hwm name). lia.
    - apply max1_scale; [exact HM|]. pose proof (Hwm GENERIC).
      pose proof (list_max_scale (fun sc : str * str => wm (snd sc)) (fun _ => 1) M modelled (fun sc _ => eq_ind _ (fun x => _ <= x) (Hwm (snd sc)) _ (eq_sym (Nat.mul_1_l M)))).
      nia.
    - apply max1_scale; assumption.
  Qed.
  Lemma cweight_scale (w w' : ftype -> nat) M c : 1 <= M -> (forall t, w t <= w' t * M) -> cweight w c <= cweight w' c * M.
  Proof.
    intros HM H. unfold cweight. apply max1_scale; [exact HM|]. destruct (nodupb (map f_name (c_fields c))).
    - apply list_max_scale. intros f _. apply H.
    - apply list_sum_scale. intros f _. apply H.
  Qed.
  Lemma table_width_pos : 1 <= U.
  Proof. unfold table_width. lia. Qed.
  Lemma pow_pos n : 1 <= U ^ n.
  Proof. pose proof table_width_pos. induction n as [|n IH]; cbn [Nat.pow]; nia. Qed.
  Lemma mweight_pow n : forall name, mw n name <= U ^ n.
  Proof.
    induction n as [|n IH]; intros name; cbn [mweight Nat.pow]; [lia|]. pose proof (pow_pos n) as Hp. pose proof table_width_pos as HU.
    destruct (find_class tbl name) as [c|] eqn:Ef; [|nia].
    etransitivity; [apply (cweight_scale _ fw (U ^ n) c Hp); apply (tweight_scale _ _ Hp IH)|].
    apply Nat.mul_le_mono_r. unfold find_class in Ef. apply find_some in Ef. destruct Ef as [Hin _].
    pose proof (list_max_map_In (cweight fw) c tbl Hin). unfold table_width. lia.
  Qed.
  Theorem weight_pow n t : weight tbl modelled n t <= fw t * U ^ n.
  Proof. unfold weight. apply tweight_scale; [apply pow_pos | apply mweight_pow]. Qed.
  Theorem cost_bound_pow n t v : snd (val_c n t v) <= fw t * U ^ n * vsize v.
  Proof. etransitivity; [apply cost_bound|]. apply Nat.mul_le_mono_r. apply weight_pow. Qed.

  (* ================================================================================================================ *)
  (* the union-free fragment: linear, constant 1 *)
  Lemma plain_fwidth t : plain t = true -> fw t = 1.
  Proof.
    unfold fwidth. induction t; cbn [plain tweight]; try discriminate; try reflexivity; intros H; rewrite (IHt H); reflexivity.
  Qed.
  Lemma list_max_ones {A} (f : A -> nat) l : (forall a, In a l -> f a = 1) -> list_max (map f l) <= 1.
  Proof.
    induction l as [|a l IH]; intros H; cbn [map]; [cbn; lia|]. rewrite list_max_cons.
    rewrite (H a (or_introl eq_refl)). specialize (IH (fun b Hb => H b (or_intror Hb))). lia.
  Qed.
  Lemma plain_cweight c : plain_class c = true -> cweight fw c = 1.
  Proof.
    unfold plain_class, cweight. intros H. apply andb_true_iff in H. destruct H as [H1 H2]. rewrite H1.
    rewrite forallb_forall in H2.
    pose proof (list_max_ones (fun f => fw (f_type f)) (c_fields c) (fun f Hf => plain_fwidth _ (H2 f Hf))). lia.
  Qed.
  Lemma plain_table_width : plain_table tbl = true -> U = 1.
  Proof.
    unfold plain_table, table_width. intros H. rewrite forallb_forall in H.
    pose proof (list_max_ones (cweight fw) tbl (fun c Hc => plain_cweight c (H c Hc))). lia.
  Qed.
  Theorem cost_linear_plain n t v : plain_table tbl = true -> plain t = true -> snd (val_c n t v) <= vsize v.
  Proof.
    intros Ht Hp. etransitivity; [apply cost_bound_pow|]. rewrite (plain_fwidth t Hp), (plain_table_width Ht), Nat.pow_1_l. lia.
  Qed.
End CostFacts.

(* ---------------------------------------------------------------------------------------------------------------- *)
(* the class table generated from the live classes: the weight stops growing after a few levels of fuel, i.e. no class
   reaches itself through a union (the kernel computes 35 at fuel 8, 10 and 64 for the classes as generated when this was
   written); the theorem is stated with head-room so that an unrelated change of the classes does not break it.  One whole
   template costs at most LIVE_K steps per node, whatever the leaf validators. *)
Definition LIVE_K : nat := 64.
Definition CFMODEL_T : ftype := TModel [67;70;77;111;100;101;108]%N.      (* "CFModel": the class of a whole template *)
Lemma CFMODEL_T_eq : CFMODEL_T = RoundtripTable.CFMODEL.
Proof. reflexivity. Qed.
Lemma live_weight : weight Schema.CLASSES Schema.RESOURCE_MODELS DEPTH CFMODEL_T <= LIVE_K.
Proof. apply Nat.leb_le. vm_compute. reflexivity. Qed.
Theorem cost_bound_live strict leafv v :
  snd (validate_c Schema.CLASSES Schema.RESOURCE_MODELS strict leafv DEPTH CFMODEL_T v) <= LIVE_K * vsize v.
Proof. etransitivity; [apply cost_bound|]. apply Nat.mul_le_mono_r. exact live_weight. Qed.

(* ---------------------------------------------------------------------------------------------------------------- *)
(* two small tables for the examples (names as code points: "N", "c"; "P", "a", "b") *)
Definition mk_field (n : str) (t : ftype) : field := {| f_name := n; f_default := DNone; f_hook := HNone; f_type := TOpt t |}.
Definition mk_class (n : str) (fs : list field) : cschema :=
  {| c_name := n; c_bases := []; c_extra := Forbid; c_hook := CNone; c_private := []; c_custom_eq := false; c_fields := fs |}.
(* a class that reaches itself through a union of width 2: every level tries both alternatives on the same nodes *)
Definition T_REC : list cschema := [mk_class [78%N] [mk_field [99%N] (TUnionLR [TModel [78%N]; TModel [78%N]])]].
(* {"c": {"c": ... 5}}: k objects around a number that no alternative accepts *)
Fixpoint chain (k : nat) : value := match k with O => VInt 5 | S k' => VDict [([99%N], chain k')] end.
(* a union-free table: P = { a : List[int], b : P } *)
Definition T_PLAIN : list cschema := [mk_class [80%N] [mk_field [97%N] (TList TInt); mk_field [98%N] (TModel [80%N])]].
Definition plain_value : value :=
  VDict [([97%N], VList [VInt 1; VInt 1000000000000000000000000000000; VInt 0]);
         ([98%N], VDict [([97%N], VList []); ([98%N], VNull)])].
