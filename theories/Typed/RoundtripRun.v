(* C15 -- the executable instance of the schema interpreter used by the runner and by the non-vacuity examples: the oracle
   leaves of pydantic-core instantiated by what they do on already-typed (dumped) values; the type-erased picture of a
   validated value that a walk over the Python object graph can be compared with. *)
From Coq Require Import List Bool NArith ZArith.
From PV Require Import Base.Str Base.Value Resolver.Consts Resolver.Text.
From PV Require Import Typed.Schema Typed.Dispatch Typed.Leaves Typed.Roundtrip.
From PVGen Require Schema.
Import ListNotations.
Local Open Scope N_scope.

(* pydantic-core's scalar validators restricted to the values model_dump() puts in their fields; every scalar validator
   refuses None, lists and objects *)
Definition looks_numeric (s : str) : bool :=
  match s with c :: _ => is_digit c || (c =? 45) || (c =? 43) || (c =? 32) || (c =? 46) | [] => false end.
Definition core_dumped (k : leaf) (v : value) : res value :=
  match v with
  | VNull | VList _ | VDict _ =>
      match k, v with
      | LGeneric, VDict _ => Ok v
      | _, _ => Err EValidation
      end
  | _ =>
      match k, v with
      | LStr, VStr _ => Ok v
      | LStr, VBytes _ => Err EUndefined
      | LStr, _ => Err EValidation
      | LInt, VInt _ => Ok v
      | LInt, VStr s => if looks_numeric s then Err EUndefined else Err EValidation
      | LInt, VTyped KDate _ | LInt, VTyped KDatetime _ | LInt, VTyped KNet4 _ | LInt, VTyped KNet6 _ => Err EValidation
      | LPosInt, VInt z => if (0 <? z)%Z then Ok v else Err EValidation
      | LIntOrStr, VInt _ | LIntOrStr, VStr _ => Ok v
      | LBool, VBool _ => Ok v
      | LDate, VTyped KDate _ => Ok v
      | LDate, VStr s => if looks_numeric s then Err EUndefined else Err EValidation
      | LDatetime, VTyped KDatetime _ => Ok v
      | LDatetime, VStr s => if looks_numeric s then Err EUndefined else Err EValidation
      | LDatetime, VTyped KNet4 _ | LDatetime, VTyped KNet6 _ | LDate, VTyped KNet4 _ | LDate, VTyped KNet6 _ => Err EValidation
      | LGeneric, _ => Err EValidation
      | _, _ => Err EUndefined
      end
  end.

(* type-erased picture of a validated value: what a walk over the Python object graph sees (class names at model nodes) *)
Definition K_class : str := [95;95;99;108;97;115;115;95;95].   (* "__class__" *)
Definition K_fields : str := [102;105;101;108;100;115].        (* "fields" *)
Definition K_extra : str := [101;120;116;114;97].              (* "extra" *)
Fixpoint erase (x : tval) : value :=
  match x with
  | XLeaf v => v
  | XList l => VList (map erase l)
  | XDict d => VDict (map (fun kv => (fst kv, erase (snd kv))) d)
  | XModel c fs ex => VDict [(K_class, VStr c); (K_fields, VDict (map (fun kv => (fst kv, erase (snd kv))) fs)); (K_extra, VDict ex)]
  end.

Definition DEPTH : nat := 64.
Definition val_dumped (strict : bool) (t : ftype) (v : value) : res tval :=
  validate Schema.CLASSES Schema.RESOURCE_MODELS strict (leaf_validate core_dumped) DEPTH t v.


(* this instance meets the leaf hypotheses of the round-trip theorem: it hands typed values back unchanged *)
Lemma core_dumped_id k v w : core_dumped k v = Ok w -> w = v.
Proof.
  unfold core_dumped. destruct v as [ |b|z|s|kd t|bs|l|d]; destruct k; try discriminate; try (intros H; inv H; reflexivity);
    try (destruct kd; try discriminate; intros H; inv H; reflexivity);
    try (destruct (looks_numeric s); discriminate).
  destruct (0 <? z)%Z; [intros H; inv H; reflexivity | discriminate].
Qed.
Lemma core_dumped_own k v w : core_dumped k v = Ok w -> core_dumped k w = Ok w.
Proof. intros H. pose proof (core_dumped_id k v w H); subst w. exact H. Qed.
Lemma core_dumped_str s : core_dumped LStr (VStr s) = Ok (VStr s).
Proof. reflexivity. Qed.
Lemma core_dumped_str_out v w : core_dumped LStr v = Ok w -> exists s, w = VStr s.
Proof.
  intros H. pose proof (core_dumped_id _ _ _ H); subst w. destruct v as [ | | |s|kd t| | | ]; try discriminate.
  - eexists; reflexivity.
Qed.
