(* C13, modelled resource classes: what policy_documents returns for an instance whose Properties hold the given
   (annotated) values, following the class's accessor (PdSpec.SPEC_TABLE). *)
From Coq Require Import List Bool NArith ZArith String.
From PV Require Import Base.Str Base.Value Typed.GValue Typed.Cast Typed.Collect Typed.PdSpec.
Import ListNotations.

(* a schema field typed Resolvable[PolicyDocument] / Resolvable[Policy]: pydantic builds the instance the recogniser names *)
Definition doc_of (g : gvalue) : list pdoc :=
  match g with
  | GDict _ (Some r) => match r_kind r with PkPolicyDocument => [(None, r_doc r)] | _ => [] end
  | _ => []
  end.
Definition policy_of (g : gvalue) : list pdoc :=
  match g with
  | GDict _ (Some r) => match r_kind r with PkPolicy => [(r_name r, r_doc r)] | _ => [] end
  | _ => []
  end.
(* a schema field typed ResolvableGeneric: Generic.model_validate casts every member *)
Definition generic_obj (c : cfg) (g : gvalue) : list pdoc :=
  match g with GDict d _ => resource_docs c d | _ => [] end.
Definition text_of (g : gvalue) : option str := match g with GStr s _ _ => Some s | _ => None end.

Definition SUFFIX_LIST : str := [91; 93]%N.   (* "[]" *)
Definition field_kind (paths : list (string * string)) (f : str) : option (str * bool) :=
  match find (fun pk => str_eqb (of_string (fst pk)) f) paths with
  | Some pk => Some (of_string (snd pk), false)
  | None => match find (fun pk => str_eqb (of_string (fst pk)) (f ++ SUFFIX_LIST)) paths with
            | Some pk => Some (of_string (snd pk), true)
            | None => None
            end
  end.
Definition K_DOC : str := [68; 111; 99]%N.
Definition K_POLICY : str := [80; 111; 108; 105; 99; 121]%N.
Definition K_GENERIC : str := [71; 101; 110; 101; 114; 105; 99]%N.
Definition by_kind (c : cfg) (k : str) (g : gvalue) : list pdoc :=
  if str_eqb k K_DOC then doc_of g
  else if str_eqb k K_POLICY then policy_of g
  else if str_eqb k K_GENERIC then generic_obj c g
  else [].
Definition walk_field (c : cfg) (paths : list (string * string)) (kv : str * gvalue) : list pdoc :=
  match field_kind paths (fst kv) with
  | Some (k, false) => by_kind c k (snd kv)
  | Some (k, true) => match snd kv with GList l => flat_map (by_kind c k) l | _ => [] end
  | None => []
  end.

Definition typed_docs (c : cfg) (r : crow) (props : list (str * gvalue)) : list pdoc :=
  match c_acc r with
  | AWalk => flat_map (walk_field c (c_paths r)) props
  | APolicies f => match lookup (of_string f) props with Some (GList l) => flat_map policy_of l | _ => [] end
  | ADoc f nf =>
      match lookup (of_string f) props with
      | Some g =>
          let nm := match nf with
                    | Some n => match lookup (of_string n) props with Some x => text_of x | None => None end
                    | None => None
                    end in
          map (fun nd => (nm, snd nd)) (doc_of g)
      | None => []
      end
  end.
(* e.g. IAMRole.assume_role_as_optionally_named_policy_document_list *)
Definition dedicated_docs (r : crow) (props : list (str * gvalue)) : list pdoc :=
  flat_map (fun f => match lookup (of_string f) props with Some g => doc_of g | None => [] end) (c_dedicated r).
Definition find_row (t : str) : option crow := find (fun r => str_eqb (of_string (c_type r)) t) SPEC_TABLE.

(* inside a Generic-typed field of a modelled class the search is the generic one, hence exactly-once as well *)
Theorem typed_generic_field c d r : generic_obj c (GDict d r) = resource_embedded false c d.
Proof. apply resource_exactly_once_impl. Qed.
