(* C15 -- Gallina models of pycfmodel's OWN leaf validators and validator hooks (pycfmodel/model/types.py, base.py,
   properties/tag.py, statement.py, statement_condition.py), and the proof, for each of them, that it ACCEPTS ITS OWN OUTPUT:
   validating what model_dump() returns for a validated value gives that value back.

   A validated leaf is carried as the [value] that model_dump() (python mode) returns for it:
     bool -> VBool, str -> VStr, int -> VInt, bytes -> VBytes, date / datetime -> VTyped KDate / KDatetime (text = str(obj)),
     IPv4Network -> VTyped KNet4 (text = str(net) = print4), IPv6Network -> VTyped KNet6 (text = net.exploded = print6_full),
     FunctionDict / Dict / List / Any -> the plain data.
   pydantic-core's own scalar validators (str, int, bool, date, datetime, PositiveInt, Union[int,str]) and the generic
   re-casting of class Generic (property C18) are NOT modelled: they are the Section variable [core] of [leaf_validate]. *)
From Coq Require Import List Bool NArith ZArith Lia.
From PV Require Import Base.Str Base.Value Resolver.Consts Resolver.Text.
From PV Require Import Net.Arith Net.NetText Net.IPv4 Net.IPv4Thm Net.IPv6 Net.IPv6Thm.
From PV Require Import Policy.Policy Policy.PolicyFacts Typed.Schema.
Import ListNotations.
Local Open Scope N_scope.

(* ---------------------------------------------------------------------------------------------------------------- *)
(* SemiStrictBool.__new__: bool -> itself; str whose lower() is "true"/"false" -> that bool; anything else ValueError *)
Definition semi_strict_bool (v : value) : res value :=
  match v with
  | VBool b => Ok (VBool b)
  | VStr s => if str_eqb (lower s) S_true then Ok (VBool true)
              else if str_eqb (lower s) S_false then Ok (VBool false) else Err EValidation
  | _ => Err EValidation
  end.
Lemma semi_strict_bool_out v w : semi_strict_bool v = Ok w -> exists b, w = VBool b.
Proof.
  destruct v; simpl; try discriminate.
  - intros H; inv H. eexists; reflexivity.
  - destruct (str_eqb (lower s) S_true); [intros H; inv H; eexists; reflexivity|].
    destruct (str_eqb (lower s) S_false); [intros H; inv H; eexists; reflexivity | discriminate].
Qed.
Lemma semi_strict_bool_own v w : semi_strict_bool v = Ok w -> semi_strict_bool w = Ok w.
Proof. intros H. destruct (semi_strict_bool_out v w H) as [b ->]. reflexivity. Qed.

(* ---------------------------------------------------------------------------------------------------------------- *)
(* LooseIPv4Network / LooseIPv6Network: ipaddress.IPvXNetwork(value, strict=False).  An int (bool included) is an address
   (/32, /128); packed bytes likewise; ANY other object -- a network object too -- goes through str(value) and the text parser
   (ipaddress._split_optional_netmask), so re-validating a dumped network parses its own text. *)
Definition as_val {A} (r : res A) : res A := match r with Err EValue => Err EValidation | _ => r end.
Definition be_bytes (bs : list N) : N := fold_left (fun acc b => acc * 256 + b mod 256) bs 0.   (* big-endian; members are bytes *)
Definition net4_text (n : net) : value := VTyped KNet4 (print4 n).
Definition net6_text (n : net) : value := VTyped KNet6 (print6_full n).
Definition loose_net4 (v : value) : res value :=
  match v with
  | VStr s | VTyped _ s => n <- as_val (parse4 s) ;; Ok (net4_text n)
  | VInt z => if (0 <=? z)%Z && (z <? 4294967296)%Z then Ok (net4_text (Z.to_N z, 32)) else Err EValidation
  | VBool b => Ok (net4_text (if b then 1 else 0, 32))
  | VBytes bs => if Nat.eqb (length bs) 4 then Ok (net4_text (be_bytes bs, 32)) else Err EValidation
  | VNull | VList _ | VDict _ => Err EValidation
  end.
Definition loose_net6 (v : value) : res value :=
  match v with
  | VStr s | VTyped _ s => n <- as_val (parse6 s) ;; Ok (net6_text n)
  | VInt z => if (0 <=? z)%Z && (z <? 2 ^ 128)%Z then Ok (net6_text (Z.to_N z, 128)) else Err EValidation
  | VBool b => Ok (net6_text (if b then 1 else 0, 128))
  | VBytes bs => if Nat.eqb (length bs) 16 then Ok (net6_text (be_bytes bs, 128)) else Err EValidation
  | VNull | VList _ | VDict _ => Err EValidation
  end.

Lemma as_val_ok {A} (r : res A) a : as_val r = Ok a -> r = Ok a.
Proof. destruct r as [x|[]]; simpl; congruence. Qed.
Lemma be_bytes_bound bs : forall acc, fold_left (fun a b => a * 256 + b mod 256) bs acc < (acc + 1) * 256 ^ N.of_nat (length bs).
Proof.
  induction bs as [|b bs IH]; intros acc; cbn [fold_left length]; [simpl; lia|].
  specialize (IH (acc * 256 + b mod 256)). rewrite Nat2N.inj_succ, N.pow_succ_r'.
  pose proof (N.mod_lt b 256 ltac:(lia)). nia.
Qed.

(* a well-formed network re-validates to itself, from its text (json mode) and from the object (python mode) alike *)
Lemma loose_net4_text n : wf W4 n -> loose_net4 (net4_text n) = Ok (net4_text n) /\ loose_net4 (VStr (print4 n)) = Ok (net4_text n).
Proof. intros H. unfold loose_net4, net4_text. rewrite (parse4_print4 n H). split; reflexivity. Qed.
Lemma loose_net6_text n : wf W6 n -> loose_net6 (net6_text n) = Ok (net6_text n) /\ loose_net6 (VStr (print6_full n)) = Ok (net6_text n).
Proof. intros H. unfold loose_net6, net6_text. rewrite (parse6_print6_full n H). split; reflexivity. Qed.

Lemma wf4_host a : a < 2 ^ 32 -> wf W4 (a, 32).
Proof. intros H. unfold wf, W4, blk. replace (32 - 32) with 0 by lia. simpl. repeat split; [lia | exact H | apply N.mod_1_r]. Qed.
Lemma wf6_host a : a < 2 ^ 128 -> wf W6 (a, 128).
Proof. intros H. unfold wf, W6, blk. replace (128 - 128) with 0 by lia. simpl. repeat split; [lia | exact H | apply N.mod_1_r]. Qed.

(* every output of the validator is (the dump of) a well-formed network ... *)
Lemma loose_net4_out v w : loose_net4 v = Ok w -> exists n, wf W4 n /\ w = net4_text n.
Proof.
  destruct v as [ |b|z|s|k s|bs|l|d]; cbn [loose_net4 loose_net6]; try discriminate.
  - intros H; inv H. exists (if b then 1 else 0, 32). split; [apply wf4_host; destruct b; vm_compute; reflexivity | reflexivity].
  - destruct ((0 <=? z)%Z && (z <? 4294967296)%Z) eqn:E; [|discriminate]. intros H; inv H.
    apply andb_true_iff in E. destruct E as [E1 E2]. apply Z.leb_le in E1. apply Z.ltb_lt in E2.
    exists (Z.to_N z, 32). split; [|reflexivity]. apply wf4_host. change (2 ^ 32) with 4294967296. lia.
  - destruct (as_val (parse4 s)) as [n|] eqn:E; cbn [bind]; [|discriminate]. intros H; inv H.
    exists n. split; [|reflexivity]. apply as_val_ok in E. eapply parse4_wf; eauto.
  - destruct (as_val (parse4 s)) as [n|] eqn:E; cbn [bind]; [|discriminate]. intros H; inv H.
    exists n. split; [|reflexivity]. apply as_val_ok in E. eapply parse4_wf; eauto.
  - destruct (Nat.eqb (length bs) 4) eqn:E; [|discriminate]. intros H; inv H. apply Nat.eqb_eq in E.
    exists (be_bytes bs, 32). split; [|reflexivity]. apply wf4_host. unfold be_bytes.
    pose proof (be_bytes_bound bs 0) as B. rewrite E in B. simpl in B. exact B.
Qed.
Lemma loose_net6_out v w : loose_net6 v = Ok w -> exists n, wf W6 n /\ w = net6_text n.
Proof.
  destruct v as [ |b|z|s|k s|bs|l|d]; cbn [loose_net4 loose_net6]; try discriminate.
  - intros H; inv H. exists (if b then 1 else 0, 128). split; [apply wf6_host; destruct b; vm_compute; reflexivity | reflexivity].
  - destruct ((0 <=? z)%Z && (z <? 2 ^ 128)%Z) eqn:E; [|discriminate]. intros H; inv H.
    apply andb_true_iff in E. destruct E as [E1 E2]. apply Z.leb_le in E1. apply Z.ltb_lt in E2.
    exists (Z.to_N z, 128). split; [|reflexivity]. apply wf6_host.
    apply N2Z.inj_lt. rewrite Z2N.id by exact E1. rewrite N2Z.inj_pow. exact E2.
  - destruct (as_val (parse6 s)) as [n|] eqn:E; cbn [bind]; [|discriminate]. intros H; inv H.
    exists n. split; [|reflexivity]. apply as_val_ok in E. eapply parse6_wf; eauto.
  - destruct (as_val (parse6 s)) as [n|] eqn:E; cbn [bind]; [|discriminate]. intros H; inv H.
    exists n. split; [|reflexivity]. apply as_val_ok in E. eapply parse6_wf; eauto.
  - destruct (Nat.eqb (length bs) 16) eqn:E; [|discriminate]. intros H; inv H. apply Nat.eqb_eq in E.
    exists (be_bytes bs, 128). split; [|reflexivity]. apply wf6_host. unfold be_bytes.
    pose proof (be_bytes_bound bs 0) as B. rewrite E in B. simpl in B. exact B.
Qed.
(* ... hence the validator accepts its own output *)
Lemma loose_net4_own v w : loose_net4 v = Ok w -> loose_net4 w = Ok w.
Proof. intros H. destruct (loose_net4_out v w H) as (n & Hn & ->). apply loose_net4_text. exact Hn. Qed.
Lemma loose_net6_own v w : loose_net6 v = Ok w -> loose_net6 w = Ok w.
Proof. intros H. destruct (loose_net6_out v w H) as (n & Hn & ->). apply loose_net6_text. exact Hn. Qed.

(* ---------------------------------------------------------------------------------------------------------------- *)
(* base64: binascii.a2b_base64 in its default (non-strict) mode, as base64.b64decode calls it (CPython 3.12 binascii.c):
   characters outside the alphabet are skipped; '=' counts as padding only when at least two characters of the current quad
   have been read, and the first sufficient pad sequence ends the decoding; a dangling quad is an error. *)
Definition b64_val (c : N) : option N :=
  if (65 <=? c) && (c <=? 90) then Some (c - 65)
  else if (97 <=? c) && (c <=? 122) then Some (c - 71)
  else if (48 <=? c) && (c <=? 57) then Some (c + 4)
  else if c =? 43 then Some 62
  else if c =? 47 then Some 63
  else None.
Fixpoint b64_go (s : list N) (qp lc pads : N) (acc : list N) : option (list N) :=
  match s with
  | [] => if qp =? 0 then Some (rev acc) else None
  | c :: r =>
      if c =? 61 then
        if (2 <=? qp) && (4 <=? qp + (pads + 1)) then Some (rev acc)
        else b64_go r qp lc (if 2 <=? qp then pads + 1 else pads) acc
      else match b64_val c with
           | None => b64_go r qp lc pads acc
           | Some d =>
               if qp =? 0 then b64_go r 1 d 0 acc
               else if qp =? 1 then b64_go r 2 (d mod 16) 0 ((lc * 4 + d / 16) :: acc)
               else if qp =? 2 then b64_go r 3 (d mod 4) 0 ((lc * 16 + d / 4) :: acc)
               else b64_go r 0 0 0 ((lc * 64 + d) :: acc)
           end
  end.
Definition b64decode (s : list N) : option (list N) := b64_go s 0 0 0 [].

(* validate_binary AFTER the repair (commit a48b8e2): bytes pass through, text is base64-decoded (non-ASCII text cannot be
   encoded for the decoder: ValueError), anything else is a ValueError -- each surfacing as pydantic's ValidationError *)
Definition validate_binary (v : value) : res value :=
  match v with
  | VBytes b => Ok (VBytes b)
  | VStr s => if forallb (fun c => c <? 128) s
              then match b64decode s with Some b => Ok (VBytes b) | None => Err EValidation end
              else Err EValidation
  | _ => Err EValidation
  end.
Lemma validate_binary_out v w : validate_binary v = Ok w -> exists b, w = VBytes b.
Proof.
  destruct v; simpl; try discriminate.
  - destruct (forallb (fun c => c <? 128) s); [|discriminate]. destruct (b64decode s); [|discriminate].
    intros H; inv H. eexists; reflexivity.
  - intros H; inv H. eexists; reflexivity.
Qed.
Lemma validate_binary_dump b : validate_binary (VBytes b) = Ok (VBytes b).
Proof. reflexivity. Qed.
Lemma validate_binary_own v w : validate_binary v = Ok w -> validate_binary w = Ok w.
Proof. intros H. destruct (validate_binary_out v w H) as [b ->]. reflexivity. Qed.

(* the validator BEFORE the repair: b64decode applied to whatever comes (bytes are "bytes-like" and get decoded AGAIN);
   binascii.Error -> ValueError; an object b64decode cannot take -> TypeError (finding F11, repaired) *)
Definition validate_binary_old (v : value) : res value :=
  match v with
  | VBytes s => match b64decode s with Some b => Ok (VBytes b) | None => Err EValidation end
  | VStr s => if forallb (fun c => c <? 128) s
              then match b64decode s with Some b => Ok (VBytes b) | None => Err EValidation end
              else Err EValidation
  | _ => Err EType
  end.
(* b"hello" (the decoding of "aGVsbG8=") is refused by its own validator; b"abcd" comes back as three other bytes *)
Theorem Binary_refuted : exists b, validate_binary_old (VBytes b) <> Ok (VBytes b).
Proof. exists [104; 101; 108; 108; 111]. vm_compute. discriminate. Qed.
Example Binary_old_witnesses :
  validate_binary_old (VStr [97;71;86;115;98;71;56;61]) = Ok (VBytes [104;101;108;108;111]) /\
  validate_binary_old (VBytes [104;101;108;108;111]) = Err EValidation /\
  validate_binary_old (VBytes [97;98;99;100]) = Ok (VBytes [105;183;29]) /\
  validate_binary_old (VInt 5) = Err EType /\
  validate_binary (VStr [97;71;86;115;98;71;56;61]) = Ok (VBytes [104;101;108;108;111]) /\
  validate_binary (VBytes [104;101;108;108;111]) = Ok (VBytes [104;101;108;108;111]) /\
  validate_binary (VInt 5) = Err EValidation.
Proof. repeat split; vm_compute; reflexivity. Qed.

(* ---------------------------------------------------------------------------------------------------------------- *)
(* Tag: ConfigDict(coerce_numbers_to_str=True) + Value's before-validator coerce_bools_to_strings *)
Definition tag_value_hook (v : value) : value :=
  match v with VBool b => VStr (if b then S_True else S_False) | _ => v end.
Definition str_num (v : value) : res value :=
  match v with
  | VStr s => Ok (VStr s)
  | VInt z => Ok (VStr (str_of_Z z))
  | VTyped KFloat t => Ok (VStr t)
  | VBytes _ => Err EUndefined            (* lax str decodes bytes; never JSON *)
  | _ => Err EValidation                 (* bool is NOT a number for coerce_numbers_to_str: hence the hook *)
  end.
Lemma str_num_out v w : str_num v = Ok w -> exists s, w = VStr s.
Proof. destruct v as [ | | | |[] | | |]; simpl; try discriminate; intros H; inv H; eexists; reflexivity. Qed.
Lemma str_num_own v w : str_num v = Ok w -> str_num w = Ok w.
Proof. intros H. destruct (str_num_out v w H) as [s ->]. reflexivity. Qed.
Lemma tag_value_hook_str s : tag_value_hook (VStr s) = VStr s.
Proof. reflexivity. Qed.
Lemma tag_value_hook_dict d : tag_value_hook (VDict d) = VDict d.
Proof. reflexivity. Qed.
(* bools become the strings "True" / "False", numbers their decimal text; the dump (a str) is taken back unchanged *)
Theorem tag_value_stable v w : str_num (tag_value_hook v) = Ok w -> str_num (tag_value_hook w) = Ok w.
Proof. intros H. destruct (str_num_out _ w H) as [s ->]. reflexivity. Qed.

(* ---------------------------------------------------------------------------------------------------------------- *)
(* Statement.Effect: after-validator on a validated value: a str is capitalized and must be Allow / Deny; a function object
   passes *)
Definition effect_hook (w : value) : res value :=
  match w with VStr s => t <- effect_store s ;; Ok (VStr t) | _ => Ok w end.
Theorem effect_hook_own w w' : effect_hook w = Ok w' -> effect_hook w' = Ok w'.
Proof.
  destruct w; simpl; try (intros H; inv H; reflexivity).
  destruct (effect_store s) as [t|] eqn:E; cbn [bind]; [|discriminate]. intros H; inv H.
  simpl. rewrite (effect_store_idem s t E). reflexivity.
Qed.

(* ---------------------------------------------------------------------------------------------------------------- *)
(* StatementCondition.remove_colon (model validator, mode before): every key loses its colons *)
Definition strip_colons (k : str) : str := filter (fun c => negb (c =? 58)) k.
Definition remove_colon (d : list (str * value)) : list (str * value) := map (fun kv => (strip_colons (fst kv), snd kv)) d.
Lemma strip_colons_idem k : strip_colons (strip_colons k) = strip_colons k.
Proof.
  unfold strip_colons. induction k as [|c k IH]; cbn [filter]; [reflexivity|].
  destruct (c =? 58) eqn:E; cbn [negb filter]; [exact IH | rewrite E; cbn [negb]; f_equal; exact IH].
Qed.
Lemma strip_colons_id k : existsb (N.eqb 58) k = false -> strip_colons k = k.
Proof.
  unfold strip_colons. induction k as [|c k IH]; cbn [existsb filter]; [reflexivity|]. intros H. apply orb_false_iff in H. destruct H as [H1 H2].
  rewrite N.eqb_sym in H1. rewrite H1. cbn [negb]. f_equal. apply IH. exact H2.
Qed.
Theorem remove_colon_idem d : remove_colon (remove_colon d) = remove_colon d.
Proof. unfold remove_colon. rewrite map_map. apply map_ext. intros [k v]. simpl. rewrite strip_colons_idem. reflexivity. Qed.

(* StatementCondition.__eq__: the dumps of the FIELDS are compared; the lazily built evaluator `_eval` (a private attribute:
   never dumped) takes no part.  An object is (fields, cache). *)
Definition cond_obj := (list (str * value) * option N)%type.       (* cache: None = not built yet, Some id = some closure *)
Definition cond_eq (a b : cond_obj) : bool := veqb (VDict (fst a)) (VDict (fst b)).
Theorem cond_eq_ignores_cache f c1 c2 g : cond_eq (f, c1) (g, c2) = cond_eq (f, None) (g, None).
Proof. reflexivity. Qed.

(* ---------------------------------------------------------------------------------------------------------------- *)
(* FunctionDict.check_if_valid_function: exactly one key and that key an implemented intrinsic function; extra = allow keeps
   the body as it is *)
Definition function_dict (v : value) : res value :=
  match v with
  | VDict [(k, _)] => if mem_str k MODEL_FUNCTIONS then Ok v else Err EValidation
  | _ => Err EValidation
  end.
Lemma function_dict_id v w : function_dict v = Ok w -> w = v.
Proof.
  unfold function_dict. destruct v as [ | | | | | | |d]; try discriminate. destruct d as [|[k b] [|? ?]]; try discriminate.
  destruct (mem_str k MODEL_FUNCTIONS); [|discriminate]. intros H; inv H. reflexivity.
Qed.

Definition literal (s : str) (v : value) : res value :=
  match v with VStr s' => if str_eqb s s' then Ok v else Err EValidation | _ => Err EValidation end.
Lemma literal_id s v w : literal s v = Ok w -> w = v /\ v = VStr s.
Proof.
  destruct v; simpl; try discriminate. destruct (str_eqb s s0) eqn:E; [|discriminate]. intros H; inv H.
  apply str_eqb_spec in E. subst. split; reflexivity.
Qed.
Definition dict_any (v : value) : res value := match v with VDict _ => Ok v | _ => Err EValidation end.
Definition list_any (v : value) : res value := match v with VList _ => Ok v | _ => Err EValidation end.

(* ---------------------------------------------------------------------------------------------------------------- *)
(* all leaves: pycfmodel's own ones as above, the rest delegated to the oracle [core] *)
Definition is_core (k : leaf) : bool :=
  match k with LStr | LInt | LPosInt | LIntOrStr | LBool | LDate | LDatetime | LGeneric => true | _ => false end.
Definition leaf_validate (core : leaf -> value -> res value) (k : leaf) (v : value) : res value :=
  match k with
  | LSemiBool => semi_strict_bool v
  | LNet4 => loose_net4 v
  | LNet6 => loose_net6 v
  | LBinary => validate_binary v
  | LStrNum => str_num v
  | LLit s => literal s v
  | LFn => function_dict v
  | LAny => Ok v
  | LDictAny => dict_any v
  | LListAny => list_any v
  | LStr | LInt | LPosInt | LIntOrStr | LBool | LDate | LDatetime | LGeneric => core k v
  end.

(* every modelled leaf accepts its own output; for the oracle leaves this is the hypothesis *)
Theorem leaf_accepts_own_output core :
  (forall k v w, is_core k = true -> core k v = Ok w -> core k w = Ok w) ->
  forall k v w, leaf_validate core k v = Ok w -> leaf_validate core k w = Ok w.
Proof.
  intros Hc k v w. destruct k; cbn [leaf_validate]; try (apply Hc; reflexivity).
  - apply str_num_own.
  - apply semi_strict_bool_own.
  - apply loose_net4_own.
  - apply loose_net6_own.
  - apply validate_binary_own.
  - intros H. destruct (literal_id _ _ _ H) as [-> ->]. exact H.
  - intros H. pose proof (function_dict_id _ _ H) as E. subst w. exact H.
  - intros H; inv H. reflexivity.
  - destruct v; simpl; try discriminate. intros H; inv H. reflexivity.
  - destruct v; simpl; try discriminate. intros H; inv H. reflexivity.
Qed.

(* leaves that hand their input back unchanged *)
Definition identity_leaf (k : leaf) : bool :=
  match k with LLit _ | LFn | LAny | LDictAny | LListAny => true | _ => false end.
Lemma identity_leaf_id core k v w : identity_leaf k = true -> leaf_validate core k v = Ok w -> w = v.
Proof.
  destruct k; try discriminate; intros _; cbn [leaf_validate].
  - intros H. apply (literal_id _ _ _ H).
  - apply function_dict_id.
  - intros H; inv H; reflexivity.
  - destruct v; simpl; try discriminate; intros H; inv H; reflexivity.
  - destruct v; simpl; try discriminate; intros H; inv H; reflexivity.
Qed.
Lemma function_dict_out v w : function_dict v = Ok w -> exists d, w = VDict d.
Proof. intros H. pose proof (function_dict_id _ _ H); subst w. destruct v; try discriminate. eexists; reflexivity. Qed.
