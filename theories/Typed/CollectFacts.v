(* C13 -- counting, order, locality and path forms of "every embedded policy document is discoverable, exactly once".
   Model: [collect] / [resource_docs] over [cast] (Typed/Collect.v, Typed/Cast.v).  All theorems hold for every
   configuration [c] of the cast and every recogniser / leaf annotation unless a hypothesis says otherwise.

     1. COUNT     the number of documents collected = the number of positions whose node is recognised as a policy
                  document (or a named wrapper) and that have no accepted proper ancestor ([count_exactly_once]); the
                  collected documents sit at pairwise DISTINCT paths of the input, each path leading to a recognised node
                  ([collected_at_distinct_paths]);
     2. ORDER     documents come in document order: what an object / array yields is the concatenation, member by member, of
                  what its members yield ([resource_docs_app], [collect_object_members], [collect_list_members]);
     3. LOCALITY  what one property yields does not depend on the other properties, nor on any key ([resource_docs_middle],
                  [resource_docs_keys_irrelevant], [resource_docs_perm]);
     4. NESTING   a recognised property model is a LEAF of the search: a document inside a recognised document's own members
                  (an extra key, a Condition value the schema accepts) is not collected ([recognised_is_leaf]); inside an object
                  that merely looks like a document (the recogniser rejects it) it IS collected, and the look-alike is not. *)
From Coq Require Import List Bool NArith ZArith Lia Permutation FinFun Sorted.
From PV Require Import Base.Str Base.Value Typed.GValue Typed.Cast Typed.Collect Typed.CastShape.
Import ListNotations.

(* ------------------------------------------------------------------------------------------------------------------ *)
(* 1. COUNT *)
Definition is_doc (r : recog) : bool := match r_kind r with PkPolicyDocument | PkPolicy => true | _ => false end.
(* a position that holds a discoverable document: no accepted proper ancestor, node recognised as document / wrapper *)
Definition pd_position (c : cfg) (p : bool * gvalue) : bool :=
  negb (fst p) && match node_choice c (snd p) with CProp r => is_doc r | _ => false end.
Definition count_pd_positions (deep : bool) (c : cfg) (g : gvalue) : nat :=
  length (filter (pd_position c) (positions deep c false g)).

Lemma yields_length r : length (yields r) = if is_doc r then 1 else 0.
Proof. unfold yields, is_doc. destruct (r_kind r); reflexivity. Qed.
Lemma yield_at_length c p : length (yield_at c p) = if pd_position c p then 1 else 0.
Proof.
  unfold yield_at, pd_position. destruct (fst p); cbn [negb andb]; [reflexivity|].
  destruct (node_choice c (snd p)); try reflexivity. apply yields_length.
Qed.
Lemma length_flat_map_filter {A B} (f : A -> list B) (p : A -> bool) l :
  (forall x, length (f x) = if p x then 1 else 0) -> length (flat_map f l) = length (filter p l).
Proof.
  intros H. induction l as [|x l IH]; [reflexivity|]. cbn [flat_map filter]. rewrite app_length, H, IH.
  destruct (p x); reflexivity.
Qed.

Theorem count_exactly_once c g : length (collect (cast c g)) = count_pd_positions false c g.
Proof.
  rewrite collect_is_embedded_impl. unfold embedded_impl, embedded, count_pd_positions.
  apply length_flat_map_filter. apply yield_at_length.
Qed.
Theorem count_exactly_once_spec c g :
  hidden_free c g = true -> length (collect (cast c g)) = count_pd_positions true c g.
Proof.
  intros H. rewrite (exactly_once_spec c g H). unfold embedded_spec, embedded, count_pd_positions.
  apply length_flat_map_filter. apply yield_at_length.
Qed.
Theorem resource_count c props :
  length (resource_docs c props) = list_sum (map (fun kv => count_pd_positions false c (snd kv)) props).
Proof.
  unfold resource_docs. induction props as [|[k x] props IH]; [reflexivity|].
  cbn [flat_map map list_sum snd]. rewrite app_length, IH, count_exactly_once. reflexivity.
Qed.

(* ---- positions with their paths ---- *)
Fixpoint positions_p (deep : bool) (c : cfg) (cut : bool) (g : gvalue) : list (path * (bool * gvalue)) :=
  ([], (cut, g)) ::
  let cut' := cut || accepted c g in
  match g with
  | GStr _ (Some j) _ =>
      if deep || negb (is_cnone (choose c j)) then map (under Json) (positions_p deep c cut' j) else []
  | GList l =>
      (fix go (l : list gvalue) (i : nat) : list (path * (bool * gvalue)) :=
         match l with [] => [] | x :: r => map (under (Idx i)) (positions_p deep c cut' x) ++ go r (S i) end) l 0
  | GDict d _ =>
      (fix go (d : list (str * gvalue)) (i : nat) : list (path * (bool * gvalue)) :=
         match d with [] => [] | (k, x) :: r => map (under (Mem i k)) (positions_p deep c cut' x) ++ go r (S i) end) d 0
  | _ => []
  end.
(* the two inner loops, named *)
Fixpoint go_list (f : gvalue -> list (path * (bool * gvalue))) (l : list gvalue) (i : nat) :=
  match l with [] => [] | x :: r => map (under (Idx i)) (f x) ++ go_list f r (S i) end.
Fixpoint go_dict (f : gvalue -> list (path * (bool * gvalue))) (d : list (str * gvalue)) (i : nat) :=
  match d with [] => [] | (k, x) :: r => map (under (Mem i k)) (f x) ++ go_dict f r (S i) end.
Lemma positions_p_list deep c cut l :
  positions_p deep c cut (GList l) =
  ([], (cut, GList l)) :: go_list (positions_p deep c (cut || accepted c (GList l))) l 0.
Proof.
  cbn [positions_p]. f_equal. generalize (cut || accepted c (GList l)). intros cut'. generalize 0.
  induction l as [|x l IH]; intros i; [reflexivity|].
  cbn [go_list]. f_equal. apply IH.
Qed.
Lemma positions_p_dict deep c cut d r :
  positions_p deep c cut (GDict d r) =
  ([], (cut, GDict d r)) :: go_dict (positions_p deep c (cut || accepted c (GDict d r))) d 0.
Proof.
  cbn [positions_p]. f_equal. generalize (cut || accepted c (GDict d r)). intros cut'. generalize 0.
  induction d as [|[k x] d IH]; intros i; [reflexivity|].
  cbn [go_dict]. f_equal. apply IH.
Qed.

Lemma map_snd_under {X} s (l : list (path * X)) : map snd (map (under s) l) = map snd l.
Proof. rewrite map_map. reflexivity. Qed.

(* forgetting the paths gives the enumeration of Typed/Collect.v *)
Lemma positions_p_erase deep c : forall g cut, map snd (positions_p deep c cut g) = positions deep c cut g.
Proof.
  induction g as [|b a|z a|x a|s a|s j a IHj|l IHl|d r IHd] using gvalue_ind'; intros cut; try reflexivity.
  - cbn [positions_p positions map]. f_equal. destruct (deep || negb (is_cnone (choose c j))); [|reflexivity].
    rewrite map_snd_under. apply IHj.
  - rewrite positions_p_list. cbn [positions map]. f_equal.
    generalize (cut || accepted c (GList l)). intros cut'. generalize 0.
    induction IHl as [|x l Hx Hl IH]; intros i; [reflexivity|].
    cbn [go_list flat_map]. rewrite map_app, map_snd_under, Hx, IH. reflexivity.
  - rewrite positions_p_dict. cbn [positions map]. f_equal.
    generalize (cut || accepted c (GDict d r)). intros cut'. generalize 0.
    induction IHd as [|[k x] d Hx Hd IH]; intros i; [reflexivity|].
    cbn [go_dict flat_map snd]. rewrite map_app, map_snd_under. cbn [snd] in Hx. rewrite Hx, IH. reflexivity.
Qed.

(* every enumerated path leads, in the input, to the node it is listed with *)
Lemma go_list_in f l : forall i p y,
  In (p, y) (go_list f l i) -> exists j x q, p = Idx j :: q /\ i <= j /\ nth_error l (j - i) = Some x /\ In (q, y) (f x).
Proof.
  induction l as [|x l IH]; intros i p y H; [contradiction|]. cbn [go_list] in H. apply in_app_or in H. destruct H as [H|H].
  - apply in_map_iff in H. destruct H as ([q y'] & E & H). inversion E; subst. exists i, x, q.
    rewrite Nat.sub_diag. repeat split; auto.
  - destruct (IH (S i) p y H) as (j & x' & q & -> & Lj & N & Hq). exists j, x', q. repeat split; [lia| |exact Hq].
    replace (j - i) with (S (j - S i)) by lia. exact N.
Qed.
Lemma go_dict_in f d : forall i p y,
  In (p, y) (go_dict f d i) ->
  exists j k x q, p = Mem j k :: q /\ i <= j /\ nth_error d (j - i) = Some (k, x) /\ In (q, y) (f x).
Proof.
  induction d as [|[k x] d IH]; intros i p y H; [contradiction|]. cbn [go_dict] in H. apply in_app_or in H. destruct H as [H|H].
  - apply in_map_iff in H. destruct H as ([q y'] & E & H). inversion E; subst. exists i, k, x, q.
    rewrite Nat.sub_diag. repeat split; auto.
  - destruct (IH (S i) p y H) as (j & k' & x' & q & -> & Lj & N & Hq). exists j, k', x', q. repeat split; [lia| |exact Hq].
    replace (j - i) with (S (j - S i)) by lia. exact N.
Qed.
Lemma positions_p_gat deep c : forall g cut p y,
  In (p, y) (positions_p deep c cut g) -> gat g p = Some (snd y).
Proof.
  induction g as [|b a|z a|x a|s a|s j a IHj|l IHl|d r IHd] using gvalue_ind'; intros cut p y H;
    try (cbn [positions_p] in H; destruct H as [H|[]]; inversion H; reflexivity).
  - cbn [positions_p] in H. destruct H as [H|H]; [inversion H; reflexivity|].
    destruct (deep || negb (is_cnone (choose c j))); [|contradiction].
    apply in_map_iff in H. destruct H as ([q y'] & E & H). inversion E; subst. cbn [gat gchild]. eapply IHj; eauto.
  - rewrite positions_p_list in H. destruct H as [H|H]; [inversion H; reflexivity|].
    destruct (go_list_in _ l 0 p y H) as (j & x & q & -> & _ & N & Hq). rewrite Nat.sub_0_r in N.
    cbn [gat gchild]. rewrite N. rewrite Forall_forall in IHl. eapply IHl; [eapply nth_error_In; eauto|eauto].
  - rewrite positions_p_dict in H. destruct H as [H|H]; [inversion H; reflexivity|].
    destruct (go_dict_in _ d 0 p y H) as (j & k & x & q & -> & _ & N & Hq). rewrite Nat.sub_0_r in N.
    cbn [gat gchild]. rewrite N, str_eqb_refl. rewrite Forall_forall in IHd.
    eapply (IHd (k, x)); [eapply nth_error_In; eauto|eauto].
Qed.

(* the enumerated paths are pairwise distinct *)
Lemma NoDup_app' {A} (l1 l2 : list A) : NoDup l1 -> NoDup l2 -> (forall a, In a l1 -> ~ In a l2) -> NoDup (l1 ++ l2).
Proof.
  intros H1 H2 D. induction H1 as [|a l1 Ha H1 IH]; [exact H2|]. cbn [app]. constructor.
  - intros H. apply in_app_or in H. destruct H as [H|H]; [contradiction|]. apply (D a (or_introl eq_refl) H).
  - apply IH. intros b Hb. apply D. right; exact Hb.
Qed.
Lemma map_fst_under {X} s (l : list (path * X)) : map fst (map (under s) l) = map (cons s) (map fst l).
Proof. rewrite !map_map. reflexivity. Qed.
Lemma NoDup_under {X} s (l : list (path * X)) : NoDup (map fst l) -> NoDup (map fst (map (under s) l)).
Proof.
  intros H. rewrite map_fst_under. apply Injective_map_NoDup; [|exact H]. intros p q E. inversion E. reflexivity.
Qed.
Lemma go_list_NoDup f l : (forall x, In x l -> NoDup (map fst (f x))) -> forall i, NoDup (map fst (go_list f l i)).
Proof.
  induction l as [|x l IH]; intros Hf i; [constructor|]. cbn [go_list]. rewrite map_app. apply NoDup_app'.
  - apply NoDup_under. apply Hf. left; reflexivity.
  - apply IH. intros y Hy. apply Hf. right; exact Hy.
  - intros p H1 H2. rewrite map_fst_under in H1. apply in_map_iff in H1. destruct H1 as (q & <- & _).
    apply in_map_iff in H2. destruct H2 as ([p' y] & E & H2). cbn [fst] in E. subst p'.
    destruct (go_list_in f l (S i) _ y H2) as (j & x' & q' & E & Lj & _). inversion E. lia.
Qed.
Lemma go_dict_NoDup f d : (forall kv, In kv d -> NoDup (map fst (f (snd kv)))) -> forall i, NoDup (map fst (go_dict f d i)).
Proof.
  induction d as [|[k x] d IH]; intros Hf i; [constructor|]. cbn [go_dict]. rewrite map_app. apply NoDup_app'.
  - apply NoDup_under. apply (Hf (k, x)). left; reflexivity.
  - apply IH. intros y Hy. apply Hf. right; exact Hy.
  - intros p H1 H2. rewrite map_fst_under in H1. apply in_map_iff in H1. destruct H1 as (q & <- & _).
    apply in_map_iff in H2. destruct H2 as ([p' y] & E & H2). cbn [fst] in E. subst p'.
    destruct (go_dict_in f d (S i) _ y H2) as (j & k' & x' & q' & E & Lj & _). inversion E. lia.
Qed.
Lemma NoDup_root {X} (y : X) (l : list (path * X)) :
  (forall p z, In (p, z) l -> p <> []) -> NoDup (map fst l) -> NoDup (map fst (([], y) :: l)).
Proof.
  intros H N. cbn [map fst]. constructor; [|exact N]. intros I. apply in_map_iff in I.
  destruct I as ([p z] & E & I). cbn [fst] in E. subst p. apply (H [] z I). reflexivity.
Qed.
Theorem positions_p_NoDup deep c : forall g cut, NoDup (map fst (positions_p deep c cut g)).
Proof.
  induction g as [|b a|z a|x a|s a|s j a IHj|l IHl|d r IHd] using gvalue_ind'; intros cut;
    try (cbn [positions_p map fst]; constructor; [intros []|constructor]).
  - cbn [positions_p]. apply NoDup_root.
    + intros p z H. destruct (deep || negb (is_cnone (choose c j))); [|contradiction].
      apply in_map_iff in H. destruct H as ([q y'] & E & _). inversion E. discriminate.
    + destruct (deep || negb (is_cnone (choose c j))); [|constructor]. apply NoDup_under. apply IHj.
  - rewrite positions_p_list. apply NoDup_root.
    + intros p z H. destruct (go_list_in _ l 0 p z H) as (j & x & q & -> & _). discriminate.
    + apply go_list_NoDup. rewrite Forall_forall in IHl. intros x Hx. apply IHl. exact Hx.
  - rewrite positions_p_dict. apply NoDup_root.
    + intros p z H. destruct (go_dict_in _ d 0 p z H) as (j & k & x & q & -> & _). discriminate.
    + apply go_dict_NoDup. rewrite Forall_forall in IHd. intros kv Hx. apply IHd. exact Hx.
Qed.

(* the documents with the path of the position that holds them *)
Definition yield_at_p (c : cfg) (pp : path * (bool * gvalue)) : list (path * pdoc) :=
  map (fun d => (fst pp, d)) (yield_at c (snd pp)).
Definition embedded_p (deep : bool) (c : cfg) (g : gvalue) : list (path * pdoc) :=
  flat_map (yield_at_p c) (positions_p deep c false g).

Lemma embedded_p_docs deep c g : map snd (embedded_p deep c g) = embedded deep c g.
Proof.
  unfold embedded_p, embedded. rewrite <- positions_p_erase.
  induction (positions_p deep c false g) as [|pp l IH]; [reflexivity|].
  cbn [flat_map map]. rewrite map_app, IH. f_equal. unfold yield_at_p. rewrite map_map. apply map_id.
Qed.
Lemma embedded_p_paths deep c g :
  map fst (embedded_p deep c g) = map fst (filter (fun pp => pd_position c (snd pp)) (positions_p deep c false g)).
Proof.
  unfold embedded_p. induction (positions_p deep c false g) as [|pp l IH]; [reflexivity|].
  cbn [flat_map filter]. rewrite map_app, IH. unfold yield_at_p. pose proof (yield_at_length c (snd pp)) as L.
  destruct (pd_position c (snd pp)).
  - destruct (yield_at c (snd pp)) as [|d [|d' ds]]; try discriminate. reflexivity.
  - destruct (yield_at c (snd pp)); [reflexivity|discriminate].
Qed.
Lemma NoDup_map_fst_filter {X} (p : path * X -> bool) (l : list (path * X)) :
  NoDup (map fst l) -> NoDup (map fst (filter p l)).
Proof.
  induction l as [|x l IH]; intros H; [constructor|]. cbn [map] in H. inversion H as [|? ? Hx Hl]; subst.
  cbn [filter]. destruct (p x); [|apply IH; exact Hl]. cbn [map]. constructor; [|apply IH; exact Hl].
  intros I. apply Hx. apply in_map_iff in I. destruct I as (y & E & I). apply filter_In in I.
  apply in_map_iff. exists y. tauto.
Qed.
Theorem embedded_p_NoDup deep c g : NoDup (map fst (embedded_p deep c g)).
Proof. rewrite embedded_p_paths. apply NoDup_map_fst_filter. apply positions_p_NoDup. Qed.
Lemma embedded_p_sound deep c g p d :
  In (p, d) (embedded_p deep c g) -> exists x r, gat g p = Some x /\ node_choice c x = CProp r /\ In d (yields r).
Proof.
  unfold embedded_p. intros H. apply in_flat_map in H. destruct H as ([q [cut x]] & Hq & H).
  unfold yield_at_p in H. apply in_map_iff in H. destruct H as (d' & E & H). cbn [fst snd] in *. inversion E; subst.
  exists x. pose proof (positions_p_gat deep c g false p (cut, x) Hq) as G. cbn [snd] in G.
  unfold yield_at in H. cbn [fst snd] in H. destruct cut; [contradiction|].
  destruct (node_choice c x) as [|r| | |] eqn:N; try contradiction. exists r. auto.
Qed.

(* EXACTLY ONCE, path form: the collected list is, document by document and in order, a list of documents found at pairwise
   distinct paths of the input, each path leading to a node the union recognises as a document / named wrapper *)
Theorem collected_at_distinct_paths c g :
  exists ps : list (path * pdoc),
    map snd ps = collect (cast c g) /\ NoDup (map fst ps) /\
    forall p d, In (p, d) ps -> exists x r, gat g p = Some x /\ node_choice c x = CProp r /\ In d (yields r).
Proof.
  exists (embedded_p false c g). split; [|split].
  - rewrite embedded_p_docs. symmetry. apply collect_is_embedded_impl.
  - apply embedded_p_NoDup.
  - apply embedded_p_sound.
Qed.

(* ------------------------------------------------------------------------------------------------------------------ *)
(* 2. ORDER and 3. LOCALITY *)
Theorem resource_docs_app c p1 p2 : resource_docs c (p1 ++ p2) = resource_docs c p1 ++ resource_docs c p2.
Proof. unfold resource_docs. apply flat_map_app. Qed.
Theorem resource_docs_middle c p1 k v p2 :
  resource_docs c (p1 ++ (k, v) :: p2) = resource_docs c p1 ++ collect (cast c v) ++ resource_docs c p2.
Proof. rewrite resource_docs_app. reflexivity. Qed.
Theorem resource_docs_keys_irrelevant c p p' : map snd p = map snd p' -> resource_docs c p = resource_docs c p'.
Proof.
  unfold resource_docs. intros H. rewrite <- (flat_map_map snd (fun x => collect (cast c x)) p).
  rewrite <- (flat_map_map snd (fun x => collect (cast c x)) p'). rewrite H. reflexivity.
Qed.
(* Python iterates model_fields_set, a set: whatever order the properties come in, the same documents are found *)
Theorem resource_docs_perm c p p' : Permutation p p' -> Permutation (resource_docs c p) (resource_docs c p').
Proof.
  unfold resource_docs. intros H. induction H as [|x l l' H IH|x y l|l l' l'' H1 IH1 H2 IH2]; cbn [flat_map].
  - constructor.
  - apply Permutation_app_head. exact IH.
  - rewrite !app_assoc. apply Permutation_app_tail. apply Permutation_app_comm.
  - eapply Permutation_trans; eauto.
Qed.

(* a plain object (Generic) yields what its members yield, in order; so does the cast at the tval level *)
Theorem collect_generic_app m1 m2 : collect (TGeneric (m1 ++ m2)) = collect (TGeneric m1) ++ collect (TGeneric m2).
Proof. cbn [collect]. apply flat_map_app. Qed.
Theorem collect_tlist_app l1 l2 : collect (TList (l1 ++ l2)) = collect (TList l1) ++ collect (TList l2).
Proof. cbn [collect]. apply flat_map_app. Qed.
Theorem collect_object_members c d r : choose c (GDict d r) = CNone -> collect (cast c (GDict d r)) = resource_docs c d.
Proof.
  intros E. rewrite (cast_dict_plain c d r E). cbn [collect]. unfold cast_props, resource_docs.
  rewrite flat_map_map. apply flat_map_ext_in. intros [k x] _. reflexivity.
Qed.
Corollary collect_object_app c m1 m2 r :
  choose c (GDict (m1 ++ m2) r) = CNone ->
  collect (cast c (GDict (m1 ++ m2) r)) = resource_docs c m1 ++ resource_docs c m2.
Proof. intros E. rewrite (collect_object_members c _ r E). apply resource_docs_app. Qed.

(* arrays: a typed array (accepted by an alternative other than the list of strings) holds no document; any other array
   yields what its members yield, in order *)
Definition list_docs (c : cfg) (l : list gvalue) : list pdoc := flat_map (fun x => collect (cast c x)) l.
Lemma list_docs_app c l1 l2 : list_docs c (l1 ++ l2) = list_docs c l1 ++ list_docs c l2.
Proof. apply flat_map_app. Qed.
Theorem collect_list c l :
  collect (cast c (GList l)) = if accepted c (GList l) then [] else list_docs c l.
Proof.
  unfold accepted. cbn [node_choice]. pose proof (choose_list_shape c l) as Sh.
  destruct (choose c (GList l)) as [| | |b|] eqn:E; try contradiction.
  - rewrite (cast_list_typed c l b E). cbn [collect]. rewrite flat_map_map.
    destruct (choose_typed_list c l b E) as [_ M].
    destruct (br_is_str b) as [->|Hb]; [reflexivity|].
    replace (match b with BStr => false | _ => true end) with true by (destruct b; try reflexivity; congruence).
    apply flat_map_nil. intros x Hx. specialize (M x Hx). unfold recast_with.
    destruct (member c b x) as [t|] eqn:Mx; [|congruence].
    destruct b; try congruence; eapply member_collect; eauto.
  - assert (transparent c (GList l) = true) as T by (unfold transparent; rewrite E; reflexivity).
    rewrite (cast_list_untyped c l T). cbn [collect]. rewrite flat_map_map. reflexivity.
Qed.
(* text that encodes a container is not ALSO read as a boolean / number / date / network: the one coherence the annotations
   of a member need for the array law to hold unconditionally (json.loads gives a container only for text starting with
   a bracket, which no scalar parser accepts) *)
Definition container_text_coherent (x : gvalue) : bool :=
  match x with
  | GStr s (Some (GDict _ _)) a | GStr s (Some (GList _)) a =>
      match bool_literal s, a_int a, a_date a, a_datetime a, a_net a with
      | None, None, None, None, None => true
      | _, _, _, _, _ => false
      end
  | _ => true
  end.
Lemma collect_scalar_json c s j a :
  (forall d r, j <> GDict d r) -> (forall l, j <> GList l) -> collect (cast c (GStr s (Some j) a)) = [].
Proof.
  intros ND NL. cbn [cast]. pose proof (choose_nondict_not_prop c j ND) as S.
  destruct (choose c j) as [| |t|b|] eqn:E; cbn [finish]; try contradiction; try reflexivity.
  - eapply choose_scalar_collect; eauto.
  - destruct (choose_list c j b E) as (l & El & _). exfalso. eapply NL; exact El.
Qed.
Lemma coherent_member c b x :
  container_text_coherent x = true -> b <> BStr -> member c b x <> None -> collect (cast c x) = [].
Proof.
  intros Co Hb M. destruct x as [|b0 a|z a|y a|s j a|l|d r].
  - reflexivity.
  - rewrite bool_stays. reflexivity.
  - rewrite int_stays. reflexivity.
  - cbn [cast]. pose proof (choose_nondict_not_prop c (GFloat y a)) as S.
    destruct (choose c (GFloat y a)) as [| |t|b1|] eqn:E; cbn [finish]; try reflexivity;
      try (exfalso; apply S; intros; discriminate); eapply choose_scalar_collect; eauto.
  - destruct j as [j|].
    + destruct j as [|b1 a1|z1 a1|y1 a1|s1 j1 a1|l1|d1 r1];
        try (apply collect_scalar_json; intros; discriminate).
      * (* text of an array with a typed reading: excluded by coherence *)
        exfalso. apply M. cbn [container_text_coherent] in Co.
        destruct (bool_literal s) eqn:B; [discriminate|]. destruct (a_int a) eqn:I; [discriminate|].
        destruct (a_date a) eqn:D; [discriminate|]. destruct (a_datetime a) eqn:T; [discriminate|].
        destruct (a_net a) eqn:N; [discriminate|].
        unfold member. destruct b; try congruence; cbn; rewrite ?B, ?I, ?D, ?T, ?N; reflexivity.
      * exfalso. apply M. cbn [container_text_coherent] in Co.
        destruct (bool_literal s) eqn:B; [discriminate|]. destruct (a_int a) eqn:I; [discriminate|].
        destruct (a_date a) eqn:D; [discriminate|]. destruct (a_datetime a) eqn:T; [discriminate|].
        destruct (a_net a) eqn:N; [discriminate|].
        unfold member. destruct b; try congruence; cbn; rewrite ?B, ?I, ?D, ?T, ?N; reflexivity.
    + cbn [cast]. pose proof (choose_nondict_not_prop c (GStr s None a)) as S.
      destruct (choose c (GStr s None a)) as [| |t|b1|] eqn:E; cbn [finish]; try reflexivity;
        try (exfalso; apply S; intros; discriminate); eapply choose_scalar_collect; eauto.
  - exfalso. apply M. rewrite member_nonscalar by reflexivity. reflexivity.
  - rewrite member_nonscalar in M by reflexivity. destruct (fnb c (GDict d r)) eqn:F; [|congruence].
    rewrite (cast_fn c _ F). reflexivity.
Qed.
Theorem collect_list_members c l :
  forallb container_text_coherent l = true -> collect (cast c (GList l)) = list_docs c l.
Proof.
  intros Co. rewrite collect_list. unfold accepted. cbn [node_choice].
  destruct (choose c (GList l)) as [| | |b|] eqn:E; try reflexivity;
    try (pose proof (choose_list_shape c l) as Sh; rewrite E in Sh; contradiction).
  destruct (br_is_str b) as [->|Hb]; [reflexivity|].
  replace (match b with BStr => false | _ => true end) with true by (destruct b; try reflexivity; congruence).
  symmetry. apply flat_map_nil. intros x Hx. destruct (choose_typed_list c l b E) as [_ M].
  rewrite forallb_forall in Co. apply (coherent_member c b x (Co x Hx) Hb (M x Hx)).
Qed.
Corollary collect_list_app c l1 l2 :
  forallb container_text_coherent (l1 ++ l2) = true ->
  collect (cast c (GList (l1 ++ l2))) = collect (cast c (GList l1)) ++ collect (cast c (GList l2)).
Proof.
  intros Co. pose proof Co as Co'. rewrite forallb_app in Co'. apply andb_prop in Co'. destruct Co' as [C1 C2].
  rewrite !collect_list_members by assumption. apply list_docs_app.
Qed.

(* ------------------------------------------------------------------------------------------------------------------ *)
(* 4. NESTING: a recognised node is a leaf of the search, whatever its members hold *)
Theorem recognised_is_leaf c d r r' : choose c (GDict d r) = CProp r' -> collect (cast c (GDict d r)) = yields r'.
Proof. intros E. cbn [cast]. rewrite E. reflexivity. Qed.
Theorem recognised_json_is_leaf c s j a r' : choose c j = CProp r' -> collect (cast c (GStr s (Some j) a)) = yields r'.
Proof. intros E. cbn [cast]. rewrite E. reflexivity. Qed.
(* ... in particular it does not matter what the members are *)
Corollary recognised_members_irrelevant c d d' r :
  map fst d = map fst d' -> is_cnone (choose c (GDict d r)) = false -> fnb c (GDict d r) = false ->
  collect (cast c (GDict d r)) = collect (cast c (GDict d' r)).
Proof.
  intros K NN NF. pose proof (choose_dict_keys_only c d d' r K) as E.
  pose proof (choose_dict_shape c d r) as Sh.
  destruct (choose c (GDict d r)) as [|r'| | |] eqn:E1; try contradiction; try discriminate.
  - (* a function call *)
    destruct d as [|[k x] [|kv d]]; unfold choose in E1.
    + destruct (c_empty_plain c); [discriminate|destruct r; discriminate].
    + rewrite NF in E1. destruct r; discriminate.
    + cbn [fnb] in E1. destruct r; discriminate.
  - rewrite (recognised_is_leaf c d r r' E1). symmetry. apply recognised_is_leaf. congruence.
Qed.
(* an unrecognised look-alike is searched like any object *)
Theorem lookalike_is_searched c d : fnb c (GDict d None) = false -> collect (cast c (GDict d None)) = resource_docs c d.
Proof.
  intros NF. apply collect_object_members. unfold choose. destruct d as [|kv d].
  - destruct (c_empty_plain c); reflexivity.
  - rewrite NF. reflexivity.
Qed.

(* ------------------------------------------------------------------------------------------------------------------ *)
(* 2. ORDER, path form: the positions are enumerated -- and hence the documents collected -- in DOCUMENT ORDER: a node
   before its members, the members of a container in the order they are written (pre-order; on paths: a proper prefix
   first, otherwise by the first step in which the paths differ) *)
Definition step_idx (s : step) : nat := match s with Idx i => i | Mem i _ => i | Json => 0 end.
Fixpoint path_ltb (p q : path) : bool :=
  match p, q with
  | [], [] => false
  | [], _ :: _ => true
  | _ :: _, [] => false
  | s :: p', s' :: q' => (step_idx s <? step_idx s') || ((step_idx s =? step_idx s') && path_ltb p' q')
  end.
Definition path_lt (p q : path) : Prop := path_ltb p q = true.

Lemma path_lt_cons s p q : path_lt p q -> path_lt (s :: p) (s :: q).
Proof. unfold path_lt. intros H. cbn [path_ltb]. rewrite Nat.eqb_refl, H. apply orb_true_r. Qed.
Lemma path_lt_step s s' p q : step_idx s < step_idx s' -> path_lt (s :: p) (s' :: q).
Proof. unfold path_lt. intros H. cbn [path_ltb]. apply Nat.ltb_lt in H. rewrite H. reflexivity. Qed.

Lemma StronglySorted_app' {A} (R : A -> A -> Prop) l1 l2 :
  Sorted.StronglySorted R l1 -> Sorted.StronglySorted R l2 -> (forall a b, In a l1 -> In b l2 -> R a b) ->
  Sorted.StronglySorted R (l1 ++ l2).
Proof.
  intros S1 S2 Hab. induction S1 as [|a l1 S1 IH Fa]; [exact S2|]. cbn [app]. constructor.
  - apply IH. intros x y Hx Hy. apply Hab; [right; exact Hx|exact Hy].
  - apply Forall_app. split; [exact Fa|]. apply Forall_forall. intros y Hy. apply Hab; [left; reflexivity|exact Hy].
Qed.
Lemma StronglySorted_under {X} s (l : list (path * X)) :
  Sorted.StronglySorted path_lt (map fst l) -> Sorted.StronglySorted path_lt (map fst (map (under s) l)).
Proof.
  rewrite map_fst_under. generalize (map fst l). intros ps H. induction H as [|p ps H IH Fp]; [constructor|].
  cbn [map]. constructor; [exact IH|]. rewrite Forall_forall in *. intros q Hq. apply in_map_iff in Hq.
  destruct Hq as (q' & <- & Hq'). apply path_lt_cons. apply Fp. exact Hq'.
Qed.
Lemma go_list_sorted f l :
  (forall x, In x l -> Sorted.StronglySorted path_lt (map fst (f x))) ->
  forall i, Sorted.StronglySorted path_lt (map fst (go_list f l i)).
Proof.
  induction l as [|x l IH]; intros Hf i; [constructor|]. cbn [go_list]. rewrite map_app. apply StronglySorted_app'.
  - apply StronglySorted_under. apply Hf. left; reflexivity.
  - apply IH. intros y Hy. apply Hf. right; exact Hy.
  - intros p q Hp Hq. rewrite map_fst_under in Hp. apply in_map_iff in Hp. destruct Hp as (p' & <- & _).
    apply in_map_iff in Hq. destruct Hq as ([q' y] & E & Hq). cbn [fst] in E. subst q'.
    destruct (go_list_in f l (S i) _ y Hq) as (j & x' & q'' & -> & Lj & _). apply path_lt_step. simpl. lia.
Qed.
Lemma go_dict_sorted f d :
  (forall kv, In kv d -> Sorted.StronglySorted path_lt (map fst (f (snd kv)))) ->
  forall i, Sorted.StronglySorted path_lt (map fst (go_dict f d i)).
Proof.
  induction d as [|[k x] d IH]; intros Hf i; [constructor|]. cbn [go_dict]. rewrite map_app. apply StronglySorted_app'.
  - apply StronglySorted_under. apply (Hf (k, x)). left; reflexivity.
  - apply IH. intros y Hy. apply Hf. right; exact Hy.
  - intros p q Hp Hq. rewrite map_fst_under in Hp. apply in_map_iff in Hp. destruct Hp as (p' & <- & _).
    apply in_map_iff in Hq. destruct Hq as ([q' y] & E & Hq). cbn [fst] in E. subst q'.
    destruct (go_dict_in f d (S i) _ y Hq) as (j & k' & x' & q'' & -> & Lj & _). apply path_lt_step. simpl. lia.
Qed.
Lemma sorted_root {X} (y : X) (l : list (path * X)) :
  (forall p z, In (p, z) l -> p <> []) -> Sorted.StronglySorted path_lt (map fst l) ->
  Sorted.StronglySorted path_lt (map fst (([], y) :: l)).
Proof.
  intros H S. cbn [map fst]. constructor; [exact S|]. apply Forall_forall. intros p Hp. apply in_map_iff in Hp.
  destruct Hp as ([p' z] & E & Hp). cbn [fst] in E. subst p'. destruct p as [|s p]; [exfalso; eapply H; eauto|reflexivity].
Qed.
Theorem positions_p_sorted deep c : forall g cut, Sorted.StronglySorted path_lt (map fst (positions_p deep c cut g)).
Proof.
  induction g as [|b a|z a|x a|s a|s j a IHj|l IHl|d r IHd] using gvalue_ind'; intros cut;
    try (cbn [positions_p map fst]; constructor; [constructor|constructor]).
  - cbn [positions_p]. apply sorted_root.
    + intros p z H. destruct (deep || negb (is_cnone (choose c j))); [|contradiction].
      apply in_map_iff in H. destruct H as ([q y'] & E & _). inversion E. discriminate.
    + destruct (deep || negb (is_cnone (choose c j))); [|constructor]. apply StronglySorted_under. apply IHj.
  - rewrite positions_p_list. apply sorted_root.
    + intros p z H. destruct (go_list_in _ l 0 p z H) as (j & x & q & -> & _). discriminate.
    + apply go_list_sorted. rewrite Forall_forall in IHl. intros x Hx. apply IHl. exact Hx.
  - rewrite positions_p_dict. apply sorted_root.
    + intros p z H. destruct (go_dict_in _ d 0 p z H) as (j & k & x & q & -> & _). discriminate.
    + apply go_dict_sorted. rewrite Forall_forall in IHd. intros kv Hx. apply IHd. exact Hx.
Qed.
Lemma StronglySorted_map_fst_filter {X} (R : path -> path -> Prop) (p : path * X -> bool) (l : list (path * X)) :
  Sorted.StronglySorted R (map fst l) -> Sorted.StronglySorted R (map fst (filter p l)).
Proof.
  induction l as [|x l IH]; intros H; [constructor|]. cbn [map] in H. inversion H as [|? ? Hl Fx]; subst.
  cbn [filter]. destruct (p x); [|apply IH; exact Hl]. cbn [map]. constructor; [apply IH; exact Hl|].
  rewrite Forall_forall in *. intros q Hq. apply Fx. apply in_map_iff in Hq. destruct Hq as (y & E & Hy).
  apply filter_In in Hy. apply in_map_iff. exists y. tauto.
Qed.
(* the documents are collected in document order: their paths are strictly increasing *)
Theorem embedded_p_sorted deep c g : Sorted.StronglySorted path_lt (map fst (embedded_p deep c g)).
Proof. rewrite embedded_p_paths. apply StronglySorted_map_fst_filter. apply positions_p_sorted. Qed.
Theorem collected_in_document_order c g :
  exists ps : list (path * pdoc),
    map snd ps = collect (cast c g) /\ Sorted.StronglySorted path_lt (map fst ps) /\
    forall p d, In (p, d) ps -> exists x r, gat g p = Some x /\ node_choice c x = CProp r /\ In d (yields r).
Proof.
  exists (embedded_p false c g). split; [|split].
  - rewrite embedded_p_docs. symmetry. apply collect_is_embedded_impl.
  - apply embedded_p_sorted.
  - apply embedded_p_sound.
Qed.
(* the order is a strict one: irreflexive and transitive (so "strictly increasing" implies "pairwise distinct") *)
Lemma path_lt_irrefl p : ~ path_lt p p.
Proof.
  unfold path_lt. induction p as [|s p IH]; cbn [path_ltb]; [discriminate|].
  rewrite Nat.ltb_irrefl, Nat.eqb_refl. cbn [orb andb]. exact IH.
Qed.
Lemma path_lt_trans p : forall q r, path_lt p q -> path_lt q r -> path_lt p r.
Proof.
  unfold path_lt. induction p as [|s p IH]; intros [|s' q] [|s'' r]; cbn [path_ltb]; try discriminate; try reflexivity.
  intros H1 H2. apply orb_true_iff in H1. apply orb_true_iff in H2. apply orb_true_iff.
  destruct H1 as [H1|H1], H2 as [H2|H2].
  - left. apply Nat.ltb_lt in H1. apply Nat.ltb_lt in H2. apply Nat.ltb_lt. lia.
  - left. apply andb_prop in H2. destruct H2 as [E _]. apply Nat.eqb_eq in E. rewrite <- E. exact H1.
  - left. apply andb_prop in H1. destruct H1 as [E _]. apply Nat.eqb_eq in E. rewrite E. exact H2.
  - right. apply andb_prop in H1. destruct H1 as [E1 L1]. apply andb_prop in H2. destruct H2 as [E2 L2].
    apply Nat.eqb_eq in E1. apply Nat.eqb_eq in E2. rewrite E1, E2, Nat.eqb_refl. cbn [andb]. eapply IH; eauto.
Qed.

(* ------------------------------------------------------------------------------------------------------------------ *)
(* inputs of the nesting Examples of Properties/C13.v (each replayed on pycfmodel) *)
From PV Require Import Typed.Witness.
From Coq Require Import String.
Local Open Scope string_scope.
Definition doc_with_extra : gvalue :=
  GDict [(s "Statement", GList [GDict [(s "Sid", text "outer"); (s "Effect", text "Allow")]
                                      (Some {| r_kind := PkStatement; r_dump := s "stmt"; r_name := None; r_doc := VNull |})]);
         (s "Extra", doc_node "inner")]
        (Some {| r_kind := PkPolicyDocument; r_dump := s "doc outer"; r_name := None; r_doc := stmts "outer" |}).
Definition doc_lookalike : gvalue :=
  GDict [(s "Statement",
          GList [GDict [(s "Sid", text "outer"); (s "Effect", text "Allow");
                        (s "Condition", GDict [(s "StringEquals", GDict [(s "aws:x", doc_node "inner")] None)] None)] None])] None.
