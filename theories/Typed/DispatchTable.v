(* C14 -- the dispatch theorems instantiated with the table generated from the live classes (gen/Schema.v). *)
From Coq Require Import List Bool NArith String.
From PV Require Import Base.Str Base.Value Resolver.Consts Resolver.Resolve Resolver.Spec
                       Typed.Schema Typed.Dispatch Typed.DispatchFacts Typed.SchemaTable Typed.SchemaChecks.
From PVGen Require Import Schema.
Import ListNotations.

Section Table.
  Variable class_accepts : str -> value -> bool.
  Variable generic_accepts : value -> bool.
  Notation disp := (dispatch_resource RESOURCE_MODELS class_accepts generic_accepts).

  Lemma modelled_class_not_generic t c : class_of RESOURCE_MODELS t = Some c -> c <> GENERIC.
  Proof.
    intros H E. subst c. apply lookup_In in H. destruct Schema_types_distinct as (_ & _ & N). apply N.
    apply in_map_iff. exists (t, GENERIC). split; [reflexivity | exact H].
  Qed.

  Theorem table_exact d t o :
    type_of d = TyStr t -> In t MODELLED_TYPES -> disp true (VDict d) = Ok o ->
    exists c, class_of RESOURCE_MODELS t = Some c /\ o_class o = c /\ o_class o <> GENERIC /\ class_accepts c (VDict d) = true.
  Proof.
    intros Ht Hm Hd. apply class_of_modelled in Hm. destruct Hm as [c Hc]. exists c.
    destruct (dispatch_exact _ _ _ _ _ _ _ Ht Hc Hd) as [E A]. split; [exact Hc|]. split; [exact E|]. split; [|exact A].
    rewrite E. eapply modelled_class_not_generic; eauto.
  Qed.

  Theorem table_strict_rejects d t c :
    type_of d = TyStr t -> class_of RESOURCE_MODELS t = Some c -> class_accepts c (VDict d) = false ->
    disp true (VDict d) = Err EValidation.
  Proof. apply dispatch_strict_rejects. Qed.

  Theorem table_nonstrict_downgrade d t c :
    type_of d = TyStr t -> class_of RESOURCE_MODELS t = Some c -> class_accepts c (VDict d) = false ->
    disp false (VDict d) =
      if generic_accepts (VDict d) then Ok {| o_class := GENERIC; o_kept := keys (props_of d) |} else Err EValidation.
  Proof. apply dispatch_nonstrict_downgrade. Qed.

  Theorem table_generic_keeps strict d :
    (type_of d = TyMissing \/ exists t, type_of d = TyStr t /\ ~ In t MODELLED_TYPES) ->
    disp strict (VDict d) =
      if generic_accepts (VDict d) then Ok {| o_class := GENERIC; o_kept := keys (props_of d) |} else Err EValidation.
  Proof.
    intros H. apply dispatch_generic_keeps. destruct H as [H | (t & Ht & Hn)]; [left; exact H | right].
    exists t. split; [exact Ht|]. destruct (class_of RESOURCE_MODELS t) eqn:E; [|reflexivity].
    exfalso. apply Hn. apply class_of_modelled. eexists; exact E.
  Qed.

  Theorem table_preserved_by_resolve e d t r' o :
    lookup K_Type d = Some (VStr t) -> In t MODELLED_TYPES -> is_fn_dict d = false ->
    resolve e (VDict d) = Ok r' -> disp true r' = Ok o ->
    exists d' c, r' = VDict d' /\ lookup K_Type d' = Some (VStr t) /\ class_of RESOURCE_MODELS t = Some c /\ o_class o = c.
  Proof.
    intros Hl Hm Hn Hr Hd. pose proof (Schema_types_fixed t Hm) as Hf. apply class_of_modelled in Hm. destruct Hm as [c Hc].
    destruct (resolve_keeps_type e t d r' Hf Hn Hl Hr) as (d' & E & Hl'). exists d', c.
    split; [exact E|]. split; [exact Hl'|]. split; [exact Hc|].
    exact (preserved_by_resolve RESOURCE_MODELS class_accepts generic_accepts e d t c r' o Hl Hc Hf Hn Hr Hd).
  Qed.

  Theorem table_preserved_by_expand ex d t r' o :
    lookup K_Type d = Some (VStr t) -> In t MODELLED_TYPES ->
    expand_obj ex (VDict d) = Ok r' -> disp true r' = Ok o ->
    exists d' c, r' = VDict d' /\ lookup K_Type d' = Some (VStr t) /\ class_of RESOURCE_MODELS t = Some c /\ o_class o = c.
  Proof.
    intros Hl Hm Hr Hd. apply class_of_modelled in Hm. destruct Hm as [c Hc].
    destruct (expand_keeps_type ex d r' t Hl Hr) as (d' & E & Hl' & _). exists d', c.
    split; [exact E|]. split; [exact Hl'|]. split; [exact Hc|].
    exact (preserved_by_expand RESOURCE_MODELS class_accepts generic_accepts ex d t c r' o Hl Hc Hr Hd).
  Qed.
End Table.

(* isinstance over the generated class hierarchy: every parsed resource is a Resource *)
Theorem table_filter_resource_all rs :
  Forall (fun ir => In (p_class (snd ir)) (GENERIC :: MODELLED_CLASSES)) rs ->
  filter_by_type bases_of [WClass K_Resource] rs = rs.
Proof.
  unfold filter_by_type. induction rs as [|[i p] rs IH]; intros H; [reflexivity|]. inv H. cbn [filter snd].
  assert (keeps bases_of [WClass K_Resource] p = true) as K.
  { unfold keeps. cbn [existsb]. rewrite orb_false_r. unfold isinstance. apply orb_true_iff. right.
    apply mem_str_In. apply Schema_all_resources. exact H2. }
  rewrite K. f_equal. apply IH. assumption.
Qed.
