(* C15 -- concrete templates for the non-vacuity examples (the only C15 file that opens string_scope). *)
From Coq Require Import List String NArith ZArith.
From PV Require Import Base.Str Base.Value Typed.Schema Typed.Leaves Typed.Roundtrip Typed.RoundtripRun.
Import ListNotations.
Local Open Scope string_scope.

Definition s (x : string) : str := of_string x.
Definition vs (x : string) : value := VStr (of_string x).
Definition obj (l : list (string * value)) : value := VDict (map (fun kv => (of_string (fst kv), snd kv)) l).

(* a small template as json.load gives it -- except that the two IpAddress values are network OBJECTS (as text they are
   accepted by both members of that smart union, where the model declines): an S3 bucket with tags, an IAM policy whose statement carries a condition of
   every value family, a security-group rule, a resource of an unmodelled type *)
Definition EX_RAW : value :=
  obj [("AWSTemplateFormatVersion", VTyped KDate (s "2010-09-09"));
       ("Resources", obj [
          ("Bucket", obj [("Type", vs "AWS::S3::Bucket");
                          ("Properties", obj [("BucketName", vs "b"); ("ObjectLockEnabled", vs "TRUE");
                                              ("Tags", VList [obj [("Key", vs "k"); ("Value", VBool true)];
                                                              obj [("Key", vs "n"); ("Value", VInt 5)]])])]);
          ("Policy", obj [("Type", vs "AWS::IAM::Policy");
                          ("Properties", obj [("PolicyName", obj [("Ref", vs "P")]);
                             ("PolicyDocument", obj [("Statement", VList [obj [
                                 ("Effect", vs "aLLoW"); ("Action", VList [vs "s3:Get*"; obj [("Ref", vs "A")]]); ("Resource", vs "*");
                                 ("Principal", obj [("AWS", vs "arn:aws:iam::123456789012:root")]);
                                 ("Condition", obj [("BinaryEquals", obj [("k", vs "aGVsbG8=")]);
                                                    ("IpAddress", obj [("aws:SourceIp", VList [VTyped KNet4 (s "10.1.2.3/8"); VTyped KNet6 (s "2001:db8::1/32")])]);
                                                    ("ForAnyValue:StringLike", obj [("a", vs "b")]);
                                                    ("Bool", obj [("aws:SecureTransport", vs "false")])])]])])])]);
          ("Rule", obj [("Type", vs "AWS::EC2::SecurityGroupIngress");
                        ("Properties", obj [("IpProtocol", vs "tcp"); ("CidrIp", vs "192.168.1.77/16"); ("FromPort", VInt 22)])]);
          ("Other", obj [("Type", vs "Custom::Thing"); ("Properties", obj [("Anything", VList [VInt 1; vs "x"])])])])].

Definition CFMODEL : ftype := TModel (s "CFModel").
Definition run_template (v : value) : res tval := val_dumped true CFMODEL v.
