(* C18: the decidable reading of "generic property casting preserves values", and the proof that the specified
   casting algorithm (Cast.cast with spec_cfg) satisfies it for every input whose leaf annotations are confirmed. *)
From Coq Require Import List Bool NArith ZArith Lia.
From PV Require Import Base.Str Base.Value Typed.GValue Typed.Cast Typed.Literals Typed.Collect.
Import ListNotations.

Fixpoint forall2b {A B} (f : A -> B -> bool) (l : list A) (m : list B) : bool :=
  match l, m with
  | [], [] => true
  | x :: l', y :: m' => f x y && forall2b f l' m'
  | _, _ => false
  end.

(* the text s may become the typed atom t: t is a literal reading of s that denotes the same thing *)
Definition literal_ok (s : str) (t : tval) : bool :=
  match t with
  | TStr s' => str_eqb s s'
  | TBool b => match bool_literal s with Some b' => Bool.eqb b b' | None => false end
  | TInt z => denotes_int s z
  | TDate r => denotes_date s r
  | TDatetime r => denotes_datetime s r
  | TNet k r => denotes_net s k r
  | _ => false
  end.

(* THE SPEC.  cast_ok g t: "g may be presented as t".
   null/booleans/integers stay themselves; a float stays itself or, when it is a whole number, becomes that integer;
   text stays the same text, or becomes the bool/int/date/timestamp/network it is a literal of, or -- being JSON text --
   whatever the value it encodes may become; arrays keep length and order, members converted under the same rules;
   objects keep their keys in order (Generic), or are a function call kept as written (FunctionDict), or -- when NOT
   empty -- an instance of the property model the recogniser names. *)
Fixpoint cast_ok (c : cfg) (g : gvalue) (t : tval) {struct g} : bool :=
  match g with
  | GNull => match t with TNull => true | _ => false end
  | GBool b _ => match t with TBool b' => Bool.eqb b b' | _ => false end
  | GInt z _ => match t with TInt z' => Z.eqb z z' | _ => false end
  | GFloat x _ => match t with
                  | TFloat x' => str_eqb x x'
                  | TInt z => float_denotes_int x z
                  | _ => false
                  end
  | GStr s j _ =>
      literal_ok s t || match j with Some jv => cast_ok c jv t | None => false end
  | GList l =>
      match t with
      | TList ts =>
          (fix go (l : list gvalue) (ts : list tval) : bool :=
             match l, ts with
             | [], [] => true
             | x :: l', y :: ts' => cast_ok c x y && go l' ts'
             | _, _ => false
             end) l ts
      | _ => false
      end
  | GDict d r =>
      match t with
      | TGeneric d' =>
          (fix go (d : list (str * gvalue)) (d' : list (str * tval)) : bool :=
             match d, d' with
             | [], [] => true
             | (k, x) :: r1, (k', y) :: r2 => str_eqb k k' && cast_ok c x y && go r1 r2
             | _, _ => false
             end) d d'
      | TFn raw => fnb c g && vstrict_eqb raw (strip g)
      | TProp r' =>
          negb (match d with [] => true | _ => false end) &&
          match r with
          | Some r0 => pk_eqb (r_kind r0) (r_kind r') && str_eqb (r_dump r0) (r_dump r')
          | None => false
          end
      | _ => false
      end
  end.

(* the annotations the specified algorithm relies on are confirmed by the checkers *)
Definition opt_ok {A} (o : option A) (p : A -> bool) : bool := match o with Some x => p x | None => true end.
Definition leaf_confirmed (g : gvalue) : bool :=
  match g with
  | GFloat x a => opt_ok (a_int a) (float_denotes_int x)
  | GStr s _ a =>
      (* numeric text never reaches the date / timestamp / network alternatives (guard _not_from_numbers) *)
      opt_ok (a_int a) (denotes_int s) &&
      (a_float a ||
       (opt_ok (a_date a) (denotes_date s) &&
        opt_ok (a_datetime a) (denotes_datetime s) && opt_ok (a_net a) (fun kt => denotes_net s (fst kt) (snd kt))))
  | _ => true
  end.
Fixpoint all_confirmed (g : gvalue) : bool :=
  leaf_confirmed g &&
  match g with
  | GStr _ (Some j) _ => all_confirmed j
  | GList l => forallb all_confirmed l
  | GDict d _ => forallb (fun kv => all_confirmed (snd kv)) d
  | _ => true
  end.

(* evidence: 0 = no typed conversion at this leaf, 1 = strict literal, 2 = accepted-liberal *)
Definition liberal_leaf (g : gvalue) (t : tval) : N :=
  match g, t with
  | GStr s _ _, TInt z => if strict_int s z then 1 else 2
  | GStr s _ _, TDate r => if strict_date s r then 1 else 2
  | GStr s _ _, TDatetime _ => 1
  | GStr s _ _, TNet _ _ => 1
  | GStr s _ _, TBool _ => 1
  | GFloat _ _, TInt _ => 2
  | _, _ => 0
  end%N.

(* ---------------- proofs ---------------- *)

Lemma vstrict_eqb_refl : forall v, vstrict_eqb v v = true.
Proof.
  induction v using value_ind'; simpl; auto using Z.eqb_refl, str_eqb_refl, eqb_reflx.
  - destruct k; simpl; apply str_eqb_refl.
  - induction H as [|x l Hx Hl IH]; [reflexivity|]. rewrite Hx. exact IH.
  - induction H as [|[k x] l Hx Hl IH]; [reflexivity|]. simpl in Hx. rewrite str_eqb_refl, Hx. exact IH.
Qed.

Lemma forall2b_map {A B} (f : A -> B -> bool) (h : A -> B) l :
  forall2b f l (map h l) = forallb (fun x => f x (h x)) l.
Proof. induction l; simpl; congruence. Qed.

Lemma cast_ok_list c l ts : cast_ok c (GList l) (TList ts) = forall2b (cast_ok c) l ts.
Proof. simpl. revert ts. induction l as [|x l IH]; intros [|y ts]; simpl; try reflexivity. rewrite IH. reflexivity. Qed.
Lemma cast_ok_generic c d r d' :
  cast_ok c (GDict d r) (TGeneric d') =
  forall2b (fun kx ky => str_eqb (fst kx) (fst ky) && cast_ok c (snd kx) (snd ky)) d d'.
Proof.
  simpl. revert d'. induction d as [|[k x] d IH]; intros [|[k' y] d']; simpl; try reflexivity.
  rewrite IH. reflexivity.
Qed.

Lemma all_confirmed_leaf g : all_confirmed g = true -> leaf_confirmed g = true.
Proof. destruct g; cbn [all_confirmed]; intros H; apply andb_prop in H; tauto. Qed.

Section Spec.
Variable funcs : list str.
Let c := spec_cfg funcs.

(* each alternative on its own only performs conversions the spec allows *)
Lemma scalar_ok b g t :
  guard_item c b g = true -> leaf_confirmed g = true -> scalar b g = Some t -> cast_ok c g t = true.
Proof.
  intros G L S.
  destruct b, g as [|x a|z a|x a|s j a|l|d r]; simpl in S; try discriminate; simpl in G; try discriminate;
  try (apply negb_true_iff in G; simpl in L; rewrite G in L; simpl in L);
  repeat match type of S with
  | option_map _ ?o = Some _ => let E := fresh "E" in destruct o eqn:E; simpl in S; [|discriminate];
                                 try (simpl in L; rewrite E in L; simpl in L)
  end;
  inversion S; subst; clear S; cbn [cast_ok literal_ok fst snd];
  repeat match goal with E : ?o = Some _ |- context [?o] => rewrite E end;
  rewrite ?eqb_reflx, ?Z.eqb_refl, ?str_eqb_refl; try reflexivity;
  repeat match goal with H : _ && _ = true |- _ => apply andb_prop in H; destruct H end;
  repeat match goal with H : opt_ok (Some _) _ = true |- _ => cbn [opt_ok] in H end;
  repeat match goal with H : ?x = true |- context [?x] => rewrite H end; try reflexivity.
Qed.

Lemma member_ok b g t :
  guard_item c b g = true -> leaf_confirmed g = true -> member c b g = Some t -> cast_ok c g t = true.
Proof.
  intros G L M. unfold member in M. destruct (scalar b g) eqn:S.
  - inversion M; subst. eapply scalar_ok; eauto.
  - destruct (fnb c g) eqn:F; [|discriminate]. inversion M; subst.
    destruct g; simpl in F; try discriminate. cbn [cast_ok]. rewrite vstrict_eqb_refl.
    destruct d as [|[k x] [|]]; try discriminate. simpl. simpl in F. rewrite F. reflexivity.
Qed.

Lemma try_branch_guard g b :
  match try_branch c g b with
  | CScalar t => guard_item c b g = true /\ scalar b g = Some t
  | CList b' => b' = b /\ exists l, g = GList l /\ forallb (guard_item c b) l = true /\
                                    forall x, In x l -> member c b x <> None
  | _ => True
  end.
Proof.
  unfold try_branch. destruct (guard c b g) eqn:G; simpl; [|exact I].
  destruct (scalar b g) eqn:E.
  - split; [|reflexivity]. destruct g; try exact G. destruct b; discriminate.
  - destruct g; try exact I. destruct (forallb _ l) eqn:F; [|exact I].
    split; [reflexivity|]. exists l. repeat split; [exact G|].
    intros x Hx. rewrite forallb_forall in F. specialize (F x Hx). destruct (member c b x); congruence.
Qed.
Lemma first_branch_guard g bs :
  match first_branch c g bs with
  | CScalar t => exists b, guard_item c b g = true /\ scalar b g = Some t
  | CList b => exists l, g = GList l /\ forallb (guard_item c b) l = true /\ forall x, In x l -> member c b x <> None
  | CFn | CProp _ => False
  | CNone => True
  end.
Proof.
  induction bs as [|b bs IH]; simpl; [exact I|]. destruct (aborts c g b); [exact I|].
  pose proof (try_branch_guard g b) as S. pose proof (Typed.Collect.try_branch_shape c g b) as S'.
  destruct (try_branch c g b); try exact IH; try contradiction.
  - exists b; exact S.
  - destruct S as [-> S]. exact S.
Qed.

(* the members of a node as the cast leaves them *)
Definition members_of (ch : choice) (g : gvalue) : list tval :=
  match g with GList l => list_members c ch l (map (cast c) l) | _ => [] end.

(* whatever the union accepts is an allowed presentation of the node (given that of its members) *)
Lemma union_ok g fallback :
  leaf_confirmed g = true ->
  (forall x, (match g with GList l => In x l | _ => False end) -> leaf_confirmed x = true /\ cast_ok c x (cast c x) = true) ->
  choose c g <> CNone ->
  cast_ok c g (finish (choose c g) (strip g) (members_of (choose c g) g) fallback) = true.
Proof.
  intros L IHm NN.
  assert (forall g', g' = g -> (forall d r, g <> GDict d r) -> choose c g = first_branch c g BRANCHES) as Hfb.
  { intros g' _ H. destruct g; try reflexivity. exfalso; eapply H; reflexivity. }
  destruct g as [|x a|z a|x a|s j a|l|d r].
  1-5: (rewrite (Hfb _ eq_refl) in * by (intros; discriminate);
        match goal with |- context [first_branch c ?g BRANCHES] =>
          pose proof (first_branch_guard g BRANCHES) as S; destruct (first_branch c g BRANCHES) eqn:E end;
        try contradiction; try congruence;
        [ destruct S as (b & G & Sc); cbn [finish]; eapply scalar_ok; eauto
        | destruct S as (l & El & _); discriminate ]).
  - (* list *)
    rewrite (Hfb _ eq_refl) in * by (intros; discriminate).
    pose proof (first_branch_guard (GList l) BRANCHES) as S. destruct (first_branch c (GList l) BRANCHES) eqn:E;
      try contradiction; try congruence.
    + destruct S as (b & _ & Sc). destruct b; discriminate.
    + destruct S as (l' & El & G & Hm). inversion El; subst l'. clear El.
      cbn [finish members_of list_members]. rewrite cast_ok_list. rewrite Typed.Collect.map_combine_map.
      rewrite forall2b_map. apply forallb_forall. intros x Hx.
      destruct (IHm x Hx) as [Lx Ox]. rewrite forallb_forall in G. specialize (G x Hx).
      unfold recast_with. destruct b; try exact Ox;
        (destruct (member c _ x) eqn:M; [eapply member_ok; eauto | exact Ox]).
  - (* object *)
    unfold choose in *. destruct d as [|[k x] d].
    + simpl in NN. congruence.
    + destruct (fnb c (GDict ((k, x) :: d) r)) eqn:F.
      * cbn [finish cast_ok]. rewrite F, vstrict_eqb_refl. reflexivity.
      * destruct r as [r|]; [|congruence]. cbn [finish cast_ok negb andb]. rewrite str_eqb_refl.
        replace (pk_eqb (r_kind r) (r_kind r)) with true by (symmetry; apply pk_eqb_spec; reflexivity). reflexivity.
Qed.

Lemma finish_raw_irrelevant ch raw raw' ms fb : ch <> CFn -> finish ch raw ms fb = finish ch raw' ms fb.
Proof. destruct ch; simpl; congruence. Qed.

Theorem preserves : forall n g, (gsize g < n)%nat -> all_confirmed g = true -> cast_ok c g (cast c g) = true.
Proof.
  induction n as [|n IH]; intros g Hs Ha; [lia|].
  pose proof (all_confirmed_leaf g Ha) as Lg.
  destruct (is_cnone (choose c g)) eqn:CN.
  - (* the union rejects the node as written *)
    destruct g as [|x a|z a|x a|s [j|] a|l|d r]; cbn [cast].
    + reflexivity.
    + destruct (choose c (GBool x a)); try discriminate. simpl. apply eqb_reflx.
    + destruct (choose c (GInt z a)); try discriminate. simpl. apply Z.eqb_refl.
    + destruct (choose c (GFloat x a)); try discriminate. simpl. apply str_eqb_refl.
    + (* JSON text: the decoded value decides *)
      cbn [all_confirmed] in Ha. apply andb_prop in Ha. destruct Ha as [_ Ha].
      destruct (is_cnone (choose c j)) eqn:CJ.
      * destruct (choose c j); try discriminate. cbn [finish cast_ok literal_ok]. rewrite str_eqb_refl. reflexivity.
      * cbn [cast_ok]. apply orb_true_iff. right.
        change (match j with GList l => list_members c (choose c j) l (map (cast c) l) | _ => [] end)
          with (members_of (choose c j) j).
        apply union_ok.
        -- apply all_confirmed_leaf; exact Ha.
        -- intros x Hx. destruct j; try contradiction. cbn [all_confirmed] in Ha. apply andb_prop in Ha.
           destruct Ha as [_ Ha]. rewrite forallb_forall in Ha. specialize (Ha x Hx). split.
           ++ apply all_confirmed_leaf; exact Ha.
           ++ apply IH; [|exact Ha]. pose proof (gsize_in_list x l Hx). simpl in Hs. simpl in H. lia.
        -- destruct (choose c j); try discriminate; congruence.
    + destruct (choose c (GStr s None a)); try discriminate. cbn [finish cast_ok literal_ok]. rewrite str_eqb_refl. reflexivity.
    + destruct (choose c (GList l)); try discriminate. cbn [finish list_members]. rewrite cast_ok_list, forall2b_map.
      apply forallb_forall. intros x Hx. cbn [all_confirmed] in Ha. apply andb_prop in Ha. destruct Ha as [_ Ha].
      rewrite forallb_forall in Ha. apply IH; [pose proof (gsize_in_list x l Hx); lia|auto].
    + destruct (choose c (GDict d r)); try discriminate. cbn [finish]. rewrite cast_ok_generic.
      cbn [all_confirmed] in Ha. apply andb_prop in Ha. destruct Ha as [_ Ha]. rewrite forallb_forall in Ha.
      assert (forall kv, In kv d -> cast_ok c (snd kv) (cast c (snd kv)) = true) as K.
      { intros [k x] Hx. apply IH; [pose proof (gsize_in_dict k x d r Hx); simpl; lia|apply (Ha (k, x) Hx)]. }
      clear Ha Hs Lg CN. induction d as [|[k x] d IHd]; [reflexivity|]. simpl. rewrite str_eqb_refl.
      pose proof (K (k, x) (or_introl eq_refl)) as Kx. simpl in Kx. rewrite Kx. apply IHd. intros kv H. apply K. right; exact H.
  - (* the union accepts the node as written (not reached for JSON text, which is looked at through its decoding) *)
    destruct g as [|x a|z a|x a|s [j|] a|l|d r].
    + reflexivity.
    + cbn [cast]. apply (union_ok (GBool x a) (TBool x)); [exact Lg|intros ? []|destruct (choose c (GBool x a)); discriminate || congruence].
    + cbn [cast]. apply (union_ok (GInt z a) (TInt z)); [exact Lg|intros ? []|destruct (choose c (GInt z a)); discriminate || congruence].
    + cbn [cast]. apply (union_ok (GFloat x a) (TFloat x)); [exact Lg|intros ? []|destruct (choose c (GFloat x a)); discriminate || congruence].
    + (* JSON text *)
      cbn [all_confirmed] in Ha. apply andb_prop in Ha. destruct Ha as [_ Ha]. cbn [cast].
      destruct (is_cnone (choose c j)) eqn:CJ.
      * destruct (choose c j); try discriminate. cbn [finish cast_ok literal_ok]. rewrite str_eqb_refl. reflexivity.
      * cbn [cast_ok]. apply orb_true_iff. right.
        change (match j with GList l => list_members c (choose c j) l (map (cast c) l) | _ => [] end)
          with (members_of (choose c j) j).
        apply union_ok.
        -- apply all_confirmed_leaf; exact Ha.
        -- intros x Hx. destruct j; try contradiction. cbn [all_confirmed] in Ha. apply andb_prop in Ha.
           destruct Ha as [_ Ha]. rewrite forallb_forall in Ha. specialize (Ha x Hx). split.
           ++ apply all_confirmed_leaf; exact Ha.
           ++ apply IH; [|exact Ha]. pose proof (gsize_in_list x l Hx). simpl in Hs. simpl in H. lia.
        -- destruct (choose c j); try discriminate; congruence.
    + cbn [cast]. apply (union_ok (GStr s None a) (TStr s)); [exact Lg|intros ? []|destruct (choose c (GStr s None a)); discriminate || congruence].
    + cbn [cast].
      rewrite (finish_raw_irrelevant _ VNull (strip (GList l))).
      * apply (union_ok (GList l)); [exact Lg| |destruct (choose c (GList l)); discriminate || congruence].
        intros x Hx. cbn [all_confirmed] in Ha. apply andb_prop in Ha. destruct Ha as [_ Ha].
        rewrite forallb_forall in Ha. specialize (Ha x Hx). split.
        -- apply all_confirmed_leaf; exact Ha.
        -- apply IH; [pose proof (gsize_in_list x l Hx); lia|exact Ha].
      * pose proof (Typed.Collect.choose_list_shape c l) as S. destruct (choose c (GList l)); try contradiction; discriminate.
    + cbn [cast]. apply (union_ok (GDict d r)); [exact Lg|intros ? []|destruct (choose c (GDict d r)); discriminate || congruence].
Qed.
End Spec.

Theorem cast_preserves funcs g :
  all_confirmed g = true -> cast_ok (spec_cfg funcs) g (cast (spec_cfg funcs) g) = true.
Proof. apply (preserves funcs (S (gsize g))). lia. Qed.

(* ---- booleans: for ANY configuration and ANY annotations (the boolean alternative is modelled, not an oracle) ---- *)
Lemma first_branch_bool c g bs b : first_branch c g bs = CScalar (TBool b) -> scalar BBool g = Some (TBool b).
Proof.
  induction bs as [|b0 bs IH]; simpl; [discriminate|]. destruct (aborts c g b0); [discriminate|].
  pose proof (Typed.Collect.try_branch_shape c g b0) as S.
  destruct (try_branch c g b0) eqn:E; try contradiction; auto; try discriminate.
  intros H; inversion H; subst. destruct b0; try exact S;
    destruct g; simpl in S; try discriminate;
    repeat match type of S with context [option_map _ ?o] => destruct o; simpl in S end; discriminate.
Qed.
Lemma choose_bool c g b : choose c g = CScalar (TBool b) -> scalar BBool g = Some (TBool b).
Proof.
  unfold choose. destruct g; try apply first_branch_bool.
  destruct d as [|kv d]; [destruct (c_empty_plain c); [discriminate|destruct r; discriminate]|].
  destruct (fnb c _); [discriminate|destruct r; discriminate].
Qed.

(* text becomes a boolean only if it is true/false in some letter case, or JSON text of a boolean, or JSON text of such a string *)
Theorem bool_only_from_literal c s j a b :
  cast c (GStr s j a) = TBool b ->
  bool_literal s = Some b
  \/ (exists a', j = Some (GBool b a'))
  \/ (exists s' j' a', j = Some (GStr s' j' a') /\ bool_literal s' = Some b).
Proof.
  destruct j as [j|]; cbn [cast].
  - destruct (choose c j) as [|r|t|b0|] eqn:E; cbn [finish]; try discriminate.
    intros ->. apply choose_bool in E. destruct j; simpl in E; try discriminate.
    + inversion E; subst. right; left. eexists; reflexivity.
    + destruct (bool_literal s0) eqn:B; [|discriminate]. inversion E; subst. right; right. do 3 eexists. split; eauto.
  - destruct (choose c (GStr s None a)) as [|r|t|b0|] eqn:E; cbn [finish]; try discriminate.
    intros ->. apply choose_bool in E. simpl in E. destruct (bool_literal s) eqn:B; [|discriminate]. inversion E; subst. left; reflexivity.
Qed.
Corollary never_bool c s a : bool_literal s = None -> forall b, cast c (GStr s None a) <> TBool b.
Proof.
  intros N b H. apply bool_only_from_literal in H. destruct H as [H|[[a' H]|(s' & j' & a' & H & _)]]; congruence.
Qed.
Corollary never_bool_json c s j a :
  bool_literal s = None -> (forall b a', j <> Some (GBool b a')) -> (forall s' j' a', j <> Some (GStr s' j' a')) ->
  forall b, cast c (GStr s j a) <> TBool b.
Proof.
  intros N J1 J2 b H. apply bool_only_from_literal in H.
  destruct H as [H|[[a' H]|(s' & j' & a' & H & _)]]; [congruence|eapply J1; eauto|eapply J2; eauto].
Qed.

(* ---- every other string stays the same string ---- *)
Definition no_reading (s : str) (a : sann) : Prop :=
  bool_literal s = None /\ a_int a = None /\ a_date a = None /\ a_datetime a = None /\ a_net a = None /\
  a_abort_date a = false /\ a_abort_datetime a = false.
Lemma first_branch_plain_text c s j a :
  no_reading s a -> first_branch c (GStr s j a) BRANCHES = CScalar (TStr s).
Proof.
  intros (B & I & D & T & N & A1 & A2). unfold BRANCHES, first_branch, aborts, abort_item, try_branch, scalar, is_scalar, ann_of.
  rewrite B, I, D, T, N, A1, A2. rewrite !andb_false_r. simpl.
  repeat match goal with |- context [if negb ?x then _ else _] => destruct (negb x) end; reflexivity.
Qed.
Theorem other_string_same c s a : no_reading s a -> cast c (GStr s None a) = TStr s.
Proof. intros H. cbn [cast choose]. rewrite first_branch_plain_text by exact H. reflexivity. Qed.
(* ... also when it is JSON text that no alternative of the union accepts (e.g. an unrecognised object or null) *)
Theorem rejected_json_text_same c s j a : choose c j = CNone -> cast c (GStr s (Some j) a) = TStr s.
Proof. intros H. cbn [cast]. rewrite H. reflexivity. Qed.

(* ---- containers keep their shape ---- *)
Theorem list_shape c l : exists ts, cast c (GList l) = TList ts /\ length ts = length l.
Proof.
  cbn [cast]. pose proof (Typed.Collect.choose_list_shape c l) as S.
  destruct (choose c (GList l)); try contradiction; cbn [finish].
  - eexists; split; [reflexivity|]. unfold list_members. rewrite map_length, combine_length, map_length. lia.
  - eexists; split; [reflexivity|]. apply map_length.
Qed.
Theorem object_shape c d r :
  (exists d', cast c (GDict d r) = TGeneric d' /\ map fst d' = map fst d)
  \/ (cast c (GDict d r) = TFn (strip (GDict d r)) /\ fnb c (GDict d r) = true)
  \/ (exists r', cast c (GDict d r) = TProp r' /\ r = Some r' /\ (c_empty_plain c = true -> d <> [])).
Proof.
  cbn [cast]. unfold choose. destruct d as [|[k x] d].
  - destruct (c_empty_plain c) eqn:E.
    + left. eexists; split; reflexivity.
    + destruct r as [r|]; [|left; eexists; split; reflexivity].
      right; right. exists r. repeat split. discriminate.
  - destruct (fnb c (GDict ((k, x) :: d) r)) eqn:F.
    + right; left. split; reflexivity.
    + destruct r as [r|].
      * right; right. exists r. repeat split. discriminate.
      * left. eexists; split; [reflexivity|]. rewrite map_map. apply map_ext. intros [k' x']; reflexivity.
Qed.
Corollary empty_object_stays_empty funcs r : cast (spec_cfg funcs) (GDict [] r) = TGeneric [].
Proof. reflexivity. Qed.
