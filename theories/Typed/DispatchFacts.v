(* C14 -- theorems about the dispatch model (Typed/Dispatch.v). *)
From Coq Require Import List Bool NArith ZArith Lia.
From PV Require Import Base.Str Base.Value Resolver.Consts Resolver.Text Resolver.Resolve Resolver.Spec Typed.Dispatch.
Import ListNotations.
Local Open Scope N_scope.

Section Facts.
  Variable modelled : list (str * str).
  Variable class_accepts : str -> value -> bool.
  Variable generic_accepts : value -> bool.
  Notation disp := (dispatch_resource modelled class_accepts generic_accepts).
  Notation gen := (as_generic modelled generic_accepts).

  (* the generic validator never yields anything but GenericResource, and refuses modelled types while strict *)
  Lemma as_generic_class strict r d o : gen strict r d = Ok o -> o_class o = GENERIC /\ o_kept o = keys (props_of d).
  Proof.
    unfold as_generic. destruct (match type_of d with TyStr s => strict && is_modelled modelled s | TyMissing => false | TyOther => true end);
      [discriminate|]. destruct (generic_accepts r); [|discriminate]. intros H; inv H. split; reflexivity.
  Qed.
  Lemma as_generic_strict_modelled r d s c :
    type_of d = TyStr s -> class_of modelled s = Some c -> gen true r d = Err EValidation.
  Proof. intros Ht Hc. unfold as_generic, is_modelled. rewrite Ht, Hc. reflexivity. Qed.

  (* strict mode, modelled Type: the result is the dedicated class, never GenericResource *)
  Theorem dispatch_exact d s c o :
    type_of d = TyStr s -> class_of modelled s = Some c ->
    disp true (VDict d) = Ok o -> o_class o = c /\ class_accepts c (VDict d) = true.
  Proof.
    intros Ht Hc. unfold dispatch_resource. rewrite Ht, Hc.
    destruct (class_accepts c (VDict d)) eqn:E.
    - intros H; inv H. split; reflexivity.
    - rewrite (as_generic_strict_modelled _ _ _ _ Ht Hc). discriminate.
  Qed.

  Theorem dispatch_strict_rejects d s c :
    type_of d = TyStr s -> class_of modelled s = Some c -> class_accepts c (VDict d) = false ->
    disp true (VDict d) = Err EValidation.
  Proof.
    intros Ht Hc Hr. unfold dispatch_resource. rewrite Ht, Hc, Hr. exact (as_generic_strict_modelled _ _ _ _ Ht Hc).
  Qed.

  Theorem dispatch_strict_accepts d s c :
    type_of d = TyStr s -> class_of modelled s = Some c -> class_accepts c (VDict d) = true ->
    forall strict, disp strict (VDict d) = Ok {| o_class := c; o_kept := [] |}.
  Proof. intros Ht Hc Ha strict. unfold dispatch_resource. rewrite Ht, Hc, Ha. reflexivity. Qed.

  (* strict mode switched off: a modelled resource that its class refuses is downgraded (if GenericResource takes it) *)
  Theorem dispatch_nonstrict_downgrade d s c :
    type_of d = TyStr s -> class_of modelled s = Some c -> class_accepts c (VDict d) = false ->
    disp false (VDict d) =
      if generic_accepts (VDict d) then Ok {| o_class := GENERIC; o_kept := keys (props_of d) |} else Err EValidation.
  Proof.
    intros Ht Hc Hr. unfold dispatch_resource. rewrite Ht, Hc, Hr. unfold as_generic. rewrite Ht. reflexivity.
  Qed.

  (* any other Type string, or no Type at all: a generic resource with exactly the property keys of the definition *)
  Theorem dispatch_generic_keeps strict d :
    (type_of d = TyMissing \/ exists s, type_of d = TyStr s /\ class_of modelled s = None) ->
    disp strict (VDict d) =
      if generic_accepts (VDict d) then Ok {| o_class := GENERIC; o_kept := keys (props_of d) |} else Err EValidation.
  Proof.
    intros [Ht | (s & Ht & Hc)]; unfold dispatch_resource; rewrite Ht.
    - unfold as_generic. rewrite Ht. reflexivity.
    - rewrite Hc. unfold as_generic, is_modelled. rewrite Ht, Hc. rewrite andb_false_r. reflexivity.
  Qed.

  (* the only failure is a validation error; a Type that is not a string is one (finding F13, repaired) *)
  Theorem dispatch_errors strict r e : disp strict r = Err e -> e = EValidation.
  Proof.
    unfold dispatch_resource, as_generic. destruct r; try (intros H; inv H; reflexivity).
    destruct (type_of d); [| destruct (class_of modelled s); [destruct (class_accepts s0 (VDict d))|] |];
      repeat match goal with |- context [if ?b then _ else _] => destruct b end; intros H; inv H; reflexivity.
  Qed.
  Theorem dispatch_bad_type strict d : type_of d = TyOther -> disp strict (VDict d) = Err EValidation.
  Proof. intros Ht. unfold dispatch_resource. rewrite Ht. reflexivity. Qed.

  (* the class of the result is a function of the Type string alone, as long as the dedicated class accepts *)
  Theorem dispatch_class_by_type strict d d' s c o o' :
    type_of d = TyStr s -> type_of d' = TyStr s -> class_of modelled s = Some c ->
    class_accepts c (VDict d) = true -> class_accepts c (VDict d') = true ->
    disp strict (VDict d) = Ok o -> disp strict (VDict d') = Ok o' -> o_class o = c /\ o_class o' = c.
  Proof.
    intros Ht Ht' Hc Ha Ha'. rewrite (dispatch_strict_accepts _ _ _ Ht Hc Ha), (dispatch_strict_accepts _ _ _ Ht' Hc Ha').
    intros H H'; inv H; inv H'. split; reflexivity.
  Qed.
End Facts.

(* ---- filter ---- *)
Section FilterFacts.
  Variable bases : str -> list str.
  Theorem filter_by_type_iff allowed rs id p :
    In (id, p) (filter_by_type bases allowed rs) <->
    In (id, p) rs /\
    ((exists c, In (WClass c) allowed /\ (p_class p = c \/ In c (bases (p_class p)))) \/
     (exists s, In (WType s) allowed /\ p_type p = Some s)).
  Proof.
    unfold filter_by_type. rewrite filter_In. cbn [snd]. unfold keeps. rewrite existsb_exists.
    split; intros [Hin H]; split; try exact Hin.
    - destruct H as ([c|s] & Hw & Hk).
      + left. exists c. split; [exact Hw|]. unfold isinstance in Hk. apply orb_true_iff in Hk.
        destruct Hk as [Hk|Hk]; [left; apply str_eqb_spec; exact Hk | right; apply mem_str_In; exact Hk].
      + right. exists s. split; [exact Hw|]. destruct (p_type p) as [t|]; [|discriminate].
        apply str_eqb_spec in Hk. subst. reflexivity.
    - destruct H as [(c & Hw & Hk) | (s & Hw & Hk)].
      + exists (WClass c). split; [exact Hw|]. unfold isinstance. apply orb_true_iff.
        destruct Hk as [Hk|Hk]; [left; apply str_eqb_spec; exact Hk | right; apply mem_str_In; exact Hk].
      + exists (WType s). split; [exact Hw|]. rewrite Hk. apply str_eqb_refl.
  Qed.
  (* nothing is invented, order is kept, every logical id occurs at most as often as before *)
  Theorem filter_by_type_sub allowed rs : incl (filter_by_type bases allowed rs) rs.
  Proof. intros x H. apply filter_In in H. tauto. Qed.
  Theorem filter_by_type_nodup allowed rs : NoDup (keys rs) -> NoDup (keys (filter_by_type bases allowed rs)).
  Proof.
    unfold keys, filter_by_type. induction rs as [|[i p] rs IH]; simpl; [intros; constructor|].
    intros H. inv H. destruct (keeps bases allowed p); simpl; [|apply IH; assumption].
    constructor; [|apply IH; assumption]. intros C. apply H2. apply in_map_iff in C. destruct C as ([i' p'] & E & C).
    simpl in E; subst. apply filter_In in C. apply in_map_iff. exists (i, p'). split; [reflexivity | tauto].
  Qed.
  Theorem filter_by_type_empty rs : filter_by_type bases [] rs = [].
  Proof. unfold filter_by_type, keeps. induction rs as [|x rs IH]; simpl; [reflexivity | exact IH]. Qed.
End FilterFacts.

(* ---- resolve() leaves a fixed Type string where it is ---- *)
Lemma type_fixed_render t : type_fixed t = true -> forall ps, render_str ps t = t.
Proof.
  unfold type_fixed, render_str. destruct (ssm_key t); [discriminate|]. intros H ps.
  apply andb_true_iff in H. destruct H as [H _]. apply negb_true_iff in H. rewrite H. reflexivity.
Qed.
Lemma type_fixed_not_novalue t : type_fixed t = true -> is_novalue (VStr t) = false.
Proof.
  unfold type_fixed. destruct (ssm_key t); [discriminate|]. intros H.
  apply andb_true_iff in H. destruct H as [_ H]. apply negb_true_iff in H. exact H.
Qed.

Lemma rdict_keeps_type e t : type_fixed t = true ->
  forall d d', rdict e d = Ok d' -> lookup K_Type d = Some (VStr t) -> lookup K_Type d' = Some (VStr t).
Proof.
  intros Hf. induction d as [|[k x] d IH]; intros d' Hr Hl; [discriminate|].
  cbn [rdict] in Hr. fold (rdict e) in Hr.
  destruct (resolve e x) as [x'|] eqn:Ex; cbn [bind] in Hr; [|discriminate].
  destruct (rdict e d) as [ds|] eqn:Ed; cbn [bind] in Hr; [|discriminate].
  cbn [lookup] in Hl. destruct (str_eqb K_Type k) eqn:Ek.
  - inv Hl. cbn [resolve] in Ex. inv Ex. rewrite (type_fixed_render _ Hf) in Hr.
    rewrite (type_fixed_not_novalue _ Hf) in Hr. inv Hr. cbn [lookup]. rewrite Ek. reflexivity.
  - destruct (is_novalue x'); inv Hr; [apply IH; auto|]. cbn [lookup]. rewrite Ek. apply IH; auto.
Qed.

(* model_dump() of a resource has several keys (every declared field is dumped), so it is never taken for a function *)
Theorem resolve_keeps_type e t d r' :
  type_fixed t = true -> is_fn_dict d = false -> lookup K_Type d = Some (VStr t) ->
  resolve e (VDict d) = Ok r' -> exists d', r' = VDict d' /\ lookup K_Type d' = Some (VStr t).
Proof.
  intros Hf Hn Hl Hr. rewrite (resolve_dict_generic e d Hn) in Hr.
  destruct (rdict e d) as [d'|] eqn:Ed; cbn [bind] in Hr; [|discriminate]. inv Hr.
  exists d'. split; [reflexivity|]. eapply rdict_keeps_type; eauto.
Qed.

(* ---- expand_actions() leaves every scalar that is not under Action / NotAction where it is ---- *)
Section ExpandFacts.
  Variable ex : bool -> value -> res value.
  Lemma expand_scalar s : expand_obj ex (VStr s) = Ok (VStr s).
  Proof. reflexivity. Qed.

  Definition edict := fix go (d : list (str * value)) : res (list (str * value)) :=
    match d with
    | [] => Ok []
    | (k, x) :: xs =>
        x' <- match x with
              | VNull => Ok VNull
              | _ => if str_eqb k K_Action then ex false x
                     else if str_eqb k K_NotAction then ex true x
                     else expand_obj ex x
              end ;;
        xs' <- go xs ;; Ok ((k, x') :: xs')
    end.
  Lemma expand_dict d : expand_obj ex (VDict d) = (d' <- edict d ;; Ok (VDict d')).
  Proof. reflexivity. Qed.

  Lemma edict_keys d : forall d', edict d = Ok d' -> keys d' = keys d.
  Proof.
    induction d as [|[k x] d IH]; intros d' H; cbn [edict] in H; [inv H; reflexivity|].
    match type of H with bind ?a _ = _ => destruct a as [x'|] end; cbn [bind] in H; [|discriminate].
    destruct (edict d) as [ds|] eqn:Ed; cbn [bind] in H; [|discriminate]. inv H.
    unfold keys in *. simpl. f_equal. apply IH. reflexivity.
  Qed.

  Lemma edict_keeps_str key t : str_eqb key K_Action = false -> str_eqb key K_NotAction = false ->
    forall d d', edict d = Ok d' -> lookup key d = Some (VStr t) -> lookup key d' = Some (VStr t).
  Proof.
    intros Na Nn. induction d as [|[k x] d IH]; intros d' H Hl; [discriminate|].
    cbn [lookup] in Hl. destruct (str_eqb key k) eqn:Ek.
    - inv Hl. apply str_eqb_spec in Ek. subst k. cbn [edict] in H. rewrite Na, Nn in H.
      cbn [expand_obj bind] in H. destruct (edict d) as [ds|]; cbn [bind] in H; [|discriminate]. inv H.
      cbn [lookup]. rewrite str_eqb_refl. reflexivity.
    - cbn [edict] in H. match type of H with bind ?a _ = _ => destruct a as [x'|] end; cbn [bind] in H; [|discriminate].
      destruct (edict d) as [ds|] eqn:Ed; cbn [bind] in H; [|discriminate]. inv H.
      cbn [lookup]. rewrite Ek. apply IH; auto.
  Qed.

  Theorem expand_keeps_type d r' t :
    lookup K_Type d = Some (VStr t) -> expand_obj ex (VDict d) = Ok r' ->
    exists d', r' = VDict d' /\ lookup K_Type d' = Some (VStr t) /\ keys d' = keys d.
  Proof.
    intros Hl H. rewrite expand_dict in H. destruct (edict d) as [d'|] eqn:Ed; cbn [bind] in H; [|discriminate]. inv H.
    exists d'. split; [reflexivity|]. split; [|apply edict_keys; exact Ed].
    eapply edict_keeps_str; eauto; vm_compute; reflexivity.
  Qed.
End ExpandFacts.

(* ---- hence both transformations preserve the class chosen by the dispatch ---- *)
Section Preserved.
  Variable modelled : list (str * str).
  Variable class_accepts : str -> value -> bool.
  Variable generic_accepts : value -> bool.
  Notation disp := (dispatch_resource modelled class_accepts generic_accepts).

  Lemma type_of_str d t : lookup K_Type d = Some (VStr t) -> type_of d = TyStr t.
  Proof. unfold type_of. intros ->. reflexivity. Qed.

  (* strict mode: if the dumped resource [d] of a modelled type is resolved to [r'] and the re-validation of r' succeeds,
     the class is again the class of that type *)
  Theorem preserved_by_resolve e d t c r' o :
    lookup K_Type d = Some (VStr t) -> class_of modelled t = Some c -> type_fixed t = true -> is_fn_dict d = false ->
    resolve e (VDict d) = Ok r' -> disp true r' = Ok o -> o_class o = c.
  Proof.
    intros Hl Hc Hf Hn Hr Hd. destruct (resolve_keeps_type e t d r' Hf Hn Hl Hr) as (d' & -> & Hl').
    exact (proj1 (dispatch_exact modelled class_accepts generic_accepts d' t c o (type_of_str _ _ Hl') Hc Hd)).
  Qed.

  Theorem preserved_by_expand ex d t c r' o :
    lookup K_Type d = Some (VStr t) -> class_of modelled t = Some c ->
    expand_obj ex (VDict d) = Ok r' -> disp true r' = Ok o -> o_class o = c.
  Proof.
    intros Hl Hc Hr Hd. destruct (expand_keeps_type ex d r' t Hl Hr) as (d' & -> & Hl' & _).
    exact (proj1 (dispatch_exact modelled class_accepts generic_accepts d' t c o (type_of_str _ _ Hl') Hc Hd)).
  Qed.

  (* a generic resource stays generic: an unmodelled Type string that resolution leaves alone is still unmodelled *)
  Theorem generic_preserved_by_expand ex strict d t r' o :
    lookup K_Type d = Some (VStr t) -> class_of modelled t = None ->
    expand_obj ex (VDict d) = Ok r' -> disp strict r' = Ok o -> o_class o = GENERIC.
  Proof.
    intros Hl Hc Hr Hd. destruct (expand_keeps_type ex d r' t Hl Hr) as (d' & -> & Hl' & _).
    rewrite (dispatch_generic_keeps modelled class_accepts generic_accepts strict d') in Hd
      by (right; exists t; split; [apply type_of_str; exact Hl' | exact Hc]).
    destruct (generic_accepts (VDict d')); inv Hd. reflexivity.
  Qed.
End Preserved.
