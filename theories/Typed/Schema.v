(* Vocabulary of the generated schema table (gen/Schema.v is written in these terms by harness/gen_tables.py:gen_schema
   from the LIVE pydantic classes of pycfmodel): field types, class schemas, the resource union. *)
From Coq Require Import List Bool NArith String.
From PV Require Import Base.Str Base.Value.
Import ListNotations.

(* Leaves: everything that is validated by ONE validator call (pydantic-core scalar validators, pycfmodel's own
   plain-function validators, the opaque containers).  A validated leaf is carried as the [value] that model_dump()
   returns for it. *)
Inductive leaf :=
| LStr            (* str *)
| LStrNum         (* str under ConfigDict(coerce_numbers_to_str=True): class Tag *)
| LInt            (* int *)
| LPosInt         (* pydantic.PositiveInt *)
| LIntOrStr       (* Union[int, str] (smart mode) *)
| LBool           (* bool (pydantic lax bool) *)
| LSemiBool       (* pycfmodel.model.types.SemiStrictBool *)
| LDate           (* datetime.date *)
| LDatetime       (* datetime.datetime *)
| LNet4           (* LooseIPv4Network *)
| LNet6           (* LooseIPv6Network *)
| LBinary         (* Annotated[bytes, BeforeValidator(validate_binary)] *)
| LLit (s : str)  (* Literal["..."] *)
| LFn             (* FunctionDict: an object with exactly one key, an implemented intrinsic function *)
| LGeneric        (* pycfmodel.model.generic.Generic (extra = allow, every member re-cast: property C18) *)
| LAny            (* typing.Any *)
| LDictAny        (* typing.Dict without parameters *)
| LListAny.       (* typing.List without parameters *)

Inductive ftype :=
| TLeaf (k : leaf)
| TList (t : ftype)
| TDictOf (t : ftype)                (* Dict[str, t] *)
| TUnionLR (ts : list ftype)         (* Annotated[Union[...], Field(union_mode="left_to_right")] *)
| TUnionSmart (ts : list ftype)      (* plain Union[...]: pydantic "smart" mode *)
| TResolvable (t : ftype)            (* pycfmodel.model.types.Resolvable[t] = left-to-right Union[t, FunctionDict] *)
| TModel (name : str)                (* a pydantic model class of the table *)
| TResource                          (* AllResourcesType: Union[ResourceModels (discriminator Type), GenericResource], left to right *)
| TOpt (t : ftype).                  (* Optional[t] *)

Notation TStr := (TLeaf LStr).
Notation TStrNum := (TLeaf LStrNum).
Notation TInt := (TLeaf LInt).
Notation TPosInt := (TLeaf LPosInt).
Notation TIntOrStr := (TLeaf LIntOrStr).
Notation TBool := (TLeaf LBool).
Notation TSemiBool := (TLeaf LSemiBool).
Notation TDate := (TLeaf LDate).
Notation TDatetime := (TLeaf LDatetime).
Notation TNet4 := (TLeaf LNet4).
Notation TNet6 := (TLeaf LNet6).
Notation TBinary := (TLeaf LBinary).
Notation TFn := (TLeaf LFn).
Notation TGeneric := (TLeaf LGeneric).
Notation TAny := (TLeaf LAny).
Notation TDictAny := (TLeaf LDictAny).
Notation TListAny := (TLeaf LListAny).

Inductive extra_mode := Forbid | Allow | Ignore.
Inductive fdefault := DRequired | DNone | DEmptyDict.
(* pycfmodel's own field validators, recognised by the translator by function name + mode *)
Inductive fhook :=
| HNone
| HEffect      (* Statement.allowed_values_for_effect_and_capitalized, mode after *)
| HTagValue    (* Tag.coerce_bools_to_strings, mode before *)
| HCheckType.  (* GenericResource.check_type, mode before *)
(* pycfmodel's own model validators (mode before) *)
Inductive chook :=
| CNone
| CRemoveColon.   (* StatementCondition.remove_colon *)

Record field := {
  f_name : str;
  f_default : fdefault;
  f_hook : fhook;
  f_type : ftype;
}.
Record cschema := {
  c_name : str;
  c_bases : list str;        (* names of the classes of the MRO after the class itself (..., BaseModel, object) *)
  c_extra : extra_mode;
  c_hook : chook;
  c_private : list str;      (* private attributes (never dumped, never validated) *)
  c_custom_eq : bool;        (* the class defines its own __eq__ *)
  c_fields : list field;     (* declaration order = order of model_dump() *)
}.

Definition mkf (n : string) (d : fdefault) (h : fhook) (t : ftype) : field :=
  {| f_name := of_string n; f_default := d; f_hook := h; f_type := t |}.
Definition mkc (n : string) (bases : list string) (e : extra_mode) (h : chook) (priv : list string) (ceq : bool)
               (fs : list field) : cschema :=
  {| c_name := of_string n; c_bases := map of_string bases; c_extra := e; c_hook := h;
     c_private := map of_string priv; c_custom_eq := ceq; c_fields := fs |}.
Definition lit (s : string) : ftype := TLeaf (LLit (of_string s)).
Definition model (s : string) : ftype := TModel (of_string s).

Definition find_class (S : list cschema) (n : str) : option cschema :=
  find (fun c => str_eqb (c_name c) n) S.
Definition find_field (fs : list field) (n : str) : option field :=
  find (fun f => str_eqb (f_name f) n) fs.
Definition is_required (f : field) : bool := match f_default f with DRequired => true | _ => false end.

Definition leaf_eqb (a b : leaf) : bool :=
  match a, b with
  | LStr, LStr | LStrNum, LStrNum | LInt, LInt | LPosInt, LPosInt | LIntOrStr, LIntOrStr | LBool, LBool
  | LSemiBool, LSemiBool | LDate, LDate | LDatetime, LDatetime | LNet4, LNet4 | LNet6, LNet6 | LBinary, LBinary
  | LFn, LFn | LGeneric, LGeneric | LAny, LAny | LDictAny, LDictAny | LListAny, LListAny => true
  | LLit s, LLit s' => str_eqb s s'
  | _, _ => false
  end.

Fixpoint ftype_eqb (a b : ftype) {struct a} : bool :=
  match a, b with
  | TLeaf k, TLeaf k' => leaf_eqb k k'
  | TList t, TList t' | TDictOf t, TDictOf t' | TResolvable t, TResolvable t' | TOpt t, TOpt t' => ftype_eqb t t'
  | TUnionLR ts, TUnionLR ts' | TUnionSmart ts, TUnionSmart ts' =>
      (fix go (l l' : list ftype) : bool :=
         match l, l' with
         | [], [] => true
         | x :: r, y :: r' => ftype_eqb x y && go r r'
         | _, _ => false
         end) ts ts'
  | TModel n, TModel n' => str_eqb n n'
  | TResource, TResource => true
  | _, _ => false
  end.

(* scalar leaves (a CloudFormation template may put an intrinsic function in their place) *)
Definition scalar_leaf (k : leaf) : bool :=
  match k with
  | LStr | LStrNum | LInt | LPosInt | LIntOrStr | LBool | LSemiBool | LDate | LDatetime | LNet4 | LNet6 | LBinary => true
  | _ => false
  end.

(* the scalar leaves of a type that are NOT under a Resolvable wrapper *)
Fixpoint bare_scalars (t : ftype) : list leaf :=
  match t with
  | TLeaf k => if scalar_leaf k then [k] else []
  | TList t' | TDictOf t' | TOpt t' => bare_scalars t'
  | TUnionLR ts | TUnionSmart ts => flat_map bare_scalars ts
  | TResolvable (TLeaf _) => []
  | TResolvable t' => bare_scalars t'
  | TModel _ | TResource => []
  end.

(* every leaf kind occurring in a type *)
Fixpoint leaves_of (t : ftype) : list leaf :=
  match t with
  | TLeaf k => [k]
  | TList t' | TDictOf t' | TOpt t' => leaves_of t'
  | TResolvable t' => leaves_of t' ++ [LFn]
  | TUnionLR ts | TUnionSmart ts => flat_map leaves_of ts
  | TModel _ | TResource => []
  end.
Fixpoint models_of (t : ftype) : list str :=
  match t with
  | TLeaf _ | TResource => []
  | TList t' | TDictOf t' | TOpt t' | TResolvable t' => models_of t'
  | TUnionLR ts | TUnionSmart ts => flat_map models_of ts
  | TModel n => [n]
  end.
