(* Finite facts about the schema table generated from the live classes (gen/PdPaths.v), re-proved on every run. *)
From Coq Require Import List Bool String.
From PV Require Import Typed.PdSpec Typed.PdFull.
From PVGen Require PdPaths GenericTables.
Import ListNotations.
Local Open Scope string_scope.

(* the document-typed paths of the live schema: every generated row is a row of FULL_TABLE (the hand-written rows of the 18 known
   classes + a walking row per new class), every hand-written row is still generated unchanged (no known class lost or changed a
   document-typed path or its accessor override), and a NEW class does not override the accessor *)
Lemma pd_table_is_spec :
  forallb (fun row => existsb (row_eqb row) (map to_generated FULL_TABLE)) PdPaths.PD_TABLE = true /\
  forallb (fun r => existsb (row_eqb (to_generated r)) PdPaths.PD_TABLE) SPEC_TABLE = true /\
  forallb (fun row => negb (fst (snd row))) EXTRA_ROWS = true.
Proof. split; [|split]; vm_compute; reflexivity. Qed.

Lemma spec_table_covered : forallb covered FULL_TABLE = true.
Proof. vm_compute. reflexivity. Qed.

Theorem typed_paths :
  forall t ov paths, In (t, (ov, paths)) PdPaths.PD_TABLE ->
  exists r, In r FULL_TABLE /\ c_type r = t /\ c_paths r = paths /\ ov = is_override (c_acc r) /\
            forallb (path_covered r) paths = true.
Proof.
  intros t ov paths H. destruct pd_table_is_spec as [F _]. rewrite forallb_forall in F. specialize (F _ H).
  apply existsb_exists in F. destruct F as (g & Hg & E). apply row_eqb_eq in E. subst g.
  apply in_map_iff in Hg. destruct Hg as (r & E & Hr).
  exists r. unfold to_generated in E. inversion E; subst. repeat split; auto.
  pose proof spec_table_covered as C. rewrite forallb_forall in C. apply (C r Hr).
Qed.

(* the known classes are all still there, with the paths and the override flag this development was written against *)
Theorem known_rows_unchanged : forall r, In r SPEC_TABLE -> In (to_generated r) PdPaths.PD_TABLE.
Proof.
  intros r Hr. destruct pd_table_is_spec as (_ & F & _). rewrite forallb_forall in F. specialize (F _ Hr).
  apply existsb_exists in F. destruct F as (g & Hg & E). apply row_eqb_eq in E. subst g. exact Hg.
Qed.

(* generic.AuxType: the alternatives and their order (the guards are pinned by Typed/AuxCheck.v for C18);
   Properties union order *)
Definition AUX_ORDER_SPEC : list string :=
  ["FunctionDict"; "Properties"; "BoolOrList"; "IntOrList"; "DateOrList"; "DatetimeOrList"; "IPOrList"; "StrOrList"].
Definition PROPERTIES_SPEC : list string :=
  ["Policy"; "PolicyDocument"; "SecurityGroupEgressProp"; "SecurityGroupIngressProp"; "Statement"; "StatementCondition"; "Tag"].
Lemma aux_order_is_spec : map fst GenericTables.AUX_BRANCHES = AUX_ORDER_SPEC.
Proof. vm_compute. reflexivity. Qed.
Lemma properties_order_is_spec : GenericTables.PROPERTIES_ORDER = PROPERTIES_SPEC.
Proof. vm_compute. reflexivity. Qed.
