(* Finite facts about the schema table generated from the live classes (gen/PdPaths.v), re-proved on every run. *)
From Coq Require Import List Bool String.
From PV Require Import Typed.PdSpec.
From PVGen Require PdPaths GenericTables.
Import ListNotations.
Local Open Scope string_scope.

(* the document-typed paths of the live schema are exactly the ones this development knows about *)
Lemma pd_table_is_spec : PdPaths.PD_TABLE = map to_generated SPEC_TABLE.
Proof. vm_compute. reflexivity. Qed.

Lemma spec_table_covered : forallb covered SPEC_TABLE = true.
Proof. vm_compute. reflexivity. Qed.

Theorem typed_paths :
  forall t ov paths, In (t, (ov, paths)) PdPaths.PD_TABLE ->
  exists r, In r SPEC_TABLE /\ c_type r = t /\ c_paths r = paths /\ ov = is_override (c_acc r) /\
            forallb (path_covered r) paths = true.
Proof.
  intros t ov paths H. rewrite pd_table_is_spec in H. apply in_map_iff in H. destruct H as (r & E & Hr).
  exists r. unfold to_generated in E. inversion E; subst. repeat split; auto.
  pose proof spec_table_covered as C. rewrite forallb_forall in C. apply (C r Hr).
Qed.

(* generic.AuxType: the alternatives and their order (the guards are pinned by Typed/AuxCheck.v for C18);
   Properties union order *)
Definition AUX_ORDER_SPEC : list string :=
  ["FunctionDict"; "Properties"; "BoolOrList"; "IntOrList"; "DateOrList"; "DatetimeOrList"; "IPOrList"; "StrOrList"].
Definition PROPERTIES_SPEC : list string :=
  ["Policy"; "PolicyDocument"; "SecurityGroupEgressProp"; "SecurityGroupIngressProp"; "Statement"; "StatementCondition"; "Tag"].
Lemma aux_order_is_spec : map fst GenericTables.AUX_BRANCHES = AUX_ORDER_SPEC.
Proof. vm_compute. reflexivity. Qed.
Lemma properties_order_is_spec : GenericTables.PROPERTIES_ORDER = PROPERTIES_SPEC.
Proof. vm_compute. reflexivity. Qed.
