(* Finite facts about the schema table generated from the live classes (gen/PdPaths.v), re-proved on every run. *)
From Coq Require Import List Bool String.
From PV Require Import Typed.PdSpec Typed.PdFull.
From PVGen Require PdPaths GenericTables.
Import ListNotations.
Local Open Scope string_scope.

(* the document-typed paths of the live schema: every generated row is described by a row of FULL_TABLE (the hand-written rows of
   the 18 known classes + a walking row per new class), every hand-written row still describes a generated row (no known class lost
   or changed a document-capable path, or its accessor override where it has such paths), and a NEW class with document-capable paths
   does not override the accessor *)
Lemma pd_table_is_spec :
  forallb (fun row => existsb (fun r => row_compat r row) FULL_TABLE) PdPaths.PD_TABLE = true /\
  forallb (fun r => existsb (row_compat r) PdPaths.PD_TABLE) SPEC_TABLE = true /\
  forallb (fun row => negb (fst (snd row)) || match snd (snd row) with [] => true | _ => false end) EXTRA_ROWS = true.
Proof. split; [|split]; vm_compute; reflexivity. Qed.

Lemma spec_table_covered : forallb covered FULL_TABLE = true.
Proof. vm_compute. reflexivity. Qed.

Theorem typed_paths :
  forall t ov paths, In (t, (ov, paths)) PdPaths.PD_TABLE ->
  exists r, In r FULL_TABLE /\ c_type r = t /\ c_paths r = paths /\ (ov = is_override (c_acc r) \/ paths = []) /\
            forallb (path_covered r) paths = true.
Proof.
  intros t ov paths H. destruct pd_table_is_spec as [F _]. rewrite forallb_forall in F. specialize (F _ H).
  apply existsb_exists in F. destruct F as (r & Hr & E). apply row_compat_spec in E. destruct E as (E1 & E2 & E3).
  exists r. split; [exact Hr|]. split; [exact E1|]. split; [exact E2|]. split; [exact E3|].
  pose proof spec_table_covered as C. rewrite forallb_forall in C. specialize (C r Hr). unfold covered in C. rewrite E2 in C. exact C.
Qed.

(* the known classes are all still there, with the paths (and, where there are any, the override flag) this development was
   written against *)
Theorem known_rows_unchanged : forall r, In r SPEC_TABLE ->
  exists ov, In (c_type r, (ov, c_paths r)) PdPaths.PD_TABLE /\ (ov = is_override (c_acc r) \/ c_paths r = []).
Proof.
  intros r Hr. destruct pd_table_is_spec as (_ & F & _). rewrite forallb_forall in F. specialize (F _ Hr).
  apply existsb_exists in F. destruct F as ([t [ov paths]] & Hg & E). apply row_compat_spec in E. destruct E as (E1 & E2 & E3).
  exists ov. subst t paths. split; [exact Hg | exact E3].
Qed.

(* generic.AuxType: the alternatives and their order (the guards are pinned by Typed/AuxCheck.v for C18);
   Properties union order *)
Definition AUX_ORDER_SPEC : list string :=
  ["FunctionDict"; "Properties"; "BoolOrList"; "IntOrList"; "DateOrList"; "DatetimeOrList"; "IPOrList"; "StrOrList"].
Definition PROPERTIES_SPEC : list string :=
  ["Policy"; "PolicyDocument"; "SecurityGroupEgressProp"; "SecurityGroupIngressProp"; "Statement"; "StatementCondition"; "Tag"].
Lemma aux_order_is_spec : map fst GenericTables.AUX_BRANCHES = AUX_ORDER_SPEC.
Proof. vm_compute. reflexivity. Qed.
Lemma properties_order_is_spec : GenericTables.PROPERTIES_ORDER = PROPERTIES_SPEC.
Proof. vm_compute. reflexivity. Qed.
