(* Finite facts about the schema table generated from the live classes (gen/PdPaths.v), re-proved on every run. *)
From Coq Require Import List Bool String.
From PV Require Import Typed.PdSpec Typed.PdFull.
From PVGen Require PdPaths GenericTables.
Import ListNotations.
Local Open Scope string_scope.

(* the document-capable paths of the live schema: every generated row is described by its row of FULL_TABLE (PdFull.full_row: the
   hand-written row for a class with an accessor override, a walking row with the LIVE paths otherwise), and every class this
   development was written against is still modelled.  What can fail here: a class with an override gained or lost a
   document-capable path (the override would not read it); a walking class, known or new, started to override the accessor while
   it has such paths; a known class disappeared. *)
Lemma pd_table_is_spec :
  forallb (fun row => row_compat (full_row row) row) PdPaths.PD_TABLE = true /\
  forallb (fun r => existsb (fun row => String.eqb (c_type r) (fst row)) PdPaths.PD_TABLE) SPEC_TABLE = true.
Proof. split; vm_compute; reflexivity. Qed.

Lemma spec_table_covered : forallb covered FULL_TABLE = true.
Proof. vm_compute. reflexivity. Qed.

Theorem typed_paths :
  forall t ov paths, In (t, (ov, paths)) PdPaths.PD_TABLE ->
  exists r, In r FULL_TABLE /\ c_type r = t /\ c_paths r = paths /\ (ov = is_override (c_acc r) \/ paths = []) /\
            forallb (path_covered r) paths = true.
Proof.
  intros t ov paths H. destruct pd_table_is_spec as [F _]. rewrite forallb_forall in F. specialize (F _ H).
  apply row_compat_spec in F. destruct F as (E1 & E2 & E3).
  assert (Hr : In (full_row (t, (ov, paths))) FULL_TABLE) by (unfold FULL_TABLE; apply in_map; exact H).
  exists (full_row (t, (ov, paths))). split; [exact Hr|]. split; [exact E1|]. split; [exact E2|]. split; [exact E3|].
  pose proof spec_table_covered as C. rewrite forallb_forall in C. specialize (C _ Hr). unfold covered in C. rewrite E2 in C. exact C.
Qed.

(* the classes this development was written against are all still modelled *)
Theorem known_rows_unchanged : forall r, In r SPEC_TABLE -> exists ov paths, In (c_type r, (ov, paths)) PdPaths.PD_TABLE.
Proof.
  intros r Hr. destruct pd_table_is_spec as (_ & F). rewrite forallb_forall in F. specialize (F _ Hr).
  apply existsb_exists in F. destruct F as ([t [ov paths]] & Hg & E). apply String.eqb_eq in E. simpl in E. subst t.
  exists ov, paths. exact Hg.
Qed.
(* ... and one with an accessor override still has exactly the document-capable paths its override reads *)
Theorem override_rows_pinned : forall t ov paths r, In (t, (ov, paths)) PdPaths.PD_TABLE -> spec_row t = Some r -> c_acc r <> AWalk ->
  paths = c_paths r.
Proof.
  intros t ov paths r H Hs Ha. destruct pd_table_is_spec as [F _]. rewrite forallb_forall in F. specialize (F _ H).
  apply row_compat_spec in F. destruct F as (_ & E2 & _). unfold full_row in E2. simpl in E2. rewrite Hs in E2.
  destruct (c_acc r) eqn:A; [contradiction Ha; reflexivity | symmetry; exact E2 | symmetry; exact E2].
Qed.

(* generic.AuxType: the alternatives and their order (the guards are pinned by Typed/AuxCheck.v for C18);
   Properties union order *)
Definition AUX_ORDER_SPEC : list string :=
  ["FunctionDict"; "Properties"; "BoolOrList"; "IntOrList"; "DateOrList"; "DatetimeOrList"; "IPOrList"; "StrOrList"].
Definition PROPERTIES_SPEC : list string :=
  ["Policy"; "PolicyDocument"; "SecurityGroupEgressProp"; "SecurityGroupIngressProp"; "Statement"; "StatementCondition"; "Tag"].
Lemma aux_order_is_spec : map fst GenericTables.AUX_BRANCHES = AUX_ORDER_SPEC.
Proof. vm_compute. reflexivity. Qed.
Lemma properties_order_is_spec : GenericTables.PROPERTIES_ORDER = PROPERTIES_SPEC.
Proof. vm_compute. reflexivity. Qed.
