(* C13 for the 18 MODELLED resource classes: where the schema can hold a policy document and what each class's
   policy_documents accessor reads.  The schema side (c_paths, override flag) is re-generated from the live classes
   on every run (gen/PdPaths.v) and must be EQUAL to this table (Typed/PdCheck.v); the accessor side is hand-written
   from the per-class overrides and tied by the correspondence check of each class. *)
From Coq Require Import List Bool Ascii String.
Import ListNotations.
Local Open Scope string_scope.

Inductive accessor :=
| AWalk                                         (* Resource.policy_documents: every set field of Properties is searched *)
| APolicies (f : string)                        (* override: the named wrappers in the list field f *)
| ADoc (f : string) (name_from : option string) (* override: the document in field f, named by the text of another field *).

Record crow := { c_type : string; c_acc : accessor; c_dedicated : list string; c_paths : list (string * string) }.

Definition is_override (a : accessor) : bool := match a with AWalk => false | _ => true end.

Definition SPEC_TABLE : list crow := [
  {| c_type := "AWS::EC2::VPCEndpoint"; c_acc := ADoc "PolicyDocument" None; c_dedicated := [];
     c_paths := [("PolicyDocument", "Doc")] |};
  {| c_type := "AWS::Elasticsearch::Domain"; c_acc := AWalk; c_dedicated := [];
     c_paths := [("AccessPolicies", "Doc"); ("AdvancedOptions", "Generic"); ("AdvancedSecurityOptions", "Generic");
                 ("CognitoOptions", "Generic"); ("DomainEndpointOptions", "Generic"); ("EBSOptions", "Generic");
                 ("ElasticsearchClusterConfig", "Generic"); ("EncryptionAtRestOptions", "Generic");
                 ("LogPublishingOptions", "Generic"); ("NodeToNodeEncryptionOptions", "Generic");
                 ("SnapshotOptions", "Generic"); ("VPCOptions", "Generic")] |};
  {| c_type := "AWS::IAM::Group"; c_acc := APolicies "Policies"; c_dedicated := [];
     c_paths := [("Policies[]", "Policy")] |};
  {| c_type := "AWS::IAM::ManagedPolicy"; c_acc := ADoc "PolicyDocument" (Some "ManagedPolicyName"); c_dedicated := [];
     c_paths := [("PolicyDocument", "Doc")] |};
  {| c_type := "AWS::IAM::Policy"; c_acc := ADoc "PolicyDocument" (Some "PolicyName"); c_dedicated := [];
     c_paths := [("PolicyDocument", "Doc")] |};
  (* the trust policy is exposed by assume_role_as_optionally_named_policy_document_list, not by policy_documents *)
  {| c_type := "AWS::IAM::Role"; c_acc := APolicies "Policies"; c_dedicated := ["AssumeRolePolicyDocument"];
     c_paths := [("AssumeRolePolicyDocument", "Doc"); ("Policies[]", "Policy")] |};
  {| c_type := "AWS::IAM::User"; c_acc := APolicies "Policies"; c_dedicated := [];
     c_paths := [("Policies[]", "Policy")] |};
  {| c_type := "AWS::KMS::Key"; c_acc := AWalk; c_dedicated := [];
     c_paths := [("KeyPolicy", "Doc")] |};
  {| c_type := "AWS::OpenSearchService::Domain"; c_acc := AWalk; c_dedicated := [];
     c_paths := [("AccessPolicies", "Doc"); ("AdvancedOptions", "Generic"); ("AdvancedSecurityOptions", "Generic");
                 ("ClusterConfig", "Generic"); ("CognitoOptions", "Generic"); ("DomainEndpointOptions", "Generic");
                 ("EBSOptions", "Generic"); ("EncryptionAtRestOptions", "Generic"); ("LogPublishingOptions", "Generic");
                 ("NodeToNodeEncryptionOptions", "Generic"); ("SnapshotOptions", "Generic"); ("VPCOptions", "Generic")] |};
  {| c_type := "AWS::RDS::DBSecurityGroup"; c_acc := AWalk; c_dedicated := []; c_paths := [] |};
  {| c_type := "AWS::RDS::DBSecurityGroupIngress"; c_acc := AWalk; c_dedicated := []; c_paths := [] |};
  {| c_type := "AWS::S3::Bucket"; c_acc := AWalk; c_dedicated := [];
     c_paths := [("AccelerateConfiguration", "Generic"); ("AnalyticsConfigurations[]", "Generic");
                 ("BucketEncryption", "Generic"); ("CorsConfiguration", "Generic");
                 ("IntelligentTieringConfigurations[]", "Generic"); ("InventoryConfigurations[]", "Generic");
                 ("LifecycleConfiguration", "Generic"); ("LoggingConfiguration", "Generic");
                 ("MetricsConfigurations[]", "Generic"); ("NotificationConfiguration", "Generic");
                 ("ObjectLockConfiguration", "Generic"); ("OwnershipControls", "Generic");
                 ("PublicAccessBlockConfiguration", "Generic"); ("ReplicationConfiguration", "Generic");
                 ("VersioningConfiguration", "Generic"); ("WebsiteConfiguration", "Generic")] |};
  {| c_type := "AWS::S3::BucketPolicy"; c_acc := ADoc "PolicyDocument" None; c_dedicated := [];
     c_paths := [("PolicyDocument", "Doc")] |};
  {| c_type := "AWS::EC2::SecurityGroup"; c_acc := AWalk; c_dedicated := []; c_paths := [] |};
  {| c_type := "AWS::EC2::SecurityGroupEgress"; c_acc := AWalk; c_dedicated := []; c_paths := [] |};
  {| c_type := "AWS::EC2::SecurityGroupIngress"; c_acc := AWalk; c_dedicated := []; c_paths := [] |};
  {| c_type := "AWS::SNS::TopicPolicy"; c_acc := ADoc "PolicyDocument" None; c_dedicated := [];
     c_paths := [("PolicyDocument", "Doc")] |};
  {| c_type := "AWS::SQS::QueuePolicy"; c_acc := ADoc "PolicyDocument" None; c_dedicated := [];
     c_paths := [("PolicyDocument", "Doc")] |}
].

Definition to_generated (r : crow) : string * (bool * list (string * string)) :=
  (c_type r, (is_override (c_acc r), c_paths r)).

Fixpoint has_dot (s : string) : bool :=
  match s with
  | EmptyString => false
  | String c s' => if Ascii.eqb c "."%char then true else has_dot s'
  end.
Definition in_strings (s : string) (l : list string) : bool := existsb (String.eqb s) l.

(* a schema path that can hold a document is reached by the class's accessor (or by its dedicated accessor):
   - the walking accessor looks at every top-level field (documents, lists, Generic objects) but not inside other typed
     sub-models;
   - an overriding accessor must read every document-typed path itself, and the class must have no Generic field
     (documents embedded there would not be searched). *)
Definition path_covered (r : crow) (pk : string * string) : bool :=
  let '(p, k) := pk in
  match c_acc r with
  | AWalk => negb (has_dot p)
  | APolicies f =>
      if String.eqb k "Policy" then String.eqb p (f ++ "[]")
      else if String.eqb k "Doc" then in_strings p (c_dedicated r) else false
  | ADoc f _ =>
      if String.eqb k "Doc" then String.eqb p f || in_strings p (c_dedicated r) else false
  end.
Definition covered (r : crow) : bool := forallb (path_covered r) (c_paths r).
