(* C14 -- the algebra of the dispatch model (Typed/Dispatch.v):
     1. the complete decision table of [dispatch_resource] as one equation, and what follows from it;
     2. the algebra of resources_filtered_by_type (union, idempotence, commutation, order, string filter versus class filter);
     3. the single-class filters partition the resources;
     4. any finite sequence of resolve / expand_actions steps keeps the Type literal, hence (strict mode) every class, hence
        filters commute with such sequences;
     5. facts about the LIVE table (gen/Schema.v) that do not depend on how many types are modelled.
   Everything about pydantic's engine stays a Section variable ([class_accepts], [generic_accepts]). *)
From Coq Require Import List Bool NArith ZArith Lia Permutation.
From PV Require Import Base.Str Base.Value Resolver.Consts Resolver.Text Resolver.Resolve Resolver.Spec Resolver.Template
                       Typed.Schema Typed.Dispatch Typed.DispatchFacts Typed.SchemaTable Typed.SchemaChecks Typed.DispatchTable.
From PVGen Require Import Schema.
Import ListNotations.
Local Open Scope N_scope.

(* ================================================================================================================== *)
(* generic list facts used below                                                                                      *)
(* ================================================================================================================== *)
Inductive subseq {A : Type} : list A -> list A -> Prop :=
| sub_nil : subseq [] []
| sub_keep x l' l : subseq l' l -> subseq (x :: l') (x :: l)
| sub_drop x l' l : subseq l' l -> subseq l' (x :: l).

Lemma subseq_refl {A} (l : list A) : subseq l l.
Proof. induction l as [|x l IH]; constructor; exact IH. Qed.
Lemma subseq_nil_l {A} (l : list A) : subseq [] l.
Proof. induction l as [|x l IH]; constructor; exact IH. Qed.
Lemma subseq_filter {A} (f : A -> bool) (l : list A) : subseq (filter f l) l.
Proof. induction l as [|x l IH]; simpl; [constructor|]. destruct (f x); constructor; exact IH. Qed.
Lemma subseq_map {A B} (g : A -> B) (l' l : list A) : subseq l' l -> subseq (map g l') (map g l).
Proof. intros H. induction H as [|x l' l H IH|x l' l H IH]; simpl; constructor; exact IH. Qed.
Lemma subseq_In {A} (l' l : list A) x : subseq l' l -> In x l' -> In x l.
Proof.
  intros H. induction H as [|y l' l H IH|y l' l H IH]; simpl; [tauto| |].
  - intros [E|Hi]; [left; exact E | right; apply IH; exact Hi].
  - intros Hi. right. apply IH. exact Hi.
Qed.
Lemma subseq_NoDup {A} (l' l : list A) : subseq l' l -> NoDup l -> NoDup l'.
Proof.
  intros H. induction H as [|y l' l H IH|y l' l H IH]; intros Hn; [constructor| |].
  - apply NoDup_cons_iff in Hn. destruct Hn as [Hy Hn]. constructor; [|apply IH; exact Hn].
    intros C. apply (subseq_In _ _ _ H) in C. contradiction.
  - apply NoDup_cons_iff in Hn. destruct Hn as [_ Hn]. apply IH. exact Hn.
Qed.
(* "x comes before y": the relative order of any two members is the one they had *)
Definition before {A} (x y : A) (l : list A) : Prop := exists l1 l2 l3, l = l1 ++ x :: l2 ++ y :: l3.
Lemma subseq_before {A} (l' l : list A) x y : subseq l' l -> before x y l' -> before x y l.
Proof.
  intros H. induction H as [|z l' l H IH|z l' l H IH]; intros (l1 & l2 & l3 & E).
  - destruct l1; discriminate.
  - destruct l1 as [|z' l1]; simpl in E; injection E as Ez El; subst z.
    + assert (In y l) as Hy by (apply (subseq_In _ _ _ H); rewrite El; apply in_or_app; right; left; reflexivity).
      apply in_split in Hy. destruct Hy as (m1 & m2 & Hy). exists [], m1, m2. simpl. rewrite Hy. reflexivity.
    + destruct IH as (m1 & m2 & m3 & E'); [exists l1, l2, l3; exact El|].
      exists (z' :: m1), m2, m3. simpl. rewrite E'. reflexivity.
  - destruct IH as (m1 & m2 & m3 & E'); [exists l1, l2, l3; exact E|].
    exists (z :: m1), m2, m3. simpl. rewrite E'. reflexivity.
Qed.

Lemma filter_filter {A} (f g : A -> bool) (l : list A) : filter f (filter g l) = filter (fun x => f x && g x) l.
Proof.
  induction l as [|x l IH]; simpl; [reflexivity|]. destruct (g x) eqn:G; simpl.
  - destruct (f x); simpl; [f_equal|]; exact IH.
  - rewrite andb_false_r. exact IH.
Qed.
Lemma filter_comm {A} (f g : A -> bool) (l : list A) : filter f (filter g l) = filter g (filter f l).
Proof. rewrite !filter_filter. apply filter_ext. intros x. apply andb_comm. Qed.
Lemma filter_all {A} (f : A -> bool) (l : list A) : (forall x, In x l -> f x = true) -> filter f l = l.
Proof.
  induction l as [|x l IH]; intros H; simpl; [reflexivity|]. rewrite (H x (or_introl eq_refl)). f_equal.
  apply IH. intros y Hy. apply H. right. exact Hy.
Qed.
Lemma filter_none {A} (f : A -> bool) (l : list A) : (forall x, In x l -> f x = false) -> filter f l = [].
Proof.
  induction l as [|x l IH]; intros H; simpl; [reflexivity|]. rewrite (H x (or_introl eq_refl)).
  apply IH. intros y Hy. apply H. right. exact Hy.
Qed.
(* two predicates that never hold together split a list into two parts, up to the order of the parts *)
Lemma filter_or_perm {A} (f g : A -> bool) (l : list A) :
  (forall x, In x l -> f x = true -> g x = false) ->
  Permutation (filter f l ++ filter g l) (filter (fun x => f x || g x) l).
Proof.
  induction l as [|x l IH]; intros Hd; simpl; [constructor|].
  assert (forall y, In y l -> f y = true -> g y = false) as Hd' by (intros y Hy; apply Hd; right; exact Hy).
  specialize (IH Hd'). destruct (f x) eqn:F; simpl.
  - rewrite (Hd x (or_introl eq_refl) F). constructor. exact IH.
  - destruct (g x); [|exact IH]. apply Permutation_sym. apply Permutation_cons_app. apply Permutation_sym. exact IH.
Qed.
Lemma keys_filter_fst {A} (f : str -> bool) (l : list (str * A)) : keys (filter (fun ir => f (fst ir)) l) = filter f (keys l).
Proof.
  unfold keys. induction l as [|[i p] l IH]; simpl; [reflexivity|]. destruct (f i); simpl; [f_equal|]; exact IH.
Qed.
Lemma keys_subseq {A} (l' l : list (str * A)) : subseq l' l -> subseq (keys l') (keys l).
Proof. apply subseq_map. Qed.
(* a sub-sequence of an id-keyed map is determined by its ids *)
Lemma subseq_by_keys {A} (l' l : list (str * A)) :
  subseq l' l -> NoDup (keys l) -> l' = filter (fun ir => mem_str (fst ir) (keys l')) l.
Proof.
  intros H. induction H as [|[i p] l' l H IH|[i p] l' l H IH]; intros Hn; [reflexivity| |].
  - unfold keys in Hn. simpl in Hn. apply NoDup_cons_iff in Hn. destruct Hn as [Hi Hn].
    cbn [filter fst keys map]. cbn [mem_str existsb]. rewrite str_eqb_refl. cbn [orb].
    f_equal. rewrite (IH Hn) at 1. apply filter_ext_in. intros [j q] Hj. cbn [fst].
    destruct (str_eqb j i) eqn:E; [|reflexivity]. apply str_eqb_spec in E. subst j. exfalso. apply Hi.
    apply in_map_iff. exists (i, q). split; [reflexivity | exact Hj].
  - unfold keys in Hn. simpl in Hn. apply NoDup_cons_iff in Hn. destruct Hn as [Hi Hn]. cbn [filter fst].
    destruct (mem_str i (keys l')) eqn:M; [|apply IH; exact Hn].
    exfalso. apply Hi. apply mem_str_In in M. apply (subseq_In _ _ _ (keys_subseq _ _ H)). exact M.
Qed.

(* ================================================================================================================== *)
(* 1. the decision table                                                                                              *)
(* ================================================================================================================== *)
Definition res_class (r : res outcome) : res str := match r with Ok o => Ok (o_class o) | Err e => Err e end.
(* the class a successful strict validation gives, read off the Type field alone *)
Definition class_for (modelled : list (str * str)) (tf : type_field) : str :=
  match tf with
  | TyStr s => match class_of modelled s with Some c => c | None => GENERIC end
  | TyMissing | TyOther => GENERIC
  end.

Section Table.
  Variable modelled : list (str * str).
  Variable class_accepts : str -> value -> bool.
  Variable generic_accepts : value -> bool.
  Notation disp := (dispatch_resource modelled class_accepts generic_accepts).

  (* every cell: Type a string or not / modelled or not / the class's verdict / strict or not / GenericResource's verdict *)
  Theorem dispatch_decision_table strict r :
    disp strict r =
    match r with
    | VDict d =>
        let generic := Ok {| o_class := GENERIC; o_kept := keys (props_of d) |} in
        match type_of d with
        | TyOther => Err EValidation
        | TyMissing => if generic_accepts r then generic else Err EValidation
        | TyStr s =>
            match class_of modelled s with
            | None => if generic_accepts r then generic else Err EValidation
            | Some c =>
                match class_accepts c r, strict, generic_accepts r with
                | true, _, _ => Ok {| o_class := c; o_kept := [] |}
                | false, true, _ => Err EValidation
                | false, false, true => generic
                | false, false, false => Err EValidation
                end
            end
        end
    | _ => Err EValidation
    end.
  Proof.
    destruct r as [| | | | | | |d]; try reflexivity. unfold dispatch_resource, as_generic, is_modelled.
    destruct (type_of d) as [|s|] eqn:Ht; [reflexivity| |reflexivity].
    destruct (class_of modelled s) as [c|] eqn:Hc.
    - destruct (class_accepts c (VDict d)); [reflexivity|]. destruct strict; [reflexivity|].
      cbn [andb]. destruct (generic_accepts (VDict d)); reflexivity.
    - rewrite andb_false_r. reflexivity.
  Qed.

  (* the same table read as a characterisation of success *)
  Theorem dispatch_ok_iff strict r o :
    disp strict r = Ok o <->
    exists d, r = VDict d /\
      ((exists s c, type_of d = TyStr s /\ class_of modelled s = Some c /\ class_accepts c r = true /\
                    o = {| o_class := c; o_kept := [] |}) \/
       (generic_accepts r = true /\ o = {| o_class := GENERIC; o_kept := keys (props_of d) |} /\
        (type_of d = TyMissing \/
         exists s, type_of d = TyStr s /\
           (class_of modelled s = None \/
            exists c, class_of modelled s = Some c /\ class_accepts c r = false /\ strict = false)))).
  Proof.
    rewrite dispatch_decision_table. split.
    - destruct r as [| | | | | | |d]; try discriminate. intros H. exists d. split; [reflexivity|]. cbv zeta in H.
      destruct (type_of d) as [|s|] eqn:Ht; [| |discriminate].
      + destruct (generic_accepts (VDict d)) eqn:G; inv H. right. split; [reflexivity|]. split; [reflexivity|]. left. reflexivity.
      + destruct (class_of modelled s) as [c|] eqn:Hc.
        * destruct (class_accepts c (VDict d)) eqn:A.
          -- inv H. left. exists s, c. repeat split; assumption.
          -- destruct strict; [discriminate|]. destruct (generic_accepts (VDict d)) eqn:G; inv H.
             right. split; [reflexivity|]. split; [reflexivity|]. right. exists s. split; [reflexivity|]. right.
             exists c. repeat split; assumption.
        * destruct (generic_accepts (VDict d)) eqn:G; inv H. right. split; [reflexivity|]. split; [reflexivity|].
          right. exists s. split; [reflexivity|]. left. exact Hc.
    - intros (d & -> & H). cbv zeta. destruct H as [(s & c & Ht & Hc & A & ->) | (G & -> & H)].
      + rewrite Ht, Hc, A. reflexivity.
      + destruct H as [Ht | (s & Ht & [Hc | (c & Hc & A & ->)])].
        * rewrite Ht, G. reflexivity.
        * rewrite Ht, Hc, G. reflexivity.
        * rewrite Ht, Hc, A, G. reflexivity.
  Qed.

  (* the result class is the class of the Type, or GenericResource *)
  Theorem dispatch_result_class strict r o :
    disp strict r = Ok o ->
    exists d, r = VDict d /\
      ((exists s, type_of d = TyStr s /\ class_of modelled s = Some (o_class o) /\ o_kept o = []) \/
       (o_class o = GENERIC /\ o_kept o = keys (props_of d))).
  Proof.
    intros H. apply dispatch_ok_iff in H. destruct H as (d & -> & H). exists d. split; [reflexivity|].
    destruct H as [(s & c & Ht & Hc & _ & ->) | (_ & -> & _)].
    - left. exists s. repeat split; assumption.
    - right. split; reflexivity.
  Qed.

  (* strictness never changes the class of an accepted resource: it only turns some successes into errors.  So the same
     input is never a dedicated class in one mode and GenericResource in the other *)
  Theorem dispatch_strict_implies_nonstrict r o : disp true r = Ok o -> disp false r = Ok o.
  Proof.
    rewrite !dispatch_ok_iff. intros (d & E & H). exists d. split; [exact E|].
    destruct H as [H | (G & Eo & H)]; [left; exact H | right]. split; [exact G|]. split; [exact Eo|].
    destruct H as [Ht | (s & Ht & [Hc | (c & _ & _ & C)])]; [left; exact Ht | right; exists s; split; [exact Ht | left; exact Hc] | discriminate].
  Qed.
  Theorem dispatch_modes_agree strict strict' r o o' : disp strict r = Ok o -> disp strict' r = Ok o' -> o = o'.
  Proof.
    intros H H'.
    assert (disp false r = Ok o) as F by (destruct strict; [apply dispatch_strict_implies_nonstrict|]; exact H).
    assert (disp false r = Ok o') as F' by (destruct strict'; [apply dispatch_strict_implies_nonstrict|]; exact H').
    rewrite F in F'. inv F'. reflexivity.
  Qed.
  Theorem dispatch_nonstrict_cases r o :
    disp false r = Ok o ->
    disp true r = Ok o \/
    (disp true r = Err EValidation /\ o_class o = GENERIC /\
     exists d s c, r = VDict d /\ type_of d = TyStr s /\ class_of modelled s = Some c /\ class_accepts c r = false).
  Proof.
    intros H. pose proof H as H0. apply dispatch_ok_iff in H. destruct H as (d & -> & H).
    destruct H as [(s & c & Ht & Hc & A & ->) | (G & -> & [Ht | (s & Ht & [Hc | (c & Hc & A & _)])])].
    - left. apply dispatch_ok_iff. exists d. split; [reflexivity|]. left. exists s, c. repeat split; assumption.
    - left. apply dispatch_ok_iff. exists d. split; [reflexivity|]. right. repeat split; try assumption. left. exact Ht.
    - left. apply dispatch_ok_iff. exists d. split; [reflexivity|]. right. repeat split; try assumption.
      right. exists s. split; [exact Ht | left; exact Hc].
    - right. split; [exact (dispatch_strict_rejects _ _ _ _ _ _ Ht Hc A)|]. split; [reflexivity|].
      exists d, s, c. repeat split; assumption.
  Qed.

  (* strict mode: the class is read off the Type field *)
  Theorem dispatch_strict_class d o : disp true (VDict d) = Ok o -> o_class o = class_for modelled (type_of d).
  Proof.
    intros H. apply dispatch_ok_iff in H. destruct H as (d0 & E & H). inv E. unfold class_for.
    destruct H as [(s & c & Ht & Hc & _ & ->) | (_ & -> & [Ht | (s & Ht & [Hc | (c & _ & _ & C)])])].
    - rewrite Ht, Hc. reflexivity.
    - rewrite Ht. reflexivity.
    - rewrite Ht, Hc. reflexivity.
    - discriminate.
  Qed.

  (* when no modelled class is called GenericResource (true of the live table, see below): *)
  Hypothesis generic_is_no_class : ~ In GENERIC (map snd modelled).
  Lemma class_of_not_generic s c : class_of modelled s = Some c -> c <> GENERIC.
  Proof. intros H E. subst c. apply generic_is_no_class. apply lookup_In in H. apply in_map_iff. exists (s, GENERIC). split; [reflexivity | exact H]. Qed.

  (* a dedicated class comes out iff that class accepted; GenericResource iff it did not (or there is none) *)
  Theorem dispatch_dedicated_iff strict r o :
    disp strict r = Ok o ->
    (o_class o <> GENERIC <->
     exists d s c, r = VDict d /\ type_of d = TyStr s /\ class_of modelled s = Some c /\ class_accepts c r = true /\ o_class o = c).
  Proof.
    intros H. apply dispatch_ok_iff in H. destruct H as (d & -> & H). split.
    - intros Hn. destruct H as [(s & c & Ht & Hc & A & ->) | (_ & -> & _)]; [|exfalso; apply Hn; reflexivity].
      exists d, s, c. repeat split; assumption.
    - intros (d0 & s & c & E & _ & Hc & _ & Eo). rewrite Eo. eapply class_of_not_generic. exact Hc.
  Qed.
  (* with strict on, a GenericResource has an unmodelled Type (or none) *)
  Theorem dispatch_strict_generic_unmodelled d o :
    disp true (VDict d) = Ok o -> o_class o = GENERIC ->
    generic_accepts (VDict d) = true /\ (type_of d = TyMissing \/ exists s, type_of d = TyStr s /\ class_of modelled s = None).
  Proof.
    intros H Hg. apply dispatch_ok_iff in H. destruct H as (d0 & E & H). inv E.
    destruct H as [(s & c & _ & Hc & _ & ->) | (G & _ & [Ht | (s & Ht & [Hc | (c & _ & _ & C)])])].
    - exfalso. exact (class_of_not_generic _ _ Hc Hg).
    - split; [exact G | left; exact Ht].
    - split; [exact G | right; exists s; split; assumption].
    - discriminate.
  Qed.
End Table.

(* the class (or the error) is a function of the Type field and of the two verdicts, and of nothing else in the definition:
   two definitions, even under two different engines, that agree on these get the same answer *)
Theorem dispatch_function_of_type_and_verdicts modelled ca ga ca' ga' strict d d' :
  type_of d = type_of d' ->
  (forall s c, type_of d = TyStr s -> class_of modelled s = Some c -> ca c (VDict d) = ca' c (VDict d')) ->
  ga (VDict d) = ga' (VDict d') ->
  res_class (dispatch_resource modelled ca ga strict (VDict d)) = res_class (dispatch_resource modelled ca' ga' strict (VDict d')).
Proof.
  intros Ht Hc Hg. rewrite !dispatch_decision_table. cbv zeta. rewrite <- Ht, <- Hg.
  destruct (type_of d) as [|s|] eqn:E; [destruct (ga (VDict d)); reflexivity| |reflexivity].
  destruct (class_of modelled s) as [c|] eqn:C; [|destruct (ga (VDict d)); reflexivity].
  rewrite <- (Hc s c eq_refl C). destruct (ca c (VDict d)); [reflexivity|]. destruct strict; [reflexivity|].
  destruct (ga (VDict d)); reflexivity.
Qed.

(* ================================================================================================================== *)
(* 2. the algebra of resources_filtered_by_type, for ANY class hierarchy                                              *)
(*    (a filter is a list of [wanted]: WClass c = a class object, WType s = a type string; Python's result dict is     *)
(*     the association list returned here, in the order of the model's Resources)                                     *)
(* ================================================================================================================== *)
(* Python's {**a, **b} on id-keyed maps whose common ids carry the same value *)
Definition dict_union {A} (a b : list (str * A)) : list (str * A) :=
  a ++ filter (fun ir => negb (mem_str (fst ir) (keys a))) b.

Section FilterAlgebra.
  Variable bases : str -> list str.
  Notation flt := (filter_by_type bases).
  Notation kp := (keeps bases).

  Lemma keeps_app l1 l2 p : kp (l1 ++ l2) p = kp l1 p || kp l2 p.
  Proof. unfold keeps. apply existsb_app. Qed.
  Lemma keeps_incl l1 l2 p : incl l1 l2 -> kp l1 p = true -> kp l2 p = true.
  Proof.
    unfold keeps. intros Hi H. apply existsb_exists in H. destruct H as (w & Hw & Hk).
    apply existsb_exists. exists w. split; [apply Hi; exact Hw | exact Hk].
  Qed.

  (* filter by l1 ++ l2: the union of the two filters, in the order of the resources ... *)
  Theorem filter_app l1 l2 rs : flt (l1 ++ l2) rs = filter (fun ir => kp l1 (snd ir) || kp l2 (snd ir)) rs.
  Proof. unfold filter_by_type. apply filter_ext. intros ir. apply keeps_app. Qed.
  Theorem filter_app_In l1 l2 rs x : In x (flt (l1 ++ l2) rs) <-> In x (flt l1 rs) \/ In x (flt l2 rs).
  Proof.
    rewrite filter_app. unfold filter_by_type. rewrite !filter_In, orb_true_iff. tauto.
  Qed.
  (* ... the order in which the wanted classes / strings are listed is irrelevant *)
  Theorem filter_same_members l1 l2 rs : incl l1 l2 -> incl l2 l1 -> flt l1 rs = flt l2 rs.
  Proof.
    intros H12 H21. unfold filter_by_type. apply filter_ext. intros ir.
    destruct (kp l1 (snd ir)) eqn:E1; destruct (kp l2 (snd ir)) eqn:E2; try reflexivity.
    - rewrite (keeps_incl _ _ _ H12 E1) in E2. discriminate.
    - rewrite (keeps_incl _ _ _ H21 E2) in E1. discriminate.
  Qed.
  Corollary filter_app_comm l1 l2 rs : flt (l1 ++ l2) rs = flt (l2 ++ l1) rs.
  Proof. apply filter_same_members; intros x H; apply in_or_app; apply in_app_or in H; tauto. Qed.

  (* ... as id-keyed maps (logical ids are unique): lookup by lookup, and as Python's dict union *)
  Lemma lookup_filter_keeps (f : parsed -> bool) (rs : list (str * parsed)) id :
    NoDup (keys rs) ->
    lookup id (filter (fun ir => f (snd ir)) rs) = match lookup id rs with Some p => if f p then Some p else None | None => None end.
  Proof.
    induction rs as [|[i p] rs IH]; intros Hn; [reflexivity|]. unfold keys in Hn. simpl in Hn.
    apply NoDup_cons_iff in Hn. destruct Hn as [Hi Hn]. specialize (IH Hn). cbn [filter snd lookup].
    destruct (str_eqb id i) eqn:E.
    - apply str_eqb_spec in E. subst i. destruct (f p) eqn:F.
      + cbn [lookup]. rewrite str_eqb_refl. reflexivity.
      + rewrite IH. assert (lookup id rs = None) as L by (apply lookup_None; exact Hi). rewrite L. reflexivity.
    - destruct (f p); [cbn [lookup]; rewrite E|]; exact IH.
  Qed.
  Theorem filter_app_lookup l1 l2 rs id :
    NoDup (keys rs) ->
    lookup id (flt (l1 ++ l2) rs) = match lookup id (flt l1 rs) with Some p => Some p | None => lookup id (flt l2 rs) end.
  Proof.
    intros Hn. rewrite filter_app. unfold filter_by_type.
    rewrite (lookup_filter_keeps (fun p => kp l1 p || kp l2 p) rs id Hn), (lookup_filter_keeps (kp l1) rs id Hn),
            (lookup_filter_keeps (kp l2) rs id Hn).
    destruct (lookup id rs) as [p|]; [|reflexivity]. destruct (kp l1 p); [reflexivity|]. reflexivity.
  Qed.
  Lemma mem_keys_filter (f : parsed -> bool) (rs : list (str * parsed)) i p :
    NoDup (keys rs) -> In (i, p) rs -> mem_str i (keys (filter (fun ir => f (snd ir)) rs)) = f p.
  Proof.
    intros Hn Hin. destruct (f p) eqn:F.
    - apply mem_str_In. apply in_map_iff. exists (i, p). split; [reflexivity|]. apply filter_In. split; [exact Hin | exact F].
    - destruct (mem_str i (keys (filter (fun ir => f (snd ir)) rs))) eqn:M; [|reflexivity]. exfalso.
      apply mem_str_In in M. apply in_map_iff in M. destruct M as ([j q] & Ej & Hq). cbn [fst] in Ej. subst j.
      apply filter_In in Hq. destruct Hq as [Hq Fq]. cbn [snd] in Fq.
      assert (q = p) as ->; [|congruence].
      clear - Hn Hin Hq. induction rs as [|[j r] rs IH]; [contradiction|]. unfold keys in Hn. simpl in Hn.
      apply NoDup_cons_iff in Hn. destruct Hn as [Hj Hn].
      destruct Hin as [E1|H1]; destruct Hq as [E2|H2].
      + congruence.
      + inv E1. exfalso. apply Hj. apply in_map_iff. exists (i, q). split; [reflexivity | exact H2].
      + inv E2. exfalso. apply Hj. apply in_map_iff. exists (i, p). split; [reflexivity | exact H1].
      + apply IH; assumption.
  Qed.
  Theorem filter_app_dict_union l1 l2 rs :
    NoDup (keys rs) -> Permutation (flt (l1 ++ l2) rs) (dict_union (flt l1 rs) (flt l2 rs)).
  Proof.
    intros Hn. unfold dict_union. rewrite filter_app. unfold filter_by_type.
    assert (filter (fun ir => negb (mem_str (fst ir) (keys (filter (fun ir0 => kp l1 (snd ir0)) rs)))) (filter (fun ir => kp l2 (snd ir)) rs)
            = filter (fun ir => negb (kp l1 (snd ir)) && kp l2 (snd ir)) rs) as E.
    { rewrite filter_filter. apply filter_ext_in. intros [i p] Hin. cbn [fst snd].
      rewrite (mem_keys_filter (kp l1) rs i p Hn Hin). reflexivity. }
    rewrite E. clear E. apply Permutation_sym.
    eapply Permutation_trans; [apply filter_or_perm|].
    - intros [i p] _ F. cbn [snd] in *. rewrite F. reflexivity.
    - erewrite filter_ext; [apply Permutation_refl|]. intros [i p]. cbn [snd]. destruct (kp l1 p); reflexivity.
  Qed.

  (* filtering twice: the conjunction; hence idempotence, commutation, absorption *)
  Theorem filter_compose a b rs : flt a (flt b rs) = filter (fun ir => kp a (snd ir) && kp b (snd ir)) rs.
  Proof. unfold filter_by_type. apply filter_filter. Qed.
  Theorem filter_idempotent a rs : flt a (flt a rs) = flt a rs.
  Proof. rewrite filter_compose. unfold filter_by_type. apply filter_ext. intros ir. apply andb_diag. Qed.
  Theorem filter_commute a b rs : flt a (flt b rs) = flt b (flt a rs).
  Proof. unfold filter_by_type. apply filter_comm. Qed.
  Theorem filter_absorb a b rs : incl a b -> flt a (flt b rs) = flt a rs.
  Proof.
    intros Hi. rewrite filter_compose. unfold filter_by_type. apply filter_ext. intros ir.
    destruct (kp a (snd ir)) eqn:E; [|reflexivity]. rewrite (keeps_incl _ _ _ Hi E). reflexivity.
  Qed.

  (* order and uniqueness of the logical ids *)
  Theorem filter_subseq allowed rs : subseq (flt allowed rs) rs /\ subseq (keys (flt allowed rs)) (keys rs).
  Proof. split; [|apply keys_subseq]; apply subseq_filter. Qed.
  Theorem filter_keeps_order allowed rs i j : before i j (keys (flt allowed rs)) -> before i j (keys rs).
  Proof. apply subseq_before. apply filter_subseq. Qed.

  (* asking for every class that occurs returns everything (isinstance is reflexive) *)
  Theorem filter_all_classes cls rs :
    Forall (fun ir => In (p_class (snd ir)) cls) rs -> flt (map WClass cls) rs = rs.
  Proof.
    intros H. unfold filter_by_type. apply filter_all. rewrite Forall_forall in H. intros ir Hir. specialize (H ir Hir).
    unfold keeps. apply existsb_exists. exists (WClass (p_class (snd ir))). split; [apply in_map; exact H|].
    unfold isinstance. rewrite str_eqb_refl. reflexivity.
  Qed.

  (* ---- single-class filters over a FLAT family of classes: none of them is a proper base of another ---- *)
  Definition flat (cls : list str) : Prop := forall c c', In c cls -> In c' cls -> ~ In c (bases c').

  Lemma keeps_class_flat cls c p : flat cls -> In c cls -> In (p_class p) cls -> kp [WClass c] p = str_eqb (p_class p) c.
  Proof.
    intros Hf Hc Hp. unfold keeps, isinstance. cbn [existsb]. rewrite orb_false_r.
    destruct (mem_str c (bases (p_class p))) eqn:M; [|apply orb_false_r].
    exfalso. apply mem_str_In in M. exact (Hf c (p_class p) Hc Hp M).
  Qed.
  Theorem filter_class_flat cls c rs :
    flat cls -> In c cls -> Forall (fun ir => In (p_class (snd ir)) cls) rs ->
    flt [WClass c] rs = filter (fun ir => str_eqb (p_class (snd ir)) c) rs.
  Proof.
    intros Hf Hc H. unfold filter_by_type. apply filter_ext_in. intros ir Hir. rewrite Forall_forall in H.
    exact (keeps_class_flat cls c (snd ir) Hf Hc (H ir Hir)).
  Qed.

  (* 3. PARTITION: each resource is returned by exactly one single-class filter, the one of its own class ... *)
  Theorem filter_exactly_one cls rs id p c :
    flat cls -> Forall (fun ir => In (p_class (snd ir)) cls) rs -> In (id, p) rs -> In c cls ->
    (In (id, p) (flt [WClass c] rs) <-> c = p_class p).
  Proof.
    intros Hf H Hin Hc. rewrite (filter_class_flat cls c rs Hf Hc H). rewrite filter_In. cbn [snd]. split.
    - intros [_ E]. apply str_eqb_spec in E. symmetry. exact E.
    - intros ->. split; [exact Hin | apply str_eqb_refl].
  Qed.
  (* ... and the single-class filters, laid end to end, are a rearrangement of the resources of those classes *)
  Theorem filter_partition_of cls rs :
    flat cls -> NoDup cls -> Forall (fun ir => In (p_class (snd ir)) cls) rs ->
    forall cs, incl cs cls -> NoDup cs ->
    Permutation (flat_map (fun c => flt [WClass c] rs) cs) (filter (fun ir => mem_str (p_class (snd ir)) cs) rs).
  Proof.
    intros Hf _ H cs. induction cs as [|c cs IH]; intros Hi Hn.
    - simpl. rewrite filter_none; [constructor | reflexivity].
    - apply NoDup_cons_iff in Hn. destruct Hn as [Hc Hn]. cbn [flat_map].
      assert (In c cls) as Hcc by (apply Hi; left; reflexivity).
      rewrite (filter_class_flat cls c rs Hf Hcc H).
      eapply Permutation_trans; [apply Permutation_app_head; apply IH; [intros x Hx; apply Hi; right; exact Hx | exact Hn]|].
      eapply Permutation_trans; [apply filter_or_perm|].
      + intros ir _ E. apply str_eqb_spec in E. rewrite E. destruct (mem_str c cs) eqn:M; [|reflexivity].
        apply mem_str_In in M. contradiction.
      + erewrite filter_ext; [apply Permutation_refl|]. intros ir. cbn [mem_str existsb]. reflexivity.
  Qed.
  Theorem filter_partition cls rs :
    flat cls -> NoDup cls -> Forall (fun ir => In (p_class (snd ir)) cls) rs ->
    Permutation (flat_map (fun c => flt [WClass c] rs) cls) rs.
  Proof.
    intros Hf Hn H. eapply Permutation_trans; [apply (filter_partition_of cls rs Hf Hn H cls (incl_refl _) Hn)|].
    rewrite filter_all; [apply Permutation_refl|]. rewrite Forall_forall in H. intros ir Hir. apply mem_str_In. exact (H ir Hir).
  Qed.
  Corollary filter_partition_length cls rs :
    flat cls -> NoDup cls -> Forall (fun ir => In (p_class (snd ir)) cls) rs ->
    List.length (flat_map (fun c => flt [WClass c] rs) cls) = List.length rs.
  Proof. intros Hf Hn H. apply Permutation_length. apply filter_partition; assumption. Qed.
End FilterAlgebra.

(* ================================================================================================================== *)
(* 2b. parsing a whole Resources map, and the string filter versus the class filter                                   *)
(* ================================================================================================================== *)
(* the .Type attribute of the parsed object: the dedicated classes declare Type : Literal[...], GenericResource keeps the
   string it was given (None when there was none) *)
Definition type_attr (r : value) : option str :=
  match r with VDict d => match type_of d with TyStr s => Some s | _ => None end | _ => None end.
Definition is_downgraded (t : str) (p : parsed) : bool :=
  str_eqb (p_class p) GENERIC && match p_type p with Some t' => str_eqb t' t | None => false end.

Section Parse.
  Variable modelled : list (str * str).
  Variable class_accepts : str -> value -> bool.
  Variable generic_accepts : value -> bool.
  Notation disp := (dispatch_resource modelled class_accepts generic_accepts).

  (* CFModel(Resources = ...): every member is validated; one refusal refuses the template *)
  Fixpoint parse_resources (strict : bool) (defs : list (str * value)) : res (list (str * parsed)) :=
    match defs with
    | [] => Ok []
    | (id, r) :: rest =>
        o <- disp strict r ;; rest' <- parse_resources strict rest ;;
        Ok ((id, {| p_class := o_class o; p_type := type_attr r |}) :: rest')
    end.

  (* what a parsed resource looks like: an instance of the class of its Type, or a GenericResource -- whose Type, in
     strict mode, is not a modelled one *)
  Definition dedicated (p : parsed) : Prop := exists t, p_type p = Some t /\ class_of modelled t = Some (p_class p).
  Definition generic_res (strict : bool) (p : parsed) : Prop :=
    p_class p = GENERIC /\ (strict = true -> forall t, p_type p = Some t -> class_of modelled t = None).
  Definition wf_parsed (strict : bool) (p : parsed) : Prop := dedicated p \/ generic_res strict p.

  Lemma dispatch_wf strict r o : disp strict r = Ok o -> wf_parsed strict {| p_class := o_class o; p_type := type_attr r |}.
  Proof.
    intros H. apply dispatch_ok_iff in H. destruct H as (d & -> & H). unfold type_attr.
    destruct H as [(s & c & Ht & Hc & _ & ->) | (_ & -> & H)].
    - left. exists s. rewrite Ht. split; [reflexivity | exact Hc].
    - right. split; [reflexivity|]. intros -> t. cbn [p_type].
      destruct H as [Ht | (s & Ht & [Hc | (c & _ & _ & C)])]; rewrite Ht; try discriminate.
      intros E. inv E. exact Hc.
  Qed.
  Theorem parse_resources_wf strict defs rs :
    parse_resources strict defs = Ok rs -> Forall (fun ir => wf_parsed strict (snd ir)) rs.
  Proof.
    revert rs. induction defs as [|[id r] defs IH]; intros rs H; cbn [parse_resources] in H; [inv H; constructor|].
    destruct (disp strict r) as [o|] eqn:D; cbn [bind] in H; [|discriminate].
    destruct (parse_resources strict defs) as [rest|] eqn:P; cbn [bind] in H; [|discriminate]. inv H.
    constructor; [exact (dispatch_wf _ _ _ D) | apply IH; reflexivity].
  Qed.
  Theorem parse_resources_keys strict defs rs : parse_resources strict defs = Ok rs -> keys rs = keys defs.
  Proof.
    revert rs. induction defs as [|[id r] defs IH]; intros rs H; cbn [parse_resources] in H; [inv H; reflexivity|].
    destruct (disp strict r) as [o|] eqn:D; cbn [bind] in H; [|discriminate].
    destruct (parse_resources strict defs) as [rest|] eqn:P; cbn [bind] in H; [|discriminate]. inv H.
    unfold keys in *. simpl. f_equal. apply IH. reflexivity.
  Qed.
  Lemma wf_parsed_class strict p : wf_parsed strict p -> In (p_class p) (GENERIC :: map snd modelled).
  Proof.
    intros [(t & _ & Hc) | [Hg _]]; [right | left; symmetry; exact Hg].
    apply lookup_In in Hc. apply in_map_iff. exists (t, p_class p). split; [reflexivity | exact Hc].
  Qed.

  Variable bases : str -> list str.
  Hypothesis classes_distinct : NoDup (map snd modelled).
  Hypothesis generic_is_no_class : ~ In GENERIC (map snd modelled).
  Hypothesis classes_flat : flat bases (GENERIC :: map snd modelled).

  Lemma class_of_inj t1 t2 c : class_of modelled t1 = Some c -> class_of modelled t2 = Some c -> t1 = t2.
  Proof.
    unfold class_of. intros H1 H2. apply lookup_In in H1. apply lookup_In in H2. clear - classes_distinct H1 H2.
    induction modelled as [|[t c'] l IH]; [contradiction|]. simpl in classes_distinct.
    apply NoDup_cons_iff in classes_distinct. destruct classes_distinct as [Hc Hn].
    destruct H1 as [E1|H1]; destruct H2 as [E2|H2].
    - congruence.
    - inv E1. exfalso. apply Hc. apply in_map_iff. exists (t2, c). split; [reflexivity | exact H2].
    - inv E2. exfalso. apply Hc. apply in_map_iff. exists (t1, c). split; [reflexivity | exact H1].
    - apply IH; assumption.
  Qed.
  Lemma class_in_table t c : class_of modelled t = Some c -> In c (GENERIC :: map snd modelled).
  Proof. intros H. right. apply lookup_In in H. apply in_map_iff. exists (t, c). split; [reflexivity | exact H]. Qed.

  (* the two notions for ONE parsed resource of either mode: the string t selects the instances of its class c AND the
     GenericResources that carry the string t; the class c selects the instances only *)
  Theorem keeps_string_vs_class strict t c p :
    class_of modelled t = Some c -> wf_parsed strict p ->
    keeps bases [WClass c] p = str_eqb (p_class p) c /\
    keeps bases [WType t] p = keeps bases [WClass c] p || is_downgraded t p /\
    (keeps bases [WClass c] p = true -> is_downgraded t p = false) /\
    (strict = true -> is_downgraded t p = false).
  Proof.
    intros Hc Hw. pose proof (class_in_table _ _ Hc) as Hcc. pose proof (wf_parsed_class _ _ Hw) as Hpc.
    assert (c <> GENERIC) as Hcg.
    { intros ->. apply generic_is_no_class. apply lookup_In in Hc. apply in_map_iff. exists (t, GENERIC). split; [reflexivity | exact Hc]. }
    rewrite (keeps_class_flat bases _ c p classes_flat Hcc Hpc). split; [reflexivity|].
    unfold keeps at 1. cbn [existsb]. rewrite orb_false_r. unfold is_downgraded.
    destruct Hw as [(t' & Ht' & Hc') | [Hg Hs]].
    - rewrite Ht'. assert (str_eqb (p_class p) GENERIC = false) as Ng.
      { apply str_eqb_neq. intros E. rewrite E in Hc'. apply generic_is_no_class. apply lookup_In in Hc'.
        apply in_map_iff. exists (t', GENERIC). split; [reflexivity | exact Hc']. }
      rewrite Ng. cbn [andb]. rewrite orb_false_r. split; [|split; reflexivity].
      destruct (str_eqb t' t) eqn:E.
      + apply str_eqb_spec in E. subst t'. symmetry. apply str_eqb_spec. congruence.
      + symmetry. apply str_eqb_neq. intros E'. apply str_eqb_neq in E. apply E. rewrite <- E' in Hc.
        exact (class_of_inj _ _ _ Hc' Hc).
    - rewrite Hg, str_eqb_refl. cbn [andb].
      assert (str_eqb GENERIC c = false) as Nc by (apply str_eqb_neq; intros E; apply Hcg; symmetry; exact E).
      rewrite Nc. cbn [orb]. split; [reflexivity|]. split; [discriminate|].
      intros Es. destruct (p_type p) as [t'|] eqn:Et; [|reflexivity]. apply str_eqb_neq. intros ->.
      rewrite (Hs Es t eq_refl) in Hc. discriminate.
  Qed.

  (* strict mode: the filter by a modelled type STRING is the filter by the CLASS of that string *)
  Theorem filter_string_is_class_strict t c rs :
    class_of modelled t = Some c -> Forall (fun ir => wf_parsed true (snd ir)) rs ->
    filter_by_type bases [WType t] rs = filter_by_type bases [WClass c] rs.
  Proof.
    intros Hc H. unfold filter_by_type. apply filter_ext_in. intros ir Hir. rewrite Forall_forall in H.
    destruct (keeps_string_vs_class true t c (snd ir) Hc (H ir Hir)) as (_ & E & _ & Hd).
    rewrite E, (Hd eq_refl). apply orb_false_r.
  Qed.
  (* either mode: exactly what each of the two returns *)
  Theorem filter_string_vs_class strict t c rs :
    class_of modelled t = Some c -> Forall (fun ir => wf_parsed strict (snd ir)) rs ->
    filter_by_type bases [WClass c] rs = filter (fun ir => str_eqb (p_class (snd ir)) c) rs /\
    filter_by_type bases [WType t] rs = filter (fun ir => str_eqb (p_class (snd ir)) c || is_downgraded t (snd ir)) rs /\
    Permutation (filter_by_type bases [WType t] rs)
                (filter_by_type bases [WClass c] rs ++ filter (fun ir => is_downgraded t (snd ir)) rs) /\
    filter_by_type bases [WClass c] (filter_by_type bases [WType t] rs) = filter_by_type bases [WClass c] rs /\
    incl (filter (fun ir => is_downgraded t (snd ir)) rs) (filter_by_type bases [WClass GENERIC] rs).
  Proof.
    intros Hc H. rewrite Forall_forall in H.
    assert (filter_by_type bases [WClass c] rs = filter (fun ir => str_eqb (p_class (snd ir)) c) rs) as E1.
    { unfold filter_by_type. apply filter_ext_in. intros ir Hir.
      exact (proj1 (keeps_string_vs_class strict t c (snd ir) Hc (H ir Hir))). }
    assert (filter_by_type bases [WType t] rs = filter (fun ir => str_eqb (p_class (snd ir)) c || is_downgraded t (snd ir)) rs) as E2.
    { unfold filter_by_type. apply filter_ext_in. intros ir Hir.
      destruct (keeps_string_vs_class strict t c (snd ir) Hc (H ir Hir)) as (Ea & Eb & _). rewrite Eb, Ea. reflexivity. }
    split; [exact E1|]. split; [exact E2|]. split; [|split].
    - rewrite E1, E2. apply Permutation_sym. apply filter_or_perm. intros ir Hir F.
      destruct (keeps_string_vs_class strict t c (snd ir) Hc (H ir Hir)) as (Ea & _ & Hx & _). apply Hx. rewrite Ea. exact F.
    - rewrite filter_compose. unfold filter_by_type. apply filter_ext_in. intros ir Hir.
      destruct (keeps_string_vs_class strict t c (snd ir) Hc (H ir Hir)) as (_ & Eb & _). rewrite Eb.
      destruct (keeps bases [WClass c] (snd ir)); reflexivity.
    - intros ir Hir. apply filter_In in Hir. destruct Hir as [Hir D]. unfold filter_by_type. apply filter_In. split; [exact Hir|].
      unfold is_downgraded in D. apply andb_true_iff in D. destruct D as [D _]. unfold keeps, isinstance. cbn [existsb].
      rewrite D. reflexivity.
  Qed.

  (* the resources of a parsed template: every class is one of the table's or GenericResource, so the partition and the
     "every class returns everything" theorems apply to them *)
  Theorem parsed_partition strict defs rs :
    parse_resources strict defs = Ok rs ->
    Permutation (flat_map (fun c => filter_by_type bases [WClass c] rs) (GENERIC :: map snd modelled)) rs /\
    filter_by_type bases (map WClass (GENERIC :: map snd modelled)) rs = rs /\
    Permutation (flat_map (fun c => filter_by_type bases [WClass c] rs) (map snd modelled))
                (filter (fun ir => negb (str_eqb (p_class (snd ir)) GENERIC)) rs).
  Proof.
    intros Hp. pose proof (parse_resources_wf _ _ _ Hp) as Hw.
    assert (Forall (fun ir => In (p_class (snd ir)) (GENERIC :: map snd modelled)) rs) as Hc.
    { rewrite Forall_forall in *. intros ir Hir. exact (wf_parsed_class strict _ (Hw ir Hir)). }
    assert (NoDup (GENERIC :: map snd modelled)) as Hn by (constructor; assumption).
    split; [apply filter_partition; assumption|]. split; [apply filter_all_classes; exact Hc|].
    eapply Permutation_trans.
    - apply (filter_partition_of bases _ rs classes_flat Hn Hc (map snd modelled)); [intros x Hx; right; exact Hx | exact classes_distinct].
    - erewrite filter_ext_in; [apply Permutation_refl|]. intros ir Hir. rewrite Forall_forall in Hc. specialize (Hc ir Hir).
      destruct (str_eqb (p_class (snd ir)) GENERIC) eqn:E; cbn [negb].
      + apply str_eqb_spec in E. rewrite E. destruct (mem_str GENERIC (map snd modelled)) eqn:M; [|reflexivity].
        apply mem_str_In in M. contradiction.
      + apply mem_str_In. destruct Hc as [Hc|Hc]; [|exact Hc]. apply str_eqb_neq in E. exfalso. apply E. symmetry. exact Hc.
  Qed.
End Parse.

(* ================================================================================================================== *)
(* 4. any finite sequence of resolve / expand_actions steps                                                           *)
(* ================================================================================================================== *)
(* the Type entry of a dumped resource: a string, or null (GenericResource.Type is Optional) *)
Definition type_lit (v : value) : Prop := v = VNull \/ exists t, v = VStr t.

Lemma lookup_in_keys {A} k (d : list (str * A)) v : lookup k d = Some v -> In k (keys d).
Proof. intros H. apply lookup_In in H. apply in_map_iff. exists (k, v). split; [reflexivity | exact H]. Qed.
(* a dumped resource has a Type entry, so it is never taken for an intrinsic function *)
Lemma typed_not_fn_dict d v : lookup K_Type d = Some v -> is_fn_dict d = false.
Proof.
  destruct d as [|[k x] [|kv rest]]; try reflexivity. cbn [lookup]. destruct (str_eqb K_Type k) eqn:E; [|discriminate].
  intros _. apply str_eqb_spec in E. subst k. vm_compute. reflexivity.
Qed.
Lemma lookup_set_key_hit k v d : lookup k (set_key k v d) = Some v.
Proof.
  induction d as [|[k' x] d IH]; cbn [set_key lookup]; [rewrite str_eqb_refl; reflexivity|].
  destruct (str_eqb k k') eqn:E; cbn [lookup]; rewrite E; [reflexivity | exact IH].
Qed.
Lemma lookup_set_key_miss k k' v d : str_eqb k k' = false -> lookup k (set_key k' v d) = lookup k d.
Proof.
  intros N. induction d as [|[k0 x] d IH]; cbn [set_key lookup]; [rewrite N; reflexivity|].
  destruct (str_eqb k' k0) eqn:E; cbn [lookup].
  - apply str_eqb_spec in E. subst k0. rewrite N. reflexivity.
  - destruct (str_eqb k k0); [reflexivity | exact IH].
Qed.
Lemma lookup_keep_key_miss k k' o d : str_eqb k k' = false -> lookup k (keep_key k' o d) = lookup k d.
Proof.
  intros N. unfold keep_key. destruct (lookup k' o) as [[| | |t| | | |]|]; try reflexivity. apply lookup_set_key_miss. exact N.
Qed.

Lemma rdict_keeps_null e : forall d d', rdict e d = Ok d' -> lookup K_Type d = Some VNull -> lookup K_Type d' = Some VNull.
Proof.
  induction d as [|[k x] d IH]; intros d' Hr Hl; [discriminate|].
  cbn [rdict] in Hr. fold (rdict e) in Hr.
  destruct (resolve e x) as [x'|] eqn:Ex; cbn [bind] in Hr; [|discriminate].
  destruct (rdict e d) as [ds|] eqn:Ed; cbn [bind] in Hr; [|discriminate].
  cbn [lookup] in Hl. destruct (str_eqb K_Type k) eqn:Ek.
  - inv Hl. cbn [resolve] in Ex. inv Ex. cbn [is_novalue] in Hr. inv Hr. cbn [lookup]. rewrite Ek. reflexivity.
  - destruct (is_novalue x'); inv Hr; [apply IH; auto|]. cbn [lookup]. rewrite Ek. apply IH; auto.
Qed.
Lemma resolve_keeps_null e d r' :
  lookup K_Type d = Some VNull -> resolve e (VDict d) = Ok r' -> exists d', r' = VDict d' /\ lookup K_Type d' = Some VNull.
Proof.
  intros Hl Hr. rewrite (resolve_dict_generic e d (typed_not_fn_dict _ _ Hl)) in Hr.
  destruct (rdict e d) as [d'|] eqn:Ed; cbn [bind] in Hr; [|discriminate]. inv Hr.
  exists d'. split; [reflexivity|]. eapply rdict_keeps_null; eauto.
Qed.

(* CFModel.resolve on one resource: whatever the resolver did to the Type entry, it is put back *)
Theorem resolve_resource_keeps_type e d v r' :
  lookup K_Type d = Some v -> type_lit v -> resolve_resource e (VDict d) = Ok r' ->
  exists d', r' = VDict d' /\ lookup K_Type d' = Some v.
Proof.
  intros Hl Hv Hr. unfold resolve_resource in Hr.
  rewrite (resolve_dict_generic e d (typed_not_fn_dict _ _ Hl)) in Hr.
  destruct (rdict e d) as [d1|] eqn:Ed; cbn [bind] in Hr; [|discriminate]. inv Hr. cbn [keep_type].
  eexists. split; [reflexivity|].
  rewrite lookup_keep_key_miss by (vm_compute; reflexivity). unfold keep_key. rewrite Hl.
  destruct Hv as [-> | (t & ->)].
  - eapply rdict_keeps_null; eauto.
  - apply lookup_set_key_hit.
Qed.

Section ExpandLit.
  Variable ex : bool -> value -> res value.
  Lemma edict_keeps_lit key v : str_eqb key K_Action = false -> str_eqb key K_NotAction = false -> type_lit v ->
    forall d d', edict ex d = Ok d' -> lookup key d = Some v -> lookup key d' = Some v.
  Proof.
    intros Na Nn Hv. induction d as [|[k x] d IH]; intros d' H Hl; [discriminate|].
    cbn [lookup] in Hl. destruct (str_eqb key k) eqn:Ek.
    - inv Hl. apply str_eqb_spec in Ek. subst k. cbn [edict] in H.
      assert (match v with
              | VNull => Ok VNull
              | _ => if str_eqb key K_Action then ex false v else if str_eqb key K_NotAction then ex true v else expand_obj ex v
              end = Ok v) as Ev.
      { destruct Hv as [-> | (t & ->)]; [reflexivity|]. rewrite Na, Nn. reflexivity. }
      rewrite Ev in H. cbn [bind] in H. destruct (edict ex d) as [ds|]; cbn [bind] in H; [|discriminate]. inv H.
      cbn [lookup]. rewrite str_eqb_refl. reflexivity.
    - cbn [edict] in H. match type of H with bind ?a _ = _ => destruct a as [x'|] end; cbn [bind] in H; [|discriminate].
      destruct (edict ex d) as [ds|] eqn:Ed; cbn [bind] in H; [|discriminate]. inv H.
      cbn [lookup]. rewrite Ek. apply IH; auto.
  Qed.
  Theorem expand_keeps_type_lit d v r' :
    lookup K_Type d = Some v -> type_lit v -> expand_obj ex (VDict d) = Ok r' ->
    exists d', r' = VDict d' /\ lookup K_Type d' = Some v /\ keys d' = keys d.
  Proof.
    intros Hl Hv H. rewrite expand_dict in H. destruct (edict ex d) as [d'|] eqn:Ed; cbn [bind] in H; [|discriminate]. inv H.
    exists d'. split; [reflexivity|]. split; [|apply edict_keys with (ex := ex); exact Ed].
    eapply edict_keeps_lit; eauto; vm_compute; reflexivity.
  Qed.
End ExpandLit.

(* ---- one resource through a list of steps ---- *)
Inductive step :=
| SResolve (e : env)                            (* CFModel.resolve's work on one resource (Type / Condition put back) *)
| SResolveRaw (e : env)                         (* the bare resolver, as in C14_preserved_by_resolve *)
| SExpand (ex : bool -> value -> res value).    (* expand_actions on one resource *)
Definition run_step (s : step) (r : value) : res value :=
  match s with
  | SResolve e => resolve_resource e r
  | SResolveRaw e => resolve e r
  | SExpand ex => expand_obj ex r
  end.
Fixpoint run_steps (l : list step) (r : value) : res value :=
  match l with [] => Ok r | s :: l' => r' <- run_step s r ;; run_steps l' r' end.
Definition is_raw (s : step) : bool := match s with SResolveRaw _ => true | _ => false end.
(* the bare resolver leaves a Type string alone when it is [type_fixed] (every modelled one is) *)
Definition survives (steps : list step) (v : value) : Prop :=
  v = VNull \/ exists t, v = VStr t /\ (existsb is_raw steps = true -> type_fixed t = true).

Lemma survives_lit steps v : survives steps v -> type_lit v.
Proof. intros [-> | (t & -> & _)]; [left; reflexivity | right; exists t; reflexivity]. Qed.
Lemma survives_tail s steps v : survives (s :: steps) v -> survives steps v.
Proof.
  intros [-> | (t & -> & H)]; [left; reflexivity | right]. exists t. split; [reflexivity|].
  intros E. apply H. cbn [existsb]. rewrite E. apply orb_true_r.
Qed.

Theorem step_keeps_type s d v r' :
  lookup K_Type d = Some v -> survives [s] v -> run_step s (VDict d) = Ok r' ->
  exists d', r' = VDict d' /\ lookup K_Type d' = Some v.
Proof.
  intros Hl Hs Hr. destruct s as [e|e|ex]; cbn [run_step] in Hr.
  - exact (resolve_resource_keeps_type e d v r' Hl (survives_lit _ _ Hs) Hr).
  - destruct Hs as [-> | (t & -> & Hf)].
    + exact (resolve_keeps_null e d r' Hl Hr).
    + exact (resolve_keeps_type e t d r' (Hf eq_refl) (typed_not_fn_dict _ _ Hl) Hl Hr).
  - destruct (expand_keeps_type_lit ex d v r' Hl (survives_lit _ _ Hs) Hr) as (d' & E & Hl' & _).
    exists d'. split; assumption.
Qed.
Theorem pipeline_keeps_type steps : forall d v r',
  lookup K_Type d = Some v -> survives steps v -> run_steps steps (VDict d) = Ok r' ->
  exists d', r' = VDict d' /\ lookup K_Type d' = Some v.
Proof.
  induction steps as [|s steps IH]; intros d v r' Hl Hs Hr; cbn [run_steps] in Hr.
  - inv Hr. exists d. split; [reflexivity | exact Hl].
  - destruct (run_step s (VDict d)) as [r1|] eqn:E1; cbn [bind] in Hr; [|discriminate].
    assert (survives [s] v) as Hs1.
    { destruct Hs as [-> | (t & -> & H)]; [left; reflexivity | right]. exists t. split; [reflexivity|].
      intros E. apply H. cbn [existsb] in *. rewrite orb_false_r in E. rewrite E. reflexivity. }
    destruct (step_keeps_type s d v r1 Hl Hs1 E1) as (d1 & -> & Hl1).
    exact (IH d1 v r' Hl1 (survives_tail _ _ _ Hs) Hr).
Qed.

Lemma type_of_lookup d d' : lookup K_Type d' = lookup K_Type d -> type_of d' = type_of d.
Proof. unfold type_of. intros ->. reflexivity. Qed.

Section Pipeline.
  Variable modelled : list (str * str).
  Variable class_accepts : str -> value -> bool.
  Variable generic_accepts : value -> bool.
  Notation disp := (dispatch_resource modelled class_accepts generic_accepts).

  (* strict mode: whatever the steps are, if the resource validates before and after, it has the same class and Type *)
  Theorem pipeline_preserves_class steps d v r' o o' :
    lookup K_Type d = Some v -> survives steps v -> run_steps steps (VDict d) = Ok r' ->
    disp true (VDict d) = Ok o -> disp true r' = Ok o' ->
    exists d', r' = VDict d' /\ lookup K_Type d' = lookup K_Type d /\ o_class o' = o_class o /\ type_attr r' = type_attr (VDict d).
  Proof.
    intros Hl Hs Hr Ho Ho'. destruct (pipeline_keeps_type steps d v r' Hl Hs Hr) as (d' & -> & Hl').
    assert (lookup K_Type d' = lookup K_Type d) as El by (rewrite Hl, Hl'; reflexivity).
    exists d'. split; [reflexivity|]. split; [exact El|].
    rewrite (dispatch_strict_class _ _ _ _ _ Ho), (dispatch_strict_class _ _ _ _ _ Ho'). unfold type_attr.
    rewrite (type_of_lookup _ _ El). split; reflexivity.
  Qed.
End Pipeline.

(* with strict mode OFF the class is NOT preserved: the class's verdict on the transformed definition may differ *)
Definition ex_swap_action : bool -> value -> res value := fun _ _ => Ok (VStr [121]).
Definition ex_def (t : str) : list (str * value) := [(K_Type, VStr t); (K_Action, VStr [120])].
Definition ex_accepts_x : str -> value -> bool :=
  fun _ r => match r with VDict [_; (_, VStr [120])] => true | _ => false end.
Theorem pipeline_class_nonstrict_refuted :
  exists modelled class_accepts generic_accepts steps d v r' o o',
    lookup K_Type d = Some v /\ survives steps v /\ run_steps steps (VDict d) = Ok r' /\
    dispatch_resource modelled class_accepts generic_accepts false (VDict d) = Ok o /\
    dispatch_resource modelled class_accepts generic_accepts false r' = Ok o' /\
    o_class o' <> o_class o.
Proof.
  exists [([84], [67])], ex_accepts_x, (fun _ => true), [SExpand ex_swap_action], (ex_def [84]), (VStr [84]),
         (VDict [(K_Type, VStr [84]); (K_Action, VStr [121])]),
         {| o_class := [67]; o_kept := [] |}, {| o_class := GENERIC; o_kept := [] |}.
  split; [reflexivity|]. split; [right; exists [84]; split; [reflexivity | discriminate]|].
  split; [reflexivity|]. split; [vm_compute; reflexivity|]. split; [vm_compute; reflexivity|]. cbn [o_class]. discriminate.
Qed.

(* ---- a whole Resources map through a list of steps ---- *)
Inductive mstep :=
| MResolve (e : env) (resolved : list (str * bool))      (* CFModel.resolve: conditional resources dropped, the rest resolved *)
| MExpand (ex : bool -> value -> res value).             (* CFModel.expand_actions *)
Fixpoint expand_resources (ex : bool -> value -> res value) (rs : list (str * value)) : res (list (str * value)) :=
  match rs with
  | [] => Ok []
  | (id, r) :: rest => r' <- expand_obj ex r ;; rest' <- expand_resources ex rest ;; Ok ((id, r') :: rest')
  end.
Definition run_mstep (s : mstep) (rs : list (str * value)) : res (list (str * value)) :=
  match s with MResolve e resolved => resolve_resources e resolved rs | MExpand ex => expand_resources ex rs end.
Fixpoint run_msteps (l : list mstep) (rs : list (str * value)) : res (list (str * value)) :=
  match l with [] => Ok rs | s :: l' => rs' <- run_mstep s rs ;; run_msteps l' rs' end.
Definition is_mresolve (s : mstep) : bool := match s with MResolve _ _ => true | MExpand _ => false end.

(* [r'] still carries the Type entry of [r] *)
Definition has_type (r : value) (v : value) : Prop := exists d, r = VDict d /\ lookup K_Type d = Some v /\ type_lit v.
Definition stable (r r' : value) : Prop := forall v, has_type r v -> has_type r' v.
(* [rs'] comes from [rs] by dropping entries and transforming the others without touching their Type entry *)
Inductive evolves : list (str * value) -> list (str * value) -> Prop :=
| ev_nil : evolves [] []
| ev_keep id r r' l l' : stable r r' -> evolves l l' -> evolves ((id, r) :: l) ((id, r') :: l')
| ev_drop id r l l' : evolves l l' -> evolves ((id, r) :: l) l'.

Lemma evolves_refl l : evolves l l.
Proof. induction l as [|[id r] l IH]; constructor; [intros v H; exact H | exact IH]. Qed.
Lemma evolves_trans a b : evolves a b -> forall c, evolves b c -> evolves a c.
Proof.
  intros H. induction H as [|id r r' l l' Hs H IH|id r l l' H IH]; intros c Hc.
  - exact Hc.
  - inversion Hc as [|id0 r0 r'' l0 l'' Hs' Hc' E1 E2|id0 r0 l0 l'' Hc' E1 E2]; subst.
    + constructor; [intros v Hv; apply Hs'; apply Hs; exact Hv | apply IH; exact Hc'].
    + apply ev_drop. apply IH. exact Hc'.
  - apply ev_drop. apply IH. exact Hc.
Qed.
Lemma evolves_keys_same a b : evolves a b -> List.length b = List.length a -> keys b = keys a.
Proof.
  intros H. assert (forall x y, evolves x y -> (List.length y <= List.length x)%nat) as Hle.
  { intros x y Hxy. induction Hxy; simpl; lia. }
  induction H as [|id r r' l l' Hs H IH|id r l l' H IH]; intros Hlen; [reflexivity| |].
  - unfold keys in *. simpl in *. f_equal. apply IH. lia.
  - apply Hle in H. simpl in Hlen. lia.
Qed.

Lemma resolve_resources_evolves e resolved : forall rs rs', resolve_resources e resolved rs = Ok rs' -> evolves rs rs'.
Proof.
  induction rs as [|[id r] rs IH]; intros rs' H; cbn [resolve_resources] in H; [inv H; constructor|].
  destruct (gate resolved r) as [keep|] eqn:G; cbn [bind] in H; [|discriminate]. destruct keep.
  - destruct (resolve_resource e r) as [r1|] eqn:R; cbn [bind] in H; [|discriminate].
    destruct (resolve_resources e resolved rs) as [rest|] eqn:Rs; cbn [bind] in H; [|discriminate]. inv H.
    constructor; [|apply IH; reflexivity]. intros v (d & -> & Hl & Hv).
    destruct (resolve_resource_keeps_type e d v r1 Hl Hv R) as (d' & -> & Hl'). exists d'. repeat split; assumption.
  - apply ev_drop. apply IH. exact H.
Qed.
Lemma expand_resources_evolves ex : forall rs rs', expand_resources ex rs = Ok rs' -> evolves rs rs' /\ keys rs' = keys rs.
Proof.
  induction rs as [|[id r] rs IH]; intros rs' H; cbn [expand_resources] in H; [inv H; split; [constructor | reflexivity]|].
  destruct (expand_obj ex r) as [r1|] eqn:R; cbn [bind] in H; [|discriminate].
  destruct (expand_resources ex rs) as [rest|] eqn:Rs; cbn [bind] in H; [|discriminate]. inv H.
  destruct (IH rest eq_refl) as [He Hk]. split; [|unfold keys in *; simpl; f_equal; exact Hk].
  constructor; [|exact He]. intros v (d & -> & Hl & Hv).
  destruct (expand_keeps_type_lit ex d v r1 Hl Hv R) as (d' & -> & Hl' & _). exists d'. repeat split; assumption.
Qed.
Theorem run_msteps_evolves steps : forall rs rs', run_msteps steps rs = Ok rs' ->
  evolves rs rs' /\ (existsb is_mresolve steps = false -> keys rs' = keys rs).
Proof.
  induction steps as [|s steps IH]; intros rs rs' H; cbn [run_msteps] in H.
  - inv H. split; [apply evolves_refl | reflexivity].
  - destruct (run_mstep s rs) as [rs1|] eqn:E1; cbn [bind] in H; [|discriminate]. destruct (IH rs1 rs' H) as [He Hk].
    destruct s as [e resolved|ex]; cbn [run_mstep] in E1.
    + split; [|discriminate]. exact (evolves_trans _ _ (resolve_resources_evolves _ _ _ _ E1) _ He).
    + destruct (expand_resources_evolves ex rs rs1 E1) as [He1 Hk1].
      split; [exact (evolves_trans _ _ He1 _ He)|]. cbn [existsb is_mresolve orb]. intros N. rewrite (Hk N). exact Hk1.
Qed.

Section PipelineMap.
  Variable modelled : list (str * str).
  Variable class_accepts : str -> value -> bool.
  Variable generic_accepts : value -> bool.
  Notation disp := (dispatch_resource modelled class_accepts generic_accepts).
  Notation parse := (parse_resources modelled class_accepts generic_accepts).

  (* every member is a dumped resource: an object with a Type entry (model_dump writes every declared field) *)
  Definition dumped (r : value) : Prop := exists d v, r = VDict d /\ lookup K_Type d = Some v.

  Lemma stable_same_parsed r r' o o' :
    dumped r -> stable r r' -> disp true r = Ok o -> disp true r' = Ok o' ->
    {| p_class := o_class o'; p_type := type_attr r' |} = {| p_class := o_class o; p_type := type_attr r |}.
  Proof.
    intros (d & v & -> & Hl) Hs Ho Ho'.
    assert (type_lit v) as Hv.
    { pose proof Ho as Ho1. rewrite dispatch_decision_table in Ho1. cbv zeta in Ho1. unfold type_of in Ho1. rewrite Hl in Ho1.
      destruct v as [| | |t| | | |]; try discriminate; [left; reflexivity | right; exists t; reflexivity]. }
    destruct (Hs v) as (d' & -> & Hl' & _); [exists d; repeat split; assumption|].
    assert (lookup K_Type d' = lookup K_Type d) as El by (rewrite Hl, Hl'; reflexivity).
    rewrite (dispatch_strict_class _ _ _ _ _ Ho), (dispatch_strict_class _ _ _ _ _ Ho'). unfold type_attr.
    rewrite (type_of_lookup _ _ El). reflexivity.
  Qed.
  Lemma evolves_parsed defs defs' : evolves defs defs' -> Forall (fun ir => dumped (snd ir)) defs ->
    forall rs rs', parse true defs = Ok rs -> parse true defs' = Ok rs' -> subseq rs' rs.
  Proof.
    intros H. induction H as [|id r r' l l' Hs H IH|id r l l' H IH]; intros Hd rs rs' Hp Hp'.
    - cbn [parse_resources] in Hp, Hp'. inv Hp. inv Hp'. constructor.
    - apply Forall_cons_iff in Hd. destruct Hd as [Hr Hd]. cbn [snd] in Hr. cbn [parse_resources] in Hp, Hp'.
      destruct (disp true r) as [o|] eqn:D; cbn [bind] in Hp; [|discriminate].
      destruct (parse true l) as [rest|] eqn:P; cbn [bind] in Hp; [|discriminate]. inv Hp.
      destruct (disp true r') as [o'|] eqn:D'; cbn [bind] in Hp'; [|discriminate].
      destruct (parse true l') as [rest'|] eqn:P'; cbn [bind] in Hp'; [|discriminate]. inv Hp'.
      rewrite (stable_same_parsed r r' o o' Hr Hs D D'). constructor. exact (IH Hd rest rest' eq_refl eq_refl).
    - apply Forall_cons_iff in Hd. destruct Hd as [_ Hd]. cbn [parse_resources] in Hp.
      destruct (disp true r) as [o|] eqn:D; cbn [bind] in Hp; [|discriminate].
      destruct (parse true l) as [rest|] eqn:P; cbn [bind] in Hp; [|discriminate]. inv Hp.
      apply sub_drop. exact (IH Hd rest rs' eq_refl Hp').
  Qed.

  (* strict mode, any steps: the parsed resources afterwards are the parsed resources before, restricted to the logical
     ids that survive (conditional resources may go) -- same classes, same Type attributes, same order *)
  Theorem pipeline_map_preserves steps defs defs' rs rs' :
    run_msteps steps defs = Ok defs' -> NoDup (keys defs) -> Forall (fun ir => dumped (snd ir)) defs ->
    parse true defs = Ok rs -> parse true defs' = Ok rs' ->
    rs' = filter (fun ir => mem_str (fst ir) (keys defs')) rs /\
    (existsb is_mresolve steps = false -> rs' = rs).
  Proof.
    intros Hr Hn Hd Hp Hp'. destruct (run_msteps_evolves steps defs defs' Hr) as [He Hk].
    pose proof (evolves_parsed defs defs' He Hd rs rs' Hp Hp') as Hs.
    pose proof (parse_resources_keys _ _ _ _ _ _ Hp) as K. pose proof (parse_resources_keys _ _ _ _ _ _ Hp') as K'.
    assert (rs' = filter (fun ir => mem_str (fst ir) (keys defs')) rs) as E.
    { rewrite <- K'. apply subseq_by_keys; [exact Hs | rewrite K; exact Hn]. }
    split; [exact E|]. intros N. rewrite E, (Hk N), <- K. apply filter_all. intros [i p] Hi. cbn [fst].
    apply mem_str_In. apply in_map_iff. exists (i, p). split; [reflexivity | exact Hi].
  Qed.
  (* hence every filter commutes with every such sequence *)
  Theorem filter_commutes_with_pipeline bases allowed steps defs defs' rs rs' :
    run_msteps steps defs = Ok defs' -> NoDup (keys defs) -> Forall (fun ir => dumped (snd ir)) defs ->
    parse true defs = Ok rs -> parse true defs' = Ok rs' ->
    filter_by_type bases allowed rs' = filter (fun ir => mem_str (fst ir) (keys defs')) (filter_by_type bases allowed rs) /\
    keys (filter_by_type bases allowed rs') = filter (fun id => mem_str id (keys defs')) (keys (filter_by_type bases allowed rs)) /\
    (existsb is_mresolve steps = false -> filter_by_type bases allowed rs' = filter_by_type bases allowed rs).
  Proof.
    intros Hr Hn Hd Hp Hp'. destruct (pipeline_map_preserves steps defs defs' rs rs' Hr Hn Hd Hp Hp') as [E Ex].
    assert (filter_by_type bases allowed rs' = filter (fun ir => mem_str (fst ir) (keys defs')) (filter_by_type bases allowed rs)) as F.
    { rewrite E. unfold filter_by_type. apply filter_comm. }
    split; [exact F|]. split; [rewrite F; apply (keys_filter_fst (fun id => mem_str id (keys defs')))|].
    intros N. rewrite (Ex N). reflexivity.
  Qed.
End PipelineMap.

(* ================================================================================================================== *)
(* 5. the LIVE table (gen/Schema.v): facts that hold however many types are modelled                                  *)
(* ================================================================================================================== *)
Lemma In_lookup {A} k (v : A) (l : list (str * A)) : NoDup (keys l) -> In (k, v) l -> lookup k l = Some v.
Proof.
  induction l as [|[k' v'] l IH]; intros Hn Hin; [contradiction|]. unfold keys in Hn. simpl in Hn.
  apply NoDup_cons_iff in Hn. destruct Hn as [Hk Hn]. cbn [lookup]. destruct Hin as [E|Hin].
  - inv E. rewrite str_eqb_refl. reflexivity.
  - destruct (str_eqb k k') eqn:E; [|apply IH; assumption]. apply str_eqb_spec in E. subst k'. exfalso. apply Hk.
    apply in_map_iff. exists (k, v). split; [reflexivity | exact Hin].
Qed.

(* re-proved by the kernel on every run: no modelled class, nor GenericResource, has another of them among its bases *)
Theorem Schema_classes_flat : flat bases_of (GENERIC :: MODELLED_CLASSES).
Proof.
  assert (forallb (fun c => forallb (fun c' => negb (mem_str c (bases_of c'))) (GENERIC :: MODELLED_CLASSES))
                  (GENERIC :: MODELLED_CLASSES) = true) as F by (vm_compute; reflexivity).
  intros c c' Hc Hc' Hin. rewrite forallb_forall in F. specialize (F c Hc). rewrite forallb_forall in F. specialize (F c' Hc').
  apply mem_str_In in Hin. rewrite Hin in F. discriminate.
Qed.

Theorem table_entry_iff t c : In (t, c) RESOURCE_MODELS <-> class_of RESOURCE_MODELS t = Some c.
Proof.
  split; [|apply lookup_In]. apply In_lookup. exact (proj1 Schema_types_distinct).
Qed.
(* two modelled types never share a class *)
Theorem table_class_of_injective t1 t2 c :
  class_of RESOURCE_MODELS t1 = Some c -> class_of RESOURCE_MODELS t2 = Some c -> t1 = t2.
Proof. apply class_of_inj. exact (proj1 (proj2 Schema_types_distinct)). Qed.
(* every modelled class has exactly one Type string *)
Theorem table_class_has_one_type c :
  In c MODELLED_CLASSES ->
  exists t, In t MODELLED_TYPES /\ class_of RESOURCE_MODELS t = Some c /\ forall t', class_of RESOURCE_MODELS t' = Some c -> t' = t.
Proof.
  intros H. apply in_map_iff in H. destruct H as ([t c'] & E & H). cbn [snd] in E. subst c'. exists t.
  pose proof (proj1 (table_entry_iff t c) H) as Hc.
  split; [apply class_of_modelled; exists c; exact Hc|]. split; [exact Hc|].
  intros t' H'. exact (table_class_of_injective t' t c H' Hc).
Qed.
(* ... which is the Literal its Type field declares (required, nothing else accepted) *)
Theorem table_class_literal t c :
  class_of RESOURCE_MODELS t = Some c ->
  exists cs f, find_class CLASSES c = Some cs /\ find_field (c_fields cs) K_Type = Some f /\
               is_required f = true /\ ftype_eqb (f_type f) (TLeaf (LLit t)) = true.
Proof.
  intros H. apply table_entry_iff in H. pose proof (Schema_modelled_strict (t, c) H) as M. unfold modelled_class_ok in M. cbn [fst snd] in M.
  destruct (find_class CLASSES c) as [cs|] eqn:Ec; [|discriminate].
  apply andb_true_iff in M. destruct M as [M _]. apply andb_true_iff in M. destruct M as [_ M].
  destruct (find_field (c_fields cs) K_Type) as [f|] eqn:Ef; [|discriminate]. apply andb_true_iff in M. destruct M as [M1 M2].
  exists cs, f. split; [reflexivity|]. split; [exact Ef|]. split; [exact M1 | exact M2].
Qed.
(* GenericResource is never the class of a modelled type *)
Theorem table_generic_never_modelled t : class_of RESOURCE_MODELS t <> Some GENERIC.
Proof. intros H. exact (modelled_class_not_generic t GENERIC H eq_refl). Qed.
Lemma table_generic_is_no_class : ~ In GENERIC (map snd RESOURCE_MODELS).
Proof. exact (proj2 (proj2 Schema_types_distinct)). Qed.
Lemma table_unmodelled t : class_of RESOURCE_MODELS t = None <-> ~ In t MODELLED_TYPES.
Proof.
  rewrite class_of_modelled. split.
  - intros H [c Hc]. rewrite H in Hc. discriminate.
  - intros H. destruct (class_of RESOURCE_MODELS t) as [c|] eqn:E; [|reflexivity]. exfalso. apply H. exists c. reflexivity.
Qed.

Section LiveTable.
  Variable class_accepts : str -> value -> bool.
  Variable generic_accepts : value -> bool.
  Notation disp := (dispatch_resource RESOURCE_MODELS class_accepts generic_accepts).
  Notation parse := (parse_resources RESOURCE_MODELS class_accepts generic_accepts).

  Theorem table_dedicated_iff strict r o :
    disp strict r = Ok o ->
    (o_class o <> GENERIC <->
     exists d s c, r = VDict d /\ type_of d = TyStr s /\ class_of RESOURCE_MODELS s = Some c /\ class_accepts c r = true /\ o_class o = c).
  Proof. apply dispatch_dedicated_iff. exact table_generic_is_no_class. Qed.
  Theorem table_strict_generic_unmodelled d o :
    disp true (VDict d) = Ok o -> o_class o = GENERIC ->
    generic_accepts (VDict d) = true /\ (type_of d = TyMissing \/ exists s, type_of d = TyStr s /\ ~ In s MODELLED_TYPES).
  Proof.
    intros H Hg. destruct (dispatch_strict_generic_unmodelled _ _ _ table_generic_is_no_class d o H Hg) as [G [Ht | (s & Ht & Hc)]].
    - split; [exact G | left; exact Ht].
    - split; [exact G | right; exists s; split; [exact Ht | apply table_unmodelled; exact Hc]].
  Qed.

  Theorem table_filter_string_is_class_strict t c defs rs :
    class_of RESOURCE_MODELS t = Some c -> parse true defs = Ok rs ->
    filter_by_type bases_of [WType t] rs = filter_by_type bases_of [WClass c] rs.
  Proof.
    intros Hc Hp. apply (filter_string_is_class_strict RESOURCE_MODELS bases_of); try exact Hc.
    - exact (proj1 (proj2 Schema_types_distinct)).
    - exact table_generic_is_no_class.
    - exact Schema_classes_flat.
    - exact (parse_resources_wf _ _ _ _ _ _ Hp).
  Qed.
  Theorem table_filter_string_vs_class strict t c defs rs :
    class_of RESOURCE_MODELS t = Some c -> parse strict defs = Ok rs ->
    filter_by_type bases_of [WClass c] rs = filter (fun ir => str_eqb (p_class (snd ir)) c) rs /\
    filter_by_type bases_of [WType t] rs = filter (fun ir => str_eqb (p_class (snd ir)) c || is_downgraded t (snd ir)) rs /\
    Permutation (filter_by_type bases_of [WType t] rs)
                (filter_by_type bases_of [WClass c] rs ++ filter (fun ir => is_downgraded t (snd ir)) rs) /\
    filter_by_type bases_of [WClass c] (filter_by_type bases_of [WType t] rs) = filter_by_type bases_of [WClass c] rs /\
    incl (filter (fun ir => is_downgraded t (snd ir)) rs) (filter_by_type bases_of [WClass GENERIC] rs).
  Proof.
    intros Hc Hp. apply (filter_string_vs_class RESOURCE_MODELS bases_of) with (strict := strict); try exact Hc.
    - exact (proj1 (proj2 Schema_types_distinct)).
    - exact table_generic_is_no_class.
    - exact Schema_classes_flat.
    - exact (parse_resources_wf _ _ _ _ _ _ Hp).
  Qed.
  Theorem table_partition strict defs rs :
    parse strict defs = Ok rs ->
    Permutation (flat_map (fun c => filter_by_type bases_of [WClass c] rs) (GENERIC :: MODELLED_CLASSES)) rs /\
    filter_by_type bases_of (map WClass (GENERIC :: MODELLED_CLASSES)) rs = rs /\
    Permutation (flat_map (fun c => filter_by_type bases_of [WClass c] rs) MODELLED_CLASSES)
                (filter (fun ir => negb (str_eqb (p_class (snd ir)) GENERIC)) rs).
  Proof.
    apply (parsed_partition RESOURCE_MODELS class_accepts generic_accepts bases_of).
    - exact (proj1 (proj2 Schema_types_distinct)).
    - exact table_generic_is_no_class.
    - exact Schema_classes_flat.
  Qed.
  Theorem table_parsed_classes strict defs rs :
    parse strict defs = Ok rs -> Forall (fun ir => In (p_class (snd ir)) (GENERIC :: MODELLED_CLASSES)) rs.
  Proof.
    intros Hp. pose proof (parse_resources_wf _ _ _ _ _ _ Hp) as Hw. rewrite Forall_forall in *. intros ir Hir.
    exact (wf_parsed_class RESOURCE_MODELS strict _ (Hw ir Hir)).
  Qed.
  Theorem table_exactly_one strict defs rs id p c :
    parse strict defs = Ok rs -> In (id, p) rs -> In c (GENERIC :: MODELLED_CLASSES) ->
    (In (id, p) (filter_by_type bases_of [WClass c] rs) <-> c = p_class p).
  Proof.
    intros Hp. apply (filter_exactly_one bases_of (GENERIC :: MODELLED_CLASSES)); [exact Schema_classes_flat|].
    exact (table_parsed_classes strict defs rs Hp).
  Qed.
  (* the three ways of asking for everything agree (link with C14_filter_resource_returns_all) *)
  Theorem table_filter_everything strict defs rs :
    parse strict defs = Ok rs ->
    filter_by_type bases_of (map WClass (GENERIC :: MODELLED_CLASSES)) rs = rs /\
    filter_by_type bases_of [WClass K_Resource] rs = rs.
  Proof.
    intros Hp. pose proof (table_parsed_classes strict defs rs Hp) as Hc.
    split; [apply filter_all_classes; exact Hc | apply table_filter_resource_all; exact Hc].
  Qed.

  (* one resource of a modelled Type, or with any Type string the steps cannot touch, through any steps *)
  Theorem table_pipeline steps d r' o o' :
    (lookup K_Type d = Some VNull \/
     exists t, lookup K_Type d = Some (VStr t) /\ (In t MODELLED_TYPES \/ type_fixed t = true \/ existsb is_raw steps = false)) ->
    run_steps steps (VDict d) = Ok r' -> disp true (VDict d) = Ok o -> disp true r' = Ok o' ->
    exists d', r' = VDict d' /\ lookup K_Type d' = lookup K_Type d /\ o_class o' = o_class o /\ type_attr r' = type_attr (VDict d).
  Proof.
    intros H. assert (exists v, lookup K_Type d = Some v /\ survives steps v) as (v & Hl & Hs).
    { destruct H as [Hl | (t & Hl & H)].
      - exists VNull. split; [exact Hl | left; reflexivity].
      - exists (VStr t). split; [exact Hl | right]. exists t. split; [reflexivity|]. intros Er.
        destruct H as [Hm | [Hf | Hn]]; [apply Schema_types_fixed; exact Hm | exact Hf | rewrite Hn in Er; discriminate]. }
    intros Hr Ho Ho'. exact (pipeline_preserves_class RESOURCE_MODELS class_accepts generic_accepts steps d v r' o o' Hl Hs Hr Ho Ho').
  Qed.
End LiveTable.
