(* C15 -- union stability on the LIVE class table, proved.

   The round-trip theorem of Typed/RoundtripFacts.v asks, for every union written in the class table, that the member that
   produced x be again the first (left-to-right mode) / the only one (smart mode) to accept dump x: [stable_for (val n) u].
   Typed/RoundtripTable.v kept this as one blanket hypothesis over all unions of gen/Schema.v.  This file replaces it by

     (a) a PROOF, organised as a syntactic classifier [union_ok : bool * list ftype -> bool], its soundness
         [union_ok_sound : union_ok u = true -> forall n, stable_for (val n) u] and the computation
         [TABLE_UNIONS_ok : forallb union_ok TABLE_UNIONS = true], which is re-run against the regenerated table on every
         build (a future union of a shape the lemmas do not cover breaks the build);
     (b) a SMALL set of per-leaf facts about pydantic-core's scalar validators (the oracle [core]), each true of pydantic 2.7
         in lax python mode and each checked at run time on every generated model (harness/props/c15.py):
           core_str_takes_text_or_bytes   str accepts nothing but str and bytes-like input
           core_str_refuses_list / core_int_refuses_list / core_datetime_refuses_list     a list is a ValidationError
           core_str_refuses_dict          a dict is a ValidationError for str
         (plus the three that the round-trip theorem already had: accepts own output, str keeps / yields a str);
     (c) for the two unions that are GENUINELY UNSTABLE when a str leaf is handed bytes-like input (never the case for data
         that comes from JSON / YAML) a residual hypothesis named after the union, which speaks about bytes input only:
           union_int_str_fn_on_bytes      Union[int, str, FunctionDict] (= Resolvable[Union[int, str]]),
                                          delicate value bytearray(b"7"): int refuses a bytearray, str decodes it to "7",
                                          the dump "7" is taken by int -> 7
           union_ip_or_str_on_bytes       ResolvableIPOrStrOrList, delicate value b"10.0.0.0/8": no network validator takes
                                          these ten bytes, str decodes them, the dump "10.0.0.0/8" is an IPv4 network
         Both instabilities are proved below ([int_str_fn_unstable_on_bytes], [ip_or_str_unstable_on_bytes]) from facts
         that are TRUE of pydantic, so the two residual hypotheses amount to a restriction of the domain: they follow from
         "the oracle never accepts bytes for str" ([residuals_of_text_only]), which is how the runner's instance
         (Typed/RoundtripRun.v core_dumped: EUndefined) behaves.

   The facts about pycfmodel's OWN leaves (SemiStrictBool, the network types, validate_binary, Literal, FunctionDict, Tag's
   str-with-number-coercion, Dict / List) are proved from their Gallina definitions in Typed/Leaves.v. *)
From Coq Require Import List Bool NArith ZArith Lia.
From PV Require Import Base.Str Base.Value Resolver.Consts.
From PV Require Import Net.Arith Net.NetText Net.IPv4 Net.IPv4Thm Net.IPv6 Net.IPv6Thm.
From PV Require Import Typed.Schema Typed.Dispatch Typed.Leaves Typed.Roundtrip Typed.RoundtripFacts Typed.RoundtripTable.
From PVGen Require Import Schema.
Import ListNotations.

(* ---------------------------------------------------------------------------------------------------------------- *)
(* soft refusals *)
Lemma soft_validation : soft_err (Err EValidation).
Proof. exists EValidation. split; reflexivity. Qed.
Lemma soft_not_ok x : ~ soft_err (Ok x).
Proof. intros (e & H & _). discriminate. Qed.
Lemma first_ok_all_soft rs : Forall soft_err rs -> first_ok rs = Err EValidation.
Proof. induction 1 as [|r rs (e & -> & Hh) _ IH]; simpl; [reflexivity|]. rewrite Hh. exact IH. Qed.
Lemma first_ok_soft_inv rs : soft_err (first_ok rs) -> Forall soft_err rs.
Proof.
  induction rs as [|r rs IH]; simpl; intros H; [constructor|]. destruct r as [x|e]; [destruct (soft_not_ok _ H)|].
  destruct (is_hard e) eqn:Eh.
  - destruct H as (e' & E & Hh). inv E. congruence.
  - constructor; [exists e; split; [reflexivity | exact Eh] | exact (IH H)].
Qed.
Lemma smart_ok_all_soft rs : Forall soft_err rs -> smart_ok rs = Err EValidation.
Proof. induction 1 as [|r rs (e & -> & Hh) _ IH]; simpl; [reflexivity|]. rewrite Hh. exact IH. Qed.
Lemma smart_ok_soft_inv rs : soft_err (smart_ok rs) -> Forall soft_err rs.
Proof.
  induction rs as [|r rs IH]; simpl; intros H; [constructor|]. destruct r as [x|e].
  - destruct (forallb is_soft rs); [destruct (soft_not_ok _ H)|]. destruct H as (e' & E & Hh). inv E. discriminate.
  - destruct (is_hard e) eqn:Eh.
    + destruct H as (e' & E & Hh). inv E. congruence.
    + constructor; [exists e; split; [reflexivity | exact Eh] | exact (IH H)].
Qed.
Lemma Forall_map_iff {A B} (P : B -> Prop) (f : A -> B) l : Forall P (map f l) <-> Forall (fun a => P (f a)) l.
Proof. induction l as [|a l IH]; simpl; split; intros H; try constructor; inv H; try tauto. Qed.

(* ---------------------------------------------------------------------------------------------------------------- *)
(* the text of an IPv6 network is not an IPv4 network: parse4 needs a '.', and print6_full never writes one *)
Lemma in_join_piece (sep : str) parts p x : In p parts -> In x p -> In x (join sep parts).
Proof.
  induction parts as [|q parts IH]; intros Hp Hx; [contradiction|]. destruct Hp as [->|Hp].
  - destruct parts; simpl; [exact Hx | apply in_or_app; left; exact Hx].
  - destruct parts as [|q' parts]; [contradiction|]. cbn [join]. apply in_or_app. right. apply in_or_app. right. apply IH; assumption.
Qed.
Lemma in_split_piece c s p x : In p (split_ch c s) -> In x p -> In x s.
Proof. intros Hp Hx. rewrite <- (split_ch_inv c s). eapply in_join_piece; eauto. Qed.
Lemma parse_addr4_dot a x : parse_addr4 a = Some x -> In DOT a.
Proof.
  unfold parse_addr4. intros H. destruct (has_ch DOT a) eqn:E; [apply has_ch_In; exact E|].
  apply has_ch_false in E. rewrite (split_ch_none DOT a E) in H. discriminate.
Qed.
Lemma written4_dot s r : written4 s = Some r -> In DOT s.
Proof.
  unfold written4. intros H. destruct (split_ch SLASH s) as [|a [|m [|? ?]]] eqn:E; try discriminate.
  - destruct (parse_addr4 a) eqn:Ea; [|discriminate]. apply (in_split_piece SLASH s a); [rewrite E; left; reflexivity|].
    eapply parse_addr4_dot; eauto.
  - destruct (parse_addr4 a) eqn:Ea; [|discriminate]. apply (in_split_piece SLASH s a); [rewrite E; left; reflexivity|].
    eapply parse_addr4_dot; eauto.
Qed.
Lemma hexchar_not_dot d : hexchar d <> DOT.
Proof. unfold hexchar, DOT. destruct (d <? 10)%N eqn:E; [apply N.ltb_lt in E | apply N.ltb_ge in E]; lia. Qed.
Lemma digit_not_dot x : (48 + x)%N <> DOT.
Proof. unfold DOT. lia. Qed.
Lemma print_small_not_dot n : ~ In DOT (print_small n).
Proof.
  unfold print_small. destruct (n <? 10)%N; [|destruct (n <? 100)%N]; cbn [In]; intros H;
    repeat (destruct H as [H|H]; [exact (digit_not_dot _ H)|]); exact H.
Qed.
Lemma print6_full_no_dot n : ~ In DOT (print6_full n).
Proof.
  unfold print6_full, print_addr6_full. intros H. apply in_app_or in H. destruct H as [H|[H|H]].
  - unfold groups6 in H. cbn [map join] in H. unfold hex4 in H.
    repeat (apply in_app_or in H; destruct H as [H|H]);
      cbn [In] in H; repeat (destruct H as [H|H]; [first [exact (hexchar_not_dot _ H) | (unfold COLON, DOT in H; lia)]|]); try exact H.
  - unfold SLASH, DOT in H. lia.
  - exact (print_small_not_dot _ H).
Qed.
Lemma parse4_of_net6_text n : parse4 (print6_full n) = Err EValue.
Proof.
  unfold parse4. destruct (written4 (print6_full n)) as [[x l]|] eqn:E; [|reflexivity].
  exfalso. exact (print6_full_no_dot n (written4_dot _ _ E)).
Qed.

(* ---------------------------------------------------------------------------------------------------------------- *)
(* SHAPES: what the dump of a validated value can look like, as far as the unions of the table need to tell values apart *)
Inductive shape :=
| SStr      (* a str *)
| SBool     (* a bool *)
| SBytes    (* bytes *)
| SList     (* a list *)
| SModel    (* the dump of a model instance whose class declares at least two fields: a dict with at least two entries *)
| SNet4     (* an IPv4Network (carried as its text) *)
| SNet6.    (* an IPv6Network (carried as its exploded text) *)
Definition has_shape (s : shape) (w : value) : Prop :=
  match s with
  | SStr => exists t, w = VStr t
  | SBool => exists b, w = VBool b
  | SBytes => exists b, w = VBytes b
  | SList => exists l, w = VList l
  | SModel => exists D, w = VDict D /\ (2 <= length D)%nat
  | SNet4 => exists n, wf W4 n /\ w = net4_text n
  | SNet6 => exists n, wf W6 n /\ w = net6_text n
  end.
Definition shape_is_list (s : shape) : bool := match s with SList => true | _ => false end.
Definition shape_is_dict (s : shape) : bool := match s with SModel => true | _ => false end.
Definition is_list (w : value) : bool := match w with VList _ => true | _ => false end.
Definition is_dict (w : value) : bool := match w with VDict _ => true | _ => false end.
Lemma shape_list s w : has_shape s w -> is_list w = shape_is_list s.
Proof. destruct s; cbn [has_shape]; intros H; try (destruct H as (? & ->)); try (destruct H as (? & _ & ->)); try (destruct H as (? & -> & _)); reflexivity. Qed.
Lemma shape_dict s w : has_shape s w -> is_dict w = shape_is_dict s.
Proof. destruct s; cbn [has_shape]; intros H; try (destruct H as (? & ->)); try (destruct H as (? & _ & ->)); try (destruct H as (? & -> & _)); reflexivity. Qed.
Lemma shape_not_null s w : has_shape s w -> w <> VNull.
Proof. destruct s; cbn [has_shape]; intros H; try (destruct H as (? & ->)); try (destruct H as (? & _ & ->)); try (destruct H as (? & -> & _)); discriminate. Qed.

(* which leaf refuses (ValidationError) every value of which shape.  First line: pydantic-core's validators, by the premises
   of the Section below; the others: pycfmodel's own validators, by their definitions *)
Definition leaf_refuses (k : leaf) (s : shape) : bool :=
  match k, s with
  | LStr, SList | LStr, SModel | LInt, SList | LDatetime, SList => true
  | LStrNum, (SBool | SList | SModel | SNet4 | SNet6) => true
  | LSemiBool, (SBytes | SList | SModel | SNet4 | SNet6) => true
  | LNet4, (SList | SModel | SNet6) => true
  | LNet6, (SList | SModel) => true
  | LBinary, (SBool | SList | SModel | SNet4 | SNet6) => true
  | LLit _, (SBool | SBytes | SList | SModel | SNet4 | SNet6) => true
  | LFn, _ => true
  | LDictAny, (SStr | SBool | SBytes | SList | SNet4 | SNet6) => true
  | LListAny, (SStr | SBool | SBytes | SModel | SNet4 | SNet6) => true
  | _, _ => false
  end.
(* the shapes of what a leaf hands out when it does not hand its input back unchanged; None = not known (not needed) *)
Definition leaf_outs (k : leaf) : option (list shape) :=
  match k with
  | LStr | LStrNum => Some [SStr]
  | LSemiBool => Some [SBool]
  | LNet4 => Some [SNet4]
  | LNet6 => Some [SNet6]
  | LBinary => Some [SBytes]
  | LLit _ | LFn | LAny | LDictAny | LListAny => Some []         (* identity leaves *)
  | LInt | LPosInt | LIntOrStr | LBool | LDate | LDatetime | LGeneric => None
  end.

(* pycfmodel's own leaves, from their definitions *)
Lemma function_dict_refuses s w : has_shape s w -> function_dict w = Err EValidation.
Proof.
  destruct s; cbn [has_shape]; intros H; try (destruct H as (? & ->); reflexivity); try (destruct H as (? & _ & ->); reflexivity).
  destruct H as (D & -> & HD). destruct D as [|[k b] [|kv D]]; cbn [length] in HD; try lia. reflexivity.
Qed.
Lemma loose_net4_refuses_net6 n : loose_net4 (net6_text n) = Err EValidation.
Proof. unfold loose_net4, net6_text. rewrite parse4_of_net6_text. reflexivity. Qed.

Section Leaves.
  Variable core : leaf -> value -> res value.
  Notation leafv := (leaf_validate core).
  Hypothesis core_str_yields_str : forall v w, core LStr v = Ok w -> exists s, w = VStr s.
  Hypothesis core_str_refuses_list : forall l, core LStr (VList l) = Err EValidation.
  Hypothesis core_int_refuses_list : forall l, core LInt (VList l) = Err EValidation.
  Hypothesis core_datetime_refuses_list : forall l, core LDatetime (VList l) = Err EValidation.
  Hypothesis core_str_refuses_dict : forall d, core LStr (VDict d) = Err EValidation.

  Lemma leaf_refuses_sound k s w : leaf_refuses k s = true -> has_shape s w -> leafv k w = Err EValidation.
  Proof.
    intros Hr Hs. destruct k; try discriminate Hr; cbn [leaf_validate].
    - (* str *) destruct s; try discriminate Hr; cbn [has_shape] in Hs.
      + destruct Hs as (l & ->). apply core_str_refuses_list.
      + destruct Hs as (D & -> & _). apply core_str_refuses_dict.
    - (* str with number coercion *) destruct s; try discriminate Hr; cbn [has_shape] in Hs;
        try (destruct Hs as (? & ->); reflexivity); try (destruct Hs as (? & _ & ->); reflexivity); destruct Hs as (? & -> & _); reflexivity.
    - (* int *) destruct s; try discriminate Hr. destruct Hs as (l & ->). apply core_int_refuses_list.
    - (* SemiStrictBool *) destruct s; try discriminate Hr; cbn [has_shape] in Hs;
        try (destruct Hs as (? & ->); reflexivity); try (destruct Hs as (? & _ & ->); reflexivity); destruct Hs as (? & -> & _); reflexivity.
    - (* datetime *) destruct s; try discriminate Hr. destruct Hs as (l & ->). apply core_datetime_refuses_list.
    - (* IPv4 *) destruct s; try discriminate Hr; cbn [has_shape] in Hs.
      + destruct Hs as (? & ->); reflexivity.
      + destruct Hs as (? & -> & _); reflexivity.
      + destruct Hs as (n & _ & ->). apply loose_net4_refuses_net6.
    - (* IPv6 *) destruct s; try discriminate Hr; cbn [has_shape] in Hs.
      + destruct Hs as (? & ->); reflexivity.
      + destruct Hs as (? & -> & _); reflexivity.
    - (* binary *) destruct s; try discriminate Hr; cbn [has_shape] in Hs;
        try (destruct Hs as (? & ->); reflexivity); try (destruct Hs as (? & _ & ->); reflexivity); destruct Hs as (? & -> & _); reflexivity.
    - (* Literal *) destruct s; try discriminate Hr; cbn [has_shape] in Hs;
        try (destruct Hs as (? & ->); reflexivity); try (destruct Hs as (? & _ & ->); reflexivity); destruct Hs as (? & -> & _); reflexivity.
    - (* FunctionDict *) eapply function_dict_refuses; eauto.
    - (* Dict *) destruct s; try discriminate Hr; cbn [has_shape] in Hs;
        try (destruct Hs as (? & ->); reflexivity); try (destruct Hs as (? & _ & ->); reflexivity).
    - (* List *) destruct s; try discriminate Hr; cbn [has_shape] in Hs;
        try (destruct Hs as (? & ->); reflexivity); try (destruct Hs as (? & _ & ->); reflexivity); destruct Hs as (? & -> & _); reflexivity.
  Qed.

  Lemma leaf_outs_sound k ss v w : leaf_outs k = Some ss -> leafv k v = Ok w -> w = v \/ exists s, In s ss /\ has_shape s w.
  Proof.
    intros Ho H. destruct k; try discriminate Ho; inv Ho; cbn [leaf_validate] in H.
    - right. exists SStr. split; [left; reflexivity | exact (core_str_yields_str _ _ H)].
    - right. exists SStr. split; [left; reflexivity | exact (str_num_out _ _ H)].
    - right. exists SBool. split; [left; reflexivity | exact (semi_strict_bool_out _ _ H)].
    - right. exists SNet4. split; [left; reflexivity | exact (loose_net4_out _ _ H)].
    - right. exists SNet6. split; [left; reflexivity | exact (loose_net6_out _ _ H)].
    - right. exists SBytes. split; [left; reflexivity | exact (validate_binary_out _ _ H)].
    - left. apply (literal_id _ _ _ H).
    - left. apply (function_dict_id _ _ H).
    - left. inv H. reflexivity.
    - left. destruct v; try discriminate. inv H. reflexivity.
    - left. destruct v; try discriminate. inv H. reflexivity.
  Qed.
End Leaves.

(* ---------------------------------------------------------------------------------------------------------------- *)
(* field types: which type refuses every value of which shape, and the shapes of what a type hands out *)
Definition opt_concat {A} (l : list (option (list A))) : option (list A) :=
  fold_right (fun o acc => match o, acc with Some a, Some b => Some (a ++ b) | _, _ => None end) (Some []) l.
Lemma opt_concat_In {A B} (f : B -> option (list A)) ts t : In t ts ->
  forall ss, opt_concat (map f ts) = Some ss -> exists a, f t = Some a /\ incl a ss.
Proof.
  induction ts as [|t' ts IH]; intros Hin ss H; [contradiction|]. cbn [map opt_concat fold_right] in H.
  fold (opt_concat (map f ts)) in H. destruct (f t') as [a'|] eqn:Ea; [|discriminate].
  destruct (opt_concat (map f ts)) as [b|] eqn:Eb; [|discriminate]. inv H. destruct Hin as [->|Hin].
  - exists a'. split; [exact Ea | apply incl_appl; apply incl_refl].
  - destruct (IH Hin b eq_refl) as (a & Ha & Hi). exists a. split; [exact Ha | apply incl_appr; exact Hi].
Qed.

Fixpoint refuses (t : ftype) (s : shape) : bool :=
  match t with
  | TLeaf k => leaf_refuses k s
  | TList _ => negb (shape_is_list s)
  | TDictOf _ => negb (shape_is_dict s)
  | TUnionLR ts | TUnionSmart ts => forallb (fun t' => refuses t' s) ts
  | TResolvable t' => refuses t' s && leaf_refuses LFn s
  | TModel _ | TResource => negb (shape_is_dict s)      (* a model class takes nothing but a dict *)
  | TOpt t' => refuses t' s                              (* no shape is None *)
  end.
Fixpoint outs (S : list cschema) (t : ftype) : option (list shape) :=
  match t with
  | TLeaf k => leaf_outs k
  | TList _ => Some [SList]
  | TUnionLR ts | TUnionSmart ts => opt_concat (map (outs S) ts)
  | TResolvable t' | TOpt t' => outs S t'                (* FunctionDict hands its input back; None stays None *)
  | TModel name => match find_class S name with
                   | Some c => if Nat.leb 2 (length (c_fields c)) then Some [SModel] else None
                   | None => Some []                      (* never validates *)
                   end
  | TDictOf _ | TResource => None
  end.

Section Step.
  Variable S : list cschema.
  Variable modelled : list (str * str).
  Variable core : leaf -> value -> res value.
  Variable bn : str -> value -> res tval.
  Notation leafv := (leaf_validate core).
  Notation vs := (validate_step modelled leafv bn).
  Hypothesis core_str_yields_str : forall v w, core LStr v = Ok w -> exists s, w = VStr s.
  Hypothesis core_str_refuses_list : forall l, core LStr (VList l) = Err EValidation.
  Hypothesis core_int_refuses_list : forall l, core LInt (VList l) = Err EValidation.
  Hypothesis core_datetime_refuses_list : forall l, core LDatetime (VList l) = Err EValidation.
  Hypothesis core_str_refuses_dict : forall d, core LStr (VDict d) = Err EValidation.
  (* model classes: whatever refuses something refuses everything that is not a dict; an instance has all declared fields *)
  Hypothesis Hbn_nondict : forall name v w, soft_err (bn name v) -> is_dict w = false -> soft_err (bn name w).
  Hypothesis Hbn_out : forall name v x, bn name v = Ok x ->
    exists c fs ex, find_class S name = Some c /\ x = XModel (c_name c) fs ex /\ length fs = length (c_fields c).

  Lemma vs_opt t v : v <> VNull -> vs (TOpt t) v = vs t v.
  Proof. destruct v; try reflexivity. congruence. Qed.

  Lemma refuses_sound t s : refuses t s = true -> forall v w, soft_err (vs t v) -> has_shape s w -> soft_err (vs t w).
  Proof.
    induction t as [k|t IHt|t IHt|ts IHts|ts IHts|t IHt|name| |t IHt] using ftype_ind'; cbn [refuses]; intros Hr v w Hv Hs.
    - cbn [validate_step].
      rewrite (leaf_refuses_sound core core_str_refuses_list core_int_refuses_list core_datetime_refuses_list core_str_refuses_dict k s w Hr Hs).
      apply soft_validation.
    - pose proof (shape_list s w Hs) as E. apply negb_true_iff in Hr. rewrite Hr in E. destruct w; try discriminate E; apply soft_validation.
    - pose proof (shape_dict s w Hs) as E. apply negb_true_iff in Hr. rewrite Hr in E. destruct w; try discriminate E; apply soft_validation.
    - change (vs (TUnionLR ts) v) with (first_ok (map (fun t' => vs t' v) ts)) in Hv.
      change (vs (TUnionLR ts) w) with (first_ok (map (fun t' => vs t' w) ts)).
      apply first_ok_soft_inv in Hv. apply (proj1 (Forall_map_iff soft_err (fun t' => vs t' v) ts)) in Hv. rewrite first_ok_all_soft; [apply soft_validation|].
      apply (proj2 (Forall_map_iff soft_err (fun t' => vs t' w) ts)). rewrite forallb_forall in Hr. rewrite Forall_forall in *. intros t' Hin.
      exact (IHts t' Hin (Hr t' Hin) v w (Hv t' Hin) Hs).
    - change (vs (TUnionSmart ts) v) with (smart_ok (map (fun t' => vs t' v) ts)) in Hv.
      change (vs (TUnionSmart ts) w) with (smart_ok (map (fun t' => vs t' w) ts)).
      apply smart_ok_soft_inv in Hv. apply (proj1 (Forall_map_iff soft_err (fun t' => vs t' v) ts)) in Hv. rewrite smart_ok_all_soft; [apply soft_validation|].
      apply (proj2 (Forall_map_iff soft_err (fun t' => vs t' w) ts)). rewrite forallb_forall in Hr. rewrite Forall_forall in *. intros t' Hin.
      exact (IHts t' Hin (Hr t' Hin) v w (Hv t' Hin) Hs).
    - apply andb_true_iff in Hr. destruct Hr as [Hr1 Hr2].
      change (vs (TResolvable t) v) with (first_ok [vs t v; w0 <- leafv LFn v ;; Ok (XLeaf w0)]) in Hv.
      change (vs (TResolvable t) w) with (first_ok [vs t w; w0 <- leafv LFn w ;; Ok (XLeaf w0)]).
      apply first_ok_soft_inv in Hv. inv Hv. rewrite first_ok_all_soft; [apply soft_validation|].
      constructor; [exact (IHt Hr1 v w H1 Hs)|]. constructor; [|constructor].
      cbn [leaf_validate]. rewrite (function_dict_refuses s w Hs). apply soft_validation.
    - change (vs (TModel name) w) with (bn name w). change (vs (TModel name) v) with (bn name v) in Hv.
      apply (Hbn_nondict name v w Hv). rewrite (shape_dict s w Hs). apply negb_true_iff. exact Hr.
    - pose proof (shape_dict s w Hs) as E. apply negb_true_iff in Hr. rewrite Hr in E. destruct w; try discriminate E; apply soft_validation.
    - destruct v; try (rewrite vs_opt in Hv by discriminate; rewrite vs_opt by (exact (shape_not_null s w Hs)); exact (IHt Hr _ w Hv Hs)).
      destruct (soft_not_ok _ Hv).
  Qed.

  Lemma outs_sound t : forall ss, outs S t = Some ss ->
    forall v x, vs t v = Ok x -> dump x = v \/ exists s, In s ss /\ has_shape s (dump x).
  Proof.
    induction t as [k|t IHt|t IHt|ts IHts|ts IHts|t IHt|name| |t IHt] using ftype_ind'; cbn [outs]; intros ss Ho v x H.
    - cbn [validate_step] in H. destruct (leafv k v) as [w|] eqn:E; cbn [bind] in H; [|discriminate]. inv H. cbn [dump].
      exact (leaf_outs_sound core core_str_yields_str k ss v w Ho E).
    - inv Ho. cbn [validate_step] in H. destruct v; try discriminate.
      destruct (mapM (vs t) l) as [xs|]; cbn [bind] in H; [|discriminate]. inv H. right. exists SList. split; [left; reflexivity|].
      cbn [dump has_shape]. eexists; reflexivity.
    - discriminate.
    - change (vs (TUnionLR ts) v) with (first_ok (map (fun t' => vs t' v) ts)) in H.
      destruct (first_ok_inv (fun t' => vs t' v) ts x H) as (pre & t0 & post & -> & _ & Ht0).
      assert (In t0 (pre ++ t0 :: post)) as Hin by (apply in_or_app; right; left; reflexivity).
      destruct (opt_concat_In (outs S) _ t0 Hin ss Ho) as (a & Ha & Hi). rewrite Forall_forall in IHts.
      destruct (IHts t0 Hin a Ha v x Ht0) as [E|(s & Hsin & Hs)]; [left; exact E | right; exists s; split; [apply Hi; exact Hsin | exact Hs]].
    - change (vs (TUnionSmart ts) v) with (smart_ok (map (fun t' => vs t' v) ts)) in H.
      destruct (smart_ok_inv (fun t' => vs t' v) ts x H) as (pre & t0 & post & -> & _ & Ht0 & _).
      assert (In t0 (pre ++ t0 :: post)) as Hin by (apply in_or_app; right; left; reflexivity).
      destruct (opt_concat_In (outs S) _ t0 Hin ss Ho) as (a & Ha & Hi). rewrite Forall_forall in IHts.
      destruct (IHts t0 Hin a Ha v x Ht0) as [E|(s & Hsin & Hs)]; [left; exact E | right; exists s; split; [apply Hi; exact Hsin | exact Hs]].
    - change (vs (TResolvable t) v) with (first_ok [vs t v; w0 <- leafv LFn v ;; Ok (XLeaf w0)]) in H. cbn [first_ok] in H.
      destruct (vs t v) as [y|e] eqn:E.
      + inv H. exact (IHt ss Ho v x E).
      + destruct (is_hard e); [discriminate|]. cbn [leaf_validate] in H.
        destruct (function_dict v) as [w0|e'] eqn:Ef; cbn [bind] in H; [|destruct (is_hard e'); discriminate]. inv H.
        left. cbn [dump]. exact (function_dict_id _ _ Ef).
    - change (vs (TModel name) v) with (bn name v) in H. destruct (Hbn_out name v x H) as (c & fs & ex & Ef & -> & Hl).
      rewrite Ef in Ho. destruct (Nat.leb 2 (length (c_fields c))) eqn:E2; [|discriminate]. inv Ho. apply Nat.leb_le in E2.
      right. exists SModel. split; [left; reflexivity|]. rewrite dump_model. cbn [has_shape]. eexists. split; [reflexivity|].
      rewrite app_length, map_length, Hl. lia.
    - discriminate.
    - destruct v; try (rewrite vs_opt in H by discriminate; exact (IHt ss Ho _ x H)).
      cbn [validate_step] in H. inv H. left. reflexivity.
  Qed.

  (* ---- one member of a union against the others ---- *)
  Definition member_ok (others : list ftype) (t : ftype) : bool :=
    match others with
    | [] => true
    | _ => match outs S t with
           | Some ss => forallb (fun s => forallb (fun t' => refuses t' s) others) ss
           | None => false
           end
    end.
  Lemma member_ok_sound others t v x : member_ok others t = true ->
    Forall (fun t' => soft_err (vs t' v)) others -> vs t v = Ok x -> Forall (fun t' => soft_err (vs t' (dump x))) others.
  Proof.
    intros Hm Ho Ht. destruct others as [|o others]; [constructor|]. unfold member_ok in Hm.
    destruct (outs S t) as [ss|] eqn:Eo; [|discriminate].
    destruct (outs_sound t ss Eo v x Ht) as [E|(s & Hsin & Hs)]; [rewrite E; exact Ho|].
    rewrite forallb_forall in Hm. specialize (Hm s Hsin). rewrite forallb_forall in Hm. rewrite Forall_forall in *.
    intros t' Hin. exact (refuses_sound t' s (Hm t' Hin) v (dump x) (Ho t' Hin) Hs).
  Qed.

  Fixpoint lr_ok (pre l : list ftype) : bool :=
    match l with [] => true | t :: post => member_ok pre t && lr_ok (pre ++ [t]) post end.
  Fixpoint sm_ok (pre l : list ftype) : bool :=
    match l with [] => true | t :: post => member_ok (pre ++ post) t && sm_ok (pre ++ [t]) post end.
  Lemma lr_ok_split l : forall pre, lr_ok pre l = true -> forall p t post, l = p ++ t :: post -> member_ok (pre ++ p) t = true.
  Proof.
    induction l as [|t0 l IH]; intros pre H p t post E; [destruct p; discriminate|]. cbn [lr_ok] in H. apply andb_true_iff in H.
    destruct H as [H1 H2]. destruct p as [|t1 p]; cbn [app] in E; inv E.
    - rewrite app_nil_r. exact H1.
    - pose proof (IH (pre ++ [t1]) H2 p t post eq_refl) as R. rewrite <- app_assoc in R. exact R.
  Qed.
  Lemma sm_ok_split l : forall pre, sm_ok pre l = true -> forall p t post, l = p ++ t :: post -> member_ok (pre ++ p ++ post) t = true.
  Proof.
    induction l as [|t0 l IH]; intros pre H p t post E; [destruct p; discriminate|]. cbn [sm_ok] in H. apply andb_true_iff in H.
    destruct H as [H1 H2]. destruct p as [|t1 p]; cbn [app] in E; inv E.
    - exact H1.
    - pose proof (IH (pre ++ [t1]) H2 p t post eq_refl) as R. rewrite <- app_assoc in R. exact R.
  Qed.

  (* the generic shape argument: every member's outputs are refused by the members that refused the input *)
  Definition generic_ok (u : bool * list ftype) : bool := if fst u then sm_ok [] (snd u) else lr_ok [] (snd u).
  Theorem generic_ok_sound u : generic_ok u = true -> stable_for vs u.
  Proof.
    destruct u as [[|] ts]; unfold generic_ok, stable_for; cbn [fst snd]; intros H.
    - intros pre t post v x -> Hpre Ht Hpost. pose proof (sm_ok_split _ [] H pre t post eq_refl) as Hm. cbn [app] in Hm.
      apply Forall_app. apply (member_ok_sound (pre ++ post) t v x Hm); [apply Forall_app; split; assumption | exact Ht].
    - intros pre t post v x -> Hpre Ht. pose proof (lr_ok_split _ [] H pre t post eq_refl) as Hm. cbn [app] in Hm.
      exact (member_ok_sound pre t v x Hm Hpre Ht).
  Qed.
End Step.

(* ---------------------------------------------------------------------------------------------------------------- *)
(* THE TWO UNIONS THAT NEED MORE THAN SHAPES: a str member AFTER members that take some texts (int; the network types).
   On text input the str member hands its input back (dump x = v), so whoever refused v refuses dump x.  What is left is
   bytes-like input, which lax str DECODES: there the dump is a text the earlier members never saw. *)
Definition IPNET : ftype := TUnionLR [TResolvable TNet4; TResolvable TNet6].                 (* ResolvableIPNetwork *)
Definition IP_OR_LIST : ftype := TUnionLR [IPNET; TList IPNET].                              (* ResolvableIPOrList *)
Definition STR_OR_LIST : ftype := TUnionLR [TResolvable TStr; TList (TResolvable TStr)].     (* InstanceOrListOf[Resolvable[str]] *)
Definition U_IP_OR_STR : bool * list ftype := (false, [IP_OR_LIST; STR_OR_LIST]).            (* ResolvableIPOrStrOrList *)
Definition U_INT_STR_FN : bool * list ftype := (false, [TInt; TStr; TFn]).                   (* Resolvable[Union[int, str]] *)
(* bytes where a text or a list of texts is expected *)
Definition holds_bytes (v : value) : Prop := (exists b, v = VBytes b) \/ (exists l b, v = VList l /\ In (VBytes b) l).

Section Special.
  Variable modelled : list (str * str).
  Variable core : leaf -> value -> res value.
  Variable bn : str -> value -> res tval.
  Notation leafv := (leaf_validate core).
  Notation vs := (validate_step modelled leafv bn).
  Hypothesis core_str_keeps_str : forall s, core LStr (VStr s) = Ok (VStr s).
  Hypothesis core_str_yields_str : forall v w, core LStr v = Ok w -> exists s, w = VStr s.
  Hypothesis core_str_takes_text_or_bytes : forall v w, core LStr v = Ok w -> (exists s, v = VStr s) \/ (exists b, v = VBytes b).

  Lemma res_str_same v x : vs (TResolvable TStr) v = Ok x -> dump x = v \/ exists b, v = VBytes b.
  Proof.
    cbn [validate_step first_ok leaf_validate]. destruct (core LStr v) as [w|e] eqn:E; cbn [bind].
    - intros H; inv H. cbn [dump]. destruct (core_str_takes_text_or_bytes v w E) as [(s & ->)|(b & ->)].
      + rewrite core_str_keeps_str in E. inv E. left; reflexivity.
      + right. eexists; reflexivity.
    - destruct (is_hard e); [discriminate|]. destruct (function_dict v) as [w|e'] eqn:Ef; cbn [bind]; [|destruct (is_hard e'); discriminate].
      intros H; inv H. left. cbn [dump]. exact (function_dict_id _ _ Ef).
  Qed.
  Lemma str_or_list_same v x : vs STR_OR_LIST v = Ok x -> dump x = v \/ holds_bytes v.
  Proof.
    unfold STR_OR_LIST. change (vs (TUnionLR [TResolvable TStr; TList (TResolvable TStr)]) v)
      with (first_ok [vs (TResolvable TStr) v; vs (TList (TResolvable TStr)) v]). cbn [first_ok].
    destruct (vs (TResolvable TStr) v) as [y|e] eqn:E.
    - intros H; inv H. destruct (res_str_same v x E) as [R|R]; [left; exact R | right; left; exact R].
    - destruct (is_hard e); [discriminate|]. cbn [validate_step]. destruct v as [ | | | | | |l| ]; try discriminate.
      fold (vs (TResolvable TStr)). destruct (mapM (vs (TResolvable TStr)) l) as [xs|e'] eqn:Em; cbn [bind]; [|destruct (is_hard e'); discriminate].
      intros H; inv H. cbn [dump]. apply mapM_Forall2 in Em. clear E.
      assert (map dump xs = l \/ exists b, In (VBytes b) l) as [R|(b & R)].
      { induction Em as [|a y l xs Hy _ IH]; [left; reflexivity|]. cbn [map].
        destruct (res_str_same a y Hy) as [Ea|(b & ->)]; [|right; exists b; left; reflexivity].
        destruct IH as [IH|(b & IH)]; [left; rewrite Ea, IH; reflexivity | right; exists b; right; exact IH]. }
      + left. rewrite R. reflexivity.
      + right. right. exists l, b. split; [reflexivity | exact R].
  Qed.

  (* ---- Union[int, str, FunctionDict] ---- *)
  Hypothesis union_int_str_fn_on_bytes : forall b s e, core LStr (VBytes b) = Ok (VStr s) ->
    core LInt (VBytes b) = Err e -> is_hard e = false -> exists e', core LInt (VStr s) = Err e' /\ is_hard e' = false.
  Theorem int_str_fn_stable : stable_for vs U_INT_STR_FN.
  Proof.
    unfold stable_for, U_INT_STR_FN; cbn [fst snd]. intros pre t post v x E Hpre Ht.
    destruct pre as [|a [|b [|c pre]]]; cbn [app] in E; inv E.
    - constructor.
    - (* str after int *) cbn [validate_step leaf_validate] in Ht. destruct (core LStr v) as [w|] eqn:Ew; cbn [bind] in Ht; [|discriminate]. inv Ht.
      cbn [dump]. destruct (core_str_takes_text_or_bytes v w Ew) as [(s & ->)|(b & ->)].
      + rewrite core_str_keeps_str in Ew. inv Ew. exact Hpre.
      + destruct (core_str_yields_str _ _ Ew) as (s & ->). inv Hpre. constructor; [|constructor].
        destruct H1 as (e & He & Hh). cbn [validate_step leaf_validate] in He |- *.
        destruct (core LInt (VBytes b)) as [z|e0] eqn:Ei; cbn [bind] in He; [discriminate|]. inv He.
        destruct (union_int_str_fn_on_bytes b s e Ew Ei Hh) as (e' & -> & Hh'). exists e'. split; [reflexivity | exact Hh'].
    - (* FunctionDict after int and str: it hands its input back *) cbn [validate_step leaf_validate] in Ht.
      destruct (function_dict v) as [w|] eqn:Ef; cbn [bind] in Ht; [|discriminate]. inv Ht. cbn [dump].
      rewrite (function_dict_id _ _ Ef). exact Hpre.
    - destruct pre; discriminate.
  Qed.

  (* ---- ResolvableIPOrStrOrList ---- *)
  Hypothesis union_ip_or_str_on_bytes : forall v x, holds_bytes v ->
    soft_err (vs IP_OR_LIST v) -> vs STR_OR_LIST v = Ok x -> soft_err (vs IP_OR_LIST (dump x)).
  Theorem ip_or_str_stable : stable_for vs U_IP_OR_STR.
  Proof.
    unfold stable_for, U_IP_OR_STR; cbn [fst snd]. intros pre t post v x E Hpre Ht.
    destruct pre as [|a [|b pre]]; cbn [app] in E; inv E.
    - constructor.
    - inv Hpre. constructor; [|constructor]. destruct (str_or_list_same v x Ht) as [R|R]; [rewrite R; exact H1|].
      exact (union_ip_or_str_on_bytes v x R H1 Ht).
    - destruct pre; discriminate.
  Qed.
End Special.

(* the two residual hypotheses restrict the DOMAIN: with facts that are true of pydantic both unions are unstable *)
Definition B_7 : list N := [55%N].                                                     (* b"7" / "7" *)
Definition B_NET : list N := [49;48;46;48;46;48;46;48;47;56]%N.                        (* b"10.0.0.0/8" / "10.0.0.0/8" *)
Section Unstable.
  Variable modelled : list (str * str).
  Variable core : leaf -> value -> res value.
  Variable bn : str -> value -> res tval.
  Notation vs := (validate_step modelled (leaf_validate core) bn).
  (* bytearray(b"7"): int refuses a bytearray, str decodes it, and int takes the text "7" *)
  Theorem int_str_fn_unstable_on_bytes_step :
    core LStr (VBytes B_7) = Ok (VStr B_7) -> core LInt (VBytes B_7) = Err EValidation -> core LInt (VStr B_7) = Ok (VInt 7) ->
    ~ stable_for vs U_INT_STR_FN.
  Proof.
    intros H1 H2 H3 Hst. unfold stable_for, U_INT_STR_FN in Hst; cbn [fst snd] in Hst.
    specialize (Hst [TInt] TStr [TFn] (VBytes B_7) (XLeaf (VStr B_7)) eq_refl).
    assert (Forall (fun t' => soft_err (vs t' (dump (XLeaf (VStr B_7))))) [TInt]) as R.
    { apply Hst.
      - constructor; [|constructor]. cbn [validate_step leaf_validate]. rewrite H2. apply soft_validation.
      - cbn [validate_step leaf_validate]. rewrite H1. reflexivity. }
    apply Forall_inv in R. cbn [dump validate_step leaf_validate] in R. rewrite H3 in R. exact (soft_not_ok _ R).
  Qed.
  (* b"10.0.0.0/8": ten bytes are no packed address, str decodes them, and the text is an IPv4 network *)
  Theorem ip_or_str_unstable_on_bytes_step : core LStr (VBytes B_NET) = Ok (VStr B_NET) -> ~ stable_for vs U_IP_OR_STR.
  Proof.
    intros H1 Hst. unfold stable_for, U_IP_OR_STR in Hst; cbn [fst snd] in Hst.
    specialize (Hst [IP_OR_LIST] STR_OR_LIST [] (VBytes B_NET) (XLeaf (VStr B_NET)) eq_refl).
    assert (Forall (fun t' => soft_err (vs t' (dump (XLeaf (VStr B_NET))))) [IP_OR_LIST]) as R.
    { apply Hst.
      - constructor; [|constructor]. replace (vs IP_OR_LIST (VBytes B_NET)) with (@Err tval EValidation) by reflexivity. apply soft_validation.
      - unfold STR_OR_LIST. cbn [validate_step map first_ok leaf_validate]. rewrite H1. reflexivity. }
    apply Forall_inv in R. cbn [dump] in R.
    replace (vs IP_OR_LIST (VStr B_NET)) with (Ok (XLeaf (VTyped KNet4 B_NET))) in R by (vm_compute; reflexivity).
    exact (soft_not_ok _ R).
  Qed.
End Unstable.

(* ---------------------------------------------------------------------------------------------------------------- *)
(* model classes at nesting depth n: what the two arguments above need (no union stability is used here) *)
Lemma bn_nondict S modelled leafv n name v w :
  soft_err (bn_of S modelled leafv n name v) -> is_dict w = false -> soft_err (bn_of S modelled leafv n name w).
Proof.
  destruct n as [|n]; cbn [bn_of]; intros (e & He & Hh) Hw.
  - inv He. discriminate.
  - unfold by_name in *. destruct (find_class S name) as [c|]; [|inv He; discriminate].
    destruct w; try discriminate Hw; apply soft_validation.
Qed.
Lemma bn_out S modelled leafv n name v x : bn_of S modelled leafv n name v = Ok x ->
  exists c fs ex, find_class S name = Some c /\ x = XModel (c_name c) fs ex /\ length fs = length (c_fields c).
Proof.
  destruct n as [|n]; cbn [bn_of]; [discriminate|]. unfold by_name. destruct (find_class S name) as [c|]; [|discriminate].
  rewrite validate_eq. intros H. destruct (model_inv _ _ _ c v x H) as (d0 & fs & ex & _ & -> & _ & Hm & _).
  exists c, fs, ex. split; [reflexivity|]. split; [reflexivity|]. apply mapM_Forall2 in Hm. symmetry. eapply Forall2_length; eauto.
Qed.

(* ---------------------------------------------------------------------------------------------------------------- *)
(* the list of distinct unions: equality test of field types, dedup keeps every union *)
Lemma leaf_eqb_eq a b : leaf_eqb a b = true -> a = b.
Proof. destruct a, b; try discriminate; try reflexivity. cbn [leaf_eqb]. intros H. apply str_eqb_spec in H. subst. reflexivity. Qed.
Lemma leaf_eqb_refl a : leaf_eqb a a = true.
Proof. destruct a; try reflexivity. apply str_eqb_refl. Qed.
Lemma ftype_eqb_eq : forall a b, ftype_eqb a b = true -> a = b.
Proof.
  induction a as [k|t IHt|t IHt|ts IHts|ts IHts|t IHt|name| |t IHt] using ftype_ind'; intros b; destruct b; try discriminate; cbn [ftype_eqb]; intros H.
  - f_equal. apply leaf_eqb_eq. exact H.
  - f_equal. apply IHt. exact H.
  - f_equal. apply IHt. exact H.
  - f_equal. revert ts0 H. induction IHts as [|x ts Hx _ IH]; intros [|y l] H; try discriminate; [reflexivity|].
    apply andb_true_iff in H. destruct H as [H1 H2]. f_equal; [apply Hx; exact H1 | apply IH; exact H2].
  - f_equal. revert ts0 H. induction IHts as [|x ts Hx _ IH]; intros [|y l] H; try discriminate; [reflexivity|].
    apply andb_true_iff in H. destruct H as [H1 H2]. f_equal; [apply Hx; exact H1 | apply IH; exact H2].
  - f_equal. apply IHt. exact H.
  - f_equal. apply str_eqb_spec. exact H.
  - reflexivity.
  - f_equal. apply IHt. exact H.
Qed.
Lemma ftype_eqb_refl : forall a, ftype_eqb a a = true.
Proof.
  induction a as [k|t IHt|t IHt|ts IHts|ts IHts|t IHt|name| |t IHt] using ftype_ind'; cbn [ftype_eqb]; try assumption; try reflexivity.
  - apply leaf_eqb_refl.
  - induction IHts as [|x ts Hx _ IH]; [reflexivity|]. rewrite Hx. exact IH.
  - induction IHts as [|x ts Hx _ IH]; [reflexivity|]. rewrite Hx. exact IH.
  - apply str_eqb_refl.
Qed.
Lemma as_type_inj u u' : as_type u = as_type u' -> u = u'.
Proof. destruct u as [[|] ts], u' as [[|] ts']; unfold as_type; cbn [fst snd]; intros H; inv H; reflexivity. Qed.
Lemma dedup_keeps l : forall u, In u l -> In u (dedup l).
Proof.
  induction l as [|x r IH]; intros u Hin; [contradiction|]. cbn [dedup].
  destruct (existsb (fun y => ftype_eqb (as_type x) (as_type y)) r) eqn:E.
  - destruct Hin as [<-|Hin]; [|apply IH; exact Hin]. apply existsb_exists in E. destruct E as (y & Hy & Ey).
    apply ftype_eqb_eq in Ey. apply as_type_inj in Ey. subst y. apply IH. exact Hy.
  - destruct Hin as [<-|Hin]; [left; reflexivity | right; apply IH; exact Hin].
Qed.
Theorem table_unions_complete : forall u, In u (unions_of_table CLASSES) -> In u TABLE_UNIONS.
Proof. exact (dedup_keeps _). Qed.

(* ---------------------------------------------------------------------------------------------------------------- *)
(* THE CLASSIFIER.  A union is covered when the shape argument applies to it, or when it is one of the two unions above *)
Definition is_union (u0 u : bool * list ftype) : bool := ftype_eqb (as_type u) (as_type u0).
Definition union_ok (u : bool * list ftype) : bool := generic_ok CLASSES u || is_union U_INT_STR_FN u || is_union U_IP_OR_STR u.
(* re-proved against the regenerated table on every run *)
Theorem TABLE_UNIONS_ok : forallb union_ok TABLE_UNIONS = true.
Proof. vm_compute. reflexivity. Qed.
(* how the unions of the live table are covered: all but two by shapes alone (13 when this was written), one each by the two special
   arguments -- and those two are the ONLY ones the shape argument does not reach *)
Theorem TABLE_UNIONS_classified :
  List.length TABLE_UNIONS = (List.length (filter (generic_ok CLASSES) TABLE_UNIONS) + 2)%nat /\
  filter (fun u => negb (generic_ok CLASSES u)) TABLE_UNIONS = [U_INT_STR_FN; U_IP_OR_STR].
Proof. split; vm_compute; reflexivity. Qed.

Section Live.
  Variable core : leaf -> value -> res value.
  Notation leafv := (leaf_validate core).
  Notation val := (validate CLASSES RESOURCE_MODELS true leafv).

  (* pydantic-core's scalar validators: the three premises the round-trip theorem already had ... *)
  Hypothesis core_accepts_own_output : forall k v w, is_core k = true -> core k v = Ok w -> core k w = Ok w.
  Hypothesis core_str_keeps_str : forall s, core LStr (VStr s) = Ok (VStr s).
  Hypothesis core_str_yields_str : forall v w, core LStr v = Ok w -> exists s, w = VStr s.
  (* ... and five about shapes *)
  Hypothesis core_str_takes_text_or_bytes : forall v w, core LStr v = Ok w -> (exists s, v = VStr s) \/ (exists b, v = VBytes b).
  Hypothesis core_str_refuses_list : forall l, core LStr (VList l) = Err EValidation.
  Hypothesis core_int_refuses_list : forall l, core LInt (VList l) = Err EValidation.
  Hypothesis core_datetime_refuses_list : forall l, core LDatetime (VList l) = Err EValidation.
  Hypothesis core_str_refuses_dict : forall d, core LStr (VDict d) = Err EValidation.
  (* the two residual hypotheses, about bytes-like input where a text is expected *)
  Hypothesis union_int_str_fn_on_bytes : forall b s e, core LStr (VBytes b) = Ok (VStr s) ->
    core LInt (VBytes b) = Err e -> is_hard e = false -> exists e', core LInt (VStr s) = Err e' /\ is_hard e' = false.
  Hypothesis union_ip_or_str_on_bytes : forall n v x, holds_bytes v ->
    soft_err (val n IP_OR_LIST v) -> val n STR_OR_LIST v = Ok x -> soft_err (val n IP_OR_LIST (dump x)).

  Theorem union_ok_sound u : union_ok u = true -> forall n, stable_for (val n) u.
  Proof.
    intros H n. rewrite validate_eq. unfold union_ok in H. apply orb_true_iff in H. destruct H as [H|H]; [apply orb_true_iff in H; destruct H as [H|H]|].
    - apply (generic_ok_sound CLASSES RESOURCE_MODELS core (bn_of CLASSES RESOURCE_MODELS leafv n)); try assumption.
      + apply bn_nondict.
      + apply bn_out.
    - unfold is_union in H. apply ftype_eqb_eq in H. apply as_type_inj in H. subst u.
      apply int_str_fn_stable; assumption.
    - unfold is_union in H. apply ftype_eqb_eq in H. apply as_type_inj in H. subst u.
      apply ip_or_str_stable; try assumption. intros v x. rewrite <- validate_eq. apply union_ip_or_str_on_bytes.
  Qed.

  (* union stability of the live table: every union written in the live classes *)
  Theorem table_unions_stable : forall u, In u TABLE_UNIONS -> forall n, stable_for (val n) u.
  Proof. intros u Hin. apply union_ok_sound. pose proof TABLE_UNIONS_ok as H. rewrite forallb_forall in H. exact (H u Hin). Qed.
  Theorem union_stability_live : forall u, In u (unions_of_table CLASSES) -> forall n, stable_for (val n) u.
  Proof. intros u Hin. apply table_unions_stable. apply table_unions_complete. exact Hin. Qed.

  (* the round trip on the live table, the blanket union hypothesis gone *)
  Theorem table_roundtrip' n t v x :
    (forall u, In u (unions_of t) -> union_ok u = true) ->
    val n t v = Ok x -> val n t (dump x) = Ok x.
  Proof.
    intros Hcov. apply (table_roundtrip core core_accepts_own_output core_str_keeps_str core_str_yields_str union_stability_live).
    intros u Hin m. apply union_ok_sound. apply Hcov. exact Hin.
  Qed.
  Theorem table_roundtrip_template' n v x : val n CFMODEL v = Ok x -> val n CFMODEL (dump x) = Ok x.
  Proof. exact (table_roundtrip_template core core_accepts_own_output core_str_keeps_str core_str_yields_str union_stability_live n v x). Qed.
End Live.

(* ---------------------------------------------------------------------------------------------------------------- *)
(* the two residual hypotheses follow from a restriction of the domain: the oracle never ACCEPTS bytes for str (it may
   decline: EUndefined, as the runner's instance does).  Data that comes from JSON / YAML holds no bytes. *)
Section TextOnly.
  Variable core : leaf -> value -> res value.
  Notation leafv := (leaf_validate core).
  Notation val := (validate CLASSES RESOURCE_MODELS true leafv).
  Hypothesis core_str_refuses_list : forall l, core LStr (VList l) = Err EValidation.
  Hypothesis core_str_never_takes_bytes : forall b w, core LStr (VBytes b) <> Ok w.

  Lemma res_str_bytes_not_ok n b x : val n (TResolvable TStr) (VBytes b) <> Ok x.
  Proof.
    rewrite validate_eq. cbn [validate_step first_ok leaf_validate]. destruct (core LStr (VBytes b)) as [w|e] eqn:E; [destruct (core_str_never_takes_bytes b w E)|].
    cbn [bind]. destruct (is_hard e); discriminate.
  Qed.
  Theorem residuals_of_text_only :
    (forall b s e, core LStr (VBytes b) = Ok (VStr s) ->
       core LInt (VBytes b) = Err e -> is_hard e = false -> exists e', core LInt (VStr s) = Err e' /\ is_hard e' = false) /\
    (forall n v x, holds_bytes v -> soft_err (val n IP_OR_LIST v) -> val n STR_OR_LIST v = Ok x -> soft_err (val n IP_OR_LIST (dump x))).
  Proof.
    split; [intros b s e H; destruct (core_str_never_takes_bytes b _ H)|].
    intros n v x Hb _ H. exfalso. pose proof (res_str_bytes_not_ok n) as Hno. rewrite validate_eq in H, Hno.
    unfold STR_OR_LIST in H.
    change (validate_step RESOURCE_MODELS leafv (bn_of CLASSES RESOURCE_MODELS leafv n) (TUnionLR [TResolvable TStr; TList (TResolvable TStr)]) v)
      with (first_ok [validate_step RESOURCE_MODELS leafv (bn_of CLASSES RESOURCE_MODELS leafv n) (TResolvable TStr) v;
                      validate_step RESOURCE_MODELS leafv (bn_of CLASSES RESOURCE_MODELS leafv n) (TList (TResolvable TStr)) v]) in H.
    cbn [first_ok] in H. destruct Hb as [(b & ->)|(l & b & -> & Hin)].
    - destruct (validate_step RESOURCE_MODELS leafv _ (TResolvable TStr) (VBytes b)) as [y|e] eqn:E; [exact (Hno b y E)|].
      destruct (is_hard e); [discriminate|]. cbn [validate_step] in H. discriminate.
    - destruct (validate_step RESOURCE_MODELS leafv _ (TResolvable TStr) (VList l)) as [y|e] eqn:E.
      + cbn [validate_step first_ok leaf_validate] in E. rewrite core_str_refuses_list in E. cbn [bind is_hard function_dict] in E. discriminate.
      + destruct (is_hard e); [discriminate|]. cbn [validate_step] in H.
        match type of H with context [mapM ?f l] => destruct (mapM f l) as [xs|e'] eqn:Em end; cbn [bind] in H; [|destruct (is_hard e'); discriminate].
        apply mapM_Forall2 in Em. clear H E. induction Em as [|a y l xs Hy _ IH]; [contradiction|]. destruct Hin as [->|Hin]; [exact (Hno b y Hy) | exact (IH Hin)].
  Qed.
End TextOnly.

(* the same two theorems with the domain restriction in place of the residual hypotheses *)
Section LiveTextOnly.
  Variable core : leaf -> value -> res value.
  Notation leafv := (leaf_validate core).
  Notation val := (validate CLASSES RESOURCE_MODELS true leafv).
  Hypothesis core_accepts_own_output : forall k v w, is_core k = true -> core k v = Ok w -> core k w = Ok w.
  Hypothesis core_str_keeps_str : forall s, core LStr (VStr s) = Ok (VStr s).
  Hypothesis core_str_yields_str : forall v w, core LStr v = Ok w -> exists s, w = VStr s.
  Hypothesis core_str_takes_text_only : forall v w, core LStr v = Ok w -> exists s, v = VStr s.
  Hypothesis core_str_refuses_list : forall l, core LStr (VList l) = Err EValidation.
  Hypothesis core_int_refuses_list : forall l, core LInt (VList l) = Err EValidation.
  Hypothesis core_datetime_refuses_list : forall l, core LDatetime (VList l) = Err EValidation.
  Hypothesis core_str_refuses_dict : forall d, core LStr (VDict d) = Err EValidation.

  Lemma never_bytes : forall b w, core LStr (VBytes b) <> Ok w.
  Proof. intros b w H. destruct (core_str_takes_text_only _ _ H) as (s & E). discriminate. Qed.
  Lemma text_or_bytes : forall v w, core LStr v = Ok w -> (exists s, v = VStr s) \/ (exists b, v = VBytes b).
  Proof. intros v w H. left. exact (core_str_takes_text_only v w H). Qed.

  Theorem union_stability_live_text : forall u, In u (unions_of_table CLASSES) -> forall n, stable_for (val n) u.
  Proof.
    destruct (residuals_of_text_only core core_str_refuses_list never_bytes) as [R1 R2].
    exact (union_stability_live core core_str_keeps_str core_str_yields_str text_or_bytes core_str_refuses_list core_int_refuses_list
             core_datetime_refuses_list core_str_refuses_dict R1 R2).
  Qed.
  Theorem table_roundtrip_template_text n v x : val n CFMODEL v = Ok x -> val n CFMODEL (dump x) = Ok x.
  Proof. exact (table_roundtrip_template core core_accepts_own_output core_str_keeps_str core_str_yields_str union_stability_live_text n v x). Qed.
End LiveTextOnly.

(* ... and with true facts about pydantic the two unions ARE unstable, at every nesting depth *)
Theorem int_str_fn_unstable_on_bytes core n :
  core LStr (VBytes B_7) = Ok (VStr B_7) -> core LInt (VBytes B_7) = Err EValidation -> core LInt (VStr B_7) = Ok (VInt 7) ->
  ~ stable_for (validate CLASSES RESOURCE_MODELS true (leaf_validate core) n) U_INT_STR_FN.
Proof. rewrite validate_eq. apply int_str_fn_unstable_on_bytes_step. Qed.
Theorem ip_or_str_unstable_on_bytes core n :
  core LStr (VBytes B_NET) = Ok (VStr B_NET) ->
  ~ stable_for (validate CLASSES RESOURCE_MODELS true (leaf_validate core) n) U_IP_OR_STR.
Proof. rewrite validate_eq. apply ip_or_str_unstable_on_bytes_step. Qed.

(* ---------------------------------------------------------------------------------------------------------------- *)
(* non-vacuity: the runner's instance of the oracle (Typed/RoundtripRun.v) meets the shape premises, in their text-only form *)
From PV Require Typed.RoundtripRun.
Lemma core_dumped_shapes :
  (forall v w, RoundtripRun.core_dumped LStr v = Ok w -> exists s, v = VStr s) /\
  (forall l, RoundtripRun.core_dumped LStr (VList l) = Err EValidation) /\
  (forall l, RoundtripRun.core_dumped LInt (VList l) = Err EValidation) /\
  (forall l, RoundtripRun.core_dumped LDatetime (VList l) = Err EValidation) /\
  (forall d, RoundtripRun.core_dumped LStr (VDict d) = Err EValidation).
Proof. repeat split; try reflexivity. intros v w H. destruct v; try discriminate. eexists; reflexivity. Qed.
