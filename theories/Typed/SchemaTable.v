(* Definitions over the generated schema table that the RUNNER needs (no proofs here: the runner must still build when a
   finite fact of Typed/SchemaChecks.v no longer holds, so that the correspondence can exhibit a concrete failing input). *)
From Coq Require Import List Bool NArith String.
From PV Require Import Base.Str Base.Value Typed.Schema.
From PVGen Require Import Schema.
Import ListNotations.

Definition MODELLED_TYPES : list str := map fst RESOURCE_MODELS.
Definition MODELLED_CLASSES : list str := map snd RESOURCE_MODELS.
(* class hierarchy used by isinstance in resources_filtered_by_type *)
Definition bases_of (c : str) : list str := match find_class CLASSES c with Some cs => c_bases cs | None => [] end.
