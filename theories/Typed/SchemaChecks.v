(* Finite facts about the schema table generated from the LIVE pydantic classes (gen/Schema.v), re-proved by the kernel on
   every run ("Schema_strict").  A change of the source that breaks one of them makes this file fail to compile. *)
From Coq Require Import List Bool NArith String.
From PV Require Import Base.Str Base.Value Resolver.Consts Typed.Schema Typed.SchemaTable Typed.Dispatch Typed.DispatchFacts.
From PVGen Require Import Schema.
Import ListNotations.

Definition strs (l : list string) : list str := map of_string l.
Fixpoint nodupb (l : list str) : bool :=
  match l with [] => true | x :: r => negb (mem_str x r) && nodupb r end.
Lemma nodupb_NoDup l : nodupb l = true -> NoDup l.
Proof.
  induction l as [|x r IH]; simpl; [constructor|]. intros H. apply andb_true_iff in H. destruct H as [H1 H2].
  constructor; [|apply IH; exact H2]. intros C. apply mem_str_In in C. rewrite C in H1. discriminate.
Qed.
Definition strs_eqb (a b : list str) : bool :=
  Nat.eqb (List.length a) (List.length b) && forallb (fun p => str_eqb (fst p) (snd p)) (combine a b).
Definition extra_eqb (a b : extra_mode) : bool :=
  match a, b with Forbid, Forbid | Allow, Allow | Ignore, Ignore => true | _, _ => false end.


(* ---- the 18 type strings this development was written against are all still modelled (a class that disappears would silently
        turn its resources into generic ones); the live list may be LONGER (a newly modelled type is an ordinary upstream change:
        the schema table, the dispatch theorems and the document paths below are all stated over the live list); pairwise
        distinct; class names pairwise distinct, none is GenericResource ---- *)
Definition EXPECTED_TYPES : list str := strs [
  "AWS::EC2::VPCEndpoint"; "AWS::Elasticsearch::Domain"; "AWS::IAM::Group"; "AWS::IAM::ManagedPolicy"; "AWS::IAM::Policy";
  "AWS::IAM::Role"; "AWS::IAM::User"; "AWS::KMS::Key"; "AWS::OpenSearchService::Domain"; "AWS::RDS::DBSecurityGroup";
  "AWS::RDS::DBSecurityGroupIngress"; "AWS::S3::Bucket"; "AWS::S3::BucketPolicy"; "AWS::EC2::SecurityGroup";
  "AWS::EC2::SecurityGroupEgress"; "AWS::EC2::SecurityGroupIngress"; "AWS::SNS::TopicPolicy"; "AWS::SQS::QueuePolicy"]%string.

Theorem Schema_types : forallb (fun t => mem_str t MODELLED_TYPES) EXPECTED_TYPES = true /\ (18 <= List.length MODELLED_TYPES)%nat.
Proof. split; [vm_compute; reflexivity | apply PeanoNat.Nat.leb_le; vm_compute; reflexivity]. Qed.
Corollary Schema_types_in : forall t, In t EXPECTED_TYPES -> In t MODELLED_TYPES.
Proof. intros t H. destruct Schema_types as [F _]. rewrite forallb_forall in F. apply mem_str_In. exact (F t H). Qed.
Theorem Schema_types_distinct : NoDup MODELLED_TYPES /\ NoDup MODELLED_CLASSES /\ ~ In GENERIC MODELLED_CLASSES.
Proof.
  split; [apply nodupb_NoDup; vm_compute; reflexivity|]. split; [apply nodupb_NoDup; vm_compute; reflexivity|].
  intros C. apply mem_str_In in C. vm_compute in C. discriminate.
Qed.
Theorem Schema_discriminator : DISCRIMINATOR = K_Type.
Proof. vm_compute. reflexivity. Qed.

(* ---- every modelled class: in the table, a subclass of Resource, extra = forbid, Type : Literal[its own type string]
        (required), a Properties field ---- *)
Definition K_Resource : str := of_string "Resource".
Definition modelled_class_ok (tc : str * str) : bool :=
  match find_class CLASSES (snd tc) with
  | None => false
  | Some c =>
      extra_eqb (c_extra c) Forbid && mem_str K_Resource (c_bases c) &&
      match find_field (c_fields c) K_Type with
      | Some f => is_required f && ftype_eqb (f_type f) (TLeaf (LLit (fst tc)))
      | None => false
      end &&
      match find_field (c_fields c) K_Properties with Some _ => true | None => false end
  end.
Theorem Schema_modelled_strict : forall tc, In tc RESOURCE_MODELS -> modelled_class_ok tc = true.
Proof. apply forallb_forall. vm_compute. reflexivity. Qed.

(* which modelled classes may omit Properties altogether *)
Definition properties_optional : list str :=
  flat_map (fun tc => match find_class CLASSES (snd tc) with
                      | Some c => match find_field (c_fields c) K_Properties with
                                  | Some f => if is_required f then [] else [snd tc]
                                  | None => []
                                  end
                      | None => []
                      end) RESOURCE_MODELS.
Theorem Schema_properties_required : properties_optional = strs ["IAMGroup"; "IAMUser"]%string.
Proof. vm_compute. reflexivity. Qed.

(* ---- extra modes: every class of the table forbids unknown fields, EXCEPT PolicyDocument and GenericResource; the two
        leaf classes FunctionDict and Generic allow them (checked by the translator, recorded in the table) ---- *)
Definition non_forbid : list str :=
  flat_map (fun c => if extra_eqb (c_extra c) Forbid then [] else [c_name c]) CLASSES.
Theorem Schema_extra :
  non_forbid = strs ["GenericResource"; "PolicyDocument"]%string /\
  (forall c, In c CLASSES -> c_extra c = Forbid \/ c_extra c = Allow) /\
  FUNCTIONDICT_EXTRA = Allow /\ GENERIC_EXTRA = Allow.
Proof.
  split; [vm_compute; reflexivity|]. split; [|split; reflexivity].
  assert (forallb (fun c => extra_eqb (c_extra c) Forbid || extra_eqb (c_extra c) Allow) CLASSES = true) as F by (vm_compute; reflexivity).
  intros c Hc. rewrite forallb_forall in F. specialize (F c Hc). destruct (c_extra c); [left|right|discriminate]; reflexivity.
Qed.

(* ---- strictness switch and union order ---- *)
Theorem Schema_strict_default : GENERIC_STRICT_DEFAULT = true.
Proof. reflexivity. Qed.
Theorem Schema_union_order : ALL_RESOURCES_ORDER = strs ["ResourceModels"; "GenericResource"]%string.
Proof. vm_compute. reflexivity. Qed.

(* ---- Resolvable wrappers: every scalar leaf of every class reachable from a resource sits under Resolvable[...] (or a
        left-to-right union ending in FunctionDict), except the ones listed ---- *)
Definition has_fn (ts : list ftype) : bool := existsb (fun t => ftype_eqb t TFn) ts.
Fixpoint unwrapped (t : ftype) : list leaf :=
  match t with
  | TLeaf k => if scalar_leaf k then [k] else []
  | TList t' | TDictOf t' | TOpt t' => unwrapped t'
  | TResolvable (TLeaf _) => []
  | TResolvable t' => unwrapped t'
  | TUnionLR ts =>
      if has_fn ts then flat_map (fun t' => match t' with TLeaf _ => [] | _ => unwrapped t' end) ts
      else flat_map unwrapped ts
  | TUnionSmart ts => flat_map unwrapped ts
  | TModel _ | TResource => []
  end.
Definition leaf_tag (k : leaf) : str :=
  of_string match k with
            | LStr => "str" | LStrNum => "strnum" | LInt => "int" | LPosInt => "posint" | LIntOrStr => "int|str" | LBool => "bool"
            | LSemiBool => "semibool" | LDate => "date" | LDatetime => "datetime" | LNet4 => "net4" | LNet6 => "net6"
            | LBinary => "binary" | LLit _ => "literal" | LFn => "fn" | LGeneric => "generic" | LAny => "any"
            | LDictAny => "dict" | LListAny => "list"
            end%string.
(* the classes a RESOURCE can be made of: the modelled resource classes, GenericResource, and every class reachable from them through
   field types.  Template-level classes (CFModel, Parameter, and any class a later release adds for a template section: a harmless
   change tried in the second harmless round modelled the object form of Transform with a class of its own) are not resource
   properties: CloudFormation does not allow intrinsic functions in the template sections they describe *)
Fixpoint models_in (t : ftype) : list str :=
  match t with
  | TModel n => [n]
  | TList t' | TDictOf t' | TOpt t' | TResolvable t' => models_in t'
  | TUnionLR ts | TUnionSmart ts => flat_map models_in ts
  | TLeaf _ | TResource => []
  end.
Definition reach_step (seen : list str) : list str :=
  fold_left (fun acc n => if mem_str n acc then acc else acc ++ [n])
            (flat_map (fun c => if mem_str (c_name c) seen then flat_map (fun f => models_in (f_type f)) (c_fields c) else []) CLASSES)
            seen.
Fixpoint reach (fuel : nat) (seen : list str) : list str :=
  match fuel with O => seen | S k => reach k (reach_step seen) end.
Definition RESOURCE_LEVEL : list str := reach (List.length CLASSES) (GENERIC :: MODELLED_CLASSES).
Definition unwrapped_fields : list (str * str * str) :=
  flat_map (fun c => if negb (mem_str (c_name c) RESOURCE_LEVEL) then [] else
     flat_map (fun f => map (fun k => (c_name c, f_name f, leaf_tag k)) (unwrapped (f_type f))) (c_fields c)) CLASSES.
Definition binary_fields : list str :=
  strs ["BinaryEquals"; "BinaryEqualsIfExists"; "ForAllValuesBinaryEquals"; "ForAllValuesBinaryEqualsIfExists";
        "ForAnyValueBinaryEquals"; "ForAnyValueBinaryEqualsIfExists"]%string.
(* the only scalar positions that cannot hold an intrinsic function: GenericResource.Type and the base64 condition values *)
Theorem Schema_resolvable :
  unwrapped_fields =
    (of_string "GenericResource", of_string "Type", of_string "str") ::
    flat_map (fun f => [(of_string "StatementCondition", f, of_string "binary"); (of_string "StatementCondition", f, of_string "binary")])
             binary_fields.
Proof. vm_compute. reflexivity. Qed.

(* ---- well-formedness used by the round-trip theorem (C15): field names distinct; classes with the remove_colon hook have no
        colon in a field name and forbid extras; every class named by a field type is in the table; class names distinct ---- *)
Definition COLON_CP : N := 58%N.
Definition class_wf (S : list cschema) (c : cschema) : bool :=
  nodupb (map f_name (c_fields c)) &&
  match c_hook c with
  | CNone => true
  | CRemoveColon => forallb (fun f => negb (existsb (N.eqb COLON_CP) (f_name f))) (c_fields c)
  end &&
  forallb (fun f => forallb (fun n => match find_class S n with Some _ => true | None => false end) (models_of (f_type f)))
          (c_fields c).
Definition schema_wf (S : list cschema) : bool := nodupb (map c_name S) && forallb (class_wf S) S.
Theorem Schema_wf : schema_wf CLASSES = true.
Proof. vm_compute. reflexivity. Qed.

(* ---- own validators and private state: exactly these ---- *)
Definition hooks_of : list (str * str) :=
  flat_map (fun c => flat_map (fun f => match f_hook f with HNone => [] | _ => [(c_name c, f_name f)] end) (c_fields c)) CLASSES.
Theorem Schema_hooks :
  hooks_of = [(of_string "GenericResource", of_string "Type"); (of_string "Tag", of_string "Value");
              (of_string "Statement", of_string "Effect")] /\
  flat_map (fun c => match c_hook c with CNone => [] | CRemoveColon => [c_name c] end) CLASSES = strs ["StatementCondition"]%string.
Proof. split; vm_compute; reflexivity. Qed.
(* pydantic's BaseModel.__eq__ compares private attributes too: every class that has some brings its own __eq__ *)
Theorem Schema_private_eq :
  forall c, In c CLASSES -> c_private c <> [] -> c_custom_eq c = true.
Proof.
  assert (forallb (fun c => match c_private c with [] => true | _ => c_custom_eq c end) CLASSES = true) as F by (vm_compute; reflexivity).
  intros c Hc Hp. rewrite forallb_forall in F. specialize (F c Hc). destruct (c_private c); [congruence | exact F].
Qed.
Theorem Schema_private : flat_map (fun c => map (fun p => (c_name c, p)) (c_private c)) CLASSES =
                         [(of_string "StatementCondition", of_string "_eval")].
Proof. vm_compute. reflexivity. Qed.

(* ---- class hierarchy used by isinstance in resources_filtered_by_type ---- *)
Theorem Schema_all_resources : forall c, In c (GENERIC :: MODELLED_CLASSES) -> In K_Resource (bases_of c).
Proof.
  assert (forallb (fun c => mem_str K_Resource (bases_of c)) (GENERIC :: MODELLED_CLASSES) = true) as F by (vm_compute; reflexivity).
  intros c Hc. rewrite forallb_forall in F. apply mem_str_In. exact (F c Hc).
Qed.

(* ---- resolve() cannot change a modelled Type string (for ANY parameters), nor prune it ---- *)
Theorem Schema_types_fixed : forall t, In t MODELLED_TYPES -> type_fixed t = true.
Proof. apply forallb_forall. vm_compute. reflexivity. Qed.
Theorem Schema_types_render : forall t, In t MODELLED_TYPES -> forall ps, Resolve.render_str ps t = t.
Proof. intros t Ht. apply type_fixed_render. apply Schema_types_fixed. exact Ht. Qed.

(* the lookup the model performs is the table's association *)
Lemma class_of_modelled t : In t MODELLED_TYPES <-> exists c, class_of RESOURCE_MODELS t = Some c.
Proof.
  unfold class_of, MODELLED_TYPES. split.
  - intros H. destruct (lookup t RESOURCE_MODELS) eqn:E; [eexists; reflexivity|].
    apply lookup_None in E. contradiction.
  - intros [c H]. apply lookup_In in H. apply in_map_iff. exists (t, c). split; [reflexivity | exact H].
Qed.
