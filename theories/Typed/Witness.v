(* Concrete annotated inputs used by the Examples of Properties/C13.v and C18.v (non-vacuity, witnesses of the known
   defects).  The annotations are the ones the harness computes for these inputs on pydantic 2.7.3 / Python 3.12. *)
From Coq Require Import List Bool NArith ZArith String.
From PV Require Import Base.Str Base.Value Typed.GValue Typed.Cast.
Import ListNotations.
Local Open Scope string_scope.

Definition s (x : string) : str := of_string x.
Definition FUNCS : list str :=
  map of_string ["Condition"; "Fn::And"; "Fn::Base64"; "Fn::Equals"; "Fn::FindInMap"; "Fn::GetAZs"; "Fn::GetAtt"; "Fn::If";
                 "Fn::ImportValue"; "Fn::Join"; "Fn::Not"; "Fn::Or"; "Fn::Select"; "Fn::Split"; "Fn::Sub"; "Ref"].
Definition SPEC : cfg := spec_cfg FUNCS.
Definition ORIG : cfg := orig_cfg FUNCS.

Definition ann (i : option Z) (f : bool) (d dt : option string) (n : option (tkind * string)) : sann :=
  {| a_int := i; a_float := f; a_date := option_map s d; a_datetime := option_map s dt;
     a_net := option_map (fun kt => (fst kt, s (snd kt))) n; a_abort_date := false; a_abort_datetime := false |}.
Definition text (x : string) : gvalue := GStr (s x) None no_ann.

(* ---- C18 ---- *)
(* numbers *)
Definition g_float_1_5 : gvalue := GFloat (s "1.5") (ann None true None (Some "1970-01-01T00:00:01.500000+00:00") None).
Definition g_float_epoch : gvalue := GFloat (s "1577836800.5") (ann None true None (Some "2020-01-01T00:00:00.500000+00:00") None).
Definition g_float_whole : gvalue :=
  GFloat (s "1577836800.0") (ann (Some 1577836800%Z) true (Some "2020-01-01") (Some "2020-01-01T00:00:00+00:00") None).
Definition g_int_1 : gvalue := GInt 1 (ann (Some 1%Z) true None (Some "1970-01-01T00:00:01+00:00") (Some (KNet4, "0.0.0.1/32"))).
Definition g_true : gvalue := GBool true (ann (Some 1%Z) true None None (Some (KNet4, "0.0.0.1/32"))).
(* text *)
Definition g_str_1_5 : gvalue := GStr (s "1.5") (Some g_float_1_5) (ann None true None (Some "1970-01-01T00:00:01.500000+00:00") None).
Definition g_str_5dot : gvalue := GStr (s "5.") None (ann None true None (Some "1970-01-01T00:00:05+00:00") None).
Definition g_str_TRUE : gvalue := GStr (s "TRUE") None no_ann.
Definition g_str_yes : gvalue := GStr (s "yes") None no_ann.
Definition g_str_on : gvalue := GStr (s "on") None no_ann.
Definition g_str_1 : gvalue :=
  GStr (s "1") (Some g_int_1) (ann (Some 1%Z) true None (Some "1970-01-01T00:00:01+00:00") None).
Definition g_str_0 : gvalue :=
  GStr (s "0") (Some (GInt 0 (ann (Some 0%Z) true (Some "1970-01-01") (Some "1970-01-01T00:00:00+00:00") (Some (KNet4, "0.0.0.0/32")))))
       (ann (Some 0%Z) true (Some "1970-01-01") (Some "1970-01-01T00:00:00+00:00") None).
Definition g_str_1e3 : gvalue :=
  GStr (s "1e3") (Some (GFloat (s "1000.0") (ann (Some 1000%Z) true None (Some "1970-01-01T00:16:40+00:00") None))) (ann None true None None None).
Definition g_str_1_000 : gvalue := GStr (s "1_000") None (ann (Some 1000%Z) false None None None).
Definition g_str_date : gvalue := GStr (s "2019-12-04") None (ann None false (Some "2019-12-04") (Some "2019-12-04T00:00:00") None).
Definition g_str_midnight : gvalue :=
  GStr (s "2020-01-01T00:00:00Z") None (ann None false (Some "2020-01-01") (Some "2020-01-01T00:00:00+00:00") None).
Definition g_str_time : gvalue := GStr (s "2011-11-04 00:05:23Z") None (ann None false None (Some "2011-11-04T00:05:23+00:00") None).
Definition g_str_net : gvalue := GStr (s "10.0.0.7/24") None (ann None false None None (Some (KNet4, "10.0.0.0/24"))).
Definition g_str_ip : gvalue := GStr (s "10.0.0.1") None (ann None false None None (Some (KNet4, "10.0.0.1/32"))).
Definition g_str_json_str : gvalue := GStr (s """x""") (Some (text "x")) no_ann.
Definition g_str_json_obj : gvalue := GStr (s "{""a"":1}") (Some (GDict [(s "a", g_int_1)] None)) no_ann.
Definition g_str_potato : gvalue := text "potato".
(* pydantic's date parser RAISES ValueError("year 0 is out of range") instead of rejecting: the union is aborted *)
Definition ann_year0 : sann :=
  {| a_int := None; a_float := false; a_date := None; a_datetime := None; a_net := None;
     a_abort_date := true; a_abort_datetime := true |}.
Definition g_str_year0 : gvalue := GStr (s "0000-01-01") None ann_year0.
Definition g_str_json_year0 : gvalue := GStr (s """0000-01-01""") (Some g_str_year0) no_ann.
Definition g_str_bad_date : gvalue := text "2020-02-30".

Definition cond_recog : recog := {| r_kind := PkCondition; r_dump := s "{""ArnEquals"": null, ...}"; r_name := None; r_doc := VNull |}.
Definition g_empty_obj : gvalue := GDict [] (Some cond_recog).
Definition g_waf_block : gvalue := GDict [(s "Block", g_empty_obj)] None.
Definition g_list_int_bool : gvalue := GList [g_int_1; g_true].
Definition g_list_int_ip : gvalue := GList [g_int_1; g_str_ip].
Definition g_mixed : gvalue :=
  GDict [(s "Flags", GList [g_str_TRUE; g_str_yes]); (s "Count", g_str_1e3); (s "When", g_str_date); (s "At", g_str_time);
         (s "Cidr", g_str_net); (s "Name", g_str_potato); (s "Nested", GDict [(s "Ratio", g_float_1_5); (s "Empty", g_empty_obj)] None);
         (s "Ref", GDict [(s "Ref", text "AWS::Region")] None)] None.

(* ---- C13 ---- *)
Definition stmts (sid : string) : value := VList [VList [VStr (s sid); VNull]].
Definition stmts_c (sid cond : string) : value := VList [VList [VStr (s sid); VStr (s cond)]; VList [VNull; VNull]].
Definition doc_node (sid : string) : gvalue :=
  GDict [(s "Statement", GList [GDict [(s "Sid", text sid); (s "Effect", text "Allow")]
                                      (Some {| r_kind := PkStatement; r_dump := s "stmt"; r_name := None; r_doc := VNull |})])]
        (Some {| r_kind := PkPolicyDocument; r_dump := s ("doc " ++ sid); r_name := None; r_doc := stmts sid |}).
Definition doc_node_c (sid cond : string) : gvalue :=
  GDict [(s "Statement", GList [])]
        (Some {| r_kind := PkPolicyDocument; r_dump := s ("doc " ++ sid); r_name := None; r_doc := stmts_c sid cond |}).
Definition policy_node (name sid : string) : gvalue :=
  GDict [(s "PolicyName", text name); (s "PolicyDocument", doc_node sid)]
        (Some {| r_kind := PkPolicy; r_dump := s ("policy " ++ name); r_name := Some (s name); r_doc := stmts sid |}).
Definition json_of (txt : string) (g : gvalue) : gvalue := GStr (s txt) (Some g) no_ann.

(* documents: direct, in a list of lists, in a named wrapper, JSON-encoded at the top of a property, next to look-alikes *)
Definition props_found : list (str * gvalue) :=
  [(s "A", doc_node "s1");
   (s "B", GList [doc_node "s2"; GList [doc_node_c "s3" "{""Bool"": {""aws:SecureTransport"": true}}"]]);
   (s "C", GDict [(s "D", GDict [(s "E", json_of "{...s4...}" (doc_node "s4"))] None)] None);
   (s "P", GList [policy_node "n1" "s5"]);
   (s "L", GDict [(s "Sid", text "lone"); (s "Effect", text "Allow")]
                 (Some {| r_kind := PkStatement; r_dump := s "stmt"; r_name := None; r_doc := VNull |}));
   (s "J", json_of "{""a"":1}" (GDict [(s "a", g_int_1)] None))].
(* known finding F16: below the top level of a JSON-encoded string / JSON-encoded list of documents *)
Definition props_hidden : list (str * gvalue) :=
  [(s "X", GDict [(s "Y", json_of "{""Z"":{...s9...}}" (GDict [(s "Z", doc_node "s9")] None))] None)].
Definition props_hidden_list : list (str * gvalue) :=
  [(s "K", json_of "[{...s7...}]" (GList [doc_node "s7"]))].
