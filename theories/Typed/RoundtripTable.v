(* C15 -- the round-trip theorem instantiated with (a) the leaf validators of Typed/Leaves.v (pycfmodel's own ones modelled
   and proved to accept their own output; pydantic-core's an oracle [core]) and (b) the schema table generated from the live
   classes (gen/Schema.v), whose well-formedness conditions are re-proved by computation on every run. *)
From Coq Require Import List Bool NArith String.
From PV Require Import Base.Str Base.Value Resolver.Consts Typed.Schema Typed.Dispatch Typed.Leaves Typed.Roundtrip Typed.RoundtripFacts.
From PVGen Require Import Schema.
Import ListNotations.

(* the generated table satisfies what the theorem asks of a table *)
Theorem Schema_table_wf : table_wf CLASSES = true.
Proof. vm_compute. reflexivity. Qed.
Theorem Schema_modelled_wf : modelled_wf CLASSES RESOURCE_MODELS = true.
Proof. vm_compute. reflexivity. Qed.

(* the unions written in the live classes (Resolvable[...] wrappers aside), without repetition: the union-stability
   hypothesis of the theorem ranges over exactly these *)
Definition as_type (u : bool * list ftype) : ftype := if fst u then TUnionSmart (snd u) else TUnionLR (snd u).
Fixpoint dedup (l : list (bool * list ftype)) : list (bool * list ftype) :=
  match l with
  | [] => []
  | x :: r => if existsb (fun y => ftype_eqb (as_type x) (as_type y)) r then dedup r else x :: dedup r
  end.
Definition TABLE_UNIONS : list (bool * list ftype) := dedup (unions_of_table CLASSES).
(* the distinct unions the live classes write are computed by [dedup]: no union occurs twice in TABLE_UNIONS.  (How many there are --
   15 when this was written -- and how often each is written are incidental: a new property, a newly modelled class or a new template
   section that writes a union of a covered SHAPE changes the counts and nothing else; what must hold of every one of them is
   UnionStable.TABLE_UNIONS_ok, re-proved against the regenerated table on every run.) *)
Theorem Schema_unions_count : (List.length TABLE_UNIONS <= List.length (unions_of_table CLASSES))%nat /\ (1 <= List.length TABLE_UNIONS)%nat.
Proof. split; apply PeanoNat.Nat.leb_le; vm_compute; reflexivity. Qed.

Section Table.
  Variable core : leaf -> value -> res value.
  Notation leafv := (leaf_validate core).
  Notation val := (validate CLASSES RESOURCE_MODELS true leafv).

  (* the oracle leaves (str, int, PositiveInt, Union[int,str], bool, date, datetime of pydantic-core; class Generic) *)
  Hypothesis core_accepts_own_output : forall k v w, is_core k = true -> core k v = Ok w -> core k w = Ok w.
  Hypothesis core_str_keeps_str : forall s, core LStr (VStr s) = Ok (VStr s).
  Hypothesis core_str_yields_str : forall v w, core LStr v = Ok w -> exists s, w = VStr s.
  (* the branch of a union that produced x is again the first to accept dump x *)
  Hypothesis union_first_stable : forall ts, In ts (unions_of_table CLASSES) -> forall n, stable_for (val n) ts.

  Theorem table_roundtrip n t v x :
    (forall ts, In ts (unions_of t) -> forall m, stable_for (val m) ts) ->
    val n t v = Ok x -> val n t (dump x) = Ok x.
  Proof.
    apply (roundtrip CLASSES RESOURCE_MODELS leafv Schema_table_wf Schema_modelled_wf).
    - exact (leaf_accepts_own_output core core_accepts_own_output).
    - exact core_str_keeps_str.
    - exact core_str_yields_str.
    - intros v0 w. exact (str_num_out v0 w).
    - intros v0 w H. split; [exact (function_dict_id v0 w H)|].
      pose proof (function_dict_id v0 w H); subst w. destruct v0; try discriminate. eexists; reflexivity.
    - intros s v0 w H. destruct (literal_id s v0 w H) as [-> ->]. reflexivity.
    - reflexivity.
    - exact union_first_stable.
  Qed.

  (* a whole template: re-validating the dump of a CFModel gives the CFModel *)
  Definition CFMODEL : ftype := TModel (of_string "CFModel").
  Theorem table_roundtrip_template n v x : val n CFMODEL v = Ok x -> val n CFMODEL (dump x) = Ok x.
  Proof. apply table_roundtrip. intros ts []. Qed.
End Table.
