(* C18 -- STRUCTURAL theorems about the generic cast (Typed/Cast.v) of an ARBITRARY annotated JSON value: induction over
   the value, no bound on depth or width, every configuration [c] of the algorithm and every annotation unless a
   hypothesis says otherwise.

     1. SHAPE      paths into the value and into its cast; the cast of the node at a path is the node at the same path of
                   the cast ([cast_at]); skeleton and path enumeration preserved where nothing is recognised ([skel_preserved]);
     2. LOCALITY   what a member of an array / object becomes depends on that member only ([list_locality],
                   [object_locality]); the one way the code departs from this -- a typed list read by an alternative that is
                   not the member's own first alternative -- is characterised by [local_value] and REFUTED for date-only text
                   next to a timestamp ([list_locality_refuted]);
     3. NUMBERS    integers, booleans, null stay themselves at every path; floats stay numbers ([*_stays], [*_at_path]);
     4. STRINGS    the classifier [classify] of plain text: total, exclusive, decides the result ([plain_text_classified],
                   [in_fam_iff]); JSON text becomes the cast of what it encodes or stays ([json_text_is_decoded_value]);
     5. FIXED POINT an inert value (no leaf any alternative reads differently, no recognised object) is cast to itself, its dump
                   is the JSON it came from, hence casting the dump of a cast value with kept leaves is the identity
                   ([cast_inert], [dump_cast_inert], [idempotent_on_kept]); REFUTED for doubly encoded JSON text. *)
From Coq Require Import List Bool NArith ZArith Lia.
From PV Require Import Base.Str Base.Value Typed.GValue Typed.Cast Typed.Literals Typed.Collect Typed.CastOk.
Import ListNotations.

(* ------------------------------------------------------------------------------------------------------------------ *)
(* structural induction over annotated values *)
Section GInd.
  Variable P : gvalue -> Prop.
  Hypothesis Hnull : P GNull.
  Hypothesis Hbool : forall b a, P (GBool b a).
  Hypothesis Hint : forall z a, P (GInt z a).
  Hypothesis Hfloat : forall x a, P (GFloat x a).
  Hypothesis Hstr : forall s a, P (GStr s None a).
  Hypothesis Hjson : forall s j a, P j -> P (GStr s (Some j) a).
  Hypothesis Hlist : forall l, Forall P l -> P (GList l).
  Hypothesis Hdict : forall d r, Forall (fun kv => P (snd kv)) d -> P (GDict d r).
  Fixpoint gvalue_ind' (g : gvalue) : P g :=
    match g with
    | GNull => Hnull | GBool b a => Hbool b a | GInt z a => Hint z a | GFloat x a => Hfloat x a
    | GStr s None a => Hstr s a
    | GStr s (Some j) a => Hjson s j a (gvalue_ind' j)
    | GList l => Hlist l ((fix go (l : list gvalue) : Forall P l :=
        match l with [] => Forall_nil _ | x :: xs => Forall_cons _ (gvalue_ind' x) (go xs) end) l)
    | GDict d r => Hdict d r ((fix go (d : list (str * gvalue)) : Forall (fun kv => P (snd kv)) d :=
        match d with [] => Forall_nil _ | (k, x) :: xs => Forall_cons (k, x) (gvalue_ind' x) (go xs) end) d)
    end.
End GInd.

(* ------------------------------------------------------------------------------------------------------------------ *)
(* paths.  A member of an object is addressed by its position AND its key (JSON spelling: $.k, the position only tells two
   equal keys apart); [Json] enters the decoded form of a JSON-encoded string (used by C13, Typed/CollectFacts.v). *)
Inductive step := Idx (i : nat) | Mem (i : nat) (k : str) | Json.
Definition path := list step.

Definition gchild (g : gvalue) (s : step) : option gvalue :=
  match s, g with
  | Idx i, GList l => nth_error l i
  | Mem i k, GDict d _ =>
      match nth_error d i with Some (k', x) => if str_eqb k k' then Some x else None | None => None end
  | Json, GStr _ (Some j) _ => Some j
  | _, _ => None
  end.
Fixpoint gat (g : gvalue) (p : path) : option gvalue :=
  match p with
  | [] => Some g
  | s :: p' => match gchild g s with Some x => gat x p' | None => None end
  end.
Definition tchild (t : tval) (s : step) : option tval :=
  match s, t with
  | Idx i, TList l => nth_error l i
  | Mem i k, TGeneric d =>
      match nth_error d i with Some (k', x) => if str_eqb k k' then Some x else None | None => None end
  | _, _ => None
  end.
Fixpoint tat (t : tval) (p : path) : option tval :=
  match p with
  | [] => Some t
  | s :: p' => match tchild t s with Some x => tat x p' | None => None end
  end.

(* a container the cast goes through member by member: an array no alternative reads as a typed list (or reads as a list of
   strings, whose members are cast again one by one), an object that is neither a function call nor a property model *)
Definition transparent (c : cfg) (g : gvalue) : bool :=
  match g with
  | GList _ => match choose c g with CNone | CList BStr => true | _ => false end
  | GDict _ _ => is_cnone (choose c g)
  | _ => false
  end.
(* ... any array, typed or not *)
Definition passable (c : cfg) (g : gvalue) : bool :=
  match g with
  | GList _ => true
  | GDict _ _ => is_cnone (choose c g)
  | _ => false
  end.
(* every node strictly above the end of the path satisfies [ok] *)
Fixpoint along (ok : gvalue -> bool) (g : gvalue) (p : path) : bool :=
  match p with
  | [] => true
  | s :: p' => ok g && match gchild g s with Some x => along ok x p' | None => false end
  end.

Lemma transparent_passable c g : transparent c g = true -> passable c g = true.
Proof. destruct g; simpl; try discriminate; auto. Qed.
Lemma along_weaken (ok ok' : gvalue -> bool) :
  (forall g, ok g = true -> ok' g = true) -> forall p g, along ok g p = true -> along ok' g p = true.
Proof.
  intros W. induction p as [|s p IH]; intros g H; [reflexivity|]. cbn [along] in *.
  apply andb_prop in H. destruct H as [H1 H2]. rewrite (W g H1). simpl.
  destruct (gchild g s) as [x|]; [apply IH; exact H2|discriminate].
Qed.

(* ------------------------------------------------------------------------------------------------------------------ *)
(* what the union answers for an array *)
Lemma try_branch_list c l b b' :
  try_branch c (GList l) b = CList b' ->
  b' = b /\ forallb (guard_item c b) l = true /\ forall x, In x l -> member c b x <> None.
Proof.
  unfold try_branch. destruct (guard c b (GList l)) eqn:G; simpl; [|discriminate].
  destruct (scalar b (GList l)) eqn:E; [discriminate|].
  destruct (forallb _ l) eqn:F; [|discriminate]. intros H; inversion H; subst b'.
  repeat split; [exact G|]. intros x Hx. rewrite forallb_forall in F. specialize (F x Hx).
  destruct (member c b x); congruence.
Qed.
Lemma first_branch_list c l bs b :
  first_branch c (GList l) bs = CList b ->
  In b bs /\ forallb (guard_item c b) l = true /\ forall x, In x l -> member c b x <> None.
Proof.
  induction bs as [|b0 bs IH]; simpl; [discriminate|]. destruct (aborts c (GList l) b0); [discriminate|].
  destruct (try_branch c (GList l) b0) eqn:E; try discriminate.
  - intros H; inversion H; subst b1. apply try_branch_list in E. destruct E as (-> & G & M). auto.
  - intros H. destruct (IH H) as (I & G & M). auto.
Qed.
Lemma choose_typed_list c l b :
  choose c (GList l) = CList b -> forallb (guard_item c b) l = true /\ forall x, In x l -> member c b x <> None.
Proof. unfold choose. intros H. apply first_branch_list in H. tauto. Qed.

Lemma cast_list_typed c l b :
  choose c (GList l) = CList b -> cast c (GList l) = TList (map (fun x => recast_with c b x (cast c x)) l).
Proof.
  intros H. cbn [cast]. rewrite H. cbn [finish list_members]. rewrite map_combine_map. reflexivity.
Qed.
Lemma cast_list_untyped c l :
  transparent c (GList l) = true -> cast c (GList l) = TList (map (cast c) l).
Proof.
  unfold transparent. destruct (choose c (GList l)) as [| | |b|] eqn:E; try discriminate.
  - destruct b; try discriminate. intros _. rewrite (cast_list_typed c l BStr E). reflexivity.
  - intros _. cbn [cast]. rewrite E. reflexivity.
Qed.
Lemma cast_dict_plain c d r :
  choose c (GDict d r) = CNone -> cast c (GDict d r) = TGeneric (cast_props c d).
Proof. intros H. cbn [cast]. rewrite H. reflexivity. Qed.

Lemma fnb_dict c g : fnb c g = true -> exists k x r, g = GDict [(k, x)] r.
Proof.
  destruct g as [| | | | | |d r]; simpl; try discriminate. destruct d as [|[k x] [|kv d]]; try discriminate.
  intros _. eauto.
Qed.
Lemma fnb_choose c g : fnb c g = true -> choose c g = CFn.
Proof. intros H. destruct (fnb_dict c g H) as (k & x & r & ->). unfold choose. rewrite H. reflexivity. Qed.
Lemma cast_fn c g : fnb c g = true -> cast c g = TFn (strip g).
Proof.
  intros H. pose proof (fnb_choose c g H) as E. destruct (fnb_dict c g H) as (k & x & r & ->).
  cbn [cast]. rewrite E. reflexivity.
Qed.
Lemma scalar_is_scalar b g t : scalar b g = Some t -> is_scalar g = true.
Proof. destruct b, g; simpl; try discriminate; reflexivity. Qed.

(* ------------------------------------------------------------------------------------------------------------------ *)
(* 2. LOCALITY.  [local_value c v]: every alternative that may read v as a member of a typed list reads it as the cast reads
   it on its own.  Arrays, objects and null always are; numbers and booleans are under the guards of the specified
   algorithm; text is when it has one reading. *)
Definition local_value (c : cfg) (v : gvalue) : Prop :=
  forall b t, b <> BStr -> guard_item c b v = true -> member c b v = Some t -> t = cast c v.

Lemma member_nonscalar c b g :
  is_scalar g = false -> member c b g = if fnb c g then Some (TFn (strip g)) else None.
Proof.
  intros H. unfold member. destruct (scalar b g) eqn:E; [|reflexivity].
  apply scalar_is_scalar in E. congruence.
Qed.
Lemma local_nonscalar c g : is_scalar g = false -> local_value c g.
Proof.
  intros H b t _ _ M. rewrite (member_nonscalar c b g H) in M.
  destruct (fnb c g) eqn:F; [|discriminate]. inversion M. symmetry. apply cast_fn. exact F.
Qed.
Corollary local_null c : local_value c GNull.
Proof. apply local_nonscalar. reflexivity. Qed.
Corollary local_list c l : local_value c (GList l).
Proof. apply local_nonscalar. reflexivity. Qed.
Corollary local_dict c d r : local_value c (GDict d r).
Proof. apply local_nonscalar. reflexivity. Qed.

(* ------------------------------------------------------------------------------------------------------------------ *)
(* 3. NUMBERS, BOOLEANS, NULL: for EVERY configuration and EVERY annotation *)
Theorem null_stays c : cast c GNull = TNull.
Proof. reflexivity. Qed.
Theorem bool_stays c b a : cast c (GBool b a) = TBool b.
Proof. cbn [cast choose]. unfold BRANCHES. cbn. reflexivity. Qed.
Theorem int_stays c z a : cast c (GInt z a) = TInt z.
Proof.
  cbn [cast choose]. unfold BRANCHES. cbn [first_branch]. unfold aborts, try_branch. cbn.
  rewrite !andb_false_r. cbn. reflexivity.
Qed.
(* a float stays a float, or -- a whole number -- becomes the integer the integer parser reads; never anything else *)
Theorem float_stays c x a :
  c_guard_num c = true -> cast c (GFloat x a) = match a_int a with Some z => TInt z | None => TFloat x end.
Proof.
  intros G. cbn [cast choose]. unfold BRANCHES. cbn [first_branch]. unfold aborts, try_branch. cbn.
  rewrite G. rewrite !andb_false_r. cbn. destruct (a_int a) as [z|]; cbn; reflexivity.
Qed.

(* "the same number" *)
Definition is_json_number (g : gvalue) : bool := match g with GInt _ _ | GFloat _ _ => true | _ => false end.
Definition number_kept (g : gvalue) (t : tval) : bool :=
  match g, t with
  | GInt z _, TInt z' => Z.eqb z z'
  | GFloat x _, TFloat x' => str_eqb x x'
  | GFloat x _, TInt z => float_denotes_int x z
  | _, _ => false
  end.
Theorem number_stays_number c g :
  c_guard_num c = true -> leaf_confirmed g = true -> is_json_number g = true -> number_kept g (cast c g) = true.
Proof.
  intros G L N. destruct g as [| |z a|x a| | |]; try discriminate.
  - rewrite int_stays. simpl. apply Z.eqb_refl.
  - rewrite (float_stays c x a G). simpl in L. destruct (a_int a) as [z|]; simpl in *; [exact L|apply str_eqb_refl].
Qed.

(* numbers and booleans are local under the guards of the specified algorithm *)
Lemma local_int c z a : c_guard_num c = true -> local_value c (GInt z a).
Proof.
  intros G b t Hb Gi M. rewrite int_stays. unfold member in M.
  destruct b; cbn in Gi, M; try rewrite G in Gi; try discriminate; try congruence.
Qed.
Lemma local_bool c x a : c_guard_num c = true -> c_guard_bool c = true -> local_value c (GBool x a).
Proof.
  intros G G' b t Hb Gi M. rewrite bool_stays. unfold member in M.
  destruct b; cbn in Gi, M; try rewrite G in Gi; try rewrite G' in Gi; try discriminate; try congruence.
Qed.
Lemma local_float c x a : c_guard_num c = true -> local_value c (GFloat x a).
Proof.
  intros G b t Hb Gi M. rewrite (float_stays c x a G). unfold member in M.
  destruct b; cbn in Gi, M; try rewrite G in Gi; try discriminate; try congruence.
  destruct (a_int a); cbn in M; congruence.
Qed.
(* text no alternative reads is local whatever its JSON decoding *)
Lemma local_plain_text c s j a : no_reading s a -> local_value c (GStr s j a).
Proof.
  intros (B & I & D & T & N & _) b t Hb _ M. unfold member in M.
  destruct b; cbn in M; rewrite ?B, ?I, ?D, ?T, ?N in M; cbn in M; try discriminate. congruence.
Qed.

(* a decidable sufficient condition for scalar leaves (the comparison of typed atoms is by their text) *)
Definition teqb (t u : tval) : bool :=
  match t, u with
  | TNull, TNull => true
  | TBool a, TBool b => Bool.eqb a b
  | TInt a, TInt b => Z.eqb a b
  | TFloat a, TFloat b | TStr a, TStr b | TDate a, TDate b | TDatetime a, TDatetime b => str_eqb a b
  | TNet k a, TNet k' b => tkind_eqb k k' && str_eqb a b
  | _, _ => false
  end.
Lemma teqb_eq t u : teqb t u = true -> t = u.
Proof.
  destruct t as [|a|a|a|a|a|a|k a|raw|r|l|d], u as [|b|b|b|b|b|b|k' b|raw'|r'|l'|d']; simpl; try discriminate; intros H;
    try (apply str_eqb_spec in H; congruence).
  - reflexivity.
  - apply eqb_prop in H. congruence.
  - apply Z.eqb_eq in H. congruence.
  - apply andb_prop in H. destruct H as [H1 H2]. apply str_eqb_spec in H2. destruct k, k'; try discriminate; congruence.
Qed.
Definition localb (c : cfg) (v : gvalue) : bool :=
  negb (is_scalar v) ||
  forallb (fun b => match b with
                    | BStr => true
                    | _ => negb (guard_item c b v) || match scalar b v with None => true | Some t => teqb t (cast c v) end
                    end) BRANCHES.
Lemma localb_sound c v : localb c v = true -> local_value c v.
Proof.
  unfold localb. destruct (is_scalar v) eqn:S; [|intros _; apply local_nonscalar; exact S].
  cbn [negb orb]. intros H b t Hb Gi M. rewrite forallb_forall in H.
  assert (In b BRANCHES) as Ib by (destruct b; simpl; tauto). specialize (H b Ib).
  unfold member in M. destruct (scalar b v) as [t'|] eqn:E.
  - inversion M; subst t'. rewrite Gi in H. cbn [negb orb] in H. destruct b; try congruence; apply teqb_eq; exact H.
  - destruct (fnb c v) eqn:F; [|discriminate]. destruct (fnb_dict c v F) as (k & x & r & ->). discriminate.
Qed.

(* ------------------------------------------------------------------------------------------------------------------ *)
(* 1. SHAPE, member by member *)
Lemma nth_error_cast_props c d i k x :
  nth_error d i = Some (k, x) -> nth_error (cast_props c d) i = Some (k, cast c x).
Proof.
  intros H. unfold cast_props.
  apply (map_nth_error (fun kv : str * gvalue => match kv with (k0, x0) => (k0, cast c x0) end) i d H).
Qed.

(* one step through a transparent container *)
Lemma cast_child c g s x :
  transparent c g = true -> gchild g s = Some x -> tchild (cast c g) s = Some (cast c x).
Proof.
  intros T H. destruct g as [| | | | |l|d r]; try discriminate.
  - rewrite (cast_list_untyped c l T). destruct s; try discriminate. cbn [gchild tchild] in *.
    apply map_nth_error. exact H.
  - unfold transparent in T. destruct (choose c (GDict d r)) eqn:E; try discriminate.
    rewrite (cast_dict_plain c d r E). destruct s as [|i k|]; try discriminate. cbn [gchild tchild] in *.
    destruct (nth_error d i) as [[k' y]|] eqn:N; [|discriminate].
    rewrite (nth_error_cast_props c d i k' y N). destruct (str_eqb k k'); [|discriminate]. congruence.
Qed.
(* one step into a typed list, to a member that is local *)
Lemma cast_child_typed c l b i x :
  choose c (GList l) = CList b -> nth_error l i = Some x -> local_value c x ->
  tchild (cast c (GList l)) (Idx i) = Some (cast c x).
Proof.
  intros E N L. rewrite (cast_list_typed c l b E). cbn [tchild].
  rewrite (map_nth_error (fun y => recast_with c b y (cast c y)) i l N). f_equal.
  destruct (choose_typed_list c l b E) as [G M]. rewrite forallb_forall in G.
  pose proof (nth_error_In l i N) as Hx. specialize (G x Hx). specialize (M x Hx).
  unfold recast_with. destruct b; try reflexivity;
    (destruct (member c _ x) as [t|] eqn:Mx; [|congruence]; eapply L; eauto; discriminate).
Qed.

(* the array / object member theorems (nth-wise form of C18_shape_list / C18_shape_object) *)
Theorem list_nth c l i x :
  nth_error l i = Some x ->
  exists ts t, cast c (GList l) = TList ts /\ length ts = length l /\ nth_error ts i = Some t /\
    (t = cast c x \/ exists b, b <> BStr /\ choose c (GList l) = CList b /\ guard_item c b x = true /\ member c b x = Some t).
Proof.
  intros N. pose proof (choose_list_shape c l) as Sh.
  destruct (choose c (GList l)) as [| | |b|] eqn:E; try contradiction.
  - rewrite (cast_list_typed c l b E). eexists; eexists. split; [reflexivity|]. split; [apply map_length|].
    split; [apply (map_nth_error (fun y => recast_with c b y (cast c y)) i l N)|].
    destruct (choose_typed_list c l b E) as [G M]. rewrite forallb_forall in G.
    pose proof (nth_error_In l i N) as Hx. specialize (G x Hx). specialize (M x Hx).
    unfold recast_with. destruct (br_is_str b) as [->|Hb]; [left; reflexivity|].
    destruct (member c b x) as [t|] eqn:Mx; [|congruence].
    right. exists b. destruct b; try congruence; auto.
  - assert (transparent c (GList l) = true) as T by (unfold transparent; rewrite E; reflexivity).
    rewrite (cast_list_untyped c l T). eexists; eexists. split; [reflexivity|]. split; [apply map_length|].
    split; [apply (map_nth_error (cast c) i l N)|]. left; reflexivity.
Qed.
Theorem object_nth c d r i k x :
  choose c (GDict d r) = CNone -> nth_error d i = Some (k, x) ->
  exists d', cast c (GDict d r) = TGeneric d' /\ map fst d' = map fst d /\ nth_error d' i = Some (k, cast c x).
Proof.
  intros E N. rewrite (cast_dict_plain c d r E). exists (cast_props c d). split; [reflexivity|].
  split; [|apply nth_error_cast_props; exact N].
  unfold cast_props. rewrite map_map. apply map_ext. intros [k' y]. reflexivity.
Qed.

(* nested paths: below transparent containers the cast of the node at a path is the node at that path of the cast *)
Theorem cast_at c : forall p g x,
  along (transparent c) g p = true -> gat g p = Some x -> tat (cast c g) p = Some (cast c x).
Proof.
  induction p as [|s p IH]; intros g x A H.
  - inversion H. reflexivity.
  - cbn [along gat tat] in *. apply andb_prop in A. destruct A as [T A].
    destruct (gchild g s) as [y|] eqn:C; [|discriminate].
    rewrite (cast_child c g s y T C). apply IH; assumption.
Qed.

(* ... and through typed lists too, when the node at the end of the path is local *)
Theorem cast_at_local c : forall p g x,
  along (passable c) g p = true -> gat g p = Some x -> local_value c x -> tat (cast c g) p = Some (cast c x).
Proof.
  induction p as [|s p IH]; intros g x A H L.
  - inversion H. reflexivity.
  - cbn [along gat tat] in *. apply andb_prop in A. destruct A as [P A].
    destruct (gchild g s) as [y|] eqn:C; [|discriminate].
    destruct (transparent c g) eqn:T.
    + rewrite (cast_child c g s y T C). apply IH; assumption.
    + (* a typed list *)
      destruct g as [| | | | |l|d r]; try discriminate; [|unfold transparent in T; unfold passable in P; congruence].
      pose proof (choose_list_shape c l) as Sh. unfold transparent in T.
      destruct (choose c (GList l)) as [| | |b|] eqn:E; try contradiction; try discriminate.
      destruct s as [i| |]; try discriminate. cbn [gchild] in C.
      destruct p as [|s' p'].
      * inversion H; subst y. rewrite (cast_child_typed c l b i x E C L). reflexivity.
      * (* a member of a typed list is not a container one can go through *)
        exfalso. cbn [along] in A. apply andb_prop in A. destruct A as [Py _].
        destruct (choose_typed_list c l b E) as [_ M]. specialize (M y (nth_error_In l i C)).
        destruct y as [| | | | |l'|d' r']; try discriminate.
        -- apply M. rewrite member_nonscalar by reflexivity. reflexivity.
        -- apply M. rewrite member_nonscalar by reflexivity.
           destruct (fnb c (GDict d' r')) eqn:F; [|reflexivity].
           unfold passable in Py. rewrite (fnb_choose c _ F) in Py. discriminate.
Qed.

(* 2. LOCALITY, the array / object forms: the member at position [length l1] of the cast is the cast of the member *)
Lemma gat_middle l1 v l2 : gat (GList (l1 ++ v :: l2)) [Idx (length l1)] = Some v.
Proof. cbn [gat gchild]. rewrite nth_error_app2 by lia. rewrite Nat.sub_diag. reflexivity. Qed.
Theorem list_locality c l1 v l2 :
  local_value c v -> tat (cast c (GList (l1 ++ v :: l2))) [Idx (length l1)] = Some (cast c v).
Proof.
  intros L. apply cast_at_local; [|apply gat_middle|exact L].
  pose proof (gat_middle l1 v l2) as G. cbn [gat] in G. cbn [along passable andb].
  destruct (gchild (GList (l1 ++ v :: l2)) (Idx (length l1))); [reflexivity|discriminate].
Qed.
Theorem list_locality_untyped c l1 v l2 :
  transparent c (GList (l1 ++ v :: l2)) = true ->
  cast c (GList (l1 ++ v :: l2)) = TList (map (cast c) l1 ++ cast c v :: map (cast c) l2).
Proof. intros T. rewrite (cast_list_untyped c _ T). rewrite map_app. reflexivity. Qed.
Theorem object_locality c d1 k v d2 r :
  choose c (GDict (d1 ++ (k, v) :: d2) r) = CNone ->
  cast c (GDict (d1 ++ (k, v) :: d2) r) = TGeneric (cast_props c d1 ++ (k, cast c v) :: cast_props c d2).
Proof. intros E. rewrite (cast_dict_plain c _ r E). unfold cast_props. rewrite map_app. reflexivity. Qed.
(* whether an object is recognised does not depend on the VALUES of its members (keys and the recogniser's answer only) *)
Theorem choose_dict_keys_only c d d' r : map fst d = map fst d' -> choose c (GDict d r) = choose c (GDict d' r).
Proof.
  intros H. unfold choose, fnb.
  destruct d as [|[k x] [|kv d]], d' as [|[k' x'] [|kv' d']]; try discriminate; try reflexivity.
  simpl in H. inversion H. reflexivity.
Qed.

(* 3. at every path *)
Theorem null_at_path c g p :
  along (passable c) g p = true -> gat g p = Some GNull -> tat (cast c g) p = Some TNull.
Proof. intros A H. apply (cast_at_local c p g GNull A H). apply local_null. Qed.
Theorem int_at_path c g p z a :
  c_guard_num c = true -> along (passable c) g p = true -> gat g p = Some (GInt z a) -> tat (cast c g) p = Some (TInt z).
Proof. intros G A H. rewrite <- (int_stays c z a). apply (cast_at_local c p g _ A H). apply local_int. exact G. Qed.
Theorem bool_at_path c g p b a :
  c_guard_num c = true -> c_guard_bool c = true ->
  along (passable c) g p = true -> gat g p = Some (GBool b a) -> tat (cast c g) p = Some (TBool b).
Proof. intros G G' A H. rewrite <- (bool_stays c b a). apply (cast_at_local c p g _ A H). apply local_bool; assumption. Qed.
Theorem float_at_path c g p x a :
  c_guard_num c = true -> along (passable c) g p = true -> gat g p = Some (GFloat x a) ->
  tat (cast c g) p = Some (match a_int a with Some z => TInt z | None => TFloat x end).
Proof. intros G A H. rewrite <- (float_stays c x a G). apply (cast_at_local c p g _ A H). apply local_float. exact G. Qed.
(* without the guards (the code as found included): at every path that does not cross a typed list *)
Theorem int_at_open_path c g p z a :
  along (transparent c) g p = true -> gat g p = Some (GInt z a) -> tat (cast c g) p = Some (TInt z).
Proof. intros A H. rewrite <- (int_stays c z a). apply (cast_at c p g _ A H). Qed.
Theorem bool_at_open_path c g p b a :
  along (transparent c) g p = true -> gat g p = Some (GBool b a) -> tat (cast c g) p = Some (TBool b).
Proof. intros A H. rewrite <- (bool_stays c b a). apply (cast_at c p g _ A H). Qed.

(* ------------------------------------------------------------------------------------------------------------------ *)
(* 1. SHAPE, the whole tree: skeleton (arrays with their lengths, objects with their keys in order) and path enumeration *)
Inductive skel := SLeaf | SArr (l : list skel) | SObj (d : list (str * skel)).
Fixpoint gskel (g : gvalue) : skel :=
  match g with
  | GList l => SArr (map gskel l)
  | GDict d _ => SObj (map (fun kv => match kv with (k, x) => (k, gskel x) end) d)
  | _ => SLeaf
  end.
Fixpoint tskel (t : tval) : skel :=
  match t with
  | TList l => SArr (map tskel l)
  | TGeneric d => SObj (map (fun kv => match kv with (k, x) => (k, tskel x) end) d)
  | _ => SLeaf
  end.

Inductive nkind := NLeaf | NArr | NObj.
Definition under {X} (s : step) (px : path * X) : path * X := (s :: fst px, snd px).
(* every node with its path, in document order (pre-order) *)
Fixpoint spaths (s : skel) : list (path * nkind) :=
  match s with
  | SLeaf => [([], NLeaf)]
  | SArr l =>
      ([], NArr) ::
      (fix go (l : list skel) (i : nat) : list (path * nkind) :=
         match l with [] => [] | x :: r => map (under (Idx i)) (spaths x) ++ go r (S i) end) l 0
  | SObj d =>
      ([], NObj) ::
      (fix go (d : list (str * skel)) (i : nat) : list (path * nkind) :=
         match d with [] => [] | (k, x) :: r => map (under (Mem i k)) (spaths x) ++ go r (S i) end) d 0
  end.
Definition gpaths (g : gvalue) : list (path * nkind) := spaths (gskel g).
Definition tpaths (t : tval) : list (path * nkind) := spaths (tskel t).
Definition is_leaf_kind (k : nkind) : bool := match k with NLeaf => true | _ => false end.
Definition leaf_paths (ps : list (path * nkind)) : list path := map fst (filter (fun pk => is_leaf_kind (snd pk)) ps).

(* nothing below g is recognised: no object is a property model or a function call, no JSON text encodes a container the
   union accepts (such text becomes that container) *)
Fixpoint shape_plain (c : cfg) (g : gvalue) : bool :=
  match g with
  | GStr _ (Some j) _ => match choose c j with CNone | CScalar _ => true | _ => false end
  | GList l => forallb (shape_plain c) l
  | GDict d _ => is_cnone (choose c g) && forallb (fun kv => shape_plain c (snd kv)) d
  | _ => true
  end.

Lemma scalar_leaf b g t : scalar b g = Some t -> tskel t = SLeaf.
Proof.
  destruct b, g; simpl; try discriminate;
    repeat match goal with
    | |- context [option_map _ ?o] => destruct o; simpl
    end; intros H; inversion H; reflexivity.
Qed.
Lemma choose_scalar_leaf c g t : choose c g = CScalar t -> tskel t = SLeaf.
Proof.
  intros H.
  assert (first_branch c g BRANCHES = CScalar t -> tskel t = SLeaf) as K.
  { intros E. pose proof (first_branch_shape c g BRANCHES) as S. rewrite E in S. destruct S as [b S].
    eapply scalar_leaf; eauto. }
  destruct g as [| | | | | |d r]; try (apply K; exact H).
  pose proof (choose_dict_shape c d r) as D. rewrite H in D. contradiction.
Qed.
Lemma finish_scalar_leaf c g raw fb :
  (forall d r, g <> GDict d r) -> (forall l, g <> GList l) -> tskel fb = SLeaf ->
  tskel (finish (choose c g) raw [] fb) = SLeaf.
Proof.
  intros ND NL F. pose proof (choose_nondict_not_prop c g ND) as S.
  destruct (choose c g) as [| |t|b|] eqn:E; cbn [finish]; try contradiction; try exact F.
  - eapply choose_scalar_leaf; eauto.
  - destruct (choose_list c g b E) as (l & -> & _). exfalso. eapply NL; reflexivity.
Qed.

Theorem skel_preserved c : forall g, shape_plain c g = true -> tskel (cast c g) = gskel g.
Proof.
  induction g as [|b a|z a|x a|s a|s j a IHj|l IHl|d r IHd] using gvalue_ind'; intros SP.
  - reflexivity.
  - rewrite bool_stays. reflexivity.
  - rewrite int_stays. reflexivity.
  - cbn [cast]. apply finish_scalar_leaf; try (intros; discriminate). reflexivity.
  - cbn [cast]. apply finish_scalar_leaf; try (intros; discriminate). reflexivity.
  - cbn [cast shape_plain gskel] in *. destruct (choose c j) as [| |t|b|] eqn:E; try discriminate; cbn [finish].
    + eapply choose_scalar_leaf; eauto.
    + reflexivity.
  - cbn [shape_plain gskel] in *. rewrite forallb_forall in SP. rewrite Forall_forall in IHl.
    pose proof (choose_list_shape c l) as Sh.
    destruct (choose c (GList l)) as [| | |b|] eqn:E; try contradiction.
    + rewrite (cast_list_typed c l b E). cbn [tskel]. f_equal. rewrite map_map. apply map_ext_in. intros x Hx.
      destruct (choose_typed_list c l b E) as [_ M]. specialize (M x Hx).
      assert (tskel (cast c x) = gskel x) as IHx by (apply IHl; [exact Hx|apply SP; exact Hx]).
      unfold recast_with. destruct (br_is_str b) as [->|Hb]; [exact IHx|].
      destruct (member c b x) as [t|] eqn:Mx; [|destruct b; congruence].
      assert (tskel t = gskel x) as K.
      { unfold member in Mx. destruct (scalar b x) as [t'|] eqn:Sc.
        - inversion Mx; subst t'. rewrite (scalar_leaf b x t Sc).
          apply scalar_is_scalar in Sc. destruct x; try discriminate; reflexivity.
        - destruct (fnb c x) eqn:F; [|discriminate]. exfalso.
          pose proof (fnb_choose c x F) as Cx. destruct (fnb_dict c x F) as (k & y & r & ->).
          specialize (SP _ Hx). cbn [shape_plain] in SP. rewrite Cx in SP. discriminate. }
      destruct b; try congruence; exact K.
    + assert (transparent c (GList l) = true) as T by (unfold transparent; rewrite E; reflexivity).
      rewrite (cast_list_untyped c l T). cbn [tskel]. f_equal. rewrite map_map. apply map_ext_in. intros x Hx.
      apply IHl; [exact Hx|apply SP; exact Hx].
  - cbn [shape_plain] in SP. apply andb_prop in SP. destruct SP as [C SP].
    destruct (choose c (GDict d r)) eqn:E; try discriminate.
    rewrite (cast_dict_plain c d r E). cbn [tskel gskel]. f_equal. unfold cast_props. rewrite map_map.
    rewrite forallb_forall in SP. rewrite Forall_forall in IHd.
    apply map_ext_in. intros [k x] Hx. f_equal. apply (IHd (k, x) Hx). apply (SP (k, x) Hx).
Qed.

(* hence the same nodes at the same paths, in the same order; in particular the same paths to scalar leaves *)
Theorem paths_preserved c g : shape_plain c g = true -> tpaths (cast c g) = gpaths g.
Proof. intros H. unfold tpaths, gpaths. rewrite (skel_preserved c g H). reflexivity. Qed.
Corollary leaf_paths_preserved c g :
  shape_plain c g = true -> leaf_paths (tpaths (cast c g)) = leaf_paths (gpaths g).
Proof. intros H. rewrite (paths_preserved c g H). reflexivity. Qed.

(* what the enumeration enumerates: (p, k) is listed iff p leads to a node of kind k *)
Section SkelInd.
  Variable P : skel -> Prop.
  Hypothesis Hleaf : P SLeaf.
  Hypothesis Harr : forall l, Forall P l -> P (SArr l).
  Hypothesis Hobj : forall d, Forall (fun kv => P (snd kv)) d -> P (SObj d).
  Fixpoint skel_ind' (s : skel) : P s :=
    match s with
    | SLeaf => Hleaf
    | SArr l => Harr l ((fix go (l : list skel) : Forall P l :=
        match l with [] => Forall_nil _ | x :: xs => Forall_cons _ (skel_ind' x) (go xs) end) l)
    | SObj d => Hobj d ((fix go (d : list (str * skel)) : Forall (fun kv => P (snd kv)) d :=
        match d with [] => Forall_nil _ | (k, x) :: xs => Forall_cons (k, x) (skel_ind' x) (go xs) end) d)
    end.
End SkelInd.

Definition skind (s : skel) : nkind := match s with SLeaf => NLeaf | SArr _ => NArr | SObj _ => NObj end.
Definition schild (s : skel) (st : step) : option skel :=
  match st, s with
  | Idx i, SArr l => nth_error l i
  | Mem i k, SObj d =>
      match nth_error d i with Some (k', x) => if str_eqb k k' then Some x else None | None => None end
  | _, _ => None
  end.
Fixpoint sat (s : skel) (p : path) : option skel :=
  match p with
  | [] => Some s
  | st :: p' => match schild s st with Some x => sat x p' | None => None end
  end.

(* the two inner loops of [spaths], named *)
Fixpoint sgo_arr (l : list skel) (i : nat) : list (path * nkind) :=
  match l with [] => [] | x :: r => map (under (Idx i)) (spaths x) ++ sgo_arr r (S i) end.
Fixpoint sgo_obj (d : list (str * skel)) (i : nat) : list (path * nkind) :=
  match d with [] => [] | (k, x) :: r => map (under (Mem i k)) (spaths x) ++ sgo_obj r (S i) end.
Lemma spaths_arr l : spaths (SArr l) = ([], NArr) :: sgo_arr l 0.
Proof. reflexivity. Qed.
Lemma spaths_obj d : spaths (SObj d) = ([], NObj) :: sgo_obj d 0.
Proof. reflexivity. Qed.
Lemma sgo_arr_in l : forall i p k,
  In (p, k) (sgo_arr l i) <-> exists n x q, p = Idx (i + n) :: q /\ nth_error l n = Some x /\ In (q, k) (spaths x).
Proof.
  induction l as [|x l IH]; intros i p k; cbn [sgo_arr].
  - split; [contradiction|]. intros (n & y & q & _ & N & _). destruct n; discriminate.
  - rewrite in_app_iff, in_map_iff, IH. split.
    + intros [([q k'] & E & H)|(n & y & q & -> & N & H)].
      * inversion E; subst. exists 0, x, q. rewrite Nat.add_0_r. auto.
      * exists (S n), y, q. replace (i + S n) with (S i + n) by lia. auto.
    + intros ([|n] & y & q & -> & N & H).
      * left. inversion N; subst y. exists (q, k). rewrite Nat.add_0_r. auto.
      * right. exists n, y, q. replace (S i + n) with (i + S n) by lia. auto.
Qed.
Lemma sgo_obj_in d : forall i p k,
  In (p, k) (sgo_obj d i) <->
  exists n key x q, p = Mem (i + n) key :: q /\ nth_error d n = Some (key, x) /\ In (q, k) (spaths x).
Proof.
  induction d as [|[key0 x] d IH]; intros i p k; cbn [sgo_obj].
  - split; [contradiction|]. intros (n & key & y & q & _ & N & _). destruct n; discriminate.
  - rewrite in_app_iff, in_map_iff, IH. split.
    + intros [([q k'] & E & H)|(n & key & y & q & -> & N & H)].
      * inversion E; subst. exists 0, key0, x, q. rewrite Nat.add_0_r. auto.
      * exists (S n), key, y, q. replace (i + S n) with (S i + n) by lia. auto.
    + intros ([|n] & key & y & q & -> & N & H).
      * left. inversion N; subst. exists (q, k). rewrite Nat.add_0_r. auto.
      * right. exists n, key, y, q. replace (S i + n) with (i + S n) by lia. auto.
Qed.

Theorem spaths_spec : forall sk p k, In (p, k) (spaths sk) <-> exists sk', sat sk p = Some sk' /\ skind sk' = k.
Proof.
  induction sk as [|l IHl|d IHd] using skel_ind'; intros p k.
  - cbn [spaths In]. split.
    + intros [H|[]]. inversion H. exists SLeaf. auto.
    + intros (sk' & H & K). destruct p as [|st p]; [inversion H; subst; left; reflexivity|]. destruct st; discriminate.
  - rewrite spaths_arr. cbn [In]. rewrite sgo_arr_in. rewrite Forall_forall in IHl. split.
    + intros [H|(n & x & q & -> & N & H)].
      * inversion H. exists (SArr l). auto.
      * apply (IHl x (nth_error_In l n N)) in H. destruct H as (sk' & H & K). exists sk'. cbn [sat schild Nat.add].
        rewrite N. auto.
    + intros (sk' & H & K). destruct p as [|st p]; [inversion H; subst; left; reflexivity|]. right.
      cbn [sat] in H. destruct st as [i| |]; try discriminate. cbn [schild] in H.
      destruct (nth_error l i) as [x|] eqn:N; [|discriminate]. exists i, x, p. repeat split; [exact N|].
      apply (IHl x (nth_error_In l i N)). exists sk'. auto.
  - rewrite spaths_obj. cbn [In]. rewrite sgo_obj_in. rewrite Forall_forall in IHd. split.
    + intros [H|(n & key & x & q & -> & N & H)].
      * inversion H. exists (SObj d). auto.
      * apply (IHd (key, x) (nth_error_In d n N)) in H. destruct H as (sk' & H & K). exists sk'. cbn [sat schild Nat.add].
        rewrite N, str_eqb_refl. auto.
    + intros (sk' & H & K). destruct p as [|st p]; [inversion H; subst; left; reflexivity|]. right.
      cbn [sat] in H. destruct st as [|i key|]; try discriminate. cbn [schild] in H.
      destruct (nth_error d i) as [[key' x]|] eqn:N; [|discriminate].
      destruct (str_eqb key key') eqn:E; [|discriminate]. apply str_eqb_spec in E. subst key'.
      exists i, key, x, p. repeat split; [exact N|]. apply (IHd (key, x) (nth_error_In d i N)). exists sk'. auto.
Qed.

Definition gkind (g : gvalue) : nkind := match g with GList _ => NArr | GDict _ _ => NObj | _ => NLeaf end.
Definition tkind_of (t : tval) : nkind := match t with TList _ => NArr | TGeneric _ => NObj | _ => NLeaf end.
Definition json_free (p : path) : bool := forallb (fun st => match st with Json => false | _ => true end) p.
Lemma skind_gskel g : skind (gskel g) = gkind g.
Proof. destruct g; reflexivity. Qed.
Lemma skind_tskel t : skind (tskel t) = tkind_of t.
Proof. destruct t; reflexivity. Qed.
Lemma sat_gskel : forall p g, json_free p = true -> sat (gskel g) p = option_map gskel (gat g p).
Proof.
  induction p as [|st p IH]; intros g J; [reflexivity|]. cbn [json_free forallb] in J. apply andb_prop in J. destruct J as [J1 J2].
  cbn [sat gat]. destruct st as [i|i k|]; [| |discriminate].
  - destruct g as [| | | | |l|d r]; try reflexivity. cbn [gskel schild gchild]. rewrite nth_error_map.
    destruct (nth_error l i) as [x|]; [apply IH; exact J2|reflexivity].
  - destruct g as [| | | | |l|d r]; try reflexivity. cbn [gskel schild gchild]. rewrite nth_error_map.
    destruct (nth_error d i) as [[k' x]|]; [|reflexivity]. cbn [option_map].
    destruct (str_eqb k k'); [apply IH; exact J2|reflexivity].
Qed.
Lemma sat_tskel : forall p t, sat (tskel t) p = option_map tskel (tat t p).
Proof.
  induction p as [|st p IH]; intros t; [reflexivity|]. cbn [sat tat]. destruct st as [i|i k|].
  - destruct t as [| | | | | | | | | |l|d]; try reflexivity. cbn [tskel schild tchild]. rewrite nth_error_map.
    destruct (nth_error l i) as [x|]; [apply IH|reflexivity].
  - destruct t as [| | | | | | | | | |l|d]; try reflexivity. cbn [tskel schild tchild]. rewrite nth_error_map.
    destruct (nth_error d i) as [[k' x]|]; [|reflexivity]. cbn [option_map].
    destruct (str_eqb k k'); [apply IH|reflexivity].
  - destruct t; reflexivity.
Qed.
Lemma sat_json_free : forall p sk sk', sat sk p = Some sk' -> json_free p = true.
Proof.
  induction p as [|st p IH]; intros sk sk' H; [reflexivity|]. cbn [sat] in H.
  destruct (schild sk st) as [x|] eqn:C; [|discriminate]. cbn [json_free forallb].
  destruct st; [| |destruct sk; discriminate]; apply (IH x sk' H).
Qed.
(* [gpaths g] lists exactly the paths of g that do not enter JSON text, each with the kind of the node it leads to;
   [tpaths t] exactly the paths of t *)
Theorem gpaths_spec g p k : In (p, k) (gpaths g) <-> json_free p = true /\ exists x, gat g p = Some x /\ gkind x = k.
Proof.
  unfold gpaths. rewrite spaths_spec. split.
  - intros (sk' & H & K). pose proof (sat_json_free p _ _ H) as J. split; [exact J|].
    rewrite (sat_gskel p g J) in H. destruct (gat g p) as [x|]; [|discriminate]. inversion H; subst sk'.
    exists x. rewrite <- skind_gskel. auto.
  - intros (J & x & H & K). exists (gskel x). rewrite (sat_gskel p g J), H, skind_gskel. auto.
Qed.
Theorem tpaths_spec t p k : In (p, k) (tpaths t) <-> exists x, tat t p = Some x /\ tkind_of x = k.
Proof.
  unfold tpaths. rewrite spaths_spec. split.
  - intros (sk' & H & K). rewrite sat_tskel in H. destruct (tat t p) as [x|]; [|discriminate]. inversion H; subst sk'.
    exists x. rewrite <- skind_tskel. auto.
  - intros (x & H & K). exists (tskel x). rewrite sat_tskel, H, skind_tskel. auto.
Qed.
(* hence, where nothing is recognised, a path leads to a node of kind k (a scalar leaf in particular) in the value iff it
   does in its cast *)
Corollary same_paths c g p k :
  shape_plain c g = true -> json_free p = true ->
  ((exists x, gat g p = Some x /\ gkind x = k) <-> (exists y, tat (cast c g) p = Some y /\ tkind_of y = k)).
Proof.
  intros SP J. rewrite <- tpaths_spec. rewrite (paths_preserved c g SP). rewrite gpaths_spec. tauto.
Qed.

(* ------------------------------------------------------------------------------------------------------------------ *)
(* 4. STRING CLASSIFICATION.  Plain text (text json.loads rejects) falls in exactly one family; the family is decided by
   the text's own readings (SemiStrictBool, modelled; the int / date / timestamp / network parsers, oracles of the text) in
   the order of the union, and by nothing else -- of the configuration only the numbers guard takes part. *)
Inductive fam :=
| FamBool        (* true / false in any letter case *)
| FamInt         (* an integer literal *)
| FamNumText     (* other text float() reads: kept as text (guard _not_from_numbers) *)
| FamAborted     (* a date / timestamp parser RAISES on it (year 0): kept as text *)
| FamDate | FamDatetime | FamNet
| FamKept.       (* no reading: kept as text *)

Definition classify (c : cfg) (s : str) (a : sann) : fam :=
  match bool_literal s with Some _ => FamBool | None =>
  match a_int a with Some _ => FamInt | None =>
  if c_guard_num c && a_float a then FamNumText
  else if a_abort_date a then FamAborted
  else match a_date a with Some _ => FamDate | None =>
  if a_abort_datetime a then FamAborted
  else match a_datetime a with Some _ => FamDatetime | None =>
  match a_net a with Some _ => FamNet | None => FamKept end end end end end.

Definition fam_result (s : str) (a : sann) (f : fam) : tval :=
  match f with
  | FamBool => match bool_literal s with Some b => TBool b | None => TStr s end
  | FamInt => match a_int a with Some z => TInt z | None => TStr s end
  | FamDate => match a_date a with Some d => TDate d | None => TStr s end
  | FamDatetime => match a_datetime a with Some d => TDatetime d | None => TStr s end
  | FamNet => match a_net a with Some kt => TNet (fst kt) (snd kt) | None => TStr s end
  | FamNumText | FamAborted | FamKept => TStr s
  end.

Theorem plain_text_classified c s a : cast c (GStr s None a) = fam_result s a (classify c s a).
Proof.
  cbn [cast choose]. unfold BRANCHES, classify, fam_result. cbn [first_branch]. unfold aborts, try_branch.
  cbn [guard guard_item scalar abort_item ann_of is_scalar is_number is_boolean negb andb].
  remember (bool_literal s) as bl eqn:B. clear B.
  rewrite !andb_false_r. cbn.
  destruct bl as [b|]; cbn; [reflexivity|].
  destruct (a_int a) as [z|]; cbn; [reflexivity|].
  destruct (c_guard_num c && a_float a); cbn; [reflexivity|].
  destruct (a_abort_date a); cbn; [reflexivity|].
  destruct (a_date a) as [d|]; cbn; [reflexivity|].
  destruct (a_abort_datetime a); cbn; [reflexivity|].
  destruct (a_datetime a) as [d|]; cbn; [reflexivity|].
  destruct (a_net a) as [kt|]; cbn; reflexivity.
Qed.

(* the families, each by its own defining condition (what is read, and that nothing earlier in the union reads) *)
Definition reads_text (c : cfg) (s : str) (a : sann) : Prop :=      (* the date / timestamp / network alternatives see the text *)
  bool_literal s = None /\ a_int a = None /\ c_guard_num c && a_float a = false.
Definition in_fam (c : cfg) (s : str) (a : sann) (f : fam) : Prop :=
  match f with
  | FamBool => bool_literal s <> None
  | FamInt => bool_literal s = None /\ a_int a <> None
  | FamNumText => bool_literal s = None /\ a_int a = None /\ c_guard_num c && a_float a = true
  | FamDate => reads_text c s a /\ a_abort_date a = false /\ a_date a <> None
  | FamDatetime => reads_text c s a /\ a_abort_date a = false /\ a_date a = None /\ a_abort_datetime a = false /\ a_datetime a <> None
  | FamNet => reads_text c s a /\ a_abort_date a = false /\ a_date a = None /\ a_abort_datetime a = false /\ a_datetime a = None
              /\ a_net a <> None
  | FamAborted => reads_text c s a /\ (a_abort_date a = true \/ (a_abort_date a = false /\ a_date a = None /\ a_abort_datetime a = true))
  | FamKept => reads_text c s a /\ a_abort_date a = false /\ a_date a = None /\ a_abort_datetime a = false /\ a_datetime a = None
               /\ a_net a = None
  end.

(* the classifier decides membership: hence the families are EXHAUSTIVE and EXCLUSIVE *)
Theorem in_fam_iff c s a f : in_fam c s a f <-> classify c s a = f.
Proof.
  unfold classify, in_fam, reads_text.
  destruct (bool_literal s) as [b|]; [destruct f; split; intros H; try discriminate; try reflexivity; try (intuition congruence)|].
  destruct (a_int a) as [z|]; [destruct f; split; intros H; try discriminate; try reflexivity; try (intuition congruence)|].
  destruct (c_guard_num c && a_float a); [destruct f; split; intros H; try discriminate; try reflexivity; try (intuition congruence)|].
  destruct (a_abort_date a); [destruct f; split; intros H; try discriminate; try reflexivity; try (intuition congruence)|].
  destruct (a_date a) as [d|]; [destruct f; split; intros H; try discriminate; try reflexivity; try (intuition congruence)|].
  destruct (a_abort_datetime a); [destruct f; split; intros H; try discriminate; try reflexivity; try (intuition congruence)|].
  destruct (a_datetime a) as [d|]; [destruct f; split; intros H; try discriminate; try reflexivity; try (intuition congruence)|].
  destruct (a_net a) as [kt|]; destruct f; split; intros H; try discriminate; try reflexivity; try (intuition congruence).
Qed.
Corollary fam_exhaustive c s a : exists f, in_fam c s a f.
Proof. exists (classify c s a). apply in_fam_iff. reflexivity. Qed.
Corollary fam_exclusive c s a f1 f2 : in_fam c s a f1 -> in_fam c s a f2 -> f1 = f2.
Proof. intros H1 H2. apply in_fam_iff in H1. apply in_fam_iff in H2. congruence. Qed.
(* ... and the family decides what the text becomes *)
Corollary fam_decides c s a f : in_fam c s a f -> cast c (GStr s None a) = fam_result s a f.
Proof. intros H. apply in_fam_iff in H. subst f. apply plain_text_classified. Qed.

Definition fam_kept (f : fam) : bool := match f with FamNumText | FamAborted | FamKept => true | _ => false end.
(* a string in no converting family is returned unchanged; a string in a converting family is not a string any more *)
Theorem kept_family_unchanged c s a : fam_kept (classify c s a) = true -> cast c (GStr s None a) = TStr s.
Proof. intros H. rewrite plain_text_classified. destruct (classify c s a); try discriminate; reflexivity. Qed.
Theorem converting_family_converts c s a :
  fam_kept (classify c s a) = false -> forall s', cast c (GStr s None a) <> TStr s'.
Proof.
  intros H s'. rewrite plain_text_classified. pose proof (proj2 (in_fam_iff c s a _) eq_refl) as F.
  destruct (classify c s a); try discriminate; cbn [fam_result in_fam] in *; unfold reads_text in F.
  - destruct (bool_literal s); [discriminate|congruence].
  - destruct F as [_ F]. destruct (a_int a); [discriminate|congruence].
  - destruct F as (_ & _ & F). destruct (a_date a); [discriminate|congruence].
  - destruct F as (_ & _ & _ & _ & F). destruct (a_datetime a); [discriminate|congruence].
  - destruct F as (_ & _ & _ & _ & _ & F). destruct (a_net a); [discriminate|congruence].
Qed.
Theorem no_reading_kept c s a : no_reading s a -> fam_kept (classify c s a) = true.
Proof.
  intros (B & I & D & T & N & A1 & A2). unfold classify. rewrite B, I, D, T, N, A1, A2.
  destruct (c_guard_num c && a_float a); reflexivity.
Qed.
(* of the configuration only the numbers guard matters; function names, the empty-object rule, the booleans guard do not *)
Theorem classify_cfg c c' s a : c_guard_num c = c_guard_num c' -> classify c s a = classify c' s a.
Proof. intros H. unfold classify. rewrite H. reflexivity. Qed.
Corollary plain_text_cfg c c' s a :
  c_guard_num c = c_guard_num c' -> cast c (GStr s None a) = cast c' (GStr s None a).
Proof. intros H. rewrite !plain_text_classified. rewrite (classify_cfg c c' s a H). reflexivity. Qed.

(* JSON text: the annotations of the text itself play no part; it stays the text when the union rejects what it encodes,
   and otherwise becomes the cast of what it encodes (text inside JSON text is not decoded a second time) *)
Definition unjson (j : gvalue) : gvalue := match j with GStr s _ a => GStr s None a | _ => j end.
Lemma choose_unjson c j : choose c (unjson j) = choose c j.
Proof. destruct j; reflexivity. Qed.
Lemma choose_null c : choose c GNull = CNone.
Proof.
  unfold choose, BRANCHES. cbn [first_branch]. unfold aborts, try_branch. cbn. rewrite !andb_false_r. cbn. reflexivity.
Qed.
Theorem json_text_ann_irrelevant c s j a a' : cast c (GStr s (Some j) a) = cast c (GStr s (Some j) a').
Proof. reflexivity. Qed.
Theorem json_text_is_decoded_value c s j a :
  choose c j <> CNone -> cast c (GStr s (Some j) a) = cast c (unjson j).
Proof.
  intros H. cbn [cast]. destruct j as [|b a0|z a0|x a0|s0 j0 a0|l|d r]; cbn [unjson cast]; rewrite ?choose_unjson;
    try (destruct (choose c _) eqn:E; [reflexivity|reflexivity|reflexivity|reflexivity|congruence]).
  - rewrite choose_null in H. congruence.
  - pose proof (choose_list_shape c l) as Sh.
    destruct (choose c (GList l)) eqn:E; try contradiction; try reflexivity; congruence.
Qed.
Theorem string_leaf_total c s j a :
  (j = None /\ cast c (GStr s j a) = fam_result s a (classify c s a))
  \/ (exists j', j = Some j' /\ choose c j' = CNone /\ cast c (GStr s j a) = TStr s)
  \/ (exists j', j = Some j' /\ choose c j' <> CNone /\ cast c (GStr s j a) = cast c (unjson j')).
Proof.
  destruct j as [j'|].
  - right. destruct (is_cnone (choose c j')) eqn:E.
    + left. exists j'. destruct (choose c j') eqn:E'; try discriminate. repeat split. apply rejected_json_text_same. exact E'.
    + right. exists j'. assert (choose c j' <> CNone) as NN by (intros E'; rewrite E' in E; discriminate).
      repeat split; [exact NN|]. apply json_text_is_decoded_value. exact NN.
  - left. split; [reflexivity|]. apply plain_text_classified.
Qed.

(* the number half of C18_not_bool: plain text becomes an integer only when the integer parser reads it (and the checker
   then confirms it denotes that integer); it never becomes a float *)
Theorem int_only_from_int_reading c s a z :
  cast c (GStr s None a) = TInt z -> bool_literal s = None /\ a_int a = Some z.
Proof.
  rewrite plain_text_classified. pose proof (proj2 (in_fam_iff c s a _) eq_refl) as F.
  destruct (classify c s a); cbn [fam_result in_fam] in *; unfold reads_text in F; intros H.
  - destruct (bool_literal s); discriminate.
  - destruct F as [B _]. destruct (a_int a); [inversion H; auto|discriminate].
  - discriminate.
  - discriminate.
  - destruct (a_date a); discriminate.
  - destruct (a_datetime a); discriminate.
  - destruct (a_net a); discriminate.
  - discriminate.
Qed.
Corollary int_from_text_confirmed c s a z :
  leaf_confirmed (GStr s None a) = true -> cast c (GStr s None a) = TInt z -> denotes_int s z = true.
Proof.
  intros L H. apply int_only_from_int_reading in H. destruct H as [_ I]. cbn [leaf_confirmed] in L. rewrite I in L.
  cbn [opt_ok] in L. apply andb_prop in L. tauto.
Qed.
Theorem text_never_float c s a x : cast c (GStr s None a) <> TFloat x.
Proof.
  rewrite plain_text_classified. destruct (classify c s a); cbn [fam_result];
    repeat match goal with |- context [match ?o with Some _ => _ | None => _ end] => destruct o end; discriminate.
Qed.

(* ------------------------------------------------------------------------------------------------------------------ *)
(* 5. FIXED POINT / IDEMPOTENCE.  [inj g]: the value as it stands, no leaf converted.  [inert c g]: no alternative that may
   look at a leaf of g reads it as anything but itself, JSON text encodes nothing the union accepts, no object is recognised.
   Decidable, so it can be evaluated on the dump of a concrete cast value. *)
Fixpoint inj (g : gvalue) : tval :=
  match g with
  | GNull => TNull
  | GBool b _ => TBool b
  | GInt z _ => TInt z
  | GFloat x _ => TFloat x
  | GStr s _ _ => TStr s
  | GList l => TList (map inj l)
  | GDict d _ => TGeneric (map (fun kv => match kv with (k, x) => (k, inj x) end) d)
  end.
Definition leaf_inert (c : cfg) (g : gvalue) : bool :=
  forallb (fun b => negb (guard_item c b g) || match scalar b g with None => true | Some t => teqb t (inj g) end) BRANCHES.
Fixpoint inert (c : cfg) (g : gvalue) : bool :=
  match g with
  | GNull => true
  | GBool _ _ => leaf_inert c g
  | GInt _ _ => leaf_inert c g
  | GFloat _ _ => leaf_inert c g
  | GStr _ None _ => leaf_inert c g
  | GStr _ (Some j) _ => leaf_inert c g && is_cnone (choose c j)
  | GList l => forallb (inert c) l
  | GDict d _ => is_cnone (choose c g) && forallb (fun kv => inert c (snd kv)) d
  end.

Lemma inert_leaf c g : inert c g = true -> is_scalar g = true -> leaf_inert c g = true.
Proof.
  destruct g as [| | | |s [j|] a| |]; cbn [inert is_scalar]; try discriminate; auto.
  intros H _. apply andb_prop in H. tauto.
Qed.
Lemma leaf_inert_reading c g b t :
  leaf_inert c g = true -> guard_item c b g = true -> scalar b g = Some t -> t = inj g.
Proof.
  unfold leaf_inert. rewrite forallb_forall. intros H G S.
  assert (In b BRANCHES) as Ib by (destruct b; simpl; tauto). specialize (H b Ib).
  rewrite G, S in H. cbn [negb orb] in H. apply teqb_eq. exact H.
Qed.
Lemma first_branch_inert c g :
  leaf_inert c g = true -> is_scalar g = true ->
  forall bs, first_branch c g bs = CNone \/ first_branch c g bs = CScalar (inj g).
Proof.
  intros L S. induction bs as [|b bs IH]; cbn [first_branch]; [left; reflexivity|].
  destruct (aborts c g b); [left; reflexivity|].
  assert (guard c b g = guard_item c b g) as Gg by (destruct g; try discriminate; reflexivity).
  unfold try_branch. rewrite Gg. destruct (guard_item c b g) eqn:G; cbn [negb]; [|exact IH].
  destruct (scalar b g) as [t|] eqn:Sc.
  - right. f_equal. eapply leaf_inert_reading; eauto.
  - destruct g; try discriminate; exact IH.
Qed.
Lemma cast_leaf_inert c g :
  leaf_inert c g = true -> is_scalar g = true -> (forall s j a, g <> GStr s (Some j) a) -> cast c g = inj g.
Proof.
  intros L S NJ. pose proof (first_branch_inert c g L S BRANCHES) as F.
  destruct g as [|b a|z a|x a|s [j|] a| |]; try discriminate; [| | |exfalso; eapply NJ; reflexivity|];
    cbn [cast choose inj] in *; destruct F as [F|F]; rewrite F; reflexivity.
Qed.

Theorem cast_inert c : forall g, inert c g = true -> cast c g = inj g.
Proof.
  induction g as [|b a|z a|x a|s a|s j a IHj|l IHl|d r IHd] using gvalue_ind'; intros I.
  - reflexivity.
  - apply bool_stays.
  - apply int_stays.
  - apply cast_leaf_inert; [exact I|reflexivity|intros; discriminate].
  - apply cast_leaf_inert; [exact I|reflexivity|intros; discriminate].
  - cbn [inert] in I. apply andb_prop in I. destruct I as [_ I].
    destruct (choose c j) eqn:E; try discriminate. apply rejected_json_text_same. exact E.
  - cbn [inert inj] in *. rewrite forallb_forall in I. rewrite Forall_forall in IHl.
    pose proof (choose_list_shape c l) as Sh.
    destruct (choose c (GList l)) as [| | |b|] eqn:E; try contradiction.
    + rewrite (cast_list_typed c l b E). f_equal. apply map_ext_in. intros x Hx.
      destruct (choose_typed_list c l b E) as [G M]. rewrite forallb_forall in G.
      specialize (G x Hx). specialize (M x Hx). specialize (I x Hx).
      assert (cast c x = inj x) as IHx by (apply IHl; assumption).
      unfold recast_with. destruct (br_is_str b) as [->|Hb]; [exact IHx|].
      destruct (member c b x) as [t|] eqn:Mx; [|congruence].
      assert (t = inj x) as K.
      { unfold member in Mx. destruct (scalar b x) as [t'|] eqn:Sc.
        - inversion Mx; subst t'. eapply leaf_inert_reading; eauto. apply inert_leaf; [exact I|].
          eapply scalar_is_scalar; eauto.
        - destruct (fnb c x) eqn:F; [|discriminate]. exfalso.
          pose proof (fnb_choose c x F) as Cx. destruct (fnb_dict c x F) as (k & y & r & ->).
          cbn [inert] in I. rewrite Cx in I. discriminate. }
      destruct b; try congruence; exact K.
    + assert (transparent c (GList l) = true) as T by (unfold transparent; rewrite E; reflexivity).
      rewrite (cast_list_untyped c l T). f_equal. apply map_ext_in. intros x Hx. apply IHl; [exact Hx|apply I; exact Hx].
  - cbn [inert inj] in *. apply andb_prop in I. destruct I as [C I].
    destruct (choose c (GDict d r)) eqn:E; try discriminate.
    rewrite (cast_dict_plain c d r E). f_equal. unfold cast_props.
    rewrite forallb_forall in I. rewrite Forall_forall in IHd.
    apply map_ext_in. intros [k x] Hx. f_equal. apply (IHd (k, x) Hx). apply (I (k, x) Hx).
Qed.

(* model_dump() of an unconverted value is the JSON it came from *)
Theorem dump_inj : forall g, tdump (inj g) = strip g.
Proof.
  induction g as [|b a|z a|x a|s a|s j a IHj|l IHl|d r IHd] using gvalue_ind'; try reflexivity.
  - cbn [inj tdump strip]. f_equal. rewrite map_map. rewrite Forall_forall in IHl. apply map_ext_in. exact IHl.
  - cbn [inj tdump strip]. f_equal. rewrite map_map. rewrite Forall_forall in IHd.
    apply map_ext_in. intros [k x] Hx. f_equal. apply (IHd (k, x) Hx).
Qed.
Corollary dump_cast_inert c g : inert c g = true -> tdump (cast c g) = strip g.
Proof. intros H. rewrite (cast_inert c g H). apply dump_inj. Qed.

(* values made of kept leaves only: null, booleans, numbers, strings, arrays and plain objects of such *)
Fixpoint kept (t : tval) : bool :=
  match t with
  | TNull | TBool _ | TInt _ | TFloat _ | TStr _ => true
  | TList l => forallb kept l
  | TGeneric d => forallb (fun kv => kept (snd kv)) d
  | _ => false
  end.
Lemma inj_of_dump : forall g t, kept t = true -> strip g = tdump t -> inj g = t.
Proof.
  induction g as [|b a|z a|x a|s a|s j a IHj|l IHl|d r IHd] using gvalue_ind'; intros t K H;
    try (destruct t; simpl in K, H; try discriminate; inversion H; reflexivity).
  - destruct t as [| | | | | | | | | |ts|]; simpl in K, H; try discriminate. cbn [inj]. f_equal.
    inversion H as [H']. clear H. revert ts K H'. induction IHl as [|x l Hx Hl IH]; intros [|t ts] K H'; try discriminate.
    + reflexivity.
    + cbn [map forallb] in *. apply andb_prop in K. destruct K as [K1 K2]. inversion H'.
      f_equal; [apply Hx; assumption|apply IH; assumption].
  - destruct t as [| | | | | | | | | | |d']; simpl in K, H; try discriminate. cbn [inj]. f_equal.
    inversion H as [H']. clear H. revert d' K H'. induction IHd as [|[k x] d Hx Hd IH]; intros [|[k' t] d'] K H'; try discriminate.
    + reflexivity.
    + cbn [map forallb snd] in *. apply andb_prop in K. destruct K as [K1 K2]. inversion H'.
      f_equal; [f_equal; apply Hx; assumption|apply IH; assumption].
Qed.

(* casting the dump of a value with kept leaves gives that value back, whenever the oracles -- asked about the leaves of the
   dump -- see nothing to convert ([inert]).  In particular for t = cast c g. *)
Theorem idempotent_on_kept c t g' :
  kept t = true -> strip g' = tdump t -> inert c g' = true -> cast c g' = t.
Proof. intros K H I. rewrite (cast_inert c g' I). apply inj_of_dump; assumption. Qed.

(* ------------------------------------------------------------------------------------------------------------------ *)
(* witnesses (annotations as pydantic 2.7.3 answers them; both replayed on the code) *)
From PV Require Import Typed.Witness.
From Coq Require Import String.
Local Open Scope string_scope.

(* ["2020-01-01", "2020-01-01T10:00:00"]: the date alternative rejects the second member, the timestamp alternative accepts
   both (a date alone is midnight), so the first member becomes a TIMESTAMP; on its own it is a DATE *)
Definition g_date_only : gvalue := GStr (s "2020-01-01") None (ann None false (Some "2020-01-01") (Some "2020-01-01T00:00:00") None).
Definition g_timestamp : gvalue := GStr (s "2020-01-01T10:00:00") None (ann None false None (Some "2020-01-01T10:00:00") None).
Theorem list_locality_refuted :
  exists c l1 v l2, all_confirmed (GList (l1 ++ v :: l2)) = true /\
    tat (cast c (GList (l1 ++ v :: l2))) [Idx (List.length l1)] <> Some (cast c v).
Proof. exists SPEC, [], g_date_only, [g_timestamp]. split; [vm_compute; reflexivity|vm_compute; discriminate]. Qed.
Example list_locality_witness :
  cast SPEC g_date_only = TDate (s "2020-01-01")
  /\ cast SPEC (GList [g_date_only; g_timestamp]) = TList [TDatetime (s "2020-01-01T00:00:00"); TDatetime (s "2020-01-01T10:00:00")]
  /\ cast SPEC (GList [g_date_only; text "x"]) = TList [TDate (s "2020-01-01"); TStr (s "x")]
  /\ localb SPEC g_date_only = false /\ localb SPEC g_timestamp = true
  /\ cast_ok SPEC (GList [g_date_only; g_timestamp]) (cast SPEC (GList [g_date_only; g_timestamp])) = true.
Proof. vm_compute. repeat split; reflexivity. Qed.

(* JSON text of JSON text: "\"\\\"x\\\"\"" is cast to the text "\"x\"" (one decoding); the dump of that, cast again, is x *)
Definition g_json_twice : gvalue := GStr (s """\""x\""""") (Some g_str_json_str) no_ann.
Theorem idempotence_refuted :
  exists c g g', kept (cast c g) = true /\ all_confirmed g = true /\ all_confirmed g' = true /\
    strip g' = tdump (cast c g) /\ cast c g' <> cast c g.
Proof. exists SPEC, g_json_twice, g_str_json_str. vm_compute. repeat split; try reflexivity. discriminate. Qed.
Example idempotence_witness :
  cast SPEC g_json_twice = TStr (s """x""") /\ cast SPEC g_str_json_str = TStr (s "x") /\ inert SPEC g_str_json_str = false.
Proof. vm_compute. repeat split; reflexivity. Qed.

(* inputs of the Examples of Properties/C18.v *)
Definition g_plain : gvalue :=
  GDict [(s "Flags", GList [g_str_TRUE; g_str_yes]); (s "Count", g_str_1e3); (s "When", g_str_date);
         (s "Nums", GList [g_int_1; GInt 2 (ann (Some 2%Z) true None None None)]);
         (s "Nested", GDict [(s "Ratio", g_float_1_5); (s "Empty", g_empty_obj); (s "Deep", GList [GList [GNull; g_true]])] None)] None.
Definition g_inert : gvalue :=
  GDict [(s "a", GList [g_int_1; g_true; text "x"; GNull; g_float_1_5; GDict [] None]); (s "b", g_str_json_obj)] None.
Definition g_int_1000 : gvalue :=
  GInt 1000 (ann (Some 1000%Z) true None (Some "1970-01-01T00:16:40+00:00") (Some (KNet4, "0.0.3.232/32"))).
