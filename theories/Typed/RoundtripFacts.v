(* C15 -- the round-trip theorem for the schema interpreter: validate (dump x) = Ok x for every x that validate produced. *)
From Coq Require Import List Bool NArith ZArith Lia.
From PV Require Import Base.Str Base.Value Resolver.Consts Typed.Schema Typed.Dispatch Typed.Leaves Typed.Roundtrip.
Import ListNotations.
Local Open Scope N_scope.

(* ---------------------------------------------------------------------------------------------------------------- *)
(* lists *)
Lemma mapM_Forall2 {A B} (f : A -> res B) l : forall ys, mapM f l = Ok ys -> Forall2 (fun a y => f a = Ok y) l ys.
Proof.
  induction l as [|a l IH]; intros ys H; simpl in H; [inv H; constructor|].
  destruct (f a) as [y|] eqn:E; cbn [bind] in H; [|discriminate].
  destruct (mapM f l) as [ys'|] eqn:E'; cbn [bind] in H; [|discriminate]. inv H. constructor; [exact E | apply IH; reflexivity].
Qed.
Lemma Forall2_mapM {A B} (f : A -> res B) l ys : Forall2 (fun a y => f a = Ok y) l ys -> mapM f l = Ok ys.
Proof. induction 1 as [|a y l ys H _ IH]; simpl; [reflexivity|]. rewrite H. cbn [bind]. rewrite IH. reflexivity. Qed.
Lemma mapM_err_In {A B} (f : A -> res B) l a e : In a l -> f a = Err e -> exists e', mapM f l = Err e'.
Proof.
  induction l as [|b l IH]; intros Hin He; [contradiction|]. simpl. destruct Hin as [->|Hin].
  - rewrite He. eexists; reflexivity.
  - destruct (f b); cbn [bind]; [|eexists; reflexivity]. destruct (IH Hin He) as [e' ->]. eexists; reflexivity.
Qed.
Lemma Forall2_impl_combine {A B} (P Q : A -> B -> Prop) l l' :
  Forall2 P l l' -> (forall a b, In (a, b) (combine l l') -> P a b -> Q a b) -> Forall2 Q l l'.
Proof.
  induction 1 as [|a b l l' H _ IH]; intros HQ; constructor.
  - apply HQ; [left; reflexivity | exact H].
  - apply IH. intros a' b' Hin. apply HQ. right. exact Hin.
Qed.
Lemma Forall2_length {A B} (P : A -> B -> Prop) l l' : Forall2 P l l' -> length l = length l'.
Proof. induction 1; simpl; congruence. Qed.

Lemma nodupb_NoDup l : nodupb l = true <-> NoDup l.
Proof.
  induction l as [|x r IH]; simpl; [split; [constructor | reflexivity]|].
  rewrite andb_true_iff, negb_true_iff, IH. split.
  - intros [H1 H2]. constructor; [|exact H2]. intros C. apply mem_str_In in C. congruence.
  - intros H. inv H. split; [|assumption]. destruct (mem_str x r) eqn:E; [|reflexivity]. apply mem_str_In in E. contradiction.
Qed.
Lemma NoDup_app {A} (l1 l2 : list A) : NoDup l1 -> NoDup l2 -> (forall x, In x l1 -> ~ In x l2) -> NoDup (l1 ++ l2).
Proof.
  induction l1 as [|a l1 IH]; intros H1 H2 Hd; simpl; [exact H2|]. inv H1. constructor.
  - intros C. apply in_app_or in C. destruct C as [C|C]; [contradiction | exact (Hd a (or_introl eq_refl) C)].
  - apply IH; auto. intros x Hx. apply Hd. right; exact Hx.
Qed.
Lemma NoDup_map_filter {A B} (f : A -> B) (p : A -> bool) l : NoDup (map f l) -> NoDup (map f (filter p l)).
Proof.
  induction l as [|a l IH]; simpl; intros H; [constructor|]. inv H. destruct (p a); simpl; [|apply IH; assumption].
  constructor; [|apply IH; assumption]. intros C. apply H2. apply in_map_iff in C. destruct C as (b & E & C).
  apply filter_In in C. apply in_map_iff. exists b. tauto.
Qed.
Lemma lookup_app_l {A} k (l1 l2 : list (str * A)) v : lookup k l1 = Some v -> lookup k (l1 ++ l2) = Some v.
Proof. induction l1 as [|[k' v'] l1 IH]; simpl; [discriminate|]. destruct (str_eqb k k'); auto. Qed.
Lemma lookup_app_r {A} k (l1 l2 : list (str * A)) : lookup k l1 = None -> lookup k (l1 ++ l2) = lookup k l2.
Proof. induction l1 as [|[k' v'] l1 IH]; simpl; [reflexivity|]. destruct (str_eqb k k'); [discriminate | auto]. Qed.
Lemma lookup_NoDup_In {A} k (v : A) l : NoDup (keys l) -> In (k, v) l -> lookup k l = Some v.
Proof.
  unfold keys. induction l as [|[k' v'] l IH]; simpl; intros Hn Hin; [contradiction|]. inv Hn.
  destruct Hin as [E|Hin].
  - inv E. rewrite str_eqb_refl. reflexivity.
  - destruct (str_eqb k k') eqn:E; [|apply IH; assumption].
    apply str_eqb_spec in E. subst k'. exfalso. apply H1. apply in_map_iff. exists (k, v). split; [reflexivity | exact Hin].
Qed.
Lemma in_combine_same {A B} (a : A) (b : B) l l' : In (a, b) (combine l l') -> In a l /\ In b l'.
Proof. intros H. split; [eapply in_combine_l | eapply in_combine_r]; eauto. Qed.

(* ---------------------------------------------------------------------------------------------------------------- *)
(* dump *)
Definition dumpkv (kv : str * tval) : str * value := (fst kv, dump (snd kv)).
Lemma dump_model c fs ex : dump (XModel c fs ex) = VDict (map dumpkv fs ++ ex).
Proof. reflexivity. Qed.
Lemma dump_null x : dump x = VNull -> x = XLeaf VNull.
Proof. destruct x; simpl; try discriminate. intros ->. reflexivity. Qed.
Lemma keys_dumpkv fs : keys (map dumpkv fs) = keys fs.
Proof. unfold keys. rewrite map_map. reflexivity. Qed.

(* first_ok *)
Definition soft_err (r : res tval) : Prop := exists e, r = Err e /\ is_hard e = false.
Lemma first_ok_inv {A} (f : A -> res tval) ts x :
  first_ok (map f ts) = Ok x ->
  exists pre t post, ts = pre ++ t :: post /\ Forall (fun t' => soft_err (f t')) pre /\ f t = Ok x.
Proof.
  induction ts as [|t ts IH]; simpl; [discriminate|]. destruct (f t) as [y|e] eqn:E.
  - intros H; inv H. exists [], t, ts. split; [reflexivity|]. split; [constructor | exact E].
  - destruct (is_hard e) eqn:Eh; [discriminate|]. intros H. destruct (IH H) as (pre & t0 & post & -> & Hp & Ht).
    exists (t :: pre), t0, post. split; [reflexivity|]. split; [|exact Ht]. constructor; [|exact Hp].
    exists e. split; [exact E | exact Eh].
Qed.
Lemma first_ok_skip {A} (f : A -> res tval) pre t post x :
  Forall (fun t' => soft_err (f t')) pre -> f t = Ok x -> first_ok (map f (pre ++ t :: post)) = Ok x.
Proof.
  induction 1 as [|t' pre (e & He & Hh) _ IH]; intros Ht; simpl; [rewrite Ht; reflexivity|].
  rewrite He, Hh. apply IH. exact Ht.
Qed.

Lemma is_soft_iff r : is_soft r = true <-> soft_err r.
Proof.
  destruct r as [x|e]; simpl; split; try discriminate.
  - intros (e & H & _). discriminate.
  - intros H. exists e. split; [reflexivity | apply negb_true_iff; exact H].
  - intros (e' & H & Hh). inv H. rewrite Hh. reflexivity.
Qed.
Lemma smart_ok_inv {A} (f : A -> res tval) ts x :
  smart_ok (map f ts) = Ok x ->
  exists pre t post, ts = pre ++ t :: post /\ Forall (fun t' => soft_err (f t')) pre /\ f t = Ok x /\
                     Forall (fun t' => soft_err (f t')) post.
Proof.
  induction ts as [|t ts IH]; simpl; [discriminate|]. destruct (f t) as [y|e] eqn:E.
  - destruct (forallb is_soft (map f ts)) eqn:Ea; [|discriminate]. intros H; inv H. exists [], t, ts.
    split; [reflexivity|]. split; [constructor|]. split; [exact E|].
    rewrite forallb_forall in Ea. apply Forall_forall. intros t' Hin. apply is_soft_iff. apply Ea. apply in_map. exact Hin.
  - destruct (is_hard e) eqn:Eh; [discriminate|]. intros H. destruct (IH H) as (pre & t0 & post & -> & Hp & Ht & Hq).
    exists (t :: pre), t0, post. split; [reflexivity|]. split; [|split; assumption]. constructor; [|exact Hp].
    exists e. split; [exact E | exact Eh].
Qed.
Lemma smart_ok_skip {A} (f : A -> res tval) pre t post x :
  Forall (fun t' => soft_err (f t')) pre -> f t = Ok x -> Forall (fun t' => soft_err (f t')) post ->
  smart_ok (map f (pre ++ t :: post)) = Ok x.
Proof.
  induction 1 as [|t' pre (e & He & Hh) _ IH]; intros Ht Hq; simpl.
  - rewrite Ht. replace (forallb is_soft (map f post)) with true; [reflexivity|]. symmetry. apply forallb_forall.
    intros r Hr. apply in_map_iff in Hr. destruct Hr as (t' & <- & Hin). apply is_soft_iff. rewrite Forall_forall in Hq. apply Hq. exact Hin.
  - rewrite He, Hh. apply IH; assumption.
Qed.

(* ---------------------------------------------------------------------------------------------------------------- *)
(* induction over field types (unions nest through lists) *)
Section FtypeInd.
  Variable P : ftype -> Prop.
  Hypothesis Hleaf : forall k, P (TLeaf k).
  Hypothesis Hlist : forall t, P t -> P (TList t).
  Hypothesis Hdict : forall t, P t -> P (TDictOf t).
  Hypothesis Hlr : forall ts, Forall P ts -> P (TUnionLR ts).
  Hypothesis Hsmart : forall ts, Forall P ts -> P (TUnionSmart ts).
  Hypothesis Hres : forall t, P t -> P (TResolvable t).
  Hypothesis Hmodel : forall n, P (TModel n).
  Hypothesis Hresource : P TResource.
  Hypothesis Hopt : forall t, P t -> P (TOpt t).
  Fixpoint ftype_ind' (t : ftype) : P t :=
    match t with
    | TLeaf k => Hleaf k
    | TList t' => Hlist t' (ftype_ind' t')
    | TDictOf t' => Hdict t' (ftype_ind' t')
    | TUnionLR ts => Hlr ts ((fix go (l : list ftype) : Forall P l :=
                               match l with [] => Forall_nil _ | x :: r => Forall_cons _ (ftype_ind' x) (go r) end) ts)
    | TUnionSmart ts => Hsmart ts ((fix go (l : list ftype) : Forall P l :=
                                     match l with [] => Forall_nil _ | x :: r => Forall_cons _ (ftype_ind' x) (go r) end) ts)
    | TResolvable t' => Hres t' (ftype_ind' t')
    | TModel n => Hmodel n
    | TResource => Hresource
    | TOpt t' => Hopt t' (ftype_ind' t')
    end.
End FtypeInd.

(* ---------------------------------------------------------------------------------------------------------------- *)
Section RT.
  Variable S : list cschema.
  Variable modelled : list (str * str).
  Variable leafv : leaf -> value -> res value.
  Notation vstep := (validate_step modelled leafv).
  Notation val := (validate S modelled true leafv).

  (* ---- what is assumed ---- *)
  Hypothesis Hwf : table_wf S = true.
  Hypothesis Hmod : modelled_wf S modelled = true.
  (* leaves accept their own output, unchanged *)
  Hypothesis Hleaf : forall k v w, leafv k v = Ok w -> leafv k w = Ok w.
  (* the few facts about individual leaves that pycfmodel's own hooks rely on *)
  Hypothesis Hstr_in : forall s, leafv LStr (VStr s) = Ok (VStr s).
  Hypothesis Hstr_out : forall v w, leafv LStr v = Ok w -> exists s, w = VStr s.
  Hypothesis Hstrnum_out : forall v w, leafv LStrNum v = Ok w -> exists s, w = VStr s.
  Hypothesis Hfn : forall v w, leafv LFn v = Ok w -> w = v /\ exists d, v = VDict d.
  Hypothesis Hlit : forall s v w, leafv (LLit s) v = Ok w -> w = VStr s.
  Hypothesis Hdictany : forall d, leafv LDictAny (VDict d) = Ok (VDict d).

  (* union stability for a validator [vf].  Left-to-right mode: the member that produced x is again the FIRST to accept dump x
     (the members before it, which refused v, refuse dump x).  Smart mode: it is again the ONLY one (all the others, which
     refused v, refuse dump x). *)
  Definition stable_lr (vf : ftype -> value -> res tval) (ts : list ftype) : Prop :=
    forall pre t post v x, ts = pre ++ t :: post ->
      Forall (fun t' => soft_err (vf t' v)) pre -> vf t v = Ok x ->
      Forall (fun t' => soft_err (vf t' (dump x))) pre.
  Definition stable_smart (vf : ftype -> value -> res tval) (ts : list ftype) : Prop :=
    forall pre t post v x, ts = pre ++ t :: post ->
      Forall (fun t' => soft_err (vf t' v)) pre -> vf t v = Ok x -> Forall (fun t' => soft_err (vf t' v)) post ->
      Forall (fun t' => soft_err (vf t' (dump x))) pre /\ Forall (fun t' => soft_err (vf t' (dump x))) post.
  Definition stable_for (vf : ftype -> value -> res tval) (u : bool * list ftype) : Prop :=
    if fst u then stable_smart vf (snd u) else stable_lr vf (snd u).

  (* ============================================================================================================== *)
  (* layer 1: the structure of one annotation, model classes abstract *)
  Section Step.
    Variable bn : str -> value -> res tval.
    Notation vs := (vstep bn).
    Hypothesis Hbn : forall name v x, bn name v = Ok x -> bn name (dump x) = Ok x.
    Hypothesis Hbn_type : forall s c d x, class_of modelled s = Some c -> type_of d = TyStr s -> bn c (VDict d) = Ok x ->
      exists D, dump x = VDict D /\ type_of D = TyStr s.
    Hypothesis Hbn_generic : forall d x, bn GENERIC (VDict d) = Ok x ->
      exists D, dump x = VDict D /\
        match type_of d with
        | TyStr s => class_of modelled s = None /\ type_of D = TyStr s
        | TyMissing => type_of D = TyMissing
        | TyOther => False
        end.

    Lemma opt_eq t v : v <> VNull -> vs (TOpt t) v = vs t v.
    Proof. destruct v; try reflexivity. congruence. Qed.

    Lemma step_roundtrip : forall t, (forall ts, In ts (unions_of t) -> stable_for vs ts) ->
      forall v x, vs t v = Ok x -> vs t (dump x) = Ok x.
    Proof.
      induction t as [k|t IHt|t IHt|ts IHts|ts IHts|t IHt|name| |t IHt] using ftype_ind'; intros Hcov v x H.
      - (* leaf *) cbn [validate_step] in *. destruct (leafv k v) as [w|] eqn:E; cbn [bind] in H; [|discriminate]. inv H.
        cbn [dump]. rewrite (Hleaf _ _ _ E). reflexivity.
      - (* list *) cbn [validate_step] in H. destruct v; try discriminate.
        destruct (mapM (vs t) l) as [xs|] eqn:E; cbn [bind] in H; [|discriminate]. inv H.
        cbn [dump validate_step]. apply mapM_Forall2 in E.
        assert (mapM (vs t) (map dump xs) = Ok xs) as ->; [|reflexivity].
        apply Forall2_mapM. induction E as [|a y l xs Hy _ IHl]; simpl; constructor; [|exact IHl].
        exact (IHt Hcov a y Hy).
      - (* dict *) cbn [validate_step] in H. destruct v; try discriminate.
        set (g := fun kv : str * value => x <- vs t (snd kv) ;; Ok (fst kv, x)) in *.
        destruct (mapM g d) as [xs|] eqn:E; cbn [bind] in H; [|discriminate]. inv H.
        cbn [dump validate_step]. fold g. apply mapM_Forall2 in E.
        assert (mapM g (map (fun kv => (fst kv, dump (snd kv))) xs) = Ok xs) as ->; [|reflexivity].
        apply Forall2_mapM. induction E as [|a y l xs Hy _ IHl]; simpl; constructor; [|exact IHl].
        unfold g in Hy |- *. cbn [fst snd]. destruct (vs t (snd a)) as [xa|] eqn:Ea; cbn [bind] in Hy; [|discriminate]. inv Hy.
        cbn [fst snd]. rewrite (IHt Hcov _ _ Ea). reflexivity.
      - (* left-to-right union *) cbn [validate_step] in *.
        destruct (first_ok_inv (fun t' => vs t' v) ts x H) as (pre & t0 & post & -> & Hpre & Ht0).
        apply first_ok_skip.
        + exact (Hcov (false, pre ++ t0 :: post) (or_introl eq_refl) pre t0 post v x eq_refl Hpre Ht0).
        + rewrite Forall_forall in IHts. refine (IHts t0 _ _ v x Ht0); [apply in_or_app; right; left; reflexivity |].
          intros ts' Hin. apply Hcov. right. apply in_flat_map. exists t0. split; [apply in_or_app; right; left; reflexivity | exact Hin].
      - (* smart union: exactly one member accepts *) cbn [validate_step] in *.
        destruct (smart_ok_inv (fun t' => vs t' v) ts x H) as (pre & t0 & post & -> & Hpre & Ht0 & Hpost).
        destruct (Hcov (true, pre ++ t0 :: post) (or_introl eq_refl) pre t0 post v x eq_refl Hpre Ht0 Hpost) as [S1 S2].
        apply smart_ok_skip; [exact S1 | | exact S2].
        rewrite Forall_forall in IHts. refine (IHts t0 _ _ v x Ht0); [apply in_or_app; right; left; reflexivity |].
        intros ts' Hin. apply Hcov. right. apply in_flat_map. exists t0. split; [apply in_or_app; right; left; reflexivity | exact Hin].
      - (* Resolvable *) cbn [validate_step first_ok] in *. destruct (vs t v) as [y|e] eqn:E.
        + inv H. rewrite (IHt Hcov _ _ E). reflexivity.
        + destruct (is_hard e) eqn:Eh; [discriminate|].
          destruct (leafv LFn v) as [w|e'] eqn:Ef; cbn [bind] in H; [|destruct (is_hard e'); discriminate]. inv H.
          destruct (Hfn _ _ Ef) as [-> _]. cbn [dump]. rewrite E, Eh, Ef. reflexivity.
      - (* model class *) cbn [validate_step] in *. exact (Hbn _ _ _ H).
      - (* resource union *) cbn [validate_step] in H. destruct v as [ | | | | | | |d]; try discriminate.
        destruct (type_of d) as [|s|] eqn:Et; [| |discriminate].
        + destruct (Hbn_generic d x H) as (D & HD & HT). rewrite Et in HT. rewrite HD. cbn [validate_step]. rewrite HT.
          rewrite <- HD. exact (Hbn _ _ _ H).
        + destruct (class_of modelled s) as [c|] eqn:Ec.
          * cbn [first_ok] in H. destruct (bn c (VDict d)) as [y|e] eqn:E.
            -- inv H. destruct (Hbn_type s c d x Ec Et E) as (D & HD & HT). rewrite HD. cbn [validate_step]. rewrite HT, Ec.
               cbn [first_ok]. rewrite <- HD. rewrite (Hbn _ _ _ E). reflexivity.
            -- destruct (is_hard e); [discriminate|]. destruct (bn GENERIC (VDict d)) as [y|e'] eqn:Eg; [|destruct (is_hard e'); discriminate].
               inv H. destruct (Hbn_generic d x Eg) as (D & _ & HT). rewrite Et in HT. destruct HT as [HT _]. congruence.
          * destruct (Hbn_generic d x H) as (D & HD & HT). rewrite Et in HT. destruct HT as [Hn HT]. rewrite HD. cbn [validate_step].
            rewrite HT, Hn. rewrite <- HD. exact (Hbn _ _ _ H).
      - (* Optional *) destruct v; try (rewrite opt_eq in H by discriminate;
          destruct (dump x) eqn:Ed; [apply dump_null in Ed; subst x; reflexivity | rewrite <- Ed; rewrite opt_eq by (rewrite Ed; discriminate);
            exact (IHt Hcov _ _ H) ..]).
        cbn [validate_step] in H. inv H. reflexivity.
    Qed.
  End Step.

  (* ============================================================================================================== *)
  (* layer 2: one model class, its fields validated by [rec] = one level below *)
  Lemma wf_effect f : field_wf f = true -> f_hook f = HEffect -> f_type f = TResolvable (TLeaf LStr) /\ f_default f = DRequired.
  Proof.
    unfold field_wf. intros W E. rewrite E in W. apply andb_true_iff in W. destruct W as [W1 W2].
    destruct (f_type f) as [k0|t0|t0|ts0|ts0|t0|n0| |t0]; try discriminate. destruct t0 as [k0|t1|t1|ts1|ts1|t1|n1| |t1]; try discriminate.
    destruct k0; try discriminate. destruct (f_default f); try discriminate. split; reflexivity.
  Qed.
  Lemma wf_tag f : field_wf f = true -> f_hook f = HTagValue -> f_type f = TResolvable (TLeaf LStrNum) /\ f_default f = DRequired.
  Proof.
    unfold field_wf. intros W E. rewrite E in W. apply andb_true_iff in W. destruct W as [W1 W2].
    destruct (f_type f) as [k0|t0|t0|ts0|ts0|t0|n0| |t0]; try discriminate. destruct t0 as [k0|t1|t1|ts1|ts1|t1|n1| |t1]; try discriminate.
    destruct k0; try discriminate. destruct (f_default f); try discriminate. split; reflexivity.
  Qed.
  Lemma wf_check f : field_wf f = true -> f_hook f = HCheckType -> f_type f = TOpt (TLeaf LStr).
  Proof.
    unfold field_wf. intros W E. rewrite E in W. apply andb_true_iff in W. destruct W as [W1 W2].
    destruct (f_type f) as [k0|t0|t0|ts0|ts0|t0|n0| |t0]; try discriminate. destruct t0 as [k0|t1|t1|ts1|ts1|t1|n1| |t1]; try discriminate.
    destruct k0; try discriminate. reflexivity.
  Qed.
  Lemma wf_dnone f : field_wf f = true -> f_default f = DNone -> exists t, f_type f = TOpt t.
  Proof.
    unfold field_wf. intros W E. rewrite E in W. apply andb_true_iff in W. destruct W as [W1 W2].
    destruct (f_type f); try discriminate. eexists; reflexivity.
  Qed.

  Section Model.
    Variable bn' : str -> value -> res tval.
    Notation rec := (vstep bn').
    Hypothesis Hrec : forall t, (forall ts, In ts (unions_of t) -> stable_for rec ts) ->
                                forall v x, rec t v = Ok x -> rec t (dump x) = Ok x.
    Hypothesis Hst : forall ts, In ts (unions_of_table S) -> stable_for rec ts.
    Notation vf := (validate_field modelled true rec).

    Lemma find_class_In name c : find_class S name = Some c -> In c S /\ c_name c = name.
    Proof.
      unfold find_class. intros H. apply find_some in H. destruct H as [H1 H2]. apply str_eqb_spec in H2. split; assumption.
    Qed.
    Lemma class_wf_of c : In c S -> class_wf c = true.
    Proof. intros H. unfold table_wf in Hwf. rewrite forallb_forall in Hwf. apply Hwf. exact H. Qed.

    Variable c : cschema.
    Hypothesis Hc : In c S.

    Lemma field_covered f : In f (c_fields c) -> forall ts, In ts (unions_of (f_type f)) -> stable_for rec ts.
    Proof.
      intros Hf ts Hts. apply Hst. unfold unions_of_table. apply in_flat_map. exists c. split; [exact Hc|].
      apply in_flat_map. exists f. split; assumption.
    Qed.
    Lemma names_nodup : NoDup (map f_name (c_fields c)).
    Proof.
      pose proof (class_wf_of c Hc) as W. unfold class_wf in W. apply andb_true_iff in W. destruct W as [W _].
      apply andb_true_iff in W. destruct W as [W _]. apply nodupb_NoDup. exact W.
    Qed.
    Lemma field_wf_of f : In f (c_fields c) -> field_wf f = true.
    Proof.
      intros Hf. pose proof (class_wf_of c Hc) as W. unfold class_wf in W. apply andb_true_iff in W. destruct W as [W _].
      apply andb_true_iff in W. destruct W as [_ W]. rewrite forallb_forall in W. apply W. exact Hf.
    Qed.

    Lemma vf_name d f y : vf d f = Ok y -> fst y = f_name f.
    Proof.
      unfold validate_field. destruct (lookup (f_name f) d).
      - destruct (before_hook modelled true (f_hook f) v); cbn [bind]; [|discriminate].
        destruct (rec (f_type f) a); cbn [bind]; [|discriminate].
        destruct (after_hook (f_hook f) a0); cbn [bind]; [|discriminate]. intros H; inv H. reflexivity.
      - destruct (f_default f); intros H; inv H; reflexivity.
    Qed.

    Lemma res_leaf_inv k v x : rec (TResolvable (TLeaf k)) v = Ok x ->
      exists w, x = XLeaf w /\ (leafv k v = Ok w \/ ((exists e, leafv k v = Err e) /\ leafv LFn v = Ok w)).
    Proof.
      cbn [validate_step first_ok]. destruct (leafv k v) as [w|e] eqn:E; cbn [bind].
      - intros H; inv H. exists w. split; [reflexivity | left; reflexivity].
      - destruct (is_hard e); [discriminate|]. destruct (leafv LFn v) as [w|e'] eqn:Ef; cbn [bind]; [|destruct (is_hard e'); discriminate].
        intros H; inv H. exists w. split; [reflexivity|]. right. split; [eexists; reflexivity | reflexivity].
    Qed.
    Lemma res_leaf_ok k w : leafv k w = Ok w -> rec (TResolvable (TLeaf k)) w = Ok (XLeaf w).
    Proof. intros H. cbn [validate_step first_ok]. rewrite H. reflexivity. Qed.

    (* validating the dumped value of a field gives the field's value back *)
    Lemma field_again d D f xf :
      In f (c_fields c) -> vf d f = Ok (f_name f, xf) -> lookup (f_name f) D = Some (dump xf) -> vf D f = Ok (f_name f, xf).
    Proof.
      intros Hf H HD. pose proof (field_wf_of f Hf) as W. pose proof (field_covered f Hf) as Hcov.
      unfold validate_field in *. rewrite HD. destruct (lookup (f_name f) d) as [v|] eqn:El.
      - (* the field was given *)
        destruct (before_hook modelled true (f_hook f) v) as [v1|] eqn:Eb; cbn [bind] in H; [|discriminate].
        destruct (rec (f_type f) v1) as [x0|] eqn:Er; cbn [bind] in H; [|discriminate].
        destruct (after_hook (f_hook f) x0) as [x1|] eqn:Ea; cbn [bind] in H; [|discriminate]. inv H.
        destruct (f_hook f) eqn:Eh.
        + (* no hook *) cbn [before_hook after_hook] in *. inv Eb. assert (xf = x0) by (destruct x0; inv Ea; reflexivity). subst xf.
          cbn [bind]. rewrite (Hrec _ Hcov _ _ Er). cbn [bind]. reflexivity.
        + (* Effect *) destruct (wf_effect f W Eh) as [ET _]. rewrite ET in *. cbn [before_hook] in *. inv Eb.
          destruct (res_leaf_inv _ _ _ Er) as (w & -> & Hw). cbn [after_hook] in Ea.
          destruct (effect_hook w) as [w'|] eqn:Ee; cbn [bind] in Ea; [|discriminate]. inv Ea. cbn [dump bind].
          destruct Hw as [Hw | [_ Hw]].
          * destruct (Hstr_out _ _ Hw) as [s ->]. cbn [effect_hook] in Ee.
            destruct (Policy.effect_store s) as [t|] eqn:Es; cbn [bind] in Ee; [|discriminate]. inv Ee.
            rewrite (res_leaf_ok LStr (VStr t) (Hstr_in t)). cbn [bind after_hook effect_hook].
            rewrite (PolicyFacts.effect_store_idem s t Es). reflexivity.
          * destruct (Hfn _ _ Hw) as [-> [dd ->]]. cbn [effect_hook] in Ee. inv Ee. rewrite Er. cbn [bind after_hook effect_hook]. reflexivity.
        + (* Tag.Value *) destruct (wf_tag f W Eh) as [ET _]. rewrite ET in *. cbn [before_hook after_hook] in *. inv Eb. inv Ea.
          destruct (res_leaf_inv _ _ _ Er) as (w & -> & Hw). cbn [dump bind]. destruct Hw as [Hw | [_ Hw]].
          * destruct (Hstrnum_out _ _ Hw) as [s ->]. cbn [tag_value_hook].
            rewrite (res_leaf_ok LStrNum (VStr s) (Hleaf _ _ _ Hw)). reflexivity.
          * destruct (Hfn _ _ Hw) as [-> [dd Edd]]. rewrite Edd in *. cbn [tag_value_hook]. rewrite Er. reflexivity.
        + (* GenericResource.Type *) pose proof (wf_check f W Eh) as ET. rewrite ET in *. cbn [before_hook after_hook] in *. inv Ea.
          unfold check_type in Eb. destruct v as [ | | |s| | | | ]; try discriminate.
          * inv Eb. cbn [validate_step] in Er. inv Er. cbn [dump check_type bind validate_step]. reflexivity.
          * destruct (true && is_modelled modelled s) eqn:Em; [discriminate|]. inv Eb.
            cbn [validate_step] in Er. rewrite Hstr_in in Er. cbn [bind] in Er. inv Er.
            cbn [dump check_type]. rewrite Em. cbn [bind validate_step]. rewrite Hstr_in. reflexivity.
      - (* the field was not given: its default *)
        destruct (f_default f) eqn:Ed; [discriminate| |]; inv H; unfold default_tval; rewrite Ed.
        + (* None *) destruct (wf_dnone f W Ed) as [t ET]. rewrite ET. cbn [dump].
          assert (before_hook modelled true (f_hook f) VNull = Ok VNull) as -> by (destruct (f_hook f); reflexivity).
          cbn [bind validate_step]. assert (after_hook (f_hook f) (XLeaf VNull) = Ok (XLeaf VNull)) as -> by (destruct (f_hook f); reflexivity).
          reflexivity.
        + (* {} *) unfold field_wf in W. rewrite Ed in W. apply andb_true_iff in W. destruct W as [W1 W2].
          destruct (f_type f) as [k0|t0|t0|ts0|ts0|t0|n0| |t0] eqn:ET; try discriminate.
          * destruct k0; try discriminate. destruct (f_hook f); try discriminate. cbn [dump before_hook bind validate_step].
            rewrite Hdictany. reflexivity.
          * destruct (f_hook f); try discriminate. reflexivity.
          * destruct t0 as [k0|t1|t1|ts1|ts1|t1|n1| |t1]; try discriminate.
            -- destruct k0; try discriminate. destruct (f_hook f); try discriminate. cbn [dump before_hook bind validate_step].
               rewrite Hdictany. reflexivity.
            -- destruct (f_hook f); try discriminate. reflexivity.
    Qed.

    (* ---- the whole class ---- *)
    Lemma fields_keys d fs : mapM (vf d) (c_fields c) = Ok fs -> keys fs = map f_name (c_fields c).
    Proof.
      intros H. apply mapM_Forall2 in H. unfold keys. induction H as [|f y l ys Hy _ IHl]; simpl; [reflexivity|].
      f_equal; [apply (vf_name _ _ _ Hy) | exact IHl].
    Qed.
    Lemma extras_not_field d k v : In (k, v) (extras_of c d) -> ~ In k (map f_name (c_fields c)).
    Proof. unfold extras_of. intros H C. apply filter_In in H. destruct H as [_ H]. cbn [fst] in H. apply mem_str_In in C. rewrite C in H. discriminate. Qed.
    Lemma extras_idem d : extras_of c (extras_of c d) = extras_of c d.
    Proof.
      unfold extras_of. induction d as [|kv d IH]; simpl; [reflexivity|].
      destruct (negb (mem_str (fst kv) (map f_name (c_fields c)))) eqn:E; simpl; [rewrite E; f_equal; exact IH | exact IH].
    Qed.

    Lemma filter_nil {A} (p : A -> bool) l : (forall a, In a l -> p a = false) -> filter p l = [].
    Proof. induction l as [|a l IH]; intros H; simpl; [reflexivity|]. rewrite (H a (or_introl eq_refl)). apply IH. intros b Hb. apply H. right; exact Hb. Qed.
    Lemma filter_all {A} (p : A -> bool) l : (forall a, In a l -> p a = true) -> filter p l = l.
    Proof. induction l as [|a l IH]; intros H; simpl; [reflexivity|]. rewrite (H a (or_introl eq_refl)). f_equal. apply IH. intros b Hb. apply H. right; exact Hb. Qed.

    Lemma extras_of_dump fs ex : keys fs = map f_name (c_fields c) -> (forall k v, In (k, v) ex -> ~ In k (map f_name (c_fields c))) ->
      extras_of c (map dumpkv fs ++ ex) = ex.
    Proof.
      intros Hk Hex. unfold extras_of. rewrite filter_app. rewrite filter_nil, filter_all; [reflexivity | |].
      - intros [k v] Hin. cbn [fst]. apply negb_true_iff. destruct (mem_str k (map f_name (c_fields c))) eqn:E; [|reflexivity].
        apply mem_str_In in E. exfalso. exact (Hex k v Hin E).
      - intros [k v] Hin. cbn [fst]. apply negb_false_iff. apply mem_str_In. rewrite <- Hk. unfold keys.
        apply in_map_iff in Hin. destruct Hin as (y & E & Hin). apply in_map_iff. exists y. split; [|exact Hin].
        change k with (fst (k, v)). rewrite <- E. reflexivity.
    Qed.

    Lemma lookup_dumped fs ex k xf : NoDup (keys fs) -> In (k, xf) fs -> lookup k (map dumpkv fs ++ ex) = Some (dump xf).
    Proof.
      intros Hn Hin. apply lookup_app_l. apply lookup_NoDup_In; [rewrite keys_dumpkv; exact Hn|].
      apply in_map_iff. exists (k, xf). split; [reflexivity | exact Hin].
    Qed.

    Lemma fields_again d fs ex : mapM (vf d) (c_fields c) = Ok fs -> mapM (vf (map dumpkv fs ++ ex)) (c_fields c) = Ok fs.
    Proof.
      intros H. pose proof (fields_keys d fs H) as Hk. pose proof names_nodup as Hn. rewrite <- Hk in Hn.
      apply mapM_Forall2 in H. apply Forall2_mapM. eapply Forall2_impl_combine; [exact H|].
      intros f [k xf] Hin Hy. destruct (in_combine_same _ _ _ _ Hin) as [Hf Hy'].
      pose proof (vf_name _ _ _ Hy) as E. cbn [fst] in E. subst k.
      apply field_again with (d := d); [exact Hf | exact Hy | apply lookup_dumped; assumption].
    Qed.

    Lemma hook_again fs ex : keys fs = map f_name (c_fields c) -> (c_extra c = Forbid -> ex = []) ->
      class_hook (c_hook c) (map dumpkv fs ++ ex) = map dumpkv fs ++ ex.
    Proof.
      intros Hk Hex. destruct (c_hook c) eqn:Eh; [reflexivity|]. cbn [class_hook].
      pose proof (class_wf_of c Hc) as W. unfold class_wf in W. rewrite Eh in W. apply andb_true_iff in W. destruct W as [_ W].
      apply andb_true_iff in W. destruct W as [W1 W2]. destruct (c_extra c); try discriminate. rewrite (Hex eq_refl), app_nil_r.
      unfold remove_colon. rewrite <- (map_id (map dumpkv fs)) at 2. apply map_ext_in. intros [k v] Hin. cbn [fst snd]. f_equal.
      apply strip_colons_id. assert (In k (map f_name (c_fields c))) as Hkin.
      { rewrite <- Hk. unfold keys. apply in_map_iff in Hin. destruct Hin as (y & E & Hin). apply in_map_iff. exists y. split; [|exact Hin].
        change k with (fst (k, v)). rewrite <- E. reflexivity. }
      apply in_map_iff in Hkin. destruct Hkin as (f & <- & Hf). rewrite forallb_forall in W1. specialize (W1 f Hf). unfold no_colon in W1.
      apply negb_true_iff in W1. exact W1.
    Qed.

    Lemma nodup_again d fs : NoDup (keys d) -> keys fs = map f_name (c_fields c) ->
      forall ex, (ex = [] \/ ex = extras_of c d) -> NoDup (keys (map dumpkv fs ++ ex)).
    Proof.
      intros Hd Hk ex Hex. unfold keys. rewrite map_app. apply NoDup_app.
      - fold (keys (map dumpkv fs)). rewrite keys_dumpkv, Hk. apply names_nodup.
      - destruct Hex as [-> | ->]; [constructor|]. unfold extras_of. apply NoDup_map_filter. exact Hd.
      - intros k Hin1 Hin2. fold (keys (map dumpkv fs)) in Hin1. rewrite keys_dumpkv, Hk in Hin1.
        destruct Hex as [-> | ->]; [contradiction|]. apply in_map_iff in Hin2. destruct Hin2 as ([k' v'] & E & Hin2). cbn [fst] in E. subst k'.
        exact (extras_not_field d k v' Hin2 Hin1).
    Qed.

    (* what validate_model returns *)
    Lemma model_inv v x : validate_model modelled true rec c v = Ok x ->
      exists d0 fs ex, v = VDict d0 /\ x = XModel (c_name c) fs ex /\
        let d := class_hook (c_hook c) d0 in
        NoDup (keys d) /\ mapM (vf d) (c_fields c) = Ok fs /\ (ex = [] \/ ex = extras_of c d) /\ (c_extra c = Forbid -> ex = []) /\
        (c_extra c = Ignore -> ex = []).
    Proof.
      unfold validate_model. destruct v as [ | | | | | | |d0]; try discriminate.
      destruct (nodupb (keys (class_hook (c_hook c) d0))) eqn:En; cbn [negb]; [|discriminate].
      destruct (mapM (vf (class_hook (c_hook c) d0)) (c_fields c)) as [fs|] eqn:Em; cbn [bind]; [|discriminate].
      intros H. exists d0, fs. apply nodupb_NoDup in En.
      destruct (c_extra c) eqn:Ee.
      - destruct (extras_of c (class_hook (c_hook c) d0)) eqn:Ex; [|discriminate]. inv H. exists []. repeat split; auto; discriminate.
      - inv H. eexists. repeat split; try reflexivity; auto; discriminate.
      - inv H. exists []. repeat split; auto.
    Qed.

    Theorem model_again v x : validate_model modelled true rec c v = Ok x -> validate_model modelled true rec c (dump x) = Ok x.
    Proof.
      intros H. destruct (model_inv v x H) as (d0 & fs & ex & -> & -> & Hd & Hm & Hex & Hforbid & Hignore). cbn zeta in *.
      pose proof (fields_keys _ _ Hm) as Hk.
      rewrite dump_model. unfold validate_model. rewrite (hook_again fs ex Hk Hforbid).
      pose proof (nodup_again _ fs Hd Hk ex Hex) as Hn. apply nodupb_NoDup in Hn. rewrite Hn. cbn [negb].
      rewrite (fields_again _ fs ex Hm). cbn [bind].
      assert (extras_of c (map dumpkv fs ++ ex) = ex) as ->.
      { apply extras_of_dump; [exact Hk|]. intros k v Hin. destruct Hex as [-> | ->]; [contradiction | eapply extras_not_field; eauto]. }
      destruct (c_extra c) eqn:Ee.
      - rewrite (Hforbid eq_refl). reflexivity.
      - reflexivity.
      - rewrite (Hignore eq_refl). reflexivity.
    Qed.

    (* the Type entry of the dump *)
    Lemma Forall2_In_l {A B} (P : A -> B -> Prop) l l' a : Forall2 P l l' -> In a l -> exists b, In b l' /\ P a b.
    Proof.
      induction 1 as [|x y l l' H _ IH]; intros Hin; [contradiction|]. destruct Hin as [->|Hin].
      - exists y. split; [left; reflexivity | exact H].
      - destruct (IH Hin) as (b & Hb & Hp). exists b. split; [right; exact Hb | exact Hp].
    Qed.
    Lemma model_type_entry d0 x f : c_hook c = CNone -> find_field (c_fields c) K_Type = Some f ->
      validate_model modelled true rec c (VDict d0) = Ok x ->
      exists D xt, dump x = VDict D /\ vf d0 f = Ok (K_Type, xt) /\ lookup K_Type D = Some (dump xt).
    Proof.
      intros Eh Hf H. destruct (model_inv _ x H) as (d0' & fs & ex & E & -> & Hd & Hm & _). inv E. rewrite Eh in *. cbn [class_hook] in *. cbn zeta in *.
      unfold find_field in Hf. apply find_some in Hf. destruct Hf as [Hf Hname]. apply str_eqb_spec in Hname.
      pose proof (fields_keys _ _ Hm) as Hk. pose proof names_nodup as Hn. rewrite <- Hk in Hn.
      apply mapM_Forall2 in Hm. destruct (Forall2_In_l _ _ _ f Hm Hf) as ([k xt] & Hin & Hy).
      pose proof (vf_name _ _ _ Hy) as E. cbn [fst] in E. subst k. rewrite Hname in *.
      exists (map dumpkv fs ++ ex), xt. split; [reflexivity|]. split; [exact Hy|]. apply lookup_dumped; assumption.
    Qed.
  End Model.

  (* ============================================================================================================== *)
  (* layer 3: induction on the nesting depth *)
  Definition bn_of (n : nat) : str -> value -> res tval :=
    match n with O => fun _ _ => Err ERecursion | Datatypes.S n' => by_name S modelled true (val n') end.
  Lemma validate_eq n : val n = vstep (bn_of n).
  Proof. destruct n; reflexivity. Qed.

  Hypothesis Hunion : forall ts, In ts (unions_of_table S) -> forall n, stable_for (val n) ts.

  Lemma type_field_inv cname f : type_field S cname = Some f ->
    exists cs, find_class S cname = Some cs /\ In cs S /\ c_hook cs = CNone /\ find_field (c_fields cs) K_Type = Some f /\
               In f (c_fields cs) /\ f_name f = K_Type.
  Proof.
    unfold type_field. destruct (find_class S cname) as [cs|] eqn:Ef; [|discriminate]. destruct (c_hook cs) eqn:Eh; [|discriminate].
    intros H. exists cs. destruct (find_class_In _ _ Ef) as [Hin _]. repeat split; auto.
    - unfold find_field in H. apply find_some in H. tauto.
    - unfold find_field in H. apply find_some in H. destruct H as [_ H]. apply str_eqb_spec in H. exact H.
  Qed.
  Lemma type_of_lookup d : type_of d = match lookup K_Type d with None | Some VNull => TyMissing | Some (VStr s) => TyStr s | Some _ => TyOther end.
  Proof. reflexivity. Qed.

  Lemma bn_facts n :
    (forall name v x, bn_of n name v = Ok x -> bn_of n name (dump x) = Ok x) /\
    (forall s c d x, class_of modelled s = Some c -> type_of d = TyStr s -> bn_of n c (VDict d) = Ok x ->
       exists D, dump x = VDict D /\ type_of D = TyStr s) /\
    (forall d x, bn_of n GENERIC (VDict d) = Ok x ->
       exists D, dump x = VDict D /\
         match type_of d with
         | TyStr s => class_of modelled s = None /\ type_of D = TyStr s
         | TyMissing => type_of D = TyMissing
         | TyOther => False
         end).
  Proof.
    induction n as [|n IH]; [repeat split; intros; discriminate|]. destruct IH as (I1 & I2 & I3).
    pose proof (step_roundtrip (bn_of n) I1 I2 I3) as Hrec.
    assert (forall ts, In ts (unions_of_table S) -> stable_for (vstep (bn_of n)) ts) as Hst.
    { intros ts Hts. rewrite <- validate_eq. apply Hunion. exact Hts. }
    unfold modelled_wf in Hmod. apply andb_true_iff in Hmod. destruct Hmod as [Hm1 Hm2].
    cbn [bn_of]. rewrite validate_eq. unfold by_name. split; [|split].
    - intros name v x H. destruct (find_class S name) as [cs|] eqn:Ef; [|discriminate].
      destruct (find_class_In _ _ Ef) as [Hin _]. exact (model_again (bn_of n) Hrec Hst cs Hin v x H).
    - intros s c d x Hc Ht H. rewrite forallb_forall in Hm1. apply lookup_In in Hc. specialize (Hm1 (s, c) Hc). cbn [fst snd] in Hm1.
      destruct (type_field S c) as [f|] eqn:Etf; [|discriminate]. destruct (type_field_inv _ _ Etf) as (cs & Ef & Hin & Eh & Hff & Hfin & Hname).
      rewrite Ef in H. destruct (model_type_entry (bn_of n) cs Hin d x f Eh Hff H) as (D & xt & HD & Hvf & Hl).
      exists D. split; [exact HD|]. rewrite type_of_lookup, Hl.
      destruct (f_type f) as [k0| | | | | | | | ] eqn:ET; try discriminate. destruct k0; try discriminate.
      destruct (f_hook f) eqn:EH; try discriminate. destruct (f_default f) eqn:ED; try discriminate. apply str_eqb_spec in Hm1. subst s0.
      unfold validate_field in Hvf. rewrite Hname, EH, ET in Hvf. rewrite type_of_lookup in Ht.
      destruct (lookup K_Type d) as [[ | | |s'| | | | ]|]; try discriminate. inv Ht. cbn [before_hook bind validate_step] in Hvf.
      destruct (leafv (LLit s) (VStr s)) as [w|] eqn:El; cbn [bind after_hook] in Hvf; [|discriminate]. inv Hvf.
      rewrite (Hlit _ _ _ El). reflexivity.
    - intros d x H. destruct (type_field S GENERIC) as [f|] eqn:Etf; [|discriminate].
      destruct (type_field_inv _ _ Etf) as (cs & Ef & Hin & Eh & Hff & Hfin & Hname). rewrite Ef in H.
      destruct (model_type_entry (bn_of n) cs Hin d x f Eh Hff H) as (D & xt & HD & Hvf & Hl).
      exists D. split; [exact HD|]. rewrite (type_of_lookup D), Hl.
      destruct (f_hook f) eqn:EH; try discriminate. destruct (f_default f) eqn:ED; try discriminate.
      pose proof (wf_check f (field_wf_of cs Hin f Hfin) EH) as ET.
      unfold validate_field in Hvf. rewrite Hname, EH, ET, ED in Hvf. rewrite type_of_lookup.
      destruct (lookup K_Type d) as [v|].
      + cbn [before_hook] in Hvf. unfold check_type in Hvf. destruct v as [ | | |s| | | | ]; try discriminate.
        * cbn [bind validate_step after_hook] in Hvf. inv Hvf. reflexivity.
        * destruct (true && is_modelled modelled s) eqn:Em; [discriminate|]. cbn [bind validate_step] in Hvf. rewrite Hstr_in in Hvf.
          cbn [bind after_hook] in Hvf. inv Hvf. cbn [dump]. split; [|reflexivity].
          cbn [andb] in Em. unfold is_modelled in Em. destruct (class_of modelled s); [discriminate | reflexivity].
      + inv Hvf. unfold default_tval. rewrite ED. reflexivity.
  Qed.

  (* ---- the theorem ---- *)
  Theorem roundtrip n t v x :
    (forall ts, In ts (unions_of t) -> forall m, stable_for (val m) ts) ->
    val n t v = Ok x -> val n t (dump x) = Ok x.
  Proof.
    intros Hcov. rewrite validate_eq. destruct (bn_facts n) as (I1 & I2 & I3).
    apply (step_roundtrip (bn_of n) I1 I2 I3). intros ts Hts. rewrite <- validate_eq. apply Hcov. exact Hts.
  Qed.
End RT.
