(* C13: Resource.policy_documents / obtain_policy_documents over generically cast properties, and its specification
   as a FILTER over the flat enumeration of all positions of the input. *)
From Coq Require Import List Bool NArith ZArith Lia.
From PV Require Import Base.Str Base.Value Typed.GValue Typed.Cast.
Import ListNotations.

Definition pdoc := (option str * value)%type.      (* (PolicyName or None, statements of the document) *)

(* resource.py obtain_policy_documents: a PolicyDocument instance gives one unnamed document, a Policy instance its
   document under its PolicyName, every other property model (statement, condition, rule, tag) nothing *)
Definition yields (r : recog) : list pdoc :=
  match r_kind r with
  | PkPolicyDocument => [(None, r_doc r)]
  | PkPolicy => [(r_name r, r_doc r)]
  | _ => []
  end.

(* ... lists and Generic objects are searched member by member; anything else is not searched *)
Fixpoint collect (t : tval) : list pdoc :=
  match t with
  | TProp r => yields r
  | TList l => flat_map collect l
  | TGeneric d => flat_map (fun kv => collect (snd kv)) d
  | _ => []
  end.

Definition resource_docs (c : cfg) (props : list (str * gvalue)) : list pdoc :=
  flat_map (fun kv => collect (cast c (snd kv))) props.

(* all_statement_conditions: Condition blocks of the statements of those documents, in order, statements without one skipped *)
Definition stmt_condition (st : value) : list value :=
  match st with
  | VList [_; VNull] => []
  | VList [_; c] => [c]
  | _ => []
  end.
Definition doc_conditions (d : value) : list value :=
  match d with VList sts => flat_map stmt_condition sts | _ => [] end.
Definition conditions_of (ds : list pdoc) : list value := flat_map (fun nd => doc_conditions (snd nd)) ds.
Definition resource_conditions (c : cfg) (props : list (str * gvalue)) : list value :=
  conditions_of (resource_docs c props).

(* ---------------- specification ---------------- *)

(* what the union answers for the node at a position (a string is looked at through its JSON decoding) *)
Definition node_choice (c : cfg) (g : gvalue) : choice :=
  match g with
  | GStr _ (Some j) _ => choose c j
  | _ => choose c g
  end.

(* a node accepted by an alternative of the union is a leaf of the search (a typed atom, a typed list, a function, a
   property model); the one exception is a list of strings, whose members are cast again one by one *)
Definition accepted (c : cfg) (g : gvalue) : bool :=
  match node_choice c g with
  | CNone => false
  | CList BStr => false
  | _ => true
  end.

(* ALL positions of a value with the flag "some proper ancestor was accepted".
   deep = true : the property's reading -- every JSON-encoded string is entered;
   deep = false: the code's reading -- a JSON-encoded string is entered only when its decoded top-level value is
                 accepted by the union (known finding F16). *)
Fixpoint positions (deep : bool) (c : cfg) (cut : bool) (g : gvalue) : list (bool * gvalue) :=
  (cut, g) ::
  let cut' := cut || accepted c g in
  match g with
  | GStr _ (Some j) _ => if deep || negb (is_cnone (choose c j)) then positions deep c cut' j else []
  | GList l => flat_map (positions deep c cut') l
  | GDict d _ => flat_map (fun kv => positions deep c cut' (snd kv)) d
  | _ => []
  end.

Definition yield_at (c : cfg) (p : bool * gvalue) : list pdoc :=
  if fst p then [] else match node_choice c (snd p) with CProp r => yields r | _ => [] end.

Definition embedded (deep : bool) (c : cfg) (g : gvalue) : list pdoc :=
  flat_map (yield_at c) (positions deep c false g).
Definition embedded_spec := embedded true.
Definition embedded_impl := embedded false.
Definition resource_embedded (deep : bool) (c : cfg) (props : list (str * gvalue)) : list pdoc :=
  flat_map (fun kv => embedded deep c (snd kv)) props.

(* no JSON-encoded string hides a document: a string whose decoded value the union rejects has nothing recognisable inside *)
Fixpoint hidden_free (c : cfg) (g : gvalue) : bool :=
  match g with
  | GStr _ (Some j) _ =>
      if is_cnone (choose c j) then match embedded true c j with [] => true | _ => false end else hidden_free c j
  | GList l => forallb (hidden_free c) l
  | GDict d _ => forallb (fun kv => hidden_free c (snd kv)) d
  | _ => true
  end.

(* ---------------- proofs ---------------- *)

Lemma flat_map_flat_map {A B C} (f : A -> list B) (g : B -> list C) l :
  flat_map g (flat_map f l) = flat_map (fun x => flat_map g (f x)) l.
Proof. induction l; simpl; [reflexivity|]. rewrite flat_map_app. congruence. Qed.
Lemma flat_map_ext_in {A B} (f g : A -> list B) l :
  (forall x, In x l -> f x = g x) -> flat_map f l = flat_map g l.
Proof. induction l; simpl; intros H; [reflexivity|]. rewrite H, IHl; auto. Qed.
Lemma flat_map_nil {A B} (f : A -> list B) l : (forall x, In x l -> f x = []) -> flat_map f l = [].
Proof. induction l; simpl; intros H; [reflexivity|]. rewrite H, IHl; auto. Qed.
Lemma flat_map_map {A B C} (f : A -> B) (g : B -> list C) l : flat_map g (map f l) = flat_map (fun x => g (f x)) l.
Proof. induction l; simpl; congruence. Qed.
Lemma map_combine_map {A B C} (f : A -> B -> C) (h : A -> B) l :
  map (fun p => f (fst p) (snd p)) (combine l (map h l)) = map (fun x => f x (h x)) l.
Proof. induction l; simpl; congruence. Qed.

Lemma scalar_collect b g t : scalar b g = Some t -> collect t = [].
Proof.
  destruct b, g; simpl; try discriminate;
    repeat match goal with
    | |- context [option_map _ ?o] => destruct o; simpl
    | |- context [a_int ?a] => destruct (a_int a); simpl
    end; intros H; inversion H; reflexivity.
Qed.
Lemma member_collect c b g t : member c b g = Some t -> collect t = [].
Proof.
  unfold member. destruct (scalar b g) eqn:E.
  - intros H; inversion H; subst. eapply scalar_collect; eauto.
  - destruct (fnb c g); intros H; inversion H; reflexivity.
Qed.

(* shape of the union's answer *)
Lemma try_branch_shape c g b :
  match try_branch c g b with
  | CFn | CProp _ => False
  | CScalar t => scalar b g = Some t
  | CList b' => b' = b /\ exists l, g = GList l /\ forall x, In x l -> member c b x <> None
  | CNone => True
  end.
Proof.
  unfold try_branch. destruct (negb (guard c b g)); [exact I|].
  destruct (scalar b g) eqn:E; [reflexivity|].
  destruct g; try exact I.
  destruct (forallb _ l) eqn:F; [|exact I].
  split; [reflexivity|]. exists l. split; [reflexivity|].
  intros x Hx. rewrite forallb_forall in F. specialize (F x Hx). destruct (member c b x); congruence.
Qed.
Lemma first_branch_shape c g bs :
  match first_branch c g bs with
  | CFn | CProp _ => False
  | CScalar t => exists b, scalar b g = Some t
  | CList b => exists l, g = GList l /\ forall x, In x l -> member c b x <> None
  | CNone => True
  end.
Proof.
  induction bs as [|b bs IH]; simpl; [exact I|]. destruct (aborts c g b); [exact I|].
  pose proof (try_branch_shape c g b) as S.
  destruct (try_branch c g b); try contradiction; try exact IH.
  - exists b; exact S.
  - destruct S as [-> S]. exact S.
Qed.
Lemma choose_scalar_collect c g t : choose c g = CScalar t -> collect t = [].
Proof.
  unfold choose. intros H.
  assert (first_branch c g BRANCHES = CScalar t -> collect t = []) as K.
  { intros E. pose proof (first_branch_shape c g BRANCHES) as S. rewrite E in S. destruct S as [b S].
    eapply scalar_collect; eauto. }
  destruct g; auto.
  destruct d as [|kv d]; [destruct (c_empty_plain c); [discriminate|destruct r; discriminate]|].
  destruct (fnb c _); [discriminate|]. destruct r; discriminate.
Qed.
Lemma choose_list c g b :
  choose c g = CList b -> exists l, g = GList l /\ forall x, In x l -> member c b x <> None.
Proof.
  unfold choose. intros H.
  assert (first_branch c g BRANCHES = CList b -> exists l, g = GList l /\ forall x, In x l -> member c b x <> None) as K.
  { intros E. pose proof (first_branch_shape c g BRANCHES) as S. rewrite E in S. exact S. }
  destruct g; auto.
  destruct d as [|kv d]; [destruct (c_empty_plain c); [discriminate|destruct r; discriminate]|].
  destruct (fnb c _); [discriminate|]. destruct r; discriminate.
Qed.
Lemma choose_nondict_not_prop c g :
  (forall d r, g <> GDict d r) -> match choose c g with CFn | CProp _ => False | _ => True end.
Proof.
  intros H. unfold choose. pose proof (first_branch_shape c g BRANCHES) as S.
  destruct g; try (destruct (first_branch _ _ _); tauto).
  exfalso. eapply H; reflexivity.
Qed.
Lemma choose_list_shape c l :
  match choose c (GList l) with CFn | CProp _ | CScalar _ => False | _ => True end.
Proof.
  unfold choose. pose proof (first_branch_shape c (GList l) BRANCHES) as S.
  destruct (first_branch _ _ _); try tauto.
  destruct S as [b S]. destruct b; discriminate.
Qed.
Lemma choose_dict_shape c d r :
  match choose c (GDict d r) with CScalar _ | CList _ => False | _ => True end.
Proof.
  unfold choose. destruct d as [|kv d].
  - destruct (c_empty_plain c); [exact I|destruct r; exact I].
  - destruct (fnb c _); [exact I|destruct r; exact I].
Qed.

(* below an accepted ancestor nothing is yielded *)
Lemma cut_yields_nothing deep c : forall n g, (gsize g < n)%nat ->
  flat_map (yield_at c) (positions deep c true g) = [].
Proof.
  induction n as [|n IH]; intros g Hs; [lia|].
  destruct g as [| | | |s [j|] a|l|d r]; simpl; try reflexivity.
  - destruct (deep || negb (is_cnone (choose c j))); [|reflexivity]. apply IH. simpl in Hs. lia.
  - rewrite flat_map_flat_map. apply flat_map_nil. intros x Hx. apply IH.
    pose proof (gsize_in_list x l Hx). lia.
  - rewrite flat_map_flat_map. apply flat_map_nil. intros [k x] Hx. apply IH.
    pose proof (gsize_in_dict k x d r Hx). simpl. lia.
Qed.

Lemma collect_recast_nonstr c b l :
  b <> BStr -> (forall x, In x l -> member c b x <> None) ->
  flat_map collect (list_members c (CList b) l (map (cast c) l)) = [].
Proof.
  intros Hb Hm. unfold list_members. rewrite map_combine_map. rewrite flat_map_map.
  apply flat_map_nil. intros x Hx. unfold recast_with.
  destruct b; try congruence;
    (destruct (member c _ x) eqn:E; [eapply member_collect; eauto | exfalso; eapply Hm; eauto]).
Qed.
Lemma collect_recast_str c l :
  flat_map collect (list_members c (CList BStr) l (map (cast c) l)) = flat_map (fun x => collect (cast c x)) l.
Proof. unfold list_members. rewrite map_combine_map. rewrite flat_map_map. reflexivity. Qed.

Definition br_is_str (b : br) : {b = BStr} + {b <> BStr}.
Proof. destruct b; (left; reflexivity) || (right; discriminate). Defined.

Ltac leaf_case c g :=
  cbn [cast positions flat_map yield_at fst snd node_choice]; rewrite ?app_nil_r;
  let S := fresh "S" in let K := fresh "K" in let L := fresh "L" in
  pose proof (choose_nondict_not_prop c g) as S;
  pose proof (choose_scalar_collect c g) as K; pose proof (choose_list c g) as L;
  destruct (choose c g) as [| |t0|b0|]; simpl; try reflexivity;
  first [ apply K; reflexivity
        | destruct (L b0 eq_refl) as (? & E0 & _); discriminate
        | exfalso; apply S; intros; discriminate ].

(* THE theorem: cast-then-collect finds exactly the documents at the positions the filter keeps, in order, once each *)
Theorem exactly_once_impl c : forall n g, (gsize g < n)%nat -> collect (cast c g) = embedded false c g.
Proof.
  unfold embedded. induction n as [|n IH]; intros g Hs; [lia|].
  destruct g as [|b a|z a|x a|s [j|] a|l|d r].
  - leaf_case c GNull.
  - leaf_case c (GBool b a).
  - leaf_case c (GInt z a).
  - leaf_case c (GFloat x a).
  - (* JSON text *)
    cbn [cast positions flat_map yield_at fst snd node_choice orb].
    unfold accepted. cbn [node_choice].
    destruct (choose c j) as [|r|t|b|] eqn:E; cbn [finish is_cnone negb collect].
    + rewrite (cut_yields_nothing false c (S (gsize j))); [reflexivity|lia].
    + rewrite (cut_yields_nothing false c (S (gsize j))); [rewrite app_nil_r; reflexivity|lia].
    + rewrite (cut_yields_nothing false c (S (gsize j))); [|lia]. eapply choose_scalar_collect; eauto.
    + destruct (choose_list c j b E) as (l & -> & Hm).
      destruct (br_is_str b) as [->|Hb].
      * cbn [collect]. rewrite collect_recast_str.
        cbn [positions flat_map yield_at fst snd node_choice orb]. unfold accepted. cbn [node_choice]. rewrite E.
        cbn [orb]. rewrite flat_map_flat_map. apply flat_map_ext_in. intros x Hx. apply IH.
        pose proof (gsize_in_list x l Hx). simpl in Hs. simpl in H. simpl. lia.
      * cbn [collect]. rewrite collect_recast_nonstr by assumption.
        replace (match b with BStr => false | _ => true end) with true by (destruct b; try reflexivity; congruence).
        rewrite (cut_yields_nothing false c (S (gsize (GList l)))); [reflexivity|lia].
    + reflexivity.
  - (* plain text *) leaf_case c (GStr s None a).
  - (* list *)
    cbn [cast positions flat_map yield_at fst snd node_choice orb]. unfold accepted. cbn [node_choice].
    pose proof (choose_list_shape c l) as Sh.
    destruct (choose c (GList l)) as [|r|t|b|] eqn:E; try contradiction; cbn [finish collect].
    + destruct (choose_list c _ b E) as (l' & El & Hm). inversion El; subst l'. clear El.
      destruct (br_is_str b) as [->|Hb].
      * rewrite collect_recast_str. rewrite flat_map_flat_map. apply flat_map_ext_in. intros x Hx. apply IH.
        pose proof (gsize_in_list x l Hx). lia.
      * rewrite collect_recast_nonstr by assumption.
        replace (match b with BStr => false | _ => true end) with true by (destruct b; try reflexivity; congruence).
        rewrite flat_map_flat_map. symmetry. apply flat_map_nil. intros x Hx.
        apply (cut_yields_nothing false c (S (gsize x))). lia.
    + unfold list_members. rewrite flat_map_map. rewrite flat_map_flat_map. apply flat_map_ext_in. intros x Hx. apply IH.
      pose proof (gsize_in_list x l Hx). lia.
  - (* object *)
    cbn [cast positions flat_map yield_at fst snd node_choice orb]. unfold accepted. cbn [node_choice].
    pose proof (choose_dict_shape c d r) as Sh.
    destruct (choose c (GDict d r)) as [|r'|t|b|] eqn:E; try contradiction; cbn [finish collect].
    + rewrite flat_map_flat_map. symmetry. apply flat_map_nil. intros [k x] Hx.
      apply (cut_yields_nothing false c (S (gsize x))). simpl. lia.
    + rewrite flat_map_flat_map. rewrite flat_map_nil; [rewrite app_nil_r; reflexivity|]. intros [k x] Hx.
      apply (cut_yields_nothing false c (S (gsize x))). simpl. lia.
    + rewrite flat_map_map. rewrite flat_map_flat_map. apply flat_map_ext_in. intros [k x] Hx. cbn [snd].
      apply IH. pose proof (gsize_in_dict k x d r Hx). lia.
Qed.

Corollary collect_is_embedded_impl c g : collect (cast c g) = embedded_impl c g.
Proof. apply (exactly_once_impl c (S (gsize g))). lia. Qed.

(* where no JSON string hides a document the code's reading and the property's reading enumerate the same documents *)
Lemma deep_eq_shallow c : forall n g cut, (gsize g < n)%nat -> hidden_free c g = true ->
  flat_map (yield_at c) (positions true c cut g) = flat_map (yield_at c) (positions false c cut g).
Proof.
  induction n as [|n IH]; intros g cut Hs Hf; [lia|].
  destruct g as [| | | |s [j|] a|l|d r]; try reflexivity.
  - cbn [positions flat_map orb]. f_equal. cbn [hidden_free] in Hf. unfold accepted. cbn [node_choice].
    destruct (choose c j) eqn:E; cbn [is_cnone negb] in *;
      try (apply IH; [simpl in Hs; lia|exact Hf]).
    (* rejected decoded value: nothing recognisable inside *)
    rewrite orb_false_r. destruct cut.
    + apply (cut_yields_nothing true c (S (gsize j))). lia.
    + unfold embedded in Hf. destruct (flat_map (yield_at c) (positions true c false j)); [reflexivity|discriminate].
  - cbn [positions flat_map]. f_equal. rewrite !flat_map_flat_map. apply flat_map_ext_in. intros x Hx.
    cbn [hidden_free] in Hf. rewrite forallb_forall in Hf. apply IH; [pose proof (gsize_in_list x l Hx); lia|auto].
  - cbn [positions flat_map]. f_equal. rewrite !flat_map_flat_map. apply flat_map_ext_in. intros [k x] Hx.
    cbn [hidden_free] in Hf. rewrite forallb_forall in Hf. apply IH; [pose proof (gsize_in_dict k x d r Hx); simpl; lia|].
    apply (Hf (k, x) Hx).
Qed.

Theorem exactly_once_spec c g : hidden_free c g = true -> collect (cast c g) = embedded_spec c g.
Proof.
  intros H. rewrite collect_is_embedded_impl. unfold embedded_impl, embedded_spec, embedded. symmetry.
  apply (deep_eq_shallow c (S (gsize g))); [lia|exact H].
Qed.

Theorem resource_exactly_once_impl c props : resource_docs c props = resource_embedded false c props.
Proof. unfold resource_docs, resource_embedded. apply flat_map_ext_in. intros [k x] _. apply collect_is_embedded_impl. Qed.

Theorem resource_exactly_once_spec c props :
  forallb (fun kv => hidden_free c (snd kv)) props = true -> resource_docs c props = resource_embedded true c props.
Proof.
  intros H. rewrite forallb_forall in H. unfold resource_docs, resource_embedded. apply flat_map_ext_in.
  intros [k x] Hx. apply exactly_once_spec. apply (H (k, x) Hx).
Qed.

(* a recognised wrapper / document at the top of a property *)
Definition K_POLICYNAME : str := [80; 111; 108; 105; 99; 121; 78; 97; 109; 101]%N.
Definition policy_name (d : list (str * gvalue)) : option str :=
  match lookup K_POLICYNAME d with Some (GStr n _ _) => Some n | _ => None end.
(* checker of the name annotation: the recogniser's PolicyName is the text under the key PolicyName *)
Definition name_confirmed (d : list (str * gvalue)) (r : recog) : bool :=
  match r_kind r with
  | PkPolicy => match policy_name d, r_name r with Some n, Some m => str_eqb n m | _, _ => false end
  | _ => true
  end.

Theorem named_wrapper c d r n :
  choose c (GDict d (Some r)) = CProp r -> r_kind r = PkPolicy -> name_confirmed d r = true -> policy_name d = Some n ->
  collect (cast c (GDict d (Some r))) = [(Some n, r_doc r)].
Proof.
  intros E K N P. cbn [cast]. rewrite E. cbn [finish collect]. unfold yields. rewrite K.
  unfold name_confirmed in N. rewrite K, P in N. destruct (r_name r) as [m|]; [|discriminate].
  apply str_eqb_spec in N. subst. reflexivity.
Qed.
Theorem unnamed_document c d r :
  choose c (GDict d (Some r)) = CProp r -> r_kind r = PkPolicyDocument ->
  collect (cast c (GDict d (Some r))) = [(None, r_doc r)].
Proof. intros E K. cbn [cast]. rewrite E. cbn [finish collect]. unfold yields. rewrite K. reflexivity. Qed.
Theorem other_models_yield_nothing c d r :
  choose c (GDict d (Some r)) = CProp r -> r_kind r <> PkPolicyDocument -> r_kind r <> PkPolicy ->
  collect (cast c (GDict d (Some r))) = [].
Proof. intros E K1 K2. cbn [cast]. rewrite E. cbn [finish collect]. unfold yields. destruct (r_kind r); congruence. Qed.

(* conditions *)
Definition has_condition (st : value) : bool :=
  match st with VList [_; VNull] => false | VList [_; _] => true | _ => false end.
Definition the_condition (st : value) : value := match st with VList [_; c] => c | _ => VNull end.
Lemma stmt_condition_filter st :
  stmt_condition st = if has_condition st then [the_condition st] else [].
Proof.
  destruct st as [| | | | | |l|]; try reflexivity.
  destruct l as [|x [|y [|z l]]]; try reflexivity; destruct y; reflexivity.
Qed.
Lemma doc_conditions_filter sts :
  doc_conditions (VList sts) = map the_condition (filter has_condition sts).
Proof.
  unfold doc_conditions. induction sts as [|st sts IH]; [reflexivity|]. cbn [flat_map filter]. rewrite IH.
  rewrite stmt_condition_filter. destruct (has_condition st); reflexivity.
Qed.
Theorem conditions_exact c props :
  resource_conditions c props = flat_map (fun nd => doc_conditions (snd nd)) (resource_embedded false c props).
Proof. unfold resource_conditions, conditions_of. rewrite resource_exactly_once_impl. reflexivity. Qed.
