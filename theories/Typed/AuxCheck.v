(* C18: the alternatives of generic.AuxType, their order AND their guards, as generated from the live source
   (gen/GenericTables.v), are the ones the specified algorithm (Cast.spec_cfg) models:
     IntOrList      guarded by _not_from_booleans  (c_guard_bool)
     DateOrList, DatetimeOrList, IPOrList guarded by _not_from_numbers (c_guard_num)
   and the function names are the ones the witnesses use. *)
From Coq Require Import List Bool String.
From PV Require Import Base.Str Typed.Witness.
From PVGen Require GenericTables.
Import ListNotations.
Local Open Scope string_scope.

Definition AUX_SPEC : list (string * string) :=
  [("FunctionDict", ""); ("Properties", ""); ("BoolOrList", ""); ("IntOrList", "_not_from_booleans");
   ("DateOrList", "_not_from_numbers"); ("DatetimeOrList", "_not_from_numbers"); ("IPOrList", "_not_from_numbers");
   ("StrOrList", "")].
Lemma aux_guards_are_spec : GenericTables.AUX_BRANCHES = AUX_SPEC.
Proof. vm_compute. reflexivity. Qed.
(* the function names the witnesses use are all still function names of the live code (which may know more) *)
Lemma functions_are_spec : forallb (fun f => existsb (str_eqb f) (map of_string GenericTables.FUNCTIONS)) FUNCS = true.
Proof. vm_compute. reflexivity. Qed.
