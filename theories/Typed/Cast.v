(* The generic casting algorithm of pycfmodel (pycfmodel/model/generic.py): _Auxiliar JSON pre-pass, first match in
   the order of AuxType, re-cast of list members, Generic for objects.  Executable definitions only; proofs are in
   Collect.v (C13) and CastOk.v (C18).

   The algorithm is parametrised by [cfg] so that the SPECIFIED algorithm (the code after the repairs
   fix-float-datetime / fix-bool-int-list / fix-empty-object) and the code as found are two instances:
     c_guard_num   dates, timestamps and networks are never read from numbers or numeric text (_not_from_numbers)
     c_guard_bool  integers are never read from booleans (_not_from_booleans)
     c_empty_plain an empty object is not an instance of any property model (it stays an empty Generic)
     c_funcs       pycfmodel.constants.IMPLEMENTED_FUNCTIONS (live list, also pinned by gen/GenericTables.v) *)
From Coq Require Import List Bool NArith ZArith Lia.
From PV Require Import Base.Str Base.Value Typed.GValue.
Import ListNotations.
Local Open Scope N_scope.

Record cfg := { c_guard_num : bool; c_guard_bool : bool; c_empty_plain : bool; c_funcs : list str }.
Definition spec_cfg (funcs : list str) : cfg :=
  {| c_guard_num := true; c_guard_bool := true; c_empty_plain := true; c_funcs := funcs |}.
Definition orig_cfg (funcs : list str) : cfg :=
  {| c_guard_num := false; c_guard_bool := false; c_empty_plain := false; c_funcs := funcs |}.

(* SemiStrictBool (pycfmodel/model/types.py) on text: value.lower() in ("true", "false").  Modelled, not an oracle. *)
Definition S_TRUE : str := [116; 114; 117; 101].
Definition S_FALSE : str := [102; 97; 108; 115; 101].
Definition bool_literal (s : str) : option bool :=
  let l := lower s in
  if str_eqb l S_TRUE then Some true else if str_eqb l S_FALSE then Some false else None.

(* utils.is_resolvable_dict: exactly one key, and it names an implemented function *)
Definition fnb (c : cfg) (g : gvalue) : bool :=
  match g with
  | GDict [(k, _)] _ => mem_str k (c_funcs c)
  | _ => false
  end.

(* the scalar alternatives of AuxType after FunctionDict and Properties, in source order *)
Inductive br := BBool | BInt | BDate | BDatetime | BIp | BStr.
Definition BRANCHES : list br := [BBool; BInt; BDate; BDatetime; BIp; BStr].

Definition ann_of (g : gvalue) : sann :=
  match g with
  | GBool _ a | GInt _ a | GFloat _ a | GStr _ _ a => a
  | _ => no_ann
  end.
Definition is_scalar (g : gvalue) : bool :=
  match g with GBool _ _ | GInt _ _ | GFloat _ _ | GStr _ _ _ => true | _ => false end.

(* what one alternative answers for one raw node (no JSON pre-pass here: it only happens at the top of _Auxiliar) *)
Definition scalar (b : br) (g : gvalue) : option tval :=
  match b with
  | BBool => match g with
             | GBool x _ => Some (TBool x)
             | GStr s _ _ => option_map TBool (bool_literal s)
             | _ => None
             end
  | BInt => match g with
            | GInt z _ => Some (TInt z)
            | GBool _ a | GFloat _ a | GStr _ _ a => option_map TInt (a_int a)
            | _ => None
            end
  | BDate => if is_scalar g then option_map TDate (a_date (ann_of g)) else None
  | BDatetime => if is_scalar g then option_map TDatetime (a_datetime (ann_of g)) else None
  | BIp => if is_scalar g then option_map (fun kt => TNet (fst kt) (snd kt)) (a_net (ann_of g)) else None
  | BStr => match g with GStr s _ _ => Some (TStr s) | _ => None end
  end.

(* generic._is_number *)
Definition is_number (g : gvalue) : bool :=
  match g with
  | GBool _ _ | GInt _ _ | GFloat _ _ => true
  | GStr _ _ a => a_float a
  | _ => false
  end.
Definition is_boolean (g : gvalue) : bool := match g with GBool _ _ => true | _ => false end.

(* BeforeValidator guards of the repaired AuxType, per item *)
Definition guard_item (c : cfg) (b : br) (g : gvalue) : bool :=
  match b with
  | BInt => negb (c_guard_bool c && is_boolean g)
  | BDate | BDatetime | BIp => negb (c_guard_num c && is_number g)
  | _ => true
  end.
Definition guard (c : cfg) (b : br) (g : gvalue) : bool :=
  match g with
  | GList l => forallb (guard_item c b) l
  | _ => guard_item c b g
  end.

(* Resolvable[T] for a member of a list: T, else FunctionDict *)
Definition member (c : cfg) (b : br) (g : gvalue) : option tval :=
  match scalar b g with
  | Some t => Some t
  | None => if fnb c g then Some (TFn (strip g)) else None
  end.

Inductive choice :=
| CFn                       (* FunctionDict *)
| CProp (r : recog)         (* a member of Properties *)
| CScalar (t : tval)        (* T of some T-or-list alternative *)
| CList (b : br)            (* List[Resolvable[T]] of alternative b *)
| CNone.                    (* ValidationError: no alternative accepts *)

Definition try_branch (c : cfg) (g : gvalue) (b : br) : choice :=
  if negb (guard c b g) then CNone else
  match scalar b g with
  | Some t => CScalar t
  | None => match g with
            | GList l => if forallb (fun x => match member c b x with Some _ => true | None => false end) l
                         then CList b else CNone
            | _ => CNone
            end
  end.

(* a parser that RAISES (pydantic lets the ValueError of datetime.date for year 0 escape unwrapped) aborts the whole union:
   no later alternative is tried.  _Auxiliar.cast suppresses the error and keeps the original value (fix-year-zero). *)
Definition abort_item (b : br) (g : gvalue) : bool :=
  match b with
  | BDate => a_abort_date (ann_of g)
  | BDatetime => a_abort_datetime (ann_of g)
  | _ => false
  end.
Definition aborts (c : cfg) (g : gvalue) (b : br) : bool :=
  guard c b g && match g with GList l => existsb (abort_item b) l | _ => abort_item b g end.

Fixpoint first_branch (c : cfg) (g : gvalue) (bs : list br) : choice :=
  match bs with
  | [] => CNone
  | b :: bs' => if aborts c g b then CNone
                else match try_branch c g b with CNone => first_branch c g bs' | x => x end
  end.

(* the union AuxType on an (already JSON-decoded) node *)
Definition choose (c : cfg) (g : gvalue) : choice :=
  match g with
  | GDict [] r => if c_empty_plain c then CNone
                  else match r with Some r' => CProp r' | None => CNone end
  | GDict d r => if fnb c g then CFn
                 else match r with Some r' => CProp r' | None => CNone end
  | _ => first_branch c g BRANCHES
  end.

Definition is_cnone (x : choice) : bool := match x with CNone => true | _ => false end.

(* the result once the union has answered; [members] = the already re-cast members when the node is a list *)
Definition finish (ch : choice) (raw : value) (members : list tval) (fallback : tval) : tval :=
  match ch with
  | CFn => TFn raw
  | CProp r => TProp r
  | CScalar t => t
  | CList _ => TList members
  | CNone => fallback
  end.

(* a member of a list accepted by alternative b is cast again (generic.py: `v = _Auxiliar.cast(v)`): text is cast from
   scratch (JSON pre-pass included), a typed atom is what the alternative made of it *)
Definition recast_with (c : cfg) (b : br) (x : gvalue) (cast_x : tval) : tval :=
  match b with
  | BStr => cast_x
  | _ => match member c b x with Some t => t | None => cast_x end
  end.

Definition list_members (c : cfg) (ch : choice) (l : list gvalue) (casted : list tval) : list tval :=
  match ch with
  | CList b => map (fun p => recast_with c b (fst p) (snd p)) (combine l casted)
  | _ => casted
  end.

Fixpoint cast (c : cfg) (g : gvalue) : tval :=
  match g with
  | GNull => TNull
  | GBool b _ => finish (choose c g) (strip g) [] (TBool b)
  | GInt z _ => finish (choose c g) (strip g) [] (TInt z)
  | GFloat x _ => finish (choose c g) (strip g) [] (TFloat x)
  | GStr s None _ => finish (choose c g) (strip g) [] (TStr s)
  | GStr s (Some j) _ =>
      (* json.loads succeeded: the union sees the decoded value; if no alternative accepts it the ORIGINAL text is kept *)
      let ch := choose c j in
      finish ch (strip j)
             (match j with GList l => list_members c ch l (map (cast c) l) | _ => [] end)
             (TStr s)
  | GList l =>
      let ch := choose c g in
      finish ch VNull (list_members c ch l (map (cast c) l)) (TList (map (cast c) l))
  | GDict d _ =>
      finish (choose c g) (strip g) []
             (TGeneric (map (fun kv => match kv with (k, x) => (k, cast c x) end) d))
  end.

(* Generic.model_validate(values) on the Properties object of a generic resource: every member is cast *)
Definition cast_props (c : cfg) (props : list (str * gvalue)) : list (str * tval) :=
  map (fun kv => match kv with (k, x) => (k, cast c x) end) props.
