(* C14 -- model of resource type dispatch (CFModel.Resources: Union[ResourceModels (discriminator "Type"), GenericResource],
   left to right; GenericResource.check_type; GenericResource._strict), of CFModel.resources_filtered_by_type, and of the two
   facts that make resolve() / expand_actions() class preserving (they leave the Type string literally unchanged).

   pydantic's validation ENGINE is not modelled here: whether class C accepts a resource definition in isolation is a Section
   variable (an oracle; in the runner it is the verdict of TypeAdapter(C).validate_python computed by the harness, never through
   CFModel / parse).  What is modelled is pycfmodel's own logic: which validator is asked, in which order, what happens when it
   refuses, and the strictness switch. *)
From Coq Require Import List Bool NArith ZArith.
From PV Require Import Base.Str Base.Value Resolver.Consts Resolver.Text Resolver.Resolve.
Import ListNotations.
Local Open Scope N_scope.

Definition K_Properties : str := [80;114;111;112;101;114;116;105;101;115].            (* "Properties" *)
Definition K_Action : str := [65;99;116;105;111;110].                                    (* "Action" *)
Definition K_NotAction : str := [78;111;116;65;99;116;105;111;110].                      (* "NotAction" *)
Definition GENERIC : str := [71;101;110;101;114;105;99;82;101;115;111;117;114;99;101].   (* "GenericResource" *)

(* the value of the discriminator field of a resource definition *)
Inductive type_field :=
| TyMissing             (* no "Type" key, or null: the tagged union has nothing to dispatch on *)
| TyStr (s : str)
| TyOther.              (* a number, a list, an object ... *)
Definition type_of (d : list (str * value)) : type_field :=
  match lookup K_Type d with
  | None | Some VNull => TyMissing
  | Some (VStr s) => TyStr s
  | Some _ => TyOther
  end.
Definition props_of (d : list (str * value)) : list (str * value) :=
  match lookup K_Properties d with Some (VDict p) => p | _ => [] end.

Record outcome := { o_class : str; o_kept : list str }.   (* class of the parsed resource; for a generic resource: its property keys *)

Section Dispatch.
  Variable modelled : list (str * str).            (* (Type string, class name) in union order: the generated RESOURCE_MODELS *)
  Variable class_accepts : str -> value -> bool.   (* oracle: the dedicated class validates this definition in isolation *)
  Variable generic_accepts : value -> bool.        (* oracle: GenericResource validates it, the strictness check left aside *)

  Definition class_of (s : str) : option str := lookup s modelled.
  Definition is_modelled (s : str) : bool := match class_of s with Some _ => true | None => false end.

  (* GenericResource as a validator: check_type refuses a modelled Type while _strict is on; every property is kept
     (Properties: Optional[Generic], extra = allow: each member is cast, none is dropped) *)
  Definition as_generic (strict : bool) (r : value) (d : list (str * value)) : res outcome :=
    let refused := match type_of d with TyStr s => strict && is_modelled s | TyMissing => false | TyOther => true end in
    if refused then Err EValidation
    else if generic_accepts r then Ok {| o_class := GENERIC; o_kept := keys (props_of d) |}
    else Err EValidation.

  (* the left-to-right union: the tagged union of the modelled classes first, GenericResource second *)
  Definition dispatch_resource (strict : bool) (r : value) : res outcome :=
    match r with
    | VDict d =>
        match type_of d with
        | TyStr s =>
            match class_of s with
            | Some c => if class_accepts c r then Ok {| o_class := c; o_kept := [] |} else as_generic strict r d
            | None => as_generic strict r d
            end
        | TyMissing => as_generic strict r d
        | TyOther => Err EValidation
        end
    | _ => Err EValidation
    end.
End Dispatch.

(* ---- resources_filtered_by_type ---- *)
Inductive wanted := WClass (c : str) | WType (s : str).
Record parsed := { p_class : str; p_type : option str }.   (* class of the model object, its .Type attribute *)

Section Filter.
  Variable bases : str -> list str.     (* class name -> names of its base classes (generated: c_bases) *)
  Definition isinstance (c w : str) : bool := str_eqb c w || mem_str w (bases c).
  Definition keeps (allowed : list wanted) (p : parsed) : bool :=
    existsb (fun w => match w with
                      | WClass c => isinstance (p_class p) c
                      | WType s => match p_type p with Some t => str_eqb t s | None => false end
                      end) allowed.
  Definition filter_by_type (allowed : list wanted) (rs : list (str * parsed)) : list (str * parsed) :=
    filter (fun ir => keeps allowed (snd ir)) rs.
End Filter.

(* ---- expand_actions on dumped data: only the values under "Action" / "NotAction" are replaced ---- *)
Section Expand.
  Variable ex : bool -> value -> res value.     (* _expand_actions(value, not_action) *)
  Fixpoint expand_obj (v : value) {struct v} : res value :=
    match v with
    | VDict d =>
        d' <- (fix go (d : list (str * value)) : res (list (str * value)) :=
                 match d with
                 | [] => Ok []
                 | (k, x) :: xs =>
                     x' <- match x with
                           | VNull => Ok VNull
                           | _ => if str_eqb k K_Action then ex false x
                                  else if str_eqb k K_NotAction then ex true x
                                  else expand_obj x
                           end ;;
                     xs' <- go xs ;; Ok ((k, x') :: xs')
                 end) d ;;
        Ok (VDict d')
    | VList l =>
        l' <- (fix go (l : list value) : res (list value) :=
                 match l with
                 | [] => Ok []
                 | x :: xs => x' <- expand_obj x ;; xs' <- go xs ;; Ok (x' :: xs')
                 end) l ;;
        Ok (VList l')
    | _ => Ok v
    end.
End Expand.

(* a string that the resolver's leaf normalisation leaves alone, whatever the parameters: not a dynamic SSM reference,
   not a spelling of true / false, not the AWS::NoValue marker (which would be pruned) *)
Definition type_fixed (t : str) : bool :=
  match ssm_key t with
  | Some _ => false
  | None => negb (is_boolish t) && negb (str_eqb t S_NOVALUE)
  end.
