(* C19 -- "malformed templates are rejected cleanly", for WHOLE parse: the schema interpreter of Typed/Roundtrip.v
   ([validate tbl modelled strict leafv n t v] = pydantic validating the plain data [v] against the annotation [t] over the
   class table [tbl]) composed with its leaf validators.

   COMPOSITION THEOREM ([validate_clean]).  If every leaf validator answers, on every value, with a result, with pydantic's
   ValidationError, or is declined by the model (EUndefined), then for EVERY class table, EVERY value (any JSON-like garbage:
   wrong container kinds, numbers where objects are expected, unknown or repeated keys ...), every annotation and every
   fuel the interpreter answers Ok / Err EValidation / Err EUndefined / Err ERecursion -- never EType, EValue, EAttr, EIndex,
   EKey.  The structure walk (classes, fields, defaults, extra modes, Optional / List / Dict / the three kinds of union, the
   resource union) and pycfmodel's own hooks (check_type, Tag.Value coercion, Effect, remove_colon) add NO exception kind
   of their own: the only way another exception can leave parse is through a leaf validator ([leaf_error_escapes] is the
   converse: a leaf's exception does leave, unchanged) -- which is where the historical defects were (F11 b64decode of a
   number, F13 unhashable Type, F26 year-0 date).  (The interpreter is a model of pydantic UNDER that hypothesis: a union
   of the model treats any error other than "declined" / "out of fuel" as a refusal and tries the next member, whereas
   pydantic lets a foreign exception through at once; so for unclean leaves the model is only faithful at a leaf position,
   which is where the converse is stated.)

   SHARPER ([validate_clean_depth], [validate_fuel_monotone]).  ERecursion is produced only when the fuel (= how deep model
   classes may nest) is smaller than the nesting depth of the VALUE: [vdepth v <= n] excludes it, for every table, cyclic
   ones included.  And fuel is monotone: an answer Ok / Err EValidation (any answer that is not EUndefined / ERecursion) is
   the answer for every larger fuel.

   INSTANCES.  [leaf_validate core] (Typed/Leaves.v) is what the runner uses: pycfmodel's own leaf validators
   (SemiStrictBool, LooseIPv4/6Network, validate_binary, Tag's str coercion, Literal, FunctionDict, the opaque containers)
   are Gallina functions and are PROVED clean here; the scalar validators of pydantic-core (str, int, PositiveInt,
   Union[int,str], bool, date, datetime) and class Generic are the oracle [core], for which cleanliness stays the
   HYPOTHESIS [core_clean] (tied by the sandboxed fuzzer of harness/props/c19.py, stream (b); F26 was a violation of it).
   For the runner's own instance of the oracle ([core_dumped], Typed/RoundtripRun.v) the hypothesis is proved, so the
   statement about [val_dumped] on the live generated table has no hypothesis at all.

   BRIDGE ([leaves_are_the_validators]).  The leaves and hooks of the interpreter ARE the custom validators of
   Robust/Validators.v (the subject of C19_validators_clean, tied to the code by direct calls) under pydantic's contract
   [pydantic_wrap] (ValueError -> ValidationError, anything else propagates): equal as functions, on every value. *)
From Coq Require Import List Bool NArith ZArith Lia.
From PV Require Import Base.Str Base.Value Base.WireFacts Resolver.Consts.
From PV Require Import Net.NetText Net.IPv4 Net.IPv4Thm Net.IPv6.
From PV Require Import Typed.Schema Typed.Dispatch Typed.Leaves Typed.Roundtrip Typed.RoundtripFacts Typed.RoundtripRun.
From PV Require Robust.RConsts Robust.Validators Robust.ValidatorsFacts.
From PVGen Require Schema.
Import ListNotations.

(* ---------------------------------------------------------------------------------------------------------------- *)
(* outcome sets *)
Definition okp (allowed : err -> bool) {A : Type} (r : res A) : Prop :=
  match r with Ok _ => True | Err e => allowed e = true end.
(* a leaf validator: a value, ValidationError, or the model declines *)
Definition A_leaf (e : err) : bool := match e with EValidation | EUndefined => true | _ => false end.
(* parse: the same, or the nesting limit *)
Definition A_parse (e : err) : bool := match e with EValidation | EUndefined | ERecursion => true | _ => false end.

(* the same sets, spelled out *)
Definition leaf_outcome {A : Type} (r : res A) : Prop :=
  (exists a, r = Ok a) \/ r = Err EValidation \/ r = Err EUndefined.
Definition parse_outcome {A : Type} (r : res A) : Prop :=
  (exists a, r = Ok a) \/ r = Err EValidation \/ r = Err EUndefined \/ r = Err ERecursion.
Lemma okp_leaf_iff {A} (r : res A) : okp A_leaf r <-> leaf_outcome r.
Proof.
  unfold leaf_outcome. destruct r as [a|e]; simpl.
  - split; [intros _; left; eexists; reflexivity | intros _; exact I].
  - split.
    + destruct e; try discriminate; intros _; [right; left | right; right]; reflexivity.
    + intros [[a H] | [H | H]]; [discriminate | inv H; reflexivity | inv H; reflexivity].
Qed.
Lemma okp_parse_iff {A} (r : res A) : okp A_parse r <-> parse_outcome r.
Proof.
  unfold parse_outcome. destruct r as [a|e]; simpl.
  - split; [intros _; left; eexists; reflexivity | intros _; exact I].
  - split.
    + destruct e; try discriminate; intros _; [right; left | right; right; right | right; right; left]; reflexivity.
    + intros [[a H] | [H | [H | H]]]; [discriminate | inv H; reflexivity ..].
Qed.
Lemma okp_mono (a a' : err -> bool) {A} (r : res A) : (forall e, a e = true -> a' e = true) -> okp a r -> okp a' r.
Proof. intros H. destruct r; simpl; auto. Qed.
Lemma leaf_in_parse e : A_leaf e = true -> A_parse e = true.
Proof. destruct e; simpl; congruence. Qed.

(* what is asked of the leaf validators *)
Definition leaves_clean (leafv : leaf -> value -> res value) : Prop := forall k v, leaf_outcome (leafv k v).

(* ---------------------------------------------------------------------------------------------------------------- *)
(* nesting depth of a value (Base/WireFacts.v: a scalar has depth 1) *)
Lemma vdepth_pos v : 1 <= vdepth v.
Proof. destruct v; simpl; lia. Qed.
Lemma vdepth_in_list x l : In x l -> vdepth x < vdepth (VList l).
Proof. intros H. pose proof (max_le_fold vdepth l x H). simpl. lia. Qed.
Lemma vdepth_in_dict kv d : In kv d -> vdepth (snd kv) < vdepth (VDict d).
Proof. intros H. pose proof (max_le_fold (fun kv => vdepth (snd kv)) d kv H) as M. simpl in M. simpl. lia. Qed.
Lemma vdepth_tag v : vdepth (tag_value_hook v) = vdepth v.
Proof. destruct v; reflexivity. Qed.

(* ---------------------------------------------------------------------------------------------------------------- *)
(* pycfmodel's own hooks, as they enter the interpreter: each answers with a value or with ValidationError *)
Lemma effect_hook_cases w : (exists w', effect_hook w = Ok w') \/ effect_hook w = Err EValidation.
Proof.
  destruct w; try (left; eexists; reflexivity).
  unfold effect_hook, Policy.effect_store, Policy.effect_norm.
  destruct (str_eqb (Policy.capitalize s) (Policy.name Policy.Allow)); [left; eexists; reflexivity|].
  destruct (str_eqb (Policy.capitalize s) (Policy.name Policy.Deny)); [left; eexists; reflexivity | right; reflexivity].
Qed.
Lemma check_type_cases modelled strict v :
  check_type modelled strict v = Ok v \/ check_type modelled strict v = Err EValidation.
Proof.
  destruct v; simpl; auto. destruct (strict && is_modelled modelled s); auto.
Qed.
(* a before-hook hands on the value itself or its Tag coercion (a scalar for a scalar), or refuses *)
Lemma before_hook_cases modelled strict h v :
  before_hook modelled strict h v = Err EValidation \/
  exists v1, before_hook modelled strict h v = Ok v1 /\ (v1 = v \/ v1 = tag_value_hook v).
Proof.
  destruct h; cbn [before_hook].
  - right. exists v. auto.
  - right. exists v. auto.
  - right. exists (tag_value_hook v). auto.
  - destruct (check_type_cases modelled strict v) as [-> | ->]; [right; exists v; auto | left; reflexivity].
Qed.
Lemma after_hook_cases h x : (exists x', after_hook h x = Ok x') \/ after_hook h x = Err EValidation.
Proof.
  destruct h; try (left; eexists; reflexivity). destruct x; try (left; eexists; reflexivity).
  cbn [after_hook]. destruct (effect_hook_cases v) as [[w' ->] | ->]; [left; eexists; reflexivity | right; reflexivity].
Qed.
(* the class hook (remove_colon) is a total function on objects that keeps every member *)
Lemma class_hook_members h d kv : In kv (class_hook h d) -> exists kv0, In kv0 d /\ snd kv0 = snd kv.
Proof.
  destruct h; cbn [class_hook]; [intros H; exists kv; auto|].
  unfold remove_colon. intros H. apply in_map_iff in H. destruct H as (kv0 & <- & Hin). exists kv0. auto.
Qed.

(* ---------------------------------------------------------------------------------------------------------------- *)
(* the composition, once for every outcome set that contains ValidationError and "declined" *)
Section Clean.
  Variable allowed : err -> bool.
  Hypothesis A_val : allowed EValidation = true.
  Hypothesis A_und : allowed EUndefined = true.
  Notation good := (okp allowed).

  Lemma good_bind {A B} (r : res A) (f : A -> res B) : good r -> (forall a, good (f a)) -> good (bind r f).
  Proof. destruct r as [a|e]; simpl; auto. Qed.
  Lemma good_mapM {A B} (f : A -> res B) l : (forall a, In a l -> good (f a)) -> good (mapM f l).
  Proof.
    induction l as [|a l IH]; intros H; cbn [mapM]; [exact I|].
    apply good_bind; [apply H; left; reflexivity|]. intros y.
    apply good_bind; [apply IH; intros b Hb; apply H; right; exact Hb | intros ys; exact I].
  Qed.
  Lemma good_first_ok rs : Forall good rs -> good (first_ok rs).
  Proof.
    induction 1 as [|r rs Hr _ IH]; cbn [first_ok]; [exact A_val|].
    destruct r as [x|e]; [exact I|]. destruct (is_hard e); [exact Hr | exact IH].
  Qed.
  Lemma good_smart_ok rs : Forall good rs -> good (smart_ok rs).
  Proof.
    induction 1 as [|r rs Hr _ IH]; cbn [smart_ok]; [exact A_val|].
    destruct r as [x|e]; [destruct (forallb is_soft rs); [exact I | exact A_und]|].
    destruct (is_hard e); [exact Hr | exact IH].
  Qed.
  Lemma good_map_Forall {A} (f : A -> res tval) ts : (forall t, In t ts -> good (f t)) -> Forall good (map f ts).
  Proof.
    intros H. apply Forall_forall. intros r Hr. apply in_map_iff in Hr. destruct Hr as (t & <- & Hin). apply H. exact Hin.
  Qed.

  Variable modelled : list (str * str).
  Variable strict : bool.
  Variable leafv : leaf -> value -> res value.
  Hypothesis Hleaf : forall k v, good (leafv k v).

  (* ---- layer 1: the structure of one annotation; the values handed on are [v] itself or members of [v] ---- *)
  Section Step.
    Variable D : value -> Prop.                    (* the values under consideration: closed under "member of" *)
    Hypothesis D_list : forall l x, D (VList l) -> In x l -> D x.
    Hypothesis D_dict : forall d kv, D (VDict d) -> In kv d -> D (snd kv).
    Variable bn : str -> value -> res tval.
    Hypothesis Hbn : forall name v, D v -> good (bn name v).

    Lemma step_good : forall t v, D v -> good (validate_step modelled leafv bn t v).
    Proof.
      induction t as [k|t IHt|t IHt|ts IHts|ts IHts|t IHt|name| |t IHt] using ftype_ind'; intros v Dv.
      - (* leaf *) cbn [validate_step]. apply good_bind; [apply Hleaf | intros w; exact I].
      - (* List[t] *) cbn [validate_step]. destruct v as [ | | | | | |l|d]; try exact A_val.
        apply good_bind; [|intros xs; exact I]. apply good_mapM. intros x Hx. apply IHt. exact (D_list l x Dv Hx).
      - (* Dict[str, t] *) cbn [validate_step]. destruct v as [ | | | | | |l|d]; try exact A_val.
        apply good_bind; [|intros xs; exact I]. apply good_mapM. intros kv Hkv.
        apply good_bind; [apply IHt; exact (D_dict d kv Dv Hkv) | intros x; exact I].
      - (* left-to-right union *) cbn [validate_step]. apply good_first_ok. apply good_map_Forall.
        intros t' Hin. rewrite Forall_forall in IHts. exact (IHts t' Hin v Dv).
      - (* smart union *) cbn [validate_step]. apply good_smart_ok. apply good_map_Forall.
        intros t' Hin. rewrite Forall_forall in IHts. exact (IHts t' Hin v Dv).
      - (* Resolvable[t] *) cbn [validate_step]. apply good_first_ok. constructor; [exact (IHt v Dv)|]. constructor; [|constructor].
        apply good_bind; [apply Hleaf | intros w; exact I].
      - (* model class *) cbn [validate_step]. exact (Hbn name v Dv).
      - (* resource union *) cbn [validate_step]. destruct v as [ | | | | | |l|d]; try exact A_val.
        destruct (type_of d) as [|s|]; [exact (Hbn _ _ Dv) | | exact A_val].
        destruct (class_of modelled s) as [c|]; [|exact (Hbn _ _ Dv)].
        apply good_first_ok. constructor; [exact (Hbn _ _ Dv)|]. constructor; [exact (Hbn _ _ Dv) | constructor].
      - (* Optional[t] *) cbn [validate_step]. destruct v; try exact I; exact (IHt _ Dv).
    Qed.
  End Step.

  (* ---- layer 2: one model class; its fields are members of the object, possibly through a before-hook ---- *)
  Section Model.
    Variables Dp Dc : value -> Prop.                (* the object / its members *)
    Hypothesis D_child : forall d kv, Dp (VDict d) -> In kv d -> Dc (snd kv).
    Hypothesis D_tag : forall v, Dc v -> Dc (tag_value_hook v).
    Variable rec : ftype -> value -> res tval.
    Hypothesis Hrec : forall t v, Dc v -> good (rec t v).

    Lemma field_good d f : (forall v, lookup (f_name f) d = Some v -> Dc v) -> good (validate_field modelled strict rec d f).
    Proof.
      intros Hd. unfold validate_field. destruct (lookup (f_name f) d) as [v|].
      - specialize (Hd v eq_refl).
        destruct (before_hook_cases modelled strict (f_hook f) v) as [-> | (v1 & -> & Hv1)]; [exact A_val|]. cbn [bind].
        assert (Dc v1) as Dv1 by (destruct Hv1 as [-> | ->]; [exact Hd | exact (D_tag v Hd)]).
        apply good_bind; [exact (Hrec _ _ Dv1)|]. intros x.
        destruct (after_hook_cases (f_hook f) x) as [[x' ->] | ->]; [exact I | exact A_val].
      - destruct (f_default f); [exact A_val | exact I | exact I].
    Qed.

    Lemma model_good c v : Dp v -> good (validate_model modelled strict rec c v).
    Proof.
      intros Dv. unfold validate_model. destruct v as [ | | | | | |l|d0]; try exact A_val. cbv zeta.
      destruct (negb (nodupb (keys (class_hook (c_hook c) d0)))); [exact A_und|].
      apply good_bind.
      - apply good_mapM. intros f _. apply field_good. intros v Hl. apply lookup_In in Hl.
        destruct (class_hook_members _ _ _ Hl) as (kv0 & Hin & E). cbn [snd] in E. rewrite <- E. exact (D_child d0 kv0 Dv Hin).
      - intros fs. destruct (c_extra c); try exact I.
        destruct (extras_of c (class_hook (c_hook c) d0)); [exact I | exact A_val].
    Qed.

    Lemma by_name_good tbl name v : Dp v -> good (by_name tbl modelled strict rec name v).
    Proof. intros Dv. unfold by_name. destruct (find_class tbl name); [apply model_good; exact Dv | exact A_und]. Qed.
  End Model.
End Clean.

(* ---------------------------------------------------------------------------------------------------------------- *)
(* layer 3: induction on the fuel *)
Section Parse.
  Variable tbl : list cschema.
  Variable modelled : list (str * str).
  Variable strict : bool.
  Variable leafv : leaf -> value -> res value.
  Notation val := (validate tbl modelled strict leafv).
  Hypothesis Hleaf : forall k v, okp A_leaf (leafv k v).

  Lemma validate_good n : forall t v, okp A_parse (val n t v).
  Proof.
    assert (Hl : forall k v, okp A_parse (leafv k v)) by (intros k v; exact (okp_mono _ _ _ leaf_in_parse (Hleaf k v))).
    induction n as [|n IH]; intros t v; cbn [validate].
    - apply (step_good A_parse eq_refl eq_refl modelled leafv Hl (fun _ => True)); auto. intros name v0 _. reflexivity.
    - apply (step_good A_parse eq_refl eq_refl modelled leafv Hl (fun _ => True)); auto. intros name v0 _.
      apply (by_name_good A_parse eq_refl eq_refl modelled strict (fun _ => True) (fun _ => True)); auto.
  Qed.

  (* fuel that covers the nesting depth of the value never runs out: whatever the table *)
  Lemma validate_good_depth n : forall t v, vdepth v <= n -> okp A_leaf (val n t v).
  Proof.
    induction n as [|n IH]; intros t v Hd; [pose proof (vdepth_pos v); lia|]. cbn [validate].
    apply (step_good A_leaf eq_refl eq_refl modelled leafv Hleaf (fun v => vdepth v <= S n)).
    - intros l x Hl Hx. pose proof (vdepth_in_list x l Hx). lia.
    - intros d kv Hl Hx. pose proof (vdepth_in_dict kv d Hx). lia.
    - intros name v0 Hv0.
      apply (by_name_good A_leaf eq_refl eq_refl modelled strict (fun v => vdepth v <= S n) (fun v => vdepth v <= n)).
      + intros d kv Hl Hx. pose proof (vdepth_in_dict kv d Hx). lia.
      + intros v1 H1. rewrite vdepth_tag. exact H1.
      + exact IH.
      + exact Hv0.
    - exact Hd.
  Qed.
End Parse.

(* ---------------------------------------------------------------------------------------------------------------- *)
(* fuel is monotone: a SETTLED answer (a model, or an error that is not "declined" / "out of fuel") is the answer
   for every larger fuel.  No hypothesis on the table or on the leaves. *)
Definition settled {A} (r : res A) : Prop := match r with Ok _ => True | Err e => is_hard e = false end.
Definition rle {A} (r r' : res A) : Prop := settled r -> r' = r.

Lemma rle_refl {A} (r : res A) : rle r r.
Proof. intros _. reflexivity. Qed.
Lemma rle_trans {A} (a b c : res A) : rle a b -> rle b c -> rle a c.
Proof. intros H1 H2 Hs. pose proof (H1 Hs) as E. rewrite E in H2. rewrite (H2 Hs). reflexivity. Qed.
Lemma rle_bind {A B} (r r' : res A) (f f' : A -> res B) : rle r r' -> (forall a, rle (f a) (f' a)) -> rle (bind r f) (bind r' f').
Proof.
  intros H1 H2 Hs. destruct r as [a|e].
  - rewrite (H1 I). cbn [bind] in *. exact (H2 a Hs).
  - cbn [bind] in Hs. rewrite (H1 Hs). reflexivity.
Qed.
Lemma rle_mapM {A B} (f f' : A -> res B) l : (forall a, In a l -> rle (f a) (f' a)) -> rle (mapM f l) (mapM f' l).
Proof.
  induction l as [|a l IH]; intros H; cbn [mapM]; [apply rle_refl|].
  apply rle_bind; [apply H; left; reflexivity|]. intros y.
  apply rle_bind; [apply IH; intros b Hb; apply H; right; exact Hb | intros ys; apply rle_refl].
Qed.
Lemma rle_first_ok rs rs' : Forall2 rle rs rs' -> rle (first_ok rs) (first_ok rs').
Proof.
  induction 1 as [|r r' rs rs' Hr _ IH]; cbn [first_ok]; [apply rle_refl|]. intros Hs.
  destruct r as [x|e].
  - rewrite (Hr I). reflexivity.
  - destruct (is_hard e) eqn:Eh; [cbn in Hs; congruence|]. rewrite (Hr Eh), Eh. exact (IH Hs).
Qed.
Lemma soft_all_rle rs rs' : Forall2 rle rs rs' -> forallb is_soft rs = true -> forallb is_soft rs' = true.
Proof.
  induction 1 as [|r r' rs rs' Hr _ IH]; cbn [forallb]; [reflexivity|]. intros H. apply andb_true_iff in H. destruct H as [H1 H2].
  apply andb_true_iff. split; [|exact (IH H2)]. destruct r as [x|e]; [discriminate|]. cbn [is_soft] in H1.
  apply negb_true_iff in H1. rewrite (Hr H1). cbn [is_soft]. rewrite H1. reflexivity.
Qed.
Lemma rle_smart_ok rs rs' : Forall2 rle rs rs' -> rle (smart_ok rs) (smart_ok rs').
Proof.
  induction 1 as [|r r' rs rs' Hr Hrs IH]; cbn [smart_ok]; [apply rle_refl|]. intros Hs.
  destruct r as [x|e].
  - rewrite (Hr I). destruct (forallb is_soft rs) eqn:Ea; [|cbn in Hs; discriminate].
    rewrite (soft_all_rle rs rs' Hrs Ea). reflexivity.
  - destruct (is_hard e) eqn:Eh; [cbn in Hs; congruence|]. rewrite (Hr Eh), Eh. exact (IH Hs).
Qed.
Lemma Forall2_map_same {A B} (R : B -> B -> Prop) (f f' : A -> B) ts :
  (forall t, In t ts -> R (f t) (f' t)) -> Forall2 R (map f ts) (map f' ts).
Proof.
  induction ts as [|t ts IH]; intros H; cbn [map]; constructor; [apply H; left; reflexivity|].
  apply IH. intros t' Ht'. apply H. right. exact Ht'.
Qed.

Section Mono.
  Variable tbl : list cschema.
  Variable modelled : list (str * str).
  Variable strict : bool.
  Variable leafv : leaf -> value -> res value.
  Notation val := (validate tbl modelled strict leafv).

  Lemma step_rle bn bn' : (forall name v, rle (bn name v) (bn' name v)) ->
    forall t v, rle (validate_step modelled leafv bn t v) (validate_step modelled leafv bn' t v).
  Proof.
    intros Hbn. induction t as [k|t IHt|t IHt|ts IHts|ts IHts|t IHt|name| |t IHt] using ftype_ind'; intros v.
    - apply rle_refl.
    - cbn [validate_step]. destruct v; try apply rle_refl. apply rle_bind; [|intros; apply rle_refl].
      apply rle_mapM. intros x _. apply IHt.
    - cbn [validate_step]. destruct v; try apply rle_refl. apply rle_bind; [|intros; apply rle_refl].
      apply rle_mapM. intros kv _. apply rle_bind; [apply IHt | intros; apply rle_refl].
    - cbn [validate_step]. apply rle_first_ok. apply Forall2_map_same. intros t' Hin. rewrite Forall_forall in IHts. exact (IHts t' Hin v).
    - cbn [validate_step]. apply rle_smart_ok. apply Forall2_map_same. intros t' Hin. rewrite Forall_forall in IHts. exact (IHts t' Hin v).
    - cbn [validate_step]. apply rle_first_ok. constructor; [apply IHt|]. constructor; [apply rle_refl | constructor].
    - cbn [validate_step]. apply Hbn.
    - cbn [validate_step]. destruct v as [ | | | | | |l|d]; try apply rle_refl.
      destruct (type_of d) as [|s|]; [apply Hbn | | apply rle_refl].
      destruct (class_of modelled s) as [c|]; [|apply Hbn].
      apply rle_first_ok. constructor; [apply Hbn|]. constructor; [apply Hbn | constructor].
    - cbn [validate_step]. destruct v; try apply rle_refl; apply IHt.
  Qed.

  Lemma model_rle rec rec' : (forall t v, rle (rec t v) (rec' t v)) ->
    forall c v, rle (validate_model modelled strict rec c v) (validate_model modelled strict rec' c v).
  Proof.
    intros Hrec c v. unfold validate_model. destruct v; try apply rle_refl. cbv zeta.
    destruct (negb (nodupb (keys (class_hook (c_hook c) d)))); [apply rle_refl|].
    apply rle_bind; [|intros; apply rle_refl]. apply rle_mapM. intros f _. unfold validate_field.
    destruct (lookup (f_name f) (class_hook (c_hook c) d)); [|apply rle_refl].
    apply rle_bind; [apply rle_refl|]. intros v1. apply rle_bind; [apply Hrec | intros; apply rle_refl].
  Qed.

  Lemma fuel_step n : forall t v, rle (val n t v) (val (S n) t v).
  Proof.
    induction n as [|n IH]; intros t v.
    - cbn [validate]. apply step_rle. intros name v0 Hs. cbn in Hs. discriminate.
    - change (val (S (S n))) with (validate_step modelled leafv (by_name tbl modelled strict (val (S n)))).
      change (val (S n)) with (validate_step modelled leafv (by_name tbl modelled strict (val n))) at 1.
      apply step_rle. intros name v0. unfold by_name. destruct (find_class tbl name); [|apply rle_refl].
      apply model_rle. exact IH.
  Qed.
  Lemma fuel_mono n m : n <= m -> forall t v, rle (val n t v) (val m t v).
  Proof.
    induction 1 as [|m _ IH]; intros t v; [apply rle_refl|]. eapply rle_trans; [apply IH | apply fuel_step].
  Qed.
End Mono.

(* ---------------------------------------------------------------------------------------------------------------- *)
(* the theorems, spelled out *)
Theorem validate_clean :
  forall (tbl : list cschema) (modelled : list (str * str)) (strict : bool) (leafv : leaf -> value -> res value),
    leaves_clean leafv ->
    forall (n : nat) (t : ftype) (v : value), parse_outcome (validate tbl modelled strict leafv n t v).
Proof.
  intros tbl modelled strict leafv Hl n t v. apply okp_parse_iff. apply validate_good.
  intros k w. apply okp_leaf_iff. apply Hl.
Qed.
Corollary validate_never_other :
  forall tbl modelled strict leafv, leaves_clean leafv ->
    forall n t v e, validate tbl modelled strict leafv n t v = Err e ->
      e <> EType /\ e <> EValue /\ e <> EAttr /\ e <> EIndex /\ e <> EKey.
Proof.
  intros tbl modelled strict leafv Hl n t v e H.
  destruct (validate_clean tbl modelled strict leafv Hl n t v) as [[x E] | [E | [E | E]]]; rewrite E in H; inv H;
    repeat split; discriminate.
Qed.
Theorem validate_clean_depth :
  forall tbl modelled strict leafv, leaves_clean leafv ->
    forall n t v, vdepth v <= n -> leaf_outcome (validate tbl modelled strict leafv n t v).
Proof.
  intros tbl modelled strict leafv Hl n t v Hd. apply okp_leaf_iff. apply validate_good_depth; [|exact Hd].
  intros k w. apply okp_leaf_iff. apply Hl.
Qed.
Theorem validate_fuel_monotone :
  forall tbl modelled strict leafv n m t v r, n <= m ->
    validate tbl modelled strict leafv n t v = r -> (exists x, r = Ok x) \/ r = Err EValidation ->
    validate tbl modelled strict leafv m t v = r.
Proof.
  intros tbl modelled strict leafv n m t v r Hnm H Hr. pose proof (fuel_mono tbl modelled strict leafv n m Hnm t v) as M.
  rewrite H in M. apply M. destruct Hr as [[x ->] | ->]; [exact I | reflexivity].
Qed.
(* the converse of the composition theorem: what a leaf validator raises leaves parse unchanged *)
Theorem leaf_error_escapes :
  forall tbl modelled strict leafv n k v e, leafv k v = Err e -> validate tbl modelled strict leafv n (TLeaf k) v = Err e.
Proof. intros tbl modelled strict leafv n k v e H. destruct n; cbn [validate validate_step]; rewrite H; reflexivity. Qed.

(* ---------------------------------------------------------------------------------------------------------------- *)
(* the leaf validators the runner uses: pycfmodel's own ones are clean (proved); pydantic-core's are the oracle [core] *)
Definition core_clean (core : leaf -> value -> res value) : Prop := forall k v, is_core k = true -> leaf_outcome (core k v).

Lemma lo_ok {A} (a : A) : leaf_outcome (Ok a).
Proof. left. eexists; reflexivity. Qed.
Lemma lo_val {A} : leaf_outcome (@Err A EValidation).
Proof. right; left; reflexivity. Qed.
Lemma lo_und {A} : leaf_outcome (@Err A EUndefined).
Proof. right; right; reflexivity. Qed.

Lemma semi_strict_bool_lo v : leaf_outcome (semi_strict_bool v).
Proof.
  destruct v; cbn [semi_strict_bool]; try apply lo_val; [apply lo_ok|].
  destruct (str_eqb (lower s) S_true); [apply lo_ok|]. destruct (str_eqb (lower s) S_false); [apply lo_ok | apply lo_val].
Qed.
Lemma net4_text_lo s : leaf_outcome (n <- as_val (parse4 s) ;; Ok (net4_text n)).
Proof. destruct (parse4_err s) as [-> | [n ->]]; cbn [as_val bind]; [apply lo_val | apply lo_ok]. Qed.
Lemma loose_net4_lo v : leaf_outcome (loose_net4 v).
Proof.
  destruct v as [ |b|z|s|k s|bs|l|d]; cbn [loose_net4]; try apply lo_val; try apply net4_text_lo.
  - apply lo_ok.
  - destruct ((0 <=? z)%Z && (z <? 4294967296)%Z); [apply lo_ok | apply lo_val].
  - destruct (Nat.eqb (length bs) 4); [apply lo_ok | apply lo_val].
Qed.
Lemma net6_text_lo s : leaf_outcome (n <- as_val (parse6 s) ;; Ok (net6_text n)).
Proof.
  unfold parse6. destruct (has_ch PERCENT s); [apply lo_und|].
  destruct (written6 s) as [[x l]|]; cbn [as_val bind]; [apply lo_ok | apply lo_val].
Qed.
Lemma loose_net6_lo v : leaf_outcome (loose_net6 v).
Proof.
  destruct v as [ |b|z|s|k s|bs|l|d]; cbn [loose_net6]; try apply lo_val; try apply net6_text_lo.
  - apply lo_ok.
  - destruct ((0 <=? z)%Z && (z <? 2 ^ 128)%Z); [apply lo_ok | apply lo_val].
  - destruct (Nat.eqb (length bs) 16); [apply lo_ok | apply lo_val].
Qed.
Lemma validate_binary_lo v : leaf_outcome (validate_binary v).
Proof.
  destruct v; cbn [validate_binary]; try apply lo_val; [|apply lo_ok].
  destruct (forallb (fun c => (c <? 128)%N) s); [|apply lo_val]. destruct (b64decode s); [apply lo_ok | apply lo_val].
Qed.
Lemma str_num_lo v : leaf_outcome (str_num v).
Proof. destruct v as [ | | | |[]| | | ]; cbn [str_num]; try apply lo_val; try apply lo_ok; apply lo_und. Qed.
Lemma literal_lo s v : leaf_outcome (literal s v).
Proof. destruct v; cbn [literal]; try apply lo_val. destruct (str_eqb s s0); [apply lo_ok | apply lo_val]. Qed.
Lemma function_dict_lo v : leaf_outcome (function_dict v).
Proof.
  unfold function_dict. destruct v as [ | | | | | | |d]; try apply lo_val. destruct d as [|[k b] [|? ?]]; try apply lo_val.
  destruct (mem_str k MODEL_FUNCTIONS); [apply lo_ok | apply lo_val].
Qed.

Theorem leaf_validate_clean core : core_clean core -> leaves_clean (leaf_validate core).
Proof.
  intros Hc k v. destruct k; cbn [leaf_validate]; try (apply Hc; reflexivity).
  - apply str_num_lo.
  - apply semi_strict_bool_lo.
  - apply loose_net4_lo.
  - apply loose_net6_lo.
  - apply validate_binary_lo.
  - apply literal_lo.
  - apply function_dict_lo.
  - apply lo_ok.
  - destruct v; cbn [dict_any]; try apply lo_val; apply lo_ok.
  - destruct v; cbn [list_any]; try apply lo_val; apply lo_ok.
Qed.

(* the runner's instance of the oracle meets the hypothesis *)
Lemma core_dumped_clean : core_clean core_dumped.
Proof.
  intros k v _. apply okp_leaf_iff. unfold core_dumped.
  destruct v as [ |b|z|s|kd t|bs|l|d]; destruct k; try exact I; try reflexivity;
    try (destruct kd; first [exact I | reflexivity]);
    try (destruct (looks_numeric s); first [exact I | reflexivity]).
  destruct (0 <? z)%Z; first [exact I | reflexivity].
Qed.

(* ---- on the class table generated from the live classes (gen/Schema.v).  The composition theorem holds for EVERY table,
        so nothing has to be checked about the generated one: the instance is the theorem. ---- *)
Theorem validate_clean_live :
  forall (core : leaf -> value -> res value), core_clean core ->
    forall strict n t v,
      parse_outcome (validate Schema.CLASSES Schema.RESOURCE_MODELS strict (leaf_validate core) n t v) /\
      (vdepth v <= n -> leaf_outcome (validate Schema.CLASSES Schema.RESOURCE_MODELS strict (leaf_validate core) n t v)).
Proof.
  intros core Hc strict n t v. split.
  - apply validate_clean. apply leaf_validate_clean. exact Hc.
  - apply validate_clean_depth. apply leaf_validate_clean. exact Hc.
Qed.
(* the executable instance of the runner (fuel DEPTH = 64): no hypothesis left *)
Theorem validate_clean_runner :
  forall strict t v,
    parse_outcome (val_dumped strict t v) /\ (vdepth v <= DEPTH -> leaf_outcome (val_dumped strict t v)).
Proof. intros strict t v. unfold val_dumped. apply validate_clean_live. exact core_dumped_clean. Qed.

(* ---------------------------------------------------------------------------------------------------------------- *)
(* the interpreter's leaves and hooks are the validators of Robust/Validators.v under pydantic's contract.  (remove_colon is
   not in the list: the interpreter keeps colliding keys and DECLINES such objects, Robust/Validators.v collapses them.) *)
Local Open Scope N_scope.
Lemma b64_go_same s : forall qp lc pads acc, b64_go s qp lc pads acc = Validators.b64dec_go s qp pads lc acc.
Proof.
  induction s as [|c r IH]; intros qp lc pads acc; cbn [b64_go Validators.b64dec_go]; [reflexivity|].
  change (Validators.b64_val c) with (b64_val c).
  destruct (c =? 61); [destruct ((2 <=? qp) && (4 <=? qp + (pads + 1))); [reflexivity | apply IH]|].
  destruct (b64_val c) as [d|]; [|apply IH].
  destruct (qp =? 0); [apply IH|]. destruct (qp =? 1); [apply IH|]. destruct (qp =? 2); apply IH.
Qed.
Lemma is_modelled_keys modelled s : is_modelled modelled s = mem_str s (keys modelled).
Proof.
  unfold is_modelled, class_of, mem_str, keys. induction modelled as [|[k c] m IH]; cbn [lookup map existsb fst]; [reflexivity|].
  destruct (str_eqb s k); [reflexivity | exact IH].
Qed.
Theorem leaves_are_the_validators :
  (forall v, semi_strict_bool v = Validators.pydantic_wrap (Validators.semi_strict_bool v)) /\
  (forall v, validate_binary v = Validators.pydantic_wrap (Validators.validate_binary v)) /\
  (forall v, function_dict v = Validators.pydantic_wrap (Validators.check_fn_dict v)) /\
  (forall modelled strict v, check_type modelled strict v = Validators.pydantic_wrap (Validators.check_type strict (keys modelled) v)) /\
  (forall w, effect_hook w = Validators.pydantic_wrap (Validators.effect_validator w)) /\
  (forall v, Ok (tag_value_hook v) = Validators.tag_coerce v).
Proof.
  repeat split.
  - intros v. destruct v; try reflexivity. cbn [semi_strict_bool Validators.semi_strict_bool].
    destruct (str_eqb (lower s) S_true); [reflexivity|]. destruct (str_eqb (lower s) S_false); reflexivity.
  - intros v. destruct v; try reflexivity. cbn [validate_binary Validators.validate_binary]. unfold Validators.b64decode, b64decode.
    destruct (forallb (fun c => c <? 128) s); [|reflexivity]. rewrite b64_go_same. destruct (Validators.b64dec_go s 0 0 0 []); reflexivity.
  - intros v. unfold function_dict, Validators.check_fn_dict, Validators.is_resolvable_dict, Resolve.is_fn_dict, Resolve.is_fn.
    destruct v as [ | | | | | | |d]; try reflexivity. destruct d as [|[k b] [|? ?]]; try reflexivity.
    destruct (mem_str k MODEL_FUNCTIONS); reflexivity.
  - intros modelled strict v. destruct v; try reflexivity. cbn [check_type Validators.check_type]. rewrite is_modelled_keys.
    destruct strict; destruct (mem_str s (keys modelled)); reflexivity.
  - intros w. destruct w; try reflexivity. unfold effect_hook, Policy.effect_store, Policy.effect_norm, Validators.effect_validator.
    change (Validators.capitalize s) with (Policy.capitalize s).
    change RConsts.S_Allow with (Policy.name Policy.Allow). change RConsts.S_Deny with (Policy.name Policy.Deny).
    destruct (str_eqb (Policy.capitalize s) (Policy.name Policy.Allow)) eqn:E1.
    + apply str_eqb_spec in E1. rewrite E1. reflexivity.
    + destruct (str_eqb (Policy.capitalize s) (Policy.name Policy.Deny)) eqn:E2; [|reflexivity]. apply str_eqb_spec in E2. rewrite E2. reflexivity.
  - intros v. destruct v; reflexivity.
Qed.
