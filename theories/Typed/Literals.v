(* Gallina CHECKERS of the leaf-oracle annotations used by C18: "text s is a literal of the type and the converted
   value r denotes the same thing".  They validate what pydantic / ipaddress answered; they do not replace them.
   Each checker documents the liberal forms pydantic accepts; [*_class] tells strict from liberal for the evidence. *)
From Coq Require Import List Bool NArith ZArith Lia.
From PV Require Import Base.Str Base.Value.
Import ListNotations.
Local Open Scope N_scope.

Definition is_digit (c : N) : bool := (48 <=? c) && (c <=? 57).
Definition dig (c : N) : N := c - 48.
Definition is_ws (c : N) : bool := (c =? 32) || ((9 <=? c) && (c <=? 13)).
Fixpoint drop_ws (s : str) : str := match s with c :: r => if is_ws c then drop_ws r else s | [] => [] end.
Definition strip_ws (s : str) : str := rev (drop_ws (rev (drop_ws s))).
Definition all_in (p : N -> bool) (s : str) : bool := forallb p s.

(* ---- integers ----
   strict : optional '-' and ASCII digits without leading zeros = Python's str(z)
   liberal (pydantic-core's str -> int): surrounding whitespace, '+', leading zeros, single underscores between digits,
   a fraction of zeros only ("5.0").  Exponent forms ("1e3") reach the int branch only through json.loads, as numbers. *)
Fixpoint uint_go (acc : N) (s : str) : N * str :=
  match s with
  | c :: r =>
      if is_digit c then uint_go (acc * 10 + dig c) r
      else if c =? 95 then
        match r with
        | d :: r' => if is_digit d then uint_go (acc * 10 + dig d) r' else (acc, s)
        | [] => (acc, s)
        end
      else (acc, s)
  | [] => (acc, [])
  end.
Definition parse_uint (s : str) : option (N * str) :=
  match s with
  | c :: r => if is_digit c then Some (uint_go (dig c) r) else None
  | [] => None
  end.
Definition frac_zero (rest : str) : bool :=
  match rest with
  | [] => true
  | 46 :: z :: zs => all_in (N.eqb 48) (z :: zs)
  | _ => false
  end.
Definition split_sign (t : str) : bool * str :=
  match t with 45 :: r => (true, r) | 43 :: r => (false, r) | _ => (false, t) end.
Definition literal_int (s : str) : option Z :=
  let '(neg, t) := split_sign (strip_ws s) in
  match parse_uint t with
  | Some (n, rest) => if frac_zero rest then Some (if neg then Z.opp (Z.of_N n) else Z.of_N n) else None
  | None => None
  end.
Definition denotes_int (s : str) (z : Z) : bool :=
  match literal_int s with Some z' => Z.eqb z z' | None => false end.
Definition strict_int (s : str) (z : Z) : bool := str_eqb s (str_of_Z z).

(* ---- floats that are whole numbers (text = repr(float): "5.0", "1e+20", "1.5e+16", "-0.0") ---- *)
Fixpoint take_digits (s : str) : str * str :=
  match s with
  | c :: r => if is_digit c then let '(d, rest) := take_digits r in (c :: d, rest) else ([], s)
  | [] => ([], [])
  end.
Definition digits_val (d : str) : N := fold_left (fun acc c => acc * 10 + dig c) d 0.
Definition float_whole (x : str) : option Z :=
  let '(neg, t) := split_sign x in
  let '(ip, r1) := take_digits t in
  match ip with
  | [] => None
  | _ =>
      let '(fp, r2) := match r1 with 46 :: r => take_digits r | _ => ([], r1) end in
      let e : option Z :=
        match r2 with
        | [] => Some 0%Z
        | 101 :: r3 =>
            let '(eneg, r4) := split_sign r3 in
            let '(ed, r5) := take_digits r4 in
            match ed, r5 with
            | _ :: _, [] => Some (if eneg then Z.opp (Z.of_N (digits_val ed)) else Z.of_N (digits_val ed))
            | _, _ => None
            end
        | _ => None
        end in
      match e with
      | None => None
      | Some e' =>
          let m := Z.of_N (digits_val (ip ++ fp)) in
          let k := (e' - Z.of_nat (length fp))%Z in
          let v := if (0 <=? k)%Z then Some (m * 10 ^ k)%Z
                   else let p := (10 ^ (- k))%Z in if (m mod p =? 0)%Z then Some (m / p)%Z else None in
          match v with Some v' => Some (if neg then Z.opp v' else v') | None => None end
      end
  end.
Definition float_denotes_int (x : str) (z : Z) : bool :=
  match float_whole x with Some z' => Z.eqb z z' | None => false end.

(* ---- dates / timestamps ---- *)
Definition two (a b : N) : option N := if is_digit a && is_digit b then Some (dig a * 10 + dig b) else None.
Definition leap (y : N) : bool := ((y mod 4 =? 0) && negb (y mod 100 =? 0)) || (y mod 400 =? 0).
Definition days_in (y m : N) : N :=
  match m with
  | 2 => if leap y then 29 else 28
  | 4 | 6 | 9 | 11 => 30
  | _ => 31
  end.
Definition date10 (s : str) : option (N * N * N) :=
  match s with
  | [y1; y2; y3; y4; 45; m1; m2; 45; d1; d2] =>
      match two y1 y2, two y3 y4, two m1 m2, two d1 d2 with
      | Some a, Some b, Some m, Some d =>
          let y := a * 100 + b in
          if (1 <=? y) && (1 <=? m) && (m <=? 12) && (1 <=? d) && (d <=? days_in y m) then Some (y, m, d) else None
      | _, _, _, _ => None
      end
  | _ => None
  end.
Definition is_sep (c : N) : bool := (c =? 84) || (c =? 116) || (c =? 32) || (c =? 95).   (* T t ' ' _ *)
Definition is_tzstart (c : N) : bool := (c =? 90) || (c =? 122) || (c =? 43) || (c =? 45). (* Z z + - *)
Fixpoint span (p : N -> bool) (s : str) : str * str :=
  match s with
  | c :: r => if p c then let '(a, b) := span p r in (c :: a, b) else ([], s)
  | [] => ([], [])
  end.

(* offset in minutes; None = naive *)
Definition parse_tz (s : str) : option (option Z) :=
  match s with
  | [] => Some None
  | [90] | [122] => Some (Some 0%Z)
  | sg :: h1 :: h2 :: r =>
      if (sg =? 43) || (sg =? 45) then
        match two h1 h2, (match r with
                          | [] => Some 0
                          | [58; m1; m2] | [m1; m2] => two m1 m2
                          | _ => None end) with
        | Some h, Some m =>
            if (h <=? 23) && (m <=? 59) then
              let v := Z.of_N (h * 60 + m) in Some (Some (if sg =? 45 then Z.opp v else v))
            else None
        | _, _ => None
        end
      else None
  | _ => None
  end.
Definition pad6 (f : str) : option N :=
  if (length f <=? 6)%nat && all_in is_digit f then Some (digits_val (f ++ repeat 48 (6 - length f))) else None.
(* hh:mm[:ss[(.|,)ffffff]] *)
Definition parse_time (s : str) : option (N * N * N * N) :=
  match s with
  | h1 :: h2 :: 58 :: m1 :: m2 :: r =>
      match two h1 h2, two m1 m2 with
      | Some h, Some m =>
          if (h <=? 23) && (m <=? 59) then
            match r with
            | [] => Some (h, m, 0, 0)
            | 58 :: s1 :: s2 :: r' =>
                match two s1 s2 with
                | Some sec =>
                    if sec <=? 59 then
                      match r' with
                      | [] => Some (h, m, sec, 0)
                      | c :: f => if ((c =? 46) || (c =? 44)) && negb (match f with [] => true | _ => false end)
                                  then match pad6 f with Some u => Some (h, m, sec, u) | None => None end else None
                      end
                    else None
                | None => None
                end
            | _ => None
            end
          else None
      | _, _ => None
      end
  | _ => None
  end.
Definition parse_dt (s : str) : option ((N * N * N) * (N * N * N * N) * option Z) :=
  match date10 (firstn 10 s) with
  | None => None
  | Some d =>
      match skipn 10 s with
      | [] => Some (d, (0, 0, 0, 0), None)
      | c :: r =>
          if is_sep c then
            let '(tm, tz) := span (fun x => negb (is_tzstart x)) r in
            match parse_time tm, parse_tz tz with
            | Some t, Some z => Some (d, t, z)
            | _, _ => None
            end
          else None
      end
  end.
Definition dt_eqb (a b : (N * N * N) * (N * N * N * N) * option Z) : bool :=
  let '((y, m, d), (h, mi, s, u), z) := a in
  let '((y', m', d'), (h', mi', s', u'), z') := b in
  (y =? y') && (m =? m') && (d =? d') && (h =? h') && (mi =? mi') && (s =? s') && (u =? u') &&
  match z, z' with Some p, Some q => Z.eqb p q | None, None => true | _, _ => false end.

(* a timestamp: s and isoformat() of the result read as the same instant description (same wall clock, same offset).
   liberal forms: ' ' 't' '_' separators, missing seconds, ',' fractions, 'Z', '+hhmm', a date alone (= midnight) *)
Definition denotes_datetime (s r : str) : bool :=
  match parse_dt s, parse_dt r with
  | Some a, Some b => dt_eqb a b
  | _, _ => false
  end.
(* a date: strict = "YYYY-MM-DD"; liberal (pydantic) = a timestamp whose time of day is exactly midnight, any offset *)
Definition denotes_date (s r : str) : bool :=
  match date10 r, parse_dt s with
  | Some d, Some (d', (h, mi, sec, u), _) =>
      let '(y, m, dd) := d in let '(y', m', dd') := d' in
      (y =? y') && (m =? m') && (dd =? dd') && (h =? 0) && (mi =? 0) && (sec =? 0) && (u =? 0)
  | _, _ => false
  end.
Definition strict_date (s r : str) : bool := str_eqb s r.

(* ---- IPv4 networks (ipaddress.IPv4Network(text, strict=False)): a.b.c.d [/prefix | /netmask | /hostmask] ---- *)
Definition octet (s : str) : option N :=
  match s with
  | [a] => if is_digit a then Some (dig a) else None
  | [a; b] => if is_digit a && is_digit b && negb (a =? 48) then Some (dig a * 10 + dig b) else None
  | [a; b; c] => if is_digit a && is_digit b && is_digit c && negb (a =? 48)
                 then let v := dig a * 100 + dig b * 10 + dig c in if v <=? 255 then Some v else None else None
  | _ => None
  end.
Definition quad (s : str) : option N :=
  match split [46] s with
  | [a; b; c; d] =>
      match octet a, octet b, octet c, octet d with
      | Some a', Some b', Some c', Some d' => Some (((a' * 256 + b') * 256 + c') * 256 + d')
      | _, _, _, _ => None
      end
  | _ => None
  end.
Definition ALL32 : N := 4294967295.
Definition prefix_of_mask (m : N) : option N :=
  match find (fun p => m =? ALL32 + 1 - 2 ^ (32 - p)) (map N.of_nat (seq 0 33)) with
  | Some p => Some p
  | None => find (fun p => m =? 2 ^ (32 - p) - 1) (map N.of_nat (seq 0 33))
  end.
Definition render_quad (a : N) : str :=
  digits_N (a / 16777216) ++ [46] ++ digits_N ((a / 65536) mod 256) ++ [46] ++ digits_N ((a / 256) mod 256) ++ [46]
  ++ digits_N (a mod 256).
Definition net4_of (s : str) : option str :=
  match split [47] s with
  | [a] => match quad a with Some x => Some (render_quad x ++ [47; 51; 50]) | None => None end
  | [a; p] =>
      match quad a with
      | None => None
      | Some x =>
          let pl : option N :=
            if all_in is_digit p && negb (match p with [] => true | _ => false end)
            then (let v := digits_val p in if v <=? 32 then Some v else None)
            else match quad p with Some m => prefix_of_mask m | None => None end in
          match pl with
          | Some l => let size := 2 ^ (32 - l) in Some (render_quad ((x / size) * size) ++ [47] ++ digits_N l)
          | None => None
          end
      end
  | _ => None
  end.
(* IPv6: SHALLOW check only (character set and prefix length agree); the address arithmetic is left to the oracle *)
Definition is_hex (c : N) : bool := is_digit c || ((97 <=? c) && (c <=? 102)) || ((65 <=? c) && (c <=? 70)).
Definition net6_shallow (s r : str) : bool :=
  match split [47] r with
  | [ra; rp] =>
      all_in is_digit rp && negb (match rp with [] => true | _ => false end) &&
      match split [47] s with
      | [sa] => (digits_val rp =? 128) && all_in (fun c => is_hex c || (c =? 58) || (c =? 46) || (c =? 37) || (97 <=? c)) sa
                && existsb (N.eqb 58) sa
      | [sa; sp] => all_in is_digit sp && (digits_val sp =? digits_val rp) && existsb (N.eqb 58) sa
      | _ => false
      end
  | _ => false
  end.
Definition denotes_net (s : str) (k : tkind) (r : str) : bool :=
  match k with
  | KNet4 => match net4_of s with Some r' => str_eqb r r' | None => false end
  | KNet6 => net6_shallow s r
  | _ => false
  end.

(* JSON text of a boolean: json.loads skips exactly ' ', \t, \n, \r around the literal *)
Definition is_json_ws (c : N) : bool := (c =? 32) || (c =? 9) || (c =? 10) || (c =? 13).
Fixpoint drop_jws (s : str) : str := match s with c :: r => if is_json_ws c then drop_jws r else s | [] => [] end.
Definition json_bool_text (s : str) : option bool :=
  let t := rev (drop_jws (rev (drop_jws s))) in
  if str_eqb t [116; 114; 117; 101] then Some true
  else if str_eqb t [102; 97; 108; 115; 101] then Some false else None.
