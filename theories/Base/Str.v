(* Strings are sequences of code points; everything pycfmodel does with text is modelled on [list N]. *)
From Coq Require Import List Bool NArith ZArith Lia Ascii String.
Import ListNotations.
Local Open Scope N_scope.

Definition str := list N.

Fixpoint str_eqb (a b : str) : bool :=
  match a, b with
  | [], [] => true
  | x :: a', y :: b' => N.eqb x y && str_eqb a' b'
  | _, _ => false
  end.

Lemma str_eqb_spec a b : str_eqb a b = true <-> a = b.
Proof.
  revert b; induction a as [|x a IH]; destruct b as [|y b]; simpl; try (split; congruence).
  rewrite andb_true_iff, N.eqb_eq, IH.
  split; [intros [-> ->]; reflexivity | intros H; inversion H; auto].
Qed.
Lemma str_eqb_refl a : str_eqb a a = true.
Proof. apply str_eqb_spec; reflexivity. Qed.
Lemma str_eqb_neq a b : str_eqb a b = false <-> a <> b.
Proof.
  split.
  - intros H E. apply str_eqb_spec in E. congruence.
  - intros H. destruct (str_eqb a b) eqn:E; [apply str_eqb_spec in E; contradiction | reflexivity].
Qed.
Lemma str_eqb_sym a b : str_eqb a b = str_eqb b a.
Proof.
  destruct (str_eqb a b) eqn:E.
  - apply str_eqb_spec in E; subst. symmetry; apply str_eqb_refl.
  - symmetry. apply str_eqb_neq. apply str_eqb_neq in E. congruence.
Qed.
Lemma str_eq_dec (a b : str) : {a = b} + {a <> b}.
Proof. destruct (str_eqb a b) eqn:E; [left; apply str_eqb_spec; exact E | right; apply str_eqb_neq; exact E]. Qed.

(* Python's ordering of str: lexicographic by code point. *)
Fixpoint str_ltb (a b : str) : bool :=
  match a, b with
  | [], [] => false
  | [], _ :: _ => true
  | _ :: _, [] => false
  | x :: a', y :: b' => match x ?= y with Lt => true | Eq => str_ltb a' b' | Gt => false end
  end.
Definition str_lt (a b : str) : Prop := str_ltb a b = true.

Lemma str_ltb_irrefl a : str_ltb a a = false.
Proof. induction a as [|x a IH]; simpl; [reflexivity|]. rewrite N.compare_refl. exact IH. Qed.
Lemma str_ltb_trans a : forall b c, str_ltb a b = true -> str_ltb b c = true -> str_ltb a c = true.
Proof.
  induction a as [|x a IH]; intros [|y b] [|z c]; simpl; try congruence.
  destruct (N.compare_spec x y) as [Exy|Exy|Exy]; destruct (N.compare_spec y z) as [Eyz|Eyz|Eyz];
    intros H1 H2; try discriminate; subst.
  - rewrite N.compare_refl. eapply IH; eauto.
  - apply N.compare_lt_iff in Eyz. rewrite Eyz. reflexivity.
  - apply N.compare_lt_iff in Exy. rewrite Exy. reflexivity.
  - assert (x < z) as L by lia. apply N.compare_lt_iff in L. rewrite L. reflexivity.
Qed.
Lemma str_ltb_total a : forall b, str_ltb a b = false -> str_ltb b a = false -> a = b.
Proof.
  induction a as [|x a IH]; intros [|y b]; simpl; try congruence.
  rewrite (N.compare_antisym x y).
  destruct (N.compare_spec x y) as [E|E|E]; simpl; try discriminate.
  - subst. intros H1 H2. f_equal. apply IH; assumption.
Qed.
Lemma str_ltb_asym a b : str_ltb a b = true -> str_ltb b a = false.
Proof.
  intros H. destruct (str_ltb b a) eqn:E; [|reflexivity].
  pose proof (str_ltb_trans _ _ _ H E) as C. rewrite str_ltb_irrefl in C. discriminate.
Qed.

(* Literals: Coq [string] (bytes) to code points.  Only used for ASCII constants and generated tables
   (non-ASCII table entries are emitted as explicit code-point lists by the translator). *)
Fixpoint of_string (s : string) : str :=
  match s with
  | EmptyString => []
  | String c s' => N_of_ascii c :: of_string s'
  end.

Fixpoint join (d : str) (l : list str) : str :=
  match l with
  | [] => []
  | [x] => x
  | x :: xs => x ++ d ++ join d xs
  end.

Fixpoint starts_with (p s : str) : bool :=
  match p, s with
  | [], _ => true
  | x :: p', y :: s' => N.eqb x y && starts_with p' s'
  | _ :: _, [] => false
  end.
Lemma starts_with_spec p s : starts_with p s = true <-> exists r, s = p ++ r.
Proof.
  revert s; induction p as [|x p IH]; intros s; simpl.
  - split; [intros _; exists s; reflexivity | reflexivity].
  - destruct s as [|y s]; [split; [discriminate | intros [r H]; discriminate]|].
    rewrite andb_true_iff, N.eqb_eq, IH. split.
    + intros [-> [r ->]]. exists r. reflexivity.
    + intros [r H]. inversion H; subst. split; [reflexivity | exists r; reflexivity].
Qed.

(* split s on a non-empty delimiter, Python's str.split(d). *)
Fixpoint split_go (fuel : nat) (d : str) (cur : str) (s : str) : list str :=
  match fuel with
  | O => [rev cur ++ s]
  | S f =>
      match s with
      | [] => [rev cur]
      | c :: s' =>
          if starts_with d s then rev cur :: split_go f d [] (skipn (List.length d) s)
          else split_go f d (c :: cur) s'
      end
  end.
Definition split (d s : str) : list str := split_go (S (List.length s)) d [] s.

(* ASCII case mapping (Python str.lower()/upper() restricted to ASCII; the harness keeps non-ASCII
   cased letters out of positions where the implementation lower-cases, and says so). *)
Definition lower_cp (c : N) : N := if (65 <=? c) && (c <=? 90) then c + 32 else c.
Definition upper_cp (c : N) : N := if (97 <=? c) && (c <=? 122) then c - 32 else c.
Definition lower (s : str) : str := map lower_cp s.
Lemma lower_cp_idem c : lower_cp (lower_cp c) = lower_cp c.
Proof.
  unfold lower_cp. destruct ((65 <=? c) && (c <=? 90)) eqn:E; [|rewrite E; reflexivity].
  apply andb_true_iff in E. destruct E as [E1 E2]. apply N.leb_le in E1. apply N.leb_le in E2.
  replace (65 <=? c + 32) with true by (symmetry; apply N.leb_le; lia).
  replace (c + 32 <=? 90) with false by (symmetry; apply N.leb_gt; lia). reflexivity.
Qed.
Lemma lower_idem s : lower (lower s) = lower s.
Proof. unfold lower. rewrite map_map. apply map_ext. apply lower_cp_idem. Qed.

(* decimal rendering of integers, Python's str(int) *)
Fixpoint digits_pos_go (fuel : nat) (n : N) (acc : str) : str :=
  match fuel with
  | O => acc
  | S f => let acc' := (48 + n mod 10) :: acc in
           if n / 10 =? 0 then acc' else digits_pos_go f (n / 10) acc'
  end.
Definition digits_N (n : N) : str := digits_pos_go (S (N.to_nat (N.log2 n))) n [].
Definition str_of_Z (z : Z) : str :=
  match z with
  | Z0 => [48]
  | Zpos p => digits_N (Npos p)
  | Zneg p => 45 :: digits_N (Npos p)
  end.
