(* JSON-like values shared by every model: what json.load gives pycfmodel plus the typed atoms that
   model_dump() produces (dates, datetimes, IP networks, floats carried with their Python str() text; bytes). *)
From Coq Require Import List Bool NArith ZArith Lia.
From PV Require Import Base.Str.
Import ListNotations.

Inductive tkind := KFloat | KDate | KDatetime | KNet4 | KNet6.
Definition tkind_eqb (a b : tkind) : bool :=
  match a, b with
  | KFloat, KFloat | KDate, KDate | KDatetime, KDatetime | KNet4, KNet4 | KNet6, KNet6 => true
  | _, _ => false
  end.

Inductive value :=
| VNull
| VBool (b : bool)
| VInt (z : Z)
| VStr (s : str)
| VTyped (k : tkind) (text : str)
| VBytes (bs : list N)
| VList (l : list value)
| VDict (d : list (str * value)).

Section ValueInd.
  Variable P : value -> Prop.
  Hypothesis Hnull : P VNull.
  Hypothesis Hbool : forall b, P (VBool b).
  Hypothesis Hint : forall z, P (VInt z).
  Hypothesis Hstr : forall s, P (VStr s).
  Hypothesis Htyped : forall k t, P (VTyped k t).
  Hypothesis Hbytes : forall b, P (VBytes b).
  Hypothesis Hlist : forall l, Forall P l -> P (VList l).
  Hypothesis Hdict : forall d, Forall (fun kv => P (snd kv)) d -> P (VDict d).
  Fixpoint value_ind' (v : value) : P v :=
    match v with
    | VNull => Hnull | VBool b => Hbool b | VInt z => Hint z | VStr s => Hstr s
    | VTyped k t => Htyped k t | VBytes b => Hbytes b
    | VList l => Hlist l ((fix go (l : list value) : Forall P l :=
        match l with [] => Forall_nil _ | x :: xs => Forall_cons _ (value_ind' x) (go xs) end) l)
    | VDict d => Hdict d ((fix go (d : list (str * value)) : Forall (fun kv => P (snd kv)) d :=
        match d with [] => Forall_nil _ | (k, x) :: xs => Forall_cons (k, x) (value_ind' x) (go xs) end) d)
    end.
End ValueInd.

Fixpoint vsize (v : value) : nat :=
  match v with
  | VList l => S (fold_right (fun x acc => vsize x + acc) 0 l)
  | VDict d => S (fold_right (fun kv acc => vsize (snd kv) + acc) 0 d)
  | _ => 1
  end.
Lemma vsize_pos v : 0 < vsize v.
Proof. destruct v; simpl; lia. Qed.
Lemma vsize_in_list x l : In x l -> vsize x < vsize (VList l).
Proof.
  induction l as [|y l IH]; simpl; [tauto|]. intros [->|H]; [lia|]. specialize (IH H). simpl in IH. lia.
Qed.
Lemma vsize_in_dict k x d : In (k, x) d -> vsize x < vsize (VDict d).
Proof.
  induction d as [|[k' y] d IH]; simpl; [tauto|].
  intros [H|H]; [inversion H; subst; lia|]. specialize (IH H). simpl in IH. lia.
Qed.

Fixpoint lookup {A} (k : str) (d : list (str * A)) : option A :=
  match d with
  | [] => None
  | (k', v) :: d' => if str_eqb k k' then Some v else lookup k d'
  end.
Definition keys {A} (d : list (str * A)) : list str := map fst d.
Definition mem_str (k : str) (l : list str) : bool := existsb (str_eqb k) l.
Lemma mem_str_In k l : mem_str k l = true <-> In k l.
Proof.
  unfold mem_str. rewrite existsb_exists. split.
  - intros (x & Hx & He). apply str_eqb_spec in He. subst. exact Hx.
  - intros H. exists k. split; [exact H | apply str_eqb_refl].
Qed.
Lemma lookup_In {A} k (d : list (str * A)) v : lookup k d = Some v -> In (k, v) d.
Proof.
  induction d as [|[k' v'] d IH]; simpl; [discriminate|].
  destruct (str_eqb k k') eqn:E.
  - apply str_eqb_spec in E; subst. intros H; inversion H; subst. left; reflexivity.
  - intros H. right. apply IH. exact H.
Qed.
Lemma lookup_None {A} k (d : list (str * A)) : lookup k d = None <-> ~ In k (keys d).
Proof.
  induction d as [|[k' v'] d IH]; simpl; [tauto|].
  destruct (str_eqb k k') eqn:E.
  - apply str_eqb_spec in E; subst. split; [discriminate | intros H; exfalso; apply H; left; reflexivity].
  - apply str_eqb_neq in E. rewrite IH. split; [intros H [C|C]; [congruence | tauto] | tauto].
Qed.

(* Python exceptions are explicit.  EUndefined: the model declines to speak (ill-typed input whose
   behaviour in the code is an artefact); such cases are never compared and are counted. *)
Inductive err := EValue | EType | EAttr | EIndex | EKey | EValidation | ERecursion | EUndefined.
Inductive res (A : Type) := Ok (a : A) | Err (e : err).
Arguments Ok {A}. Arguments Err {A}.
Definition bind {A B} (r : res A) (f : A -> res B) : res B :=
  match r with Ok a => f a | Err e => Err e end.
Notation "x <- r ;; k" := (bind r (fun x => k)) (at level 61, r at next level, right associativity).
Definition is_ok {A} (r : res A) : bool := match r with Ok _ => true | Err _ => false end.

Ltac inv H := inversion H; subst; clear H.
Ltac bind_inv :=
  repeat match goal with
  | H : bind ?r _ = Ok _ |- _ =>
      let E := fresh "E" in destruct r eqn:E; cbn [bind] in H; [|discriminate]
  end.

(* Python == on plain data: dict equality ignores key order. [veqb] is that equality on values
   whose dicts have unique keys (json.load guarantees it). *)
Fixpoint veqb (a b : value) {struct a} : bool :=
  match a, b with
  | VNull, VNull => true
  | VBool x, VBool y => Bool.eqb x y
  | VInt x, VInt y => Z.eqb x y
  | VStr x, VStr y => str_eqb x y
  | VTyped k x, VTyped k' y => tkind_eqb k k' && str_eqb x y
  | VBytes x, VBytes y => str_eqb x y
  | VList la, VList lb =>
      (fix go (la lb : list value) : bool :=
         match la, lb with
         | [], [] => true
         | x :: xs, y :: ys => veqb x y && go xs ys
         | _, _ => false
         end) la lb
  | VDict da, VDict db =>
      Nat.eqb (length da) (length db) &&
      (fix go (da : list (str * value)) : bool :=
         match da with
         | [] => true
         | (k, x) :: xs => match lookup k db with Some y => veqb x y | None => false end && go xs
         end) da
  | _, _ => false
  end.

(* order-sensitive structural equality (used only to compare runner output with kernel evaluation) *)
Fixpoint vstrict_eqb (a b : value) {struct a} : bool :=
  match a, b with
  | VNull, VNull => true
  | VBool x, VBool y => Bool.eqb x y
  | VInt x, VInt y => Z.eqb x y
  | VStr x, VStr y => str_eqb x y
  | VTyped k x, VTyped k' y => tkind_eqb k k' && str_eqb x y
  | VBytes x, VBytes y => str_eqb x y
  | VList la, VList lb =>
      (fix go (la lb : list value) : bool :=
         match la, lb with
         | [], [] => true
         | x :: xs, y :: ys => vstrict_eqb x y && go xs ys
         | _, _ => false
         end) la lb
  | VDict da, VDict db =>
      (fix go (da db : list (str * value)) : bool :=
         match da, db with
         | [], [] => true
         | (k, x) :: xs, (k', y) :: ys => str_eqb k k' && vstrict_eqb x y && go xs ys
         | _, _ => false
         end) da db
  | _, _ => false
  end.
