(* decode after encode is the identity: the wire format loses nothing (for every value whose nesting depth the fuel covers). *)
From Coq Require Import List Bool NArith ZArith Lia.
From PV Require Import Base.Str Base.Value Base.Wire.
Import ListNotations.
Local Open Scope N_scope.

Fixpoint vdepth (v : value) : nat :=
  match v with
  | VList l => S (fold_right (fun x acc => Nat.max (vdepth x) acc) 0%nat l)
  | VDict d => S (fold_right (fun kv acc => Nat.max (vdepth (snd kv)) acc) 0%nat d)
  | _ => 1%nat
  end.

Lemma take_n_app {A} (a b : list A) : take_n (length a) (a ++ b) = Some (a, b).
Proof. induction a as [|x a IH]; simpl; [reflexivity | rewrite IH; reflexivity]. Qed.

Lemma limbs_roundtrip : forall fuel n, n < 2 ^ N.of_nat fuel -> limbs_to_N (N_to_limbs fuel n) = n.
Proof.
  induction fuel as [|f IH]; intros n Hn.
  - cbn in Hn. assert (n = 0) by (destruct n; [reflexivity | destruct p; discriminate Hn]). subst. reflexivity.
  - cbn [N_to_limbs]. destruct (n =? 0) eqn:E; [apply N.eqb_eq in E; subst; reflexivity|].
    cbn [limbs_to_N]. rewrite IH.
    + pose proof (N.div_mod' n LIMB) as Hdm. lia.
    + rewrite Nat2N.inj_succ, N.pow_succ_r' in Hn.
      apply N.div_lt_upper_bound; [unfold LIMB; lia|].
      assert (HL : 2 <= LIMB) by (unfold LIMB; lia).
      assert (Hp : 0 < 2 ^ N.of_nat f) by (apply N.neq_0_lt_0; apply N.pow_nonzero; lia).
      nia.
Qed.
Lemma limbs_roundtrip_log m : limbs_to_N (N_to_limbs (S (N.to_nat (N.log2 m))) m) = m.
Proof.
  apply limbs_roundtrip. destruct m as [|p]; [simpl; lia|].
  rewrite Nat2N.inj_succ, N2Nat.id. apply N.log2_spec. lia.
Qed.

Lemma kind_roundtrip k : kind_of_code (kind_code k) = Some k.
Proof. destruct k; reflexivity. Qed.

Section Members.
Variable d : list N -> option (value * list N).
Lemma dec_list_roundtrip l : Forall (fun x => forall rest, d (enc x ++ rest) = Some (x, rest)) l ->
  forall rest, dec_list d (length l) (flat_map enc l ++ rest) = Some (l, rest).
Proof.
  induction 1 as [|x xs Hx Hxs IH]; intros rest; [reflexivity|].
  simpl. rewrite <- app_assoc, Hx, IH. reflexivity.
Qed.
Lemma dec_dict_roundtrip l : Forall (fun kv => forall rest, d (enc (snd kv) ++ rest) = Some (snd kv, rest)) l ->
  forall rest, dec_dict d (length l)
    (flat_map (fun kv => N.of_nat (length (fst kv)) :: fst kv ++ enc (snd kv)) l ++ rest) = Some (l, rest).
Proof.
  induction 1 as [|[k x] xs Hx Hxs IH]; intros rest; [reflexivity|].
  simpl in *. rewrite Nat2N.id. rewrite <- !app_assoc. rewrite take_n_app. rewrite Hx, IH. reflexivity.
Qed.
End Members.

Lemma max_le_fold {A} (f : A -> nat) l x : In x l -> (f x <= fold_right (fun y acc => Nat.max (f y) acc) 0 l)%nat.
Proof. induction l as [|y l IH]; simpl; [tauto|]. intros [->|H]; [lia | specialize (IH H); lia]. Qed.

Local Opaque N_to_limbs limbs_to_N N.log2 Z.abs_N.
Theorem wire_roundtrip : forall fuel v rest, (vdepth v <= fuel)%nat -> dec fuel (enc v ++ rest) = Some (v, rest).
Proof.
  induction fuel as [|f IH]; intros v rest Hd; [destruct v; simpl in Hd; lia|].
  destruct v as [| b | z | s | k t | bs | l | dd]; simpl.
  - reflexivity.
  - destruct b; reflexivity.
  - rewrite Nat2N.id, take_n_app, limbs_roundtrip_log.
    destruct z as [|p|p]; cbn [Z.ltb Z.compare N.eqb]; rewrite N2Z.inj_abs_N; reflexivity.
  - rewrite Nat2N.id, take_n_app. reflexivity.
  - rewrite kind_roundtrip, Nat2N.id, take_n_app. reflexivity.
  - rewrite Nat2N.id, take_n_app. reflexivity.
  - rewrite Nat2N.id. rewrite (dec_list_roundtrip (dec f) l); [reflexivity|].
    apply Forall_forall. intros x Hx r. apply IH. simpl in Hd. pose proof (max_le_fold vdepth l x Hx). lia.
  - rewrite Nat2N.id. rewrite (dec_dict_roundtrip (dec f) dd); [reflexivity|].
    apply Forall_forall. intros [k x] Hx r. simpl. apply IH. simpl in Hd.
    pose proof (max_le_fold (fun kv => vdepth (snd kv)) dd (k, x) Hx). simpl in H. lia.
Qed.

Corollary decode_enc v : (vdepth v <= DEPTH_FUEL)%nat -> decode (enc v) = Some v.
Proof. intros H. unfold decode. rewrite <- (app_nil_r (enc v)). rewrite wire_roundtrip by assumption. reflexivity. Qed.
