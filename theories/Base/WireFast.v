(* Encoder with an accumulator: the same token list as [Wire.enc], but the recursion depth in extracted code is
   (nesting depth x longest list), not the total size of the output -- a tree that holds an 18 000-entry action list
   three levels deep no longer overflows the runner's stack ([enc] appends the whole encoding of each member). *)
From Coq Require Import List Bool NArith ZArith.
From PV Require Import Base.Str Base.Value Base.Wire.
Import ListNotations.
Local Open Scope N_scope.

Fixpoint enc_to (v : value) (acc : list N) : list N :=
  match v with
  | VList l =>
      6 :: N.of_nat (length l) ::
        (fix go (l : list value) : list N := match l with [] => acc | x :: r => enc_to x (go r) end) l
  | VDict d =>
      7 :: N.of_nat (length d) ::
        (fix go (d : list (str * value)) : list N :=
           match d with
           | [] => acc
           | (k, x) :: r => N.of_nat (length k) :: k ++ enc_to x (go r)
           end) d
  | _ => enc v ++ acc
  end.

Lemma enc_to_ok v : forall acc, enc_to v acc = enc v ++ acc.
Proof.
  induction v as [| | | | | |l IH|d IH] using value_ind'; intros acc; try reflexivity.
  - cbn [enc_to enc app]. do 2 f_equal.
    induction IH as [|x r Hx Hr IHr]; [reflexivity|]. cbn [flat_map]. rewrite Hx, IHr, app_assoc. reflexivity.
  - cbn [enc_to enc app]. do 2 f_equal.
    induction IH as [|[k x] r Hx Hr IHr]; [reflexivity|]. cbn [flat_map fst snd] in *.
    rewrite Hx, IHr. cbn [app]. f_equal. rewrite <- !app_assoc. reflexivity.
Qed.

Definition enc_fast (v : value) : list N := enc_to v [].
Theorem enc_fast_ok v : enc_fast v = enc v.
Proof. unfold enc_fast. rewrite enc_to_ok. apply app_nil_r. Qed.
