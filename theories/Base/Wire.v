(* Wire format between the Python harness and the extracted runner: a value is a sequence of naturals.
   0 | 1 b | 2 sign k limb*k (base 2^30, little endian) | 3 n cp*n | 4 kind n cp*n | 5 n byte*n
   | 6 n value*n | 7 n (klen cp*klen value)*n *)
From Coq Require Import List Bool NArith ZArith Lia.
From PV Require Import Base.Str Base.Value.
Import ListNotations.
Local Open Scope N_scope.

Fixpoint take_n {A} (n : nat) (l : list A) : option (list A * list A) :=
  match n with
  | O => Some ([], l)
  | S n' => match l with
            | [] => None
            | x :: l' => match take_n n' l' with Some (a, b) => Some (x :: a, b) | None => None end
            end
  end.

Definition LIMB : N := 1073741824. (* 2^30 *)
Fixpoint limbs_to_N (l : list N) : N :=
  match l with [] => 0 | x :: xs => x + LIMB * limbs_to_N xs end.
Fixpoint N_to_limbs (fuel : nat) (n : N) : list N :=
  match fuel with
  | O => []
  | S f => if n =? 0 then [] else (n mod LIMB) :: N_to_limbs f (n / LIMB)
  end.

Definition kind_code (k : tkind) : N :=
  match k with KFloat => 0 | KDate => 1 | KDatetime => 2 | KNet4 => 3 | KNet6 => 4 end.
Definition kind_of_code (c : N) : option tkind :=
  match c with 0 => Some KFloat | 1 => Some KDate | 2 => Some KDatetime | 3 => Some KNet4 | 4 => Some KNet6
  | _ => None end.

Fixpoint enc (v : value) : list N :=
  match v with
  | VNull => [0]
  | VBool b => [1; if b then 1 else 0]
  | VInt z =>
      let m := Z.abs_N z in
      let ls := N_to_limbs (S (N.to_nat (N.log2 m))) m in
      2 :: (if Z.ltb z 0 then 1 else 0) :: N.of_nat (length ls) :: ls
  | VStr s => 3 :: N.of_nat (length s) :: s
  | VTyped k t => 4 :: kind_code k :: N.of_nat (length t) :: t
  | VBytes b => 5 :: N.of_nat (length b) :: b
  | VList l => 6 :: N.of_nat (length l) :: flat_map enc l
  | VDict d => 7 :: N.of_nat (length d) ::
      flat_map (fun kv => N.of_nat (length (fst kv)) :: fst kv ++ enc (snd kv)) d
  end.

(* n members / n entries with a given member decoder *)
Definition dec_list (d : list N -> option (value * list N)) : nat -> list N -> option (list value * list N) :=
  fix go (n : nat) (t : list N) : option (list value * list N) :=
    match n with
    | O => Some ([], t)
    | S n' => match d t with
              | Some (v, t') => match go n' t' with
                                | Some (vs, t'') => Some (v :: vs, t'')
                                | None => None
                                end
              | None => None
              end
    end.
Definition dec_dict (d : list N -> option (value * list N)) : nat -> list N -> option (list (str * value) * list N) :=
  fix go (n : nat) (t : list N) : option (list (str * value) * list N) :=
    match n with
    | O => Some ([], t)
    | S n' =>
        match t with
        | kl :: t1 =>
            match take_n (N.to_nat kl) t1 with
            | Some (k, t2) =>
                match d t2 with
                | Some (v, t3) => match go n' t3 with
                                  | Some (kvs, t4) => Some ((k, v) :: kvs, t4)
                                  | None => None
                                  end
                | None => None
                end
            | None => None
            end
        | [] => None
        end
    end.

Fixpoint dec (fuel : nat) (t : list N) : option (value * list N) :=
  match fuel with
  | O => None
  | S f =>
      match t with
      | 0 :: r => Some (VNull, r)
      | 1 :: b :: r => Some (VBool (negb (b =? 0)), r)
      | 2 :: sg :: k :: r =>
          match take_n (N.to_nat k) r with
          | Some (ls, r') =>
              let m := Z.of_N (limbs_to_N ls) in
              Some (VInt (if sg =? 0 then m else Z.opp m), r')
          | None => None
          end
      | 3 :: n :: r =>
          match take_n (N.to_nat n) r with Some (s, r') => Some (VStr s, r') | None => None end
      | 4 :: k :: n :: r =>
          match kind_of_code k, take_n (N.to_nat n) r with
          | Some kd, Some (s, r') => Some (VTyped kd s, r')
          | _, _ => None
          end
      | 5 :: n :: r =>
          match take_n (N.to_nat n) r with Some (s, r') => Some (VBytes s, r') | None => None end
      | 6 :: n :: r =>
          match dec_list (dec f) (N.to_nat n) r with
          | Some (vs, r') => Some (VList vs, r')
          | None => None
          end
      | 7 :: n :: r =>
          match dec_dict (dec f) (N.to_nat n) r with
          | Some (kvs, r') => Some (VDict kvs, r')
          | None => None
          end
      | _ => None
      end
  end.

(* fuel bounds the NESTING DEPTH only (one unit per container level), not the size *)
Definition DEPTH_FUEL : nat := N.to_nat 4096.
Definition decode (t : list N) : option value :=
  match dec DEPTH_FUEL t with Some (v, _) => Some v | None => None end.

Definition err_code (e : err) : Z :=
  match e with EValue => 1 | EType => 2 | EAttr => 3 | EIndex => 4 | EKey => 5 | EValidation => 6
  | ERecursion => 7 | EUndefined => 8 end.
Definition enc_res (r : res value) : value :=
  match r with Ok v => VList [VInt 0; v] | Err e => VList [VInt 1; VInt (err_code e)] end.
Definition vbool (b : bool) : value := VBool b.
Definition vopt_bool (o : option bool) : value := match o with Some b => VBool b | None => VNull end.
