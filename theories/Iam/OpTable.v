(* Finite facts about the GENERATED operator table gen/Operators.v (= the fields of the live StatementCondition class,
   in declaration order), re-proved by the kernel on every run with vm_compute. *)
From Coq Require Import List Bool NArith.
From PV Require Import Base.Str Base.Value Iam.Ops Iam.OpNames.
From PVGen Require Import Operators.
Import ListNotations.

(* one row: the family is the one its base operator requires; the field NAME alone, read with the stripping rule of
   build_root_evaluator, gives back exactly (qualifier, base operator, IfExists); the name holds no colon *)
Definition entry_ok (e : op_entry) : bool :=
  fam_eqb (e_fam e) (family (e_base e))
  && match parse_name (e_name e) with
     | Some (q, o, i) => qual_eqb q (e_qual e) && base_op_eqb o (e_base e) && Bool.eqb i (e_ifx e)
     | None => false
     end
  && str_eqb (norm_name (e_name e)) (e_name e).

Definition combo_eqb (q : qual) (o : base_op) (i : bool) (e : op_entry) : bool :=
  qual_eqb (e_qual e) q && base_op_eqb (e_base e) o && Bool.eqb (e_ifx e) i.
Definition has_combo (tbl : list op_entry) (q : qual) (o : base_op) (i : bool) : bool := existsb (combo_eqb q o i) tbl.
Definition count_combo (tbl : list op_entry) (q : qual) (o : base_op) (i : bool) : nat :=
  length (filter (combo_eqb q o i) tbl).

Fixpoint nodup_names (l : list str) : bool :=
  match l with [] => true | x :: r => negb (mem_str x r) && nodup_names r end.
Lemma nodup_names_ok l : nodup_names l = true -> NoDup l.
Proof.
  induction l as [|x r IH]; simpl; [constructor|].
  rewrite andb_true_iff, negb_true_iff. intros [H1 H2]. constructor; [|auto].
  intros HI. apply mem_str_In in HI. congruence.
Qed.

Lemma qual_eqb_eq a b : qual_eqb a b = true <-> a = b.
Proof. destruct a, b; simpl; split; congruence. Qed.
Lemma fam_eqb_eq a b : fam_eqb a b = true <-> a = b.
Proof. destruct a, b; simpl; split; congruence. Qed.
Lemma combo_eqb_spec q o i e : combo_eqb q o i e = true <-> e_qual e = q /\ e_base e = o /\ e_ifx e = i.
Proof.
  unfold combo_eqb. rewrite !andb_true_iff, qual_eqb_eq, base_op_eqb_eq, eqb_true_iff. tauto.
Qed.
Lemma has_combo_spec tbl q o i :
  has_combo tbl q o i = true <-> exists e, In e tbl /\ e_qual e = q /\ e_base e = o /\ e_ifx e = i.
Proof.
  unfold has_combo. rewrite existsb_exists. split; intros (e & H1 & H2); exists e; (split; [exact H1|]); apply combo_eqb_spec; exact H2.
Qed.

(* ---- the live table ---- *)

Lemma entries_ok_b : forallb entry_ok OPERATORS = true.
Proof. vm_compute. reflexivity. Qed.

(* every row is well formed *)
Theorem Operators_rows_ok : forall e, In e OPERATORS ->
  e_fam e = family (e_base e)
  /\ parse_name (e_name e) = Some (e_qual e, e_base e, e_ifx e)
  /\ norm_name (e_name e) = e_name e.
Proof.
  intros e He. pose proof (proj1 (forallb_forall _ _) entries_ok_b e He) as H.
  unfold entry_ok in H. rewrite !andb_true_iff in H. destruct H as [[H1 H2] H3].
  apply fam_eqb_eq in H1. apply str_eqb_spec in H3.
  destruct (parse_name (e_name e)) as [[[q o] i]|]; [|discriminate].
  rewrite !andb_true_iff, qual_eqb_eq, base_op_eqb_eq, eqb_true_iff in H2. destruct H2 as [[-> ->] ->].
  auto.
Qed.

(* which (qualifier, operator, IfExists) combinations exist: ALL of them, except that Null has no IfExists variant
   (Null keeps its three qualifier forms) -- and each exactly once *)
Theorem Operators_combos : forall q o i,
  count_combo OPERATORS q o i = if (base_op_eqb o ONull && i)%bool then 0 else 1.
Proof. intros q o i. destruct o, q, i; vm_compute; reflexivity. Qed.

Theorem Operators_names_nodup : NoDup (map e_name OPERATORS).
Proof. apply nodup_names_ok. vm_compute. reflexivity. Qed.

Theorem Operators_count : length OPERATORS = 159.
Proof. vm_compute. reflexivity. Qed.

Lemma count_pos_has tbl q o i : count_combo tbl q o i <> 0 <-> has_combo tbl q o i = true.
Proof.
  unfold count_combo, has_combo. induction tbl as [|e r IH]; simpl; [split; [congruence|discriminate]|].
  destruct (combo_eqb q o i e); simpl; [split; [reflexivity|discriminate]|exact IH].
Qed.

(* the statement asked for: every one of the 27 base operators occurs bare; every listed combination has the family
   its base operator requires and its name parses back to it; names are pairwise different; a combination is
   listed iff it is not Null+IfExists *)
Theorem Operators_complete :
  (forall o, exists e, In e OPERATORS /\ e_qual e = QNone /\ e_base e = o /\ e_ifx e = false)
  /\ (forall e, In e OPERATORS ->
        e_fam e = family (e_base e) /\ parse_name (e_name e) = Some (e_qual e, e_base e, e_ifx e))
  /\ NoDup (map e_name OPERATORS)
  /\ (forall q o i, (exists e, In e OPERATORS /\ e_qual e = q /\ e_base e = o /\ e_ifx e = i) <-> ~ (o = ONull /\ i = true))
  /\ length OPERATORS = 159.
Proof.
  split; [|split; [|split; [|split]]].
  - intros o. apply has_combo_spec. apply count_pos_has. rewrite Operators_combos.
    rewrite andb_false_r. discriminate.
  - intros e He. destruct (Operators_rows_ok e He) as (H1 & H2 & _). auto.
  - exact Operators_names_nodup.
  - intros q o i. rewrite <- has_combo_spec, <- count_pos_has, Operators_combos.
    destruct (base_op_eqb o ONull) eqn:E; simpl.
    + apply base_op_eqb_eq in E. destruct i; split; try congruence; try tauto.
      intros _ [_ H]. discriminate.
    + split; [|discriminate]. intros _ [H _]. apply base_op_eqb_eq in H. congruence.
  - exact Operators_count.
Qed.

(* what Block.v needs from a table *)
Theorem Operators_table_ok : table_ok OPERATORS.
Proof.
  split; [exact Operators_names_nodup|]. apply Forall_forall. intros e He. apply (Operators_rows_ok e He).
Qed.
