(* C11 -- the ORDER / EQUIVALENCE theory of the single IAM condition operators: laws of [op_test] (Iam/Ops.v) for ALL
   values, every [fold].  Nothing here changes Ops.v / OpsFacts.v.

   Reading of   op_test fold o p c   (from statement_condition.build_evaluator:  lambda kwargs: kwargs[key] <cmp> policy):
       p = the POLICY value   (the value written in the condition block, after validation)
       c = the REQUEST value  (kwargs[key], the context; CAbsent when the key is missing)
       {"NumericLessThan": {key: p}} holds on a request with request[key] = c   iff   c < p         (ord_sem)
   Results are three-valued:  Some true | Some false | None (the lambda raised: the operands are not comparable).

   A. orders         Numeric* and Date* are the SAME six Python comparisons; on comparable operands (two numbers -- a
                     bool is a number -- or two datetimes of the same awareness) they are the order of Z: trichotomy,
                     LessThanEquals = LessThan or Equals, GreaterThanEquals = not LessThan, NotEquals = not Equals,
                     converse (LessThan p c = GreaterThan c p), transitivity, antisymmetry, irreflexivity, totality;
                     two spellings of one instant in different UTC offsets are Equal
   B. equalities     the five ...Equals operators are one partial equivalence (==); StringEqualsIgnoreCase is the kernel
                     of [fold], coarser than StringEquals (strictly, as soon as fold identifies two texts); StringLike is
                     the glob match, equal to StringEquals exactly for wildcard-free patterns; the Arn operators ARE the
                     String operators (so ArnEquals is plain equality, NOT a glob match: arn_equals_is_like_refuted)
   C. networks       IpAddress p c  iff  c is a subnet of p: reflexive, transitive, antisymmetric on well-formed networks,
                     monotone in the prefix length (link to Net/Arith.v's mk_net), /0 accepts everything of its version
                     and is the only network that does; NotIpAddress is its negation wherever defined
   D. Bool           identity of booleans: an equivalence on booleans, False for every other request value
   E. general        every (op, negated op) pair is defined on exactly the same operands; [None] characterised, per
                     class of operators, as an iff; three-valuedness *)
From Coq Require Import List Bool NArith ZArith Lia.
From PV Require Net.Arith.
From PV Require Import Base.Str Base.Value Glob.Glob Run.RState Iam.IpNet Iam.Ops Iam.OpsFacts.
Import ListNotations.

(* pointwise lifting of a boolean connective to results that may be undefined *)
Definition lift2 (f : bool -> bool -> bool) (a b : option bool) : option bool :=
  match a, b with Some x, Some y => Some (f x y) | _, _ => None end.

(* ================================================================================================================
   A. ORDERS *)

(* the two families of ordering operators *)
Inductive ordfam := ONum | ODat.
Definition o_eq (f : ordfam) : base_op := match f with ONum => ONumericEquals | ODat => ODateEquals end.
Definition o_ne (f : ordfam) : base_op := match f with ONum => ONumericNotEquals | ODat => ODateNotEquals end.
Definition o_lt (f : ordfam) : base_op := match f with ONum => ONumericLessThan | ODat => ODateLessThan end.
Definition o_le (f : ordfam) : base_op := match f with ONum => ONumericLessThanEquals | ODat => ODateLessThanEquals end.
Definition o_gt (f : ordfam) : base_op := match f with ONum => ONumericGreaterThan | ODat => ODateGreaterThan end.
Definition o_ge (f : ordfam) : base_op :=
  match f with ONum => ONumericGreaterThanEquals | ODat => ODateGreaterThanEquals end.

(* COMPARABLE operands: two numbers (Python: bool is an int), or two datetimes that are both aware or both naive.
   [comparable c p] names the request value first, as the Python code does (kwargs[key] < policy). *)
Definition comparable (c p : cval) : Prop :=
  (exists x y, as_int c = Some x /\ as_int p = Some y) \/ (exists a x y, c = CDate a x /\ p = CDate a y).

(* sort key: the kind of an orderable value (None = number, Some a = datetime of awareness a) and its place in Z *)
Definition okey (c : cval) : option (option bool * Z) :=
  match c with
  | CInt z => Some (None, z)
  | CBool b => Some (None, if b then 1 else 0)%Z
  | CDate a u => Some (Some a, u)
  | _ => None
  end.
Definition kind_eqb (k1 k2 : option bool) : bool :=
  match k1, k2 with None, None => true | Some a, Some b => Bool.eqb a b | _, _ => false end.
Lemma kind_eqb_eq k1 k2 : kind_eqb k1 k2 = true <-> k1 = k2.
Proof. destruct k1 as [[|]|], k2 as [[|]|]; simpl; split; congruence. Qed.
Lemma kind_eqb_refl k : kind_eqb k k = true.
Proof. apply kind_eqb_eq. reflexivity. Qed.

(* (x, y) = (place of the request value, place of the policy value) when the two are comparable *)
Definition ord_view (p c : cval) : option (Z * Z) :=
  match okey c, okey p with
  | Some (k1, x), Some (k2, y) => if kind_eqb k1 k2 then Some (x, y) else None
  | _, _ => None
  end.

Lemma ord_view_spec p c x y :
  ord_view p c = Some (x, y) <->
  (as_int c = Some x /\ as_int p = Some y) \/ (exists a, c = CDate a x /\ p = CDate a y).
Proof.
  unfold ord_view. split.
  - destruct (okey c) as [[k1 x1]|] eqn:Ec; [|discriminate].
    destruct (okey p) as [[k2 y1]|] eqn:Ep; [|discriminate].
    destruct (kind_eqb k1 k2) eqn:Ek; [|discriminate]. apply kind_eqb_eq in Ek. subst k2.
    intros H. inversion H; subst x1 y1. clear H.
    destruct c; simpl in Ec; try discriminate; inversion Ec; subst; clear Ec;
      destruct p; simpl in Ep; try discriminate; inversion Ep; subst; clear Ep; simpl;
      first [left; split; reflexivity | right; eexists; split; reflexivity].
  - intros [[Hc Hp]|[a [-> ->]]].
    + destruct c; simpl in Hc; try discriminate; inversion Hc; subst; clear Hc;
        destruct p; simpl in Hp; try discriminate; inversion Hp; subst; clear Hp; reflexivity.
    + simpl. rewrite eqb_reflx. reflexivity.
Qed.

Lemma comparable_view c p : comparable c p <-> exists x y, ord_view p c = Some (x, y).
Proof.
  unfold comparable. split.
  - intros [(x & y & H)|(a & x & y & H)]; exists x, y; apply ord_view_spec; [left; exact H|right; exists a; exact H].
  - intros (x & y & H). apply ord_view_spec in H. destruct H as [H|[a H]]; [left; exists x, y; exact H|right; exists a, x, y; exact H].
Qed.

Lemma comparable_sym c p : comparable c p -> comparable p c.
Proof.
  intros [(x & y & H1 & H2)|(a & x & y & H1 & H2)]; [left; exists y, x; auto | right; exists a, y, x; auto].
Qed.

(* Python's three-way comparison is the one of the sort keys *)
Lemma py_cmp_view a b :
  py_cmp a b = match ord_view b a with Some (x, y) => Some (x ?= y)%Z | None => None end.
Proof.
  unfold ord_view.
  destruct a as [| |ba|za|sa|aa ua|na|bsa| |]; destruct b as [| |bb|zb|sb|ab ub|nb|bsb| |]; try reflexivity.
  unfold py_cmp; simpl. destruct (Bool.eqb aa ab); reflexivity.
Qed.
Lemma py_eq_view a b x y : ord_view b a = Some (x, y) -> py_eq a b = (x =? y)%Z.
Proof.
  intros H. apply ord_view_spec in H. destruct H as [[Ha Hb]|[w [-> ->]]].
  - unfold py_eq. rewrite Ha, Hb. reflexivity.
  - unfold py_eq; simpl. rewrite eqb_reflx. reflexivity.
Qed.
Lemma ord_view_present p c x y : ord_view p c = Some (x, y) -> p <> CFn /\ c <> CAbsent.
Proof. unfold ord_view. destruct c; simpl; try discriminate; destruct p; simpl; try discriminate; split; discriminate. Qed.
Lemma ord_view_none_absent p : ord_view p CAbsent = None. Proof. reflexivity. Qed.
Lemma ord_view_none_fn c : ord_view CFn c = None. Proof. unfold ord_view. destruct (okey c) as [[? ?]|]; reflexivity. Qed.
Lemma ord_view_swap p c : ord_view c p = match ord_view p c with Some (x, y) => Some (y, x) | None => None end.
Proof.
  unfold ord_view. destruct (okey c) as [[k1 x]|], (okey p) as [[k2 y]|]; try reflexivity.
  replace (kind_eqb k2 k1) with (kind_eqb k1 k2) by (destruct k1 as [[|]|], k2 as [[|]|]; reflexivity).
  destruct (kind_eqb k1 k2); reflexivity.
Qed.
Lemma ord_view_chain a b c x y y' z :
  ord_view b a = Some (x, y) -> ord_view c b = Some (y', z) -> y' = y /\ ord_view c a = Some (x, z).
Proof.
  unfold ord_view.
  destruct (okey a) as [[ka xa]|]; [|discriminate]. destruct (okey b) as [[kb xb]|]; [|discriminate].
  destruct (kind_eqb ka kb) eqn:E1; [|discriminate]. intros H1. inversion H1; subst xa xb. clear H1.
  destruct (okey c) as [[kc xc]|]; [|discriminate].
  destruct (kind_eqb kb kc) eqn:E2; [|discriminate]. intros H2. inversion H2; subst y' xc. clear H2.
  apply kind_eqb_eq in E1. apply kind_eqb_eq in E2. subst kb kc. rewrite kind_eqb_refl. auto.
Qed.
Lemma ord_view_refl a : (exists k x, okey a = Some (k, x)) -> exists x, ord_view a a = Some (x, x).
Proof. intros (k & x & H). exists x. unfold ord_view. rewrite H, kind_eqb_refl. reflexivity. Qed.

Lemma is_lt_ltb x y : is_lt (x ?= y)%Z = (x <? y)%Z. Proof. reflexivity. Qed.
Lemma is_le_leb x y : is_le (x ?= y)%Z = (x <=? y)%Z. Proof. reflexivity. Qed.
Lemma is_gt_ltb x y : is_gt (x ?= y)%Z = (y <? x)%Z.
Proof. rewrite <- Z.gtb_ltb. reflexivity. Qed.
Lemma is_ge_leb x y : is_ge (x ?= y)%Z = (y <=? x)%Z.
Proof. rewrite <- Z.geb_leb. reflexivity. Qed.

Section Algebra.
Variable fold : str -> str.
Notation op_test := (op_test fold).

(* the Numeric and the Date operators are the SAME functions of their operands (the code has one lambda for both) *)
Theorem ord_families_coincide p c :
  op_test ONumericEquals p c = op_test ODateEquals p c /\
  op_test ONumericNotEquals p c = op_test ODateNotEquals p c /\
  op_test ONumericLessThan p c = op_test ODateLessThan p c /\
  op_test ONumericLessThanEquals p c = op_test ODateLessThanEquals p c /\
  op_test ONumericGreaterThan p c = op_test ODateGreaterThan p c /\
  op_test ONumericGreaterThanEquals p c = op_test ODateGreaterThanEquals p c.
Proof. repeat split; reflexivity. Qed.

(* the four orderings, for ALL operands, through the view *)
Lemma order_by_view pick p c :
  match p with CFn => None | _ => test_order pick p c end
  = match ord_view p c with Some (x, y) => Some (pick (x ?= y)%Z) | None => None end.
Proof.
  destruct (ord_view p c) as [[x y]|] eqn:E.
  - destruct (ord_view_present _ _ _ _ E) as [Hp Hc]. unfold test_order. rewrite py_cmp_view, E.
    destruct p; try congruence; destruct c; try congruence; reflexivity.
  - unfold test_order. rewrite py_cmp_view, E. destruct p; try reflexivity; destruct c; reflexivity.
Qed.

Lemma lt_by_view f p c :
  op_test (o_lt f) p c = match ord_view p c with Some (x, y) => Some (x <? y)%Z | None => None end.
Proof. rewrite <- (order_by_view is_lt). destruct f, p; reflexivity. Qed.
Lemma le_by_view f p c :
  op_test (o_le f) p c = match ord_view p c with Some (x, y) => Some (x <=? y)%Z | None => None end.
Proof. rewrite <- (order_by_view is_le). destruct f, p; reflexivity. Qed.
Lemma gt_by_view f p c :
  op_test (o_gt f) p c = match ord_view p c with Some (x, y) => Some (y <? x)%Z | None => None end.
Proof.
  transitivity (match ord_view p c with Some (x, y) => Some (is_gt (x ?= y)%Z) | None => None end).
  - rewrite <- (order_by_view is_gt). destruct f, p; reflexivity.
  - destruct (ord_view p c) as [[x y]|]; [rewrite is_gt_ltb|]; reflexivity.
Qed.
Lemma ge_by_view f p c :
  op_test (o_ge f) p c = match ord_view p c with Some (x, y) => Some (y <=? x)%Z | None => None end.
Proof.
  transitivity (match ord_view p c with Some (x, y) => Some (is_ge (x ?= y)%Z) | None => None end).
  - rewrite <- (order_by_view is_ge). destruct f, p; reflexivity.
  - destruct (ord_view p c) as [[x y]|]; [rewrite is_ge_leb|]; reflexivity.
Qed.
Lemma eq_by_view f p c x y : ord_view p c = Some (x, y) -> op_test (o_eq f) p c = Some (x =? y)%Z.
Proof.
  intros E. destruct (ord_view_present _ _ _ _ E) as [Hp Hc]. rewrite <- (py_eq_view c p x y E).
  destruct f, p; try congruence; destruct c; try congruence; reflexivity.
Qed.
Lemma ne_is_not_eq f p c : op_test (o_ne f) p c = option_map negb (op_test (o_eq f) p c).
Proof. destruct f, p; try reflexivity; destruct c; reflexivity. Qed.

(* ---- A1. ARGUMENT ORDER and the meaning of the six operators on comparable operands:
        x = the REQUEST value, y = the POLICY value;  {"NumericLessThan": {key: y}} holds iff request[key] < y *)
Theorem ord_sem f p c x y :
  (as_int c = Some x /\ as_int p = Some y) \/ (exists a, c = CDate a x /\ p = CDate a y) ->
  op_test (o_eq f) p c = Some (x =? y)%Z /\
  op_test (o_ne f) p c = Some (negb (x =? y)%Z) /\
  op_test (o_lt f) p c = Some (x <? y)%Z /\
  op_test (o_le f) p c = Some (x <=? y)%Z /\
  op_test (o_gt f) p c = Some (y <? x)%Z /\
  op_test (o_ge f) p c = Some (y <=? x)%Z.
Proof.
  intros H. apply ord_view_spec in H.
  rewrite ne_is_not_eq, lt_by_view, le_by_view, gt_by_view, ge_by_view, (eq_by_view f p c x y H), H.
  repeat split; reflexivity.
Qed.

Theorem ord_sem_prop f p c x y :
  (as_int c = Some x /\ as_int p = Some y) \/ (exists a, c = CDate a x /\ p = CDate a y) ->
  (op_test (o_eq f) p c = Some true <-> x = y) /\
  (op_test (o_ne f) p c = Some true <-> x <> y) /\
  (op_test (o_lt f) p c = Some true <-> (x < y)%Z) /\
  (op_test (o_le f) p c = Some true <-> (x <= y)%Z) /\
  (op_test (o_gt f) p c = Some true <-> (x > y)%Z) /\
  (op_test (o_ge f) p c = Some true <-> (x >= y)%Z).
Proof.
  intros H. destruct (ord_sem f p c x y H) as (-> & -> & -> & -> & -> & ->).
  rewrite !some_true_iff, negb_true_iff, Z.eqb_eq, Z.eqb_neq, !Z.ltb_lt, !Z.leb_le. repeat split; intros; lia.
Qed.

(* ---- A2. the orderings are defined EXACTLY on comparable operands *)
Theorem ord_defined_iff f p c :
  (op_test (o_lt f) p c <> None <-> comparable c p) /\
  (op_test (o_le f) p c <> None <-> comparable c p) /\
  (op_test (o_gt f) p c <> None <-> comparable c p) /\
  (op_test (o_ge f) p c <> None <-> comparable c p).
Proof.
  rewrite lt_by_view, le_by_view, gt_by_view, ge_by_view, comparable_view.
  destruct (ord_view p c) as [[x y]|]; repeat split; try discriminate; try congruence;
    try (intros _; exists x, y; reflexivity); intros (x' & y' & H); discriminate.
Qed.

(* ---- A3. TRICHOTOMY: on comparable operands exactly one of LessThan, Equals, GreaterThan holds *)
Theorem ord_trichotomy f p c : comparable c p ->
  (op_test (o_lt f) p c = Some true /\ op_test (o_eq f) p c = Some false /\ op_test (o_gt f) p c = Some false) \/
  (op_test (o_lt f) p c = Some false /\ op_test (o_eq f) p c = Some true /\ op_test (o_gt f) p c = Some false) \/
  (op_test (o_lt f) p c = Some false /\ op_test (o_eq f) p c = Some false /\ op_test (o_gt f) p c = Some true).
Proof.
  intros H. apply comparable_view in H. destruct H as (x & y & H).
  rewrite lt_by_view, gt_by_view, (eq_by_view f p c x y H), H.
  destruct (Z.compare_spec x y) as [E|E|E].
  - right; left. subst y. rewrite Z.ltb_irrefl, Z.eqb_refl. auto.
  - left. rewrite (proj2 (Z.ltb_lt x y) E), (proj2 (Z.eqb_neq x y)) by lia. rewrite (proj2 (Z.ltb_ge y x)) by lia. auto.
  - right; right. rewrite (proj2 (Z.ltb_lt y x) E), (proj2 (Z.eqb_neq x y)) by lia. rewrite (proj2 (Z.ltb_ge x y)) by lia. auto.
Qed.

(* without comparability the four orderings are undefined; Equals against an orderable policy value (a number, a
   datetime) is then simply False -- never an error for a present request value *)
Lemma py_eq_incomparable c p : ord_view p c = None -> okey p <> None -> py_eq c p = false.
Proof.
  unfold ord_view, py_eq.
  destruct c as [| |bc|zc|sc|ac uc|nc|bsc| |]; destruct p as [| |bp|zp|sp|ap up|np|bsp| |]; simpl; intros E Hk;
    try reflexivity; try congruence.
  destruct (Bool.eqb ac ap); [discriminate|reflexivity].
Qed.
Theorem ord_incomparable f p c : ~ comparable c p ->
  op_test (o_lt f) p c = None /\ op_test (o_le f) p c = None /\ op_test (o_gt f) p c = None /\ op_test (o_ge f) p c = None /\
  (comparable p p -> c <> CAbsent -> op_test (o_eq f) p c = Some false /\ op_test (o_ne f) p c = Some true).
Proof.
  intros H. rewrite comparable_view in H. rewrite lt_by_view, le_by_view, gt_by_view, ge_by_view.
  destruct (ord_view p c) as [[x y]|] eqn:E; [exfalso; apply H; exists x, y; reflexivity|].
  split; [reflexivity|]. split; [reflexivity|]. split; [reflexivity|]. split; [reflexivity|].
  intros Hpp Hc. apply comparable_view in Hpp. destruct Hpp as (x & y & Hpp).
  assert (Hk : okey p <> None) by (unfold ord_view in Hpp; destruct (okey p) as [[k z]|]; discriminate).
  pose proof (py_eq_incomparable c p E Hk) as Hf.
  assert (Hfn : p <> CFn) by (intros ->; apply Hk; reflexivity).
  rewrite ne_is_not_eq.
  assert (He : op_test (o_eq f) p c = Some false).
  { destruct f, p; try congruence; destruct c; try congruence; cbn; cbn in Hf; rewrite ?Hf; reflexivity. }
  rewrite He. split; reflexivity.
Qed.

(* ---- A4. identities between the six operators, for ALL operands (no hypothesis: both sides are undefined together) *)
Theorem ord_le_is_lt_or_eq f p c :
  op_test (o_le f) p c = lift2 orb (op_test (o_lt f) p c) (op_test (o_eq f) p c).
Proof.
  rewrite le_by_view, lt_by_view. destruct (ord_view p c) as [[x y]|] eqn:E; [|reflexivity].
  rewrite (eq_by_view f p c x y E). simpl. f_equal.
  destruct (Z.compare_spec x y) as [H|H|H].
  - subst y. rewrite Z.leb_refl, Z.eqb_refl, orb_true_r. reflexivity.
  - rewrite (proj2 (Z.leb_le x y)), (proj2 (Z.ltb_lt x y)) by lia. reflexivity.
  - rewrite (proj2 (Z.leb_gt x y)), (proj2 (Z.ltb_ge x y)), (proj2 (Z.eqb_neq x y)) by lia. reflexivity.
Qed.
Theorem ord_ge_is_gt_or_eq f p c :
  op_test (o_ge f) p c = lift2 orb (op_test (o_gt f) p c) (op_test (o_eq f) p c).
Proof.
  rewrite ge_by_view, gt_by_view. destruct (ord_view p c) as [[x y]|] eqn:E; [|reflexivity].
  rewrite (eq_by_view f p c x y E). simpl. f_equal.
  destruct (Z.compare_spec x y) as [H|H|H].
  - subst y. rewrite Z.leb_refl, Z.eqb_refl, orb_true_r. reflexivity.
  - rewrite (proj2 (Z.leb_gt y x)), (proj2 (Z.ltb_ge y x)), (proj2 (Z.eqb_neq x y)) by lia. reflexivity.
  - rewrite (proj2 (Z.leb_le y x)), (proj2 (Z.ltb_lt y x)) by lia. reflexivity.
Qed.
Theorem ord_ge_is_not_lt f p c : op_test (o_ge f) p c = option_map negb (op_test (o_lt f) p c).
Proof.
  rewrite ge_by_view, lt_by_view. destruct (ord_view p c) as [[x y]|]; [|reflexivity]. simpl. f_equal.
  rewrite Z.leb_antisym. reflexivity.
Qed.
Theorem ord_gt_is_not_le f p c : op_test (o_gt f) p c = option_map negb (op_test (o_le f) p c).
Proof.
  rewrite gt_by_view, le_by_view. destruct (ord_view p c) as [[x y]|]; [|reflexivity]. simpl. f_equal.
  rewrite Z.ltb_antisym. reflexivity.
Qed.
(* CONVERSE: exchanging policy and request value turns LessThan into GreaterThan *)
Theorem ord_converse f p c :
  op_test (o_lt f) p c = op_test (o_gt f) c p /\ op_test (o_le f) p c = op_test (o_ge f) c p.
Proof.
  rewrite lt_by_view, le_by_view, gt_by_view, ge_by_view, (ord_view_swap p c).
  destruct (ord_view p c) as [[x y]|]; split; reflexivity.
Qed.

(* ---- A5. the laws of a (strict / non-strict) total order, for ALL operands: the hypothesis "= Some true" already
        forces comparability.  The middle value b is once the policy and once the request value. *)
Theorem ord_lt_trans f a b c :
  op_test (o_lt f) b a = Some true -> op_test (o_lt f) c b = Some true -> op_test (o_lt f) c a = Some true.
Proof.
  rewrite !lt_by_view.
  destruct (ord_view b a) as [[x y]|] eqn:E1; [|discriminate]. destruct (ord_view c b) as [[y' z]|] eqn:E2; [|discriminate].
  destruct (ord_view_chain _ _ _ _ _ _ _ E1 E2) as [-> ->]. rewrite !some_true_iff, !Z.ltb_lt. lia.
Qed.
Theorem ord_le_trans f a b c :
  op_test (o_le f) b a = Some true -> op_test (o_le f) c b = Some true -> op_test (o_le f) c a = Some true.
Proof.
  rewrite !le_by_view.
  destruct (ord_view b a) as [[x y]|] eqn:E1; [|discriminate]. destruct (ord_view c b) as [[y' z]|] eqn:E2; [|discriminate].
  destruct (ord_view_chain _ _ _ _ _ _ _ E1 E2) as [-> ->]. rewrite !some_true_iff, !Z.leb_le. lia.
Qed.
Theorem ord_lt_le_trans f a b c :
  op_test (o_lt f) b a = Some true -> op_test (o_le f) c b = Some true -> op_test (o_lt f) c a = Some true.
Proof.
  rewrite !lt_by_view, le_by_view.
  destruct (ord_view b a) as [[x y]|] eqn:E1; [|discriminate]. destruct (ord_view c b) as [[y' z]|] eqn:E2; [|discriminate].
  destruct (ord_view_chain _ _ _ _ _ _ _ E1 E2) as [-> ->]. rewrite !some_true_iff, !Z.ltb_lt, Z.leb_le. lia.
Qed.
Theorem ord_le_lt_trans f a b c :
  op_test (o_le f) b a = Some true -> op_test (o_lt f) c b = Some true -> op_test (o_lt f) c a = Some true.
Proof.
  rewrite !lt_by_view, le_by_view.
  destruct (ord_view b a) as [[x y]|] eqn:E1; [|discriminate]. destruct (ord_view c b) as [[y' z]|] eqn:E2; [|discriminate].
  destruct (ord_view_chain _ _ _ _ _ _ _ E1 E2) as [-> ->]. rewrite !some_true_iff, !Z.ltb_lt, Z.leb_le. lia.
Qed.
(* antisymmetry: mutual LessThanEquals is Equals (NOT identity of values: True <= 1 <= True, and True == 1) *)
Theorem ord_le_antisym f a b :
  op_test (o_le f) b a = Some true -> op_test (o_le f) a b = Some true -> op_test (o_eq f) b a = Some true.
Proof.
  rewrite !le_by_view, (ord_view_swap b a).
  destruct (ord_view b a) as [[x y]|] eqn:E; [|discriminate]. rewrite (eq_by_view f b a x y E).
  rewrite !some_true_iff, !Z.leb_le, Z.eqb_eq. lia.
Qed.
Theorem ord_lt_irrefl f a : op_test (o_lt f) a a <> Some true.
Proof.
  rewrite lt_by_view. destruct (ord_view a a) as [[x y]|] eqn:E; [|discriminate].
  assert (x = y).
  { unfold ord_view in E. destruct (okey a) as [[k z]|]; [|discriminate]. rewrite kind_eqb_refl in E. congruence. }
  subst y. rewrite Z.ltb_irrefl. discriminate.
Qed.
Theorem ord_lt_asym f a b : op_test (o_lt f) b a = Some true -> op_test (o_lt f) a b = Some false.
Proof.
  rewrite !lt_by_view, (ord_view_swap b a). destruct (ord_view b a) as [[x y]|]; [|discriminate].
  rewrite some_true_iff, Z.ltb_lt. intros H. f_equal. apply Z.ltb_ge. lia.
Qed.
(* reflexivity and totality of LessThanEquals, on comparable operands *)
Theorem ord_le_refl f a : comparable a a -> op_test (o_le f) a a = Some true /\ op_test (o_eq f) a a = Some true.
Proof.
  intros H. apply comparable_view in H. destruct H as (x & y & E).
  assert (x = y).
  { unfold ord_view in E. destruct (okey a) as [[k z]|]; [|discriminate]. rewrite kind_eqb_refl in E. congruence. }
  subst y. rewrite le_by_view, (eq_by_view f a a x x E), E, Z.leb_refl, Z.eqb_refl. auto.
Qed.
Theorem ord_le_total f a b : comparable a b ->
  op_test (o_le f) b a = Some true \/ op_test (o_le f) a b = Some true.
Proof.
  intros H. apply comparable_view in H. destruct H as (x & y & E).
  rewrite !le_by_view, (ord_view_swap b a), E, !some_true_iff, !Z.leb_le. lia.
Qed.
(* on two operands of the operator's own type (two integers, two datetimes) Equals is identity of values *)
Theorem ord_le_antisym_typed f a b :
  has_fam (family (o_eq f)) a = true -> has_fam (family (o_eq f)) b = true ->
  op_test (o_le f) b a = Some true -> op_test (o_le f) a b = Some true -> a = b.
Proof.
  intros Ha Hb H1 H2. pose proof (ord_le_antisym f a b H1 H2) as He.
  assert (Hq : is_equals (o_eq f) = true) by (destruct f; reflexivity).
  destruct (equals_correct fold (o_eq f) b a Hq Hb Ha) as (r & Hr & Hiff).
  rewrite Hr in He. apply Hiff. congruence.
Qed.

(* ---- A6. DATES.  The model stores an aware datetime as its UTC instant, so the UTC offset it was written with is not
        part of the value: [aware_at wall off] is the datetime whose wall clock reads [wall] (microseconds) in a zone
        [off] microseconds east of UTC.  Two spellings of one instant are Equal, and ordered as their instants. *)
Definition aware_at (wall off : Z) : cval := CDate true (wall - off).
Definition naive_at (wall : Z) : cval := CDate false wall.

Theorem date_spellings w1 o1 w2 o2 :
  op_test ODateEquals (aware_at w2 o2) (aware_at w1 o1) = Some ((w1 - o1) =? (w2 - o2))%Z /\
  op_test ODateLessThan (aware_at w2 o2) (aware_at w1 o1) = Some ((w1 - o1) <? (w2 - o2))%Z /\
  op_test ODateLessThanEquals (aware_at w2 o2) (aware_at w1 o1) = Some ((w1 - o1) <=? (w2 - o2))%Z /\
  ((w1 - o1 = w2 - o2)%Z ->
     op_test ODateEquals (aware_at w2 o2) (aware_at w1 o1) = Some true /\
     op_test ODateNotEquals (aware_at w2 o2) (aware_at w1 o1) = Some false /\
     op_test ODateLessThan (aware_at w2 o2) (aware_at w1 o1) = Some false /\
     op_test ODateGreaterThan (aware_at w2 o2) (aware_at w1 o1) = Some false /\
     op_test ODateLessThanEquals (aware_at w2 o2) (aware_at w1 o1) = Some true /\
     op_test ODateGreaterThanEquals (aware_at w2 o2) (aware_at w1 o1) = Some true).
Proof.
  unfold aware_at.
  destruct (ord_sem ODat (CDate true (w2 - o2)) (CDate true (w1 - o1)) (w1 - o1) (w2 - o2)) as (H1 & H2 & H3 & H4 & H5 & H6).
  { right. exists true. auto. }
  cbn [o_eq o_ne o_lt o_le o_gt o_ge] in *. rewrite H1, H2, H3, H4, H5, H6.
  split; [reflexivity|]. split; [reflexivity|]. split; [reflexivity|].
  intros E. rewrite E, Z.eqb_refl, Z.ltb_irrefl, Z.leb_refl. repeat split; reflexivity.
Qed.
(* a naive datetime is compared by its wall-clock reading; against an aware one it is unordered and unequal *)
Theorem date_naive w1 w2 o2 :
  op_test ODateLessThan (naive_at w2) (naive_at w1) = Some (w1 <? w2)%Z /\
  op_test ODateEquals (naive_at w2) (naive_at w1) = Some (w1 =? w2)%Z /\
  op_test ODateLessThan (aware_at w2 o2) (naive_at w1) = None /\
  op_test ODateLessThan (naive_at w1) (aware_at w2 o2) = None /\
  op_test ODateEquals (aware_at w2 o2) (naive_at w1) = Some false.
Proof.
  unfold naive_at, aware_at.
  destruct (ord_sem ODat (CDate false w2) (CDate false w1) w1 w2) as (H1 & _ & H3 & _).
  { right. exists false. auto. }
  cbn [o_eq o_lt] in *. rewrite H1, H3. repeat split; reflexivity.
Qed.


(* ================================================================================================================
   B. EQUALITIES AND TEXT *)

(* Python == as modelled is equality of CANONICAL values: True/False are the numbers 1/0, every other value is itself;
   the three non-values (missing key, "some other object", function object) are equal to nothing, themselves included *)
Definition canon (v : cval) : option cval :=
  match v with
  | CAbsent | COther | CFn => None
  | CBool b => Some (CInt (if b then 1 else 0))
  | _ => Some v
  end.
Definition proper (v : cval) : Prop := v <> CAbsent /\ v <> COther /\ v <> CFn.

Lemma py_eq_canon a b : py_eq a b = true <-> exists n, canon a = Some n /\ canon b = Some n.
Proof.
  split.
  - destruct a as [| |ba|za|sa|aa ua|na|bsa| |]; destruct b as [| |bb|zb|sb|ab ub|nb|bsb| |]; unfold py_eq; simpl;
      try discriminate; intros H.
    + exists CNone. auto.
    + apply Z.eqb_eq in H. rewrite H. eexists; split; reflexivity.
    + apply Z.eqb_eq in H. rewrite H. eexists; split; reflexivity.
    + apply Z.eqb_eq in H. rewrite H. eexists; split; reflexivity.
    + apply Z.eqb_eq in H. rewrite H. eexists; split; reflexivity.
    + apply str_eqb_spec in H. rewrite H. eexists; split; reflexivity.
    + apply andb_true_iff in H. destruct H as [H1 H2]. apply eqb_prop in H1. apply Z.eqb_eq in H2. subst.
      eexists; split; reflexivity.
    + apply net_eqb_eq in H. rewrite H. eexists; split; reflexivity.
    + apply str_eqb_spec in H. rewrite H. eexists; split; reflexivity.
  - intros (n & Ha & Hb).
    destruct a as [| |ba|za|sa|aa ua|na|bsa| |]; simpl in Ha; try discriminate;
      destruct b as [| |bb|zb|sb|ab ub|nb|bsb| |]; simpl in Hb; try discriminate;
      unfold py_eq; simpl; try reflexivity; try congruence.
    all: first [ apply Z.eqb_eq; congruence | apply str_eqb_spec; congruence | apply net_eqb_eq; congruence
               | rewrite andb_true_iff, Z.eqb_eq; split; [apply eqb_true_iff|]; congruence ].
Qed.
Lemma canon_proper v : proper v <-> exists n, canon v = Some n.
Proof.
  unfold proper. destruct v; simpl; split; try (intros (H1 & H2 & H3); congruence); try (intros [n H]; discriminate);
    try (intros _; eexists; reflexivity); intros _; repeat split; discriminate.
Qed.
Lemma py_eq_refl v : proper v -> py_eq v v = true.
Proof. intros H. apply canon_proper in H. destruct H as [n H]. apply py_eq_canon. exists n. auto. Qed.
Lemma py_eq_sym a b : py_eq a b = py_eq b a.
Proof.
  apply eq_true_iff_eq. rewrite !py_eq_canon. split; intros (n & H1 & H2); exists n; auto.
Qed.
Lemma py_eq_trans a b c : py_eq a b = true -> py_eq b c = true -> py_eq a c = true.
Proof.
  rewrite !py_eq_canon. intros (n & H1 & H2) (m & H3 & H4). exists n. split; [exact H1|]. congruence.
Qed.
Lemma py_eq_proper a b : py_eq a b = true -> proper a /\ proper b.
Proof. rewrite py_eq_canon, !canon_proper. intros (n & H1 & H2). split; exists n; assumption. Qed.

(* ---- B1. the five ...Equals operators are ONE function (==), the four ...NotEquals operators its negation *)
Theorem equals_sem o p c : is_equals o = true ->
  op_test o p c = match p, c with CFn, _ => None | _, CAbsent => None | _, _ => Some (py_eq c p) end.
Proof. intros Ho. destruct o; try discriminate; destruct p; try reflexivity; destruct c; reflexivity. Qed.
Theorem not_equals_sem o p c : is_not_equals o = true ->
  op_test o p c = match p, c with CFn, _ => None | _, CAbsent => None | _, _ => Some (negb (py_eq c p)) end.
Proof. intros Ho. destruct o; try discriminate; destruct p; try reflexivity; destruct c; reflexivity. Qed.
Theorem equals_ops_coincide o1 o2 p c :
  (is_equals o1 = true -> is_equals o2 = true -> op_test o1 p c = op_test o2 p c) /\
  (is_not_equals o1 = true -> is_not_equals o2 = true -> op_test o1 p c = op_test o2 p c).
Proof.
  split; intros H1 H2; [rewrite !equals_sem by assumption | rewrite !not_equals_sem by assumption]; reflexivity.
Qed.

Theorem equals_true_iff o p c : is_equals o = true ->
  (op_test o p c = Some true <-> exists n, canon c = Some n /\ canon p = Some n).
Proof.
  intros Ho. rewrite (equals_sem o p c Ho), <- py_eq_canon.
  destruct p; try (split; [discriminate|]; intros H; apply py_eq_proper in H; destruct H as [_ (_ & _ & H)]; congruence);
    destruct c; try apply some_true_iff;
    (split; [discriminate|]; intros H; apply py_eq_proper in H; destruct H as [(H & _ & _) _]; congruence).
Qed.

(* an EQUIVALENCE on proper values; symmetric and transitive on ALL values (a partial equivalence) *)
Theorem equals_refl o v : is_equals o = true -> proper v -> op_test o v v = Some true.
Proof. intros Ho Hv. apply (equals_true_iff o v v Ho). apply canon_proper in Hv. destruct Hv as [n Hn]. exists n. auto. Qed.
Theorem equals_sym o a b : is_equals o = true -> op_test o b a = Some true -> op_test o a b = Some true.
Proof. intros Ho. rewrite !(equals_true_iff o) by exact Ho. intros (n & H1 & H2). exists n. auto. Qed.
Theorem equals_trans o a b c : is_equals o = true ->
  op_test o b a = Some true -> op_test o c b = Some true -> op_test o c a = Some true.
Proof.
  intros Ho. rewrite !(equals_true_iff o) by exact Ho. intros (n & H1 & H2) (m & H3 & H4). exists n. split; [exact H1|]. congruence.
Qed.
(* on text: equality of the two strings, code point by code point (case-sensitive, no wildcard) *)
Theorem equals_text o (p c : str) : is_equals o = true ->
  op_test o (CStr p) (CStr c) = Some (str_eqb c p) /\ (op_test o (CStr p) (CStr c) = Some true <-> c = p).
Proof.
  intros Ho. rewrite (equals_sem o _ _ Ho). unfold py_eq; simpl. split; [reflexivity|]. rewrite some_true_iff. apply str_eqb_spec.
Qed.

(* ---- B2. StringEqualsIgnoreCase: the equivalence INDUCED by the fold *)
Theorem ic_sem p c :
  op_test OStringEqualsIgnoreCase p c = Some true <-> exists ps cs, p = CStr ps /\ c = CStr cs /\ fold cs = fold ps.
Proof.
  split.
  - destruct p; try discriminate; destruct c; try discriminate. cbn. rewrite some_true_iff, str_eqb_spec.
    intros H. eexists; eexists; repeat split; exact H.
  - intros (ps & cs & -> & -> & H). cbn. rewrite H, str_eqb_refl. reflexivity.
Qed.
Theorem ic_refl (s : str) : op_test OStringEqualsIgnoreCase (CStr s) (CStr s) = Some true.
Proof. apply ic_sem. exists s, s. auto. Qed.
Theorem ic_sym a b :
  op_test OStringEqualsIgnoreCase b a = Some true -> op_test OStringEqualsIgnoreCase a b = Some true.
Proof. rewrite !ic_sem. intros (ps & cs & -> & -> & H). exists cs, ps. auto. Qed.
Theorem ic_trans a b c :
  op_test OStringEqualsIgnoreCase b a = Some true -> op_test OStringEqualsIgnoreCase c b = Some true ->
  op_test OStringEqualsIgnoreCase c a = Some true.
Proof.
  rewrite !ic_sem. intros (ps & cs & -> & -> & H1) (ps' & cs' & -> & Hb & H2). inversion Hb; subst cs'.
  exists ps', cs. repeat split. congruence.
Qed.
(* the answer depends on the request text only through its fold *)
Theorem ic_fold_invariant p (cs cs' : str) : fold cs = fold cs' ->
  op_test OStringEqualsIgnoreCase p (CStr cs) = op_test OStringEqualsIgnoreCase p (CStr cs').
Proof. intros H. destruct p; try reflexivity. cbn. rewrite H. reflexivity. Qed.
(* COARSER than StringEquals, whatever the fold ... *)
Theorem ic_coarser (ps : str) c :
  op_test OStringEquals (CStr ps) c = Some true -> op_test OStringEqualsIgnoreCase (CStr ps) c = Some true.
Proof.
  intros H. apply (equals_true_iff OStringEquals) in H; [|reflexivity]. destruct H as (n & Hc & Hp). simpl in Hp.
  inversion Hp; subst n. destruct c; simpl in Hc; try discriminate; inversion Hc; subst. apply ic_refl.
Qed.
(* ... and STRICTLY coarser as soon as the fold identifies two different texts (for Python's casefold: "A" and "a") *)
Theorem ic_strictly_coarser (s t : str) : s <> t -> fold s = fold t ->
  op_test OStringEqualsIgnoreCase (CStr s) (CStr t) = Some true /\ op_test OStringEquals (CStr s) (CStr t) = Some false.
Proof.
  intros Hne Hf. split; [apply ic_sem; exists s, t; auto|].
  cbn. unfold py_eq; simpl. f_equal. apply str_eqb_neq. congruence.
Qed.
Theorem ic_is_equals_iff_injective :
  (forall ps cs : str, op_test OStringEqualsIgnoreCase (CStr ps) (CStr cs) = op_test OStringEquals (CStr ps) (CStr cs))
  <-> (forall s t : str, fold s = fold t -> s = t).
Proof.
  split.
  - intros H s t Hf. destruct (str_eq_dec s t) as [E|E]; [exact E|exfalso].
    destruct (ic_strictly_coarser s t E Hf) as [H1 H2]. rewrite H in H1. congruence.
  - intros Hinj ps cs. cbn. unfold py_eq; simpl. f_equal. apply eq_true_iff_eq. rewrite !str_eqb_spec.
    split; [apply Hinj | intros ->; reflexivity].
Qed.

(* ---- B3. StringLike: the glob match of Glob/Glob.v (C08), case-sensitive *)
Theorem like_sem p c :
  op_test OStringLike p c = match p, c with CStr ps, CStr cs => Some (glob_cs ps cs) | _, _ => None end.
Proof. destruct p; reflexivity. Qed.
Theorem like_true_iff p c :
  op_test OStringLike p c = Some true <->
  exists ps cs, p = CStr ps /\ c = CStr cs /\ glob_spec N (tokens N N.eqb STAR QM ps) cs.
Proof.
  rewrite like_sem. split.
  - destruct p; try discriminate; destruct c; try discriminate. rewrite some_true_iff. intros H.
    eexists; eexists; repeat split. apply (glob_correct N N.eqb N.eqb_eq STAR QM). exact H.
  - intros (ps & cs & -> & -> & H). f_equal. apply (glob_correct N N.eqb N.eqb_eq STAR QM). exact H.
Qed.
Theorem not_like_negation p c :
  op_test OStringNotLike p c = option_map negb (op_test OStringLike p c).
Proof. destruct p; reflexivity. Qed.
(* a lone star accepts every text *)
Theorem like_star (cs : str) : op_test OStringLike (CStr [STAR]) (CStr cs) = Some true.
Proof. rewrite like_sem. f_equal. apply (glob_star_alone N N.eqb N.eqb_eq STAR QM). discriminate. Qed.

(* with a WILDCARD-FREE pattern StringLike is StringEquals: the same answer on every text, and the same requests
   satisfy both whatever their type *)
Theorem like_literal (ps : str) : no_wild N STAR QM ps ->
  (forall cs : str, op_test OStringLike (CStr ps) (CStr cs) = op_test OStringEquals (CStr ps) (CStr cs)) /\
  (forall c, op_test OStringLike (CStr ps) c = Some true <-> op_test OStringEquals (CStr ps) c = Some true).
Proof.
  intros Hnw.
  assert (Hs : forall cs : str, op_test OStringLike (CStr ps) (CStr cs) = op_test OStringEquals (CStr ps) (CStr cs)).
  { intros cs. rewrite like_sem. cbn. unfold py_eq; simpl. f_equal. apply eq_true_iff_eq. rewrite str_eqb_spec.
    apply (glob_literal N N.eqb N.eqb_eq STAR QM ps Hnw). }
  split; [exact Hs|]. intros c. destruct c; try (rewrite Hs; tauto); split; try discriminate.
  all: intros H; apply (equals_true_iff OStringEquals) in H; [|reflexivity]; destruct H as (n & H1 & H2);
       simpl in H1, H2; congruence.
Qed.

(* ... and ONLY then: a pattern with a wildcard matches a text different from itself (every wildcard replaced by 'a') *)
Definition unwild (ps : str) : str := map (fun ch => if (N.eqb ch STAR || N.eqb ch QM)%bool then 97%N else ch) ps.
Lemma unwild_matches ps : glob_cs ps (unwild ps) = true.
Proof.
  unfold glob_cs, glob_match. apply (gmb_ok N N.eqb N.eqb_eq). induction ps as [|ch ps IH]; simpl; [constructor|].
  unfold tok_of. destruct (N.eqb ch STAR) eqn:E1; simpl.
  - apply gm_star1. apply gm_star0. exact IH.
  - destruct (N.eqb ch QM) eqn:E2; simpl; constructor; exact IH.
Qed.
Lemma unwild_fixed ps : unwild ps = ps -> no_wild N STAR QM ps.
Proof.
  induction ps as [|ch ps IH]; simpl; intros H; [constructor|]. injection H as H1 H2. constructor.
  - destruct (N.eqb ch STAR) eqn:E1; simpl in H1.
    + apply N.eqb_eq in E1. subst ch. discriminate.
    + destruct (N.eqb ch QM) eqn:E2; simpl in H1.
      * apply N.eqb_eq in E2. subst ch. discriminate.
      * apply N.eqb_neq in E1. apply N.eqb_neq in E2. auto.
  - apply IH. exact H2.
Qed.
Theorem like_equals_iff_literal (ps : str) :
  (forall cs : str, op_test OStringLike (CStr ps) (CStr cs) = op_test OStringEquals (CStr ps) (CStr cs))
  <-> no_wild N STAR QM ps.
Proof.
  split; [|intros H; apply (like_literal ps H)].
  intros H. apply unwild_fixed. specialize (H (unwild ps)). rewrite like_sem, unwild_matches in H.
  symmetry in H. apply (equals_text OStringEquals) in H; [exact H|reflexivity].
Qed.

(* ---- B4. the Arn operators ARE the String operators (ResolvableArn = ResolvableStr, one lambda per pair):
        ArnLike / ArnNotLike are the case-sensitive glob match, ArnEquals / ArnNotEquals plain equality of the texts *)
Theorem arn_is_string p c :
  op_test OArnEquals p c = op_test OStringEquals p c /\
  op_test OArnNotEquals p c = op_test OStringNotEquals p c /\
  op_test OArnLike p c = op_test OStringLike p c /\
  op_test OArnNotLike p c = op_test OStringNotLike p c.
Proof. repeat split; destruct p; reflexivity. Qed.
(* so ArnEquals is NOT a glob match (AWS documents ArnEquals and ArnLike as behaving identically: this is what the
   library does instead).  Witness: policy "a*", request "ab". *)
Theorem arn_equals_is_like_refuted :
  exists p c : str, op_test OArnLike (CStr p) (CStr c) = Some true /\ op_test OArnEquals (CStr p) (CStr c) = Some false.
Proof. exists [97; 42]%N, [97; 98]%N. split; vm_compute; reflexivity. Qed.

(* ================================================================================================================
   C. NETWORKS.   IpAddress p c: the request network c lies within the policy network p.
      (After the repair of F30 a request value of the OTHER IP version is simply outside: False, no error.) *)

(* the two operators on two networks, whatever their versions *)
Theorem ip_sem (p c : net) :
  op_test OIpAddress (CNet p) (CNet c) = Some (subnet_of c p) /\
  op_test ONotIpAddress (CNet p) (CNet c) = Some (negb (subnet_of c p)).
Proof.
  cbn [Ops.op_test test_ip]. destruct (ipver_eqb (n_ver c) (n_ver p)) eqn:E.
  - rewrite xorb_false_l, xorb_true_l. split; reflexivity.
  - unfold subnet_of. rewrite E. split; reflexivity.
Qed.
(* ... and on all operands *)
Theorem ip_full_sem p c :
  op_test OIpAddress p c =
    match p with
    | CFn => None
    | CNet pn => match c with CNet cn => Some (subnet_of cn pn) | _ => None end
    | _ => Some false
    end /\
  op_test ONotIpAddress p c =
    match p with
    | CFn => None
    | CNet pn => match c with CNet cn => Some (negb (subnet_of cn pn)) | _ => None end
    | _ => Some false
    end.
Proof.
  destruct p as [| |bp|zp|sp|ap up|pn|bsp| |]; try (split; reflexivity).
  destruct c as [| |bc|zc|sc|ac uc|cn|bsc| |]; try (split; reflexivity). apply ip_sem.
Qed.
Lemma ip_true_inv p c :
  op_test OIpAddress p c = Some true <-> exists pn cn, p = CNet pn /\ c = CNet cn /\ subnet_of cn pn = true.
Proof.
  rewrite (proj1 (ip_full_sem p c)). split.
  - destruct p; try discriminate. destruct c; try discriminate. rewrite some_true_iff. intros H.
    eexists; eexists; repeat split. exact H.
  - intros (pn & cn & -> & -> & H). rewrite H. reflexivity.
Qed.
Theorem not_ip_true_iff (p c : net) :
  op_test ONotIpAddress (CNet p) (CNet c) = Some true <-> subnet_of c p = false.
Proof. rewrite (proj2 (ip_sem p c)), some_true_iff. apply negb_true_iff. Qed.
(* NotIpAddress is the negation of IpAddress for every request value, when the policy value is a network *)
Theorem not_ip_negation (p : net) c :
  op_test ONotIpAddress (CNet p) c = option_map negb (op_test OIpAddress (CNet p) c).
Proof. apply (negation_dual fold OIpAddress ONotIpAddress); reflexivity. Qed.

(* ---- C1. a preorder (reflexive, transitive) on ALL networks; antisymmetric on networks with a legal prefix length *)
Theorem ip_refl (p : net) : op_test OIpAddress (CNet p) (CNet p) = Some true.
Proof. rewrite (proj1 (ip_sem p p)), subnet_of_refl. reflexivity. Qed.
Theorem ip_trans a b c :
  op_test OIpAddress b a = Some true -> op_test OIpAddress c b = Some true -> op_test OIpAddress c a = Some true.
Proof.
  rewrite !ip_true_inv. intros (bn & an & -> & -> & H1) (cn & bn' & -> & Hb & H2). inversion Hb; subst bn'.
  exists cn, an. repeat split. apply (subnet_of_trans an bn cn H1 H2).
Qed.
Lemma subnet_of_antisym (a b : net) :
  (Z.of_N (n_plen a) <= width (n_ver a))%Z -> (Z.of_N (n_plen b) <= width (n_ver b))%Z ->
  subnet_of a b = true -> subnet_of b a = true -> a = b.
Proof.
  unfold subnet_of, hi, lo, blk. rewrite !andb_true_iff, !ipver_eqb_eq, !Z.leb_le.
  destruct a as [va xa la], b as [vb xb lb]; simpl. intros Hla Hlb [[Hv H1] H2] [[_ H3] H4]. subst vb.
  assert (Hx : xa = xb) by lia. subst xb.
  assert (Hp : (2 ^ (width va - Z.of_N la) = 2 ^ (width va - Z.of_N lb))%Z) by lia.
  apply Z.pow_inj_r in Hp; try lia. f_equal. lia.
Qed.
Theorem ip_antisym (p c : net) :
  (Z.of_N (n_plen p) <= width (n_ver p))%Z -> (Z.of_N (n_plen c) <= width (n_ver c))%Z ->
  op_test OIpAddress (CNet p) (CNet c) = Some true -> op_test OIpAddress (CNet c) (CNet p) = Some true -> c = p.
Proof.
  intros Hp Hc. rewrite (proj1 (ip_sem p c)), (proj1 (ip_sem c p)), !some_true_iff. intros H1 H2.
  apply subnet_of_antisym; assumption.
Qed.

(* ---- C2. the whole address space: 0.0.0.0/0 accepts every IPv4 network, ::/0 every IPv6 network, and a network that
        accepts everything of its version IS the /0 *)
Lemma wf_net_fits (c : net) : wf_net c -> (hi c <= 2 ^ width (n_ver c))%Z.
Proof.
  unfold wf_net, hi, blk. set (W := width (n_ver c)). set (l := Z.of_N (n_plen c)). intros (Hl & Ha & Hm).
  pose proof (lo_nonneg c) as H0.
  assert (HB : (0 < 2 ^ (W - l))%Z) by (apply Z.pow_pos_nonneg; lia).
  assert (HW : (2 ^ W = 2 ^ l * 2 ^ (W - l))%Z) by (rewrite <- Z.pow_add_r by lia; f_equal; lia).
  assert (Hq : (lo c = 2 ^ (W - l) * (lo c / 2 ^ (W - l)))%Z) by (apply Z.div_exact; lia).
  set (B := (2 ^ (W - l))%Z) in *. set (q := (lo c / B)%Z) in *.
  assert (Hql : (q < 2 ^ l)%Z) by nia. nia.
Qed.
Theorem ip_default_route (c : net) : wf_net c ->
  op_test OIpAddress (CNet (Net (n_ver c) 0 0)) (CNet c) = Some true.
Proof.
  intros Hwf. rewrite (proj1 (ip_sem _ c)). f_equal. pose proof (wf_net_fits c Hwf) as Hf. pose proof (lo_nonneg c) as H0.
  unfold subnet_of. rewrite !andb_true_iff, ipver_eqb_eq, !Z.leb_le. cbn [n_ver]. repeat split.
  - exact H0.
  - unfold hi at 2. unfold lo, blk. cbn [n_ver n_addr n_plen]. rewrite Z.sub_0_r. simpl Z.of_N. lia.
Qed.
Theorem ip_only_default_accepts_all (p : net) : wf_net p ->
  (forall c, wf_net c -> n_ver c = n_ver p -> op_test OIpAddress (CNet p) (CNet c) = Some true) ->
  p = Net (n_ver p) 0 0.
Proof.
  intros (Hl & Ha & _) H. destruct p as [v x l]. cbn [n_ver n_addr n_plen] in *.
  assert (Hz : wf_net (Net v 0 0)).
  { unfold wf_net, lo; cbn [n_ver n_addr n_plen]. simpl Z.of_N. pose proof (width_pos v).
    split; [lia|]. split; [apply Z.pow_pos_nonneg; lia|]. apply Z.mod_0_l. unfold blk. apply Z.pow_nonzero; lia. }
  specialize (H _ Hz eq_refl). rewrite (proj1 (ip_sem _ _)), some_true_iff in H.
  unfold subnet_of, hi, lo, blk in H. cbn [n_ver n_addr n_plen] in H. unfold lo in Ha. cbn [n_addr n_ver] in Ha.
  rewrite !andb_true_iff, !Z.leb_le in H. destruct H as [[_ H1] H2]. simpl Z.of_N in H1, H2. rewrite Z.sub_0_r in H2.
  assert (Hx : x = 0%N) by lia. subst x. f_equal.
  destruct (N.eq_dec l 0) as [E|E]; [exact E|exfalso].
  assert ((2 ^ (width v - Z.of_N l) < 2 ^ width v)%Z) by (apply Z.pow_lt_mono_r; lia). simpl Z.of_N in H2. lia.
Qed.

(* ---- C3. MONOTONE IN THE PREFIX LENGTH.  [net_at v x l] is the /l network that contains the address x -- the
        arithmetic masking mk_net of Net/Arith.v (= ipaddress.ip_network((x, l), strict=False), C17) at the width of
        the version.  A shorter policy prefix on the same base address accepts everything the longer one accepts. *)
Definition wbits (v : ipver) : N := match v with V4 => 32 | V6 => 128 end.
Definition net_at (v : ipver) (x l : N) : net := Net v (fst (Net.Arith.mk_net (wbits v) x l)) l.

Lemma width_wbits v : width v = Z.of_N (wbits v). Proof. destruct v; reflexivity. Qed.
Lemma blk_bridge v l : (l <= wbits v)%N -> blk v l = Z.of_N (Net.Arith.blk (wbits v) l).
Proof.
  intros H. unfold blk, Net.Arith.blk. rewrite N2Z.inj_pow, N2Z.inj_sub by exact H. rewrite width_wbits. reflexivity.
Qed.
(* the two notions of well-formed network (Z intervals here, N arithmetic in Net/Arith.v) agree *)
Lemma wf_bridge (n : net) : wf_net n <-> Net.Arith.wf (wbits (n_ver n)) (n_addr n, n_plen n).
Proof.
  unfold wf_net, Net.Arith.wf, lo. rewrite width_wbits. split.
  - intros (Hl & Ha & Hm). assert (Hl' : (n_plen n <= wbits (n_ver n))%N) by lia.
    rewrite (blk_bridge _ _ Hl') in Hm. rewrite <- N2Z.inj_mod in Hm.
    change 2%Z with (Z.of_N 2) in Ha. rewrite <- N2Z.inj_pow in Ha. repeat split; lia.
  - intros (Hl & Ha & Hm). rewrite (blk_bridge _ _ Hl), <- N2Z.inj_mod, Hm.
    change 2%Z with (Z.of_N 2). rewrite <- N2Z.inj_pow. repeat split; lia.
Qed.
Lemma net_at_wf v x l : (l <= wbits v)%N -> (x < 2 ^ wbits v)%N -> wf_net (net_at v x l).
Proof.
  intros Hl Hx. apply wf_bridge. unfold net_at. cbn [n_ver n_addr n_plen].
  pose proof (Net.Arith.mk_net_wf (wbits v) x l Hl Hx) as H. unfold Net.Arith.mk_net in *. exact H.
Qed.
Lemma net_at_of_wf (n : net) : wf_net n -> net_at (n_ver n) (n_addr n) (n_plen n) = n.
Proof.
  intros H. apply wf_bridge in H. unfold net_at. rewrite (Net.Arith.mk_net_of_wf _ _ _ H). destruct n; reflexivity.
Qed.
Lemma net_at_contains v x l : (l <= wbits v)%N -> in_net (Z.of_N x) (net_at v x l).
Proof.
  intros Hl. pose proof (Net.Arith.mk_net_contains (wbits v) x l) as H.
  unfold in_net, hi, lo, net_at. cbn [n_ver n_addr n_plen]. rewrite (blk_bridge v l Hl).
  unfold Net.Arith.in_net, Net.Arith.mk_net in *. cbn [fst] in *.
  set (B := Net.Arith.blk (wbits v) l) in *. set (a := (x / B * B)%N) in *. lia.
Qed.

Lemma mk_net_mono W x l k : (l <= k)%N -> (k <= W)%N ->
  (fst (Net.Arith.mk_net W x l) <= fst (Net.Arith.mk_net W x k))%N /\
  (fst (Net.Arith.mk_net W x k) + Net.Arith.blk W k <= fst (Net.Arith.mk_net W x l) + Net.Arith.blk W l)%N.
Proof.
  intros Hlk HkW. unfold Net.Arith.mk_net. cbn [fst].
  pose proof (Net.Arith.blk_pos W k) as Bk. set (B := Net.Arith.blk W k) in *.
  set (m := (2 ^ (k - l))%N).
  assert (Hm : (0 < m)%N) by (apply N.neq_0_lt_0; apply N.pow_nonzero; discriminate).
  assert (HB : Net.Arith.blk W l = (B * m)%N).
  { unfold B, m, Net.Arith.blk. rewrite <- N.pow_add_r. f_equal. lia. }
  rewrite HB. rewrite <- (N.div_div x B m) by lia. set (q := (x / B)%N).
  assert (H1 : (m * (q / m) <= q)%N) by (apply N.mul_div_le; lia).
  assert (H2 : (q < m * N.succ (q / m))%N) by (apply N.mul_succ_div_gt; lia).
  set (r := (q / m)%N) in *. split; nia.
Qed.
Theorem net_at_mono v x l k : (l <= k)%N -> (k <= wbits v)%N ->
  subnet_of (net_at v x k) (net_at v x l) = true.
Proof.
  intros Hlk Hk. destruct (mk_net_mono (wbits v) x l k Hlk Hk) as [H1 H2].
  unfold subnet_of, hi, lo, net_at. cbn [n_ver n_addr n_plen].
  rewrite (blk_bridge v k Hk), (blk_bridge v l) by lia.
  rewrite !andb_true_iff, ipver_eqb_eq, !Z.leb_le. repeat split; lia.
Qed.
(* strictly: for l < k the /l network itself is accepted by the /l policy and not by the /k policy *)
Theorem net_at_mono_strict v x l k : (l < k)%N -> (k <= wbits v)%N ->
  subnet_of (net_at v x l) (net_at v x k) = false.
Proof.
  intros Hlk Hk. destruct (mk_net_mono (wbits v) x l k) as [H1 H2]; [lia|exact Hk|].
  unfold subnet_of, hi, lo, net_at. cbn [n_ver n_addr n_plen].
  rewrite (blk_bridge v k Hk), (blk_bridge v l) by lia.
  assert (HB : (Net.Arith.blk (wbits v) k < Net.Arith.blk (wbits v) l)%N).
  { unfold Net.Arith.blk. apply N.pow_lt_mono_r; lia. }
  apply not_true_is_false. rewrite !andb_true_iff, !Z.leb_le. intros [[_ H3] H4]. lia.
Qed.
Theorem ip_prefix_monotone v x l k c : (l <= k)%N -> (k <= wbits v)%N ->
  op_test OIpAddress (CNet (net_at v x k)) c = Some true -> op_test OIpAddress (CNet (net_at v x l)) c = Some true.
Proof.
  intros Hlk Hk H. apply (ip_trans c (CNet (net_at v x k)) (CNet (net_at v x l)) H).
  rewrite (proj1 (ip_sem _ _)), (net_at_mono v x l k Hlk Hk). reflexivity.
Qed.

(* ================================================================================================================
   D. BOOL: identity with the policy boolean (kwargs[key] is policy) *)
Theorem bool_sem p c :
  op_test OBool p c =
    match p, c with
    | CFn, _ => None
    | _, CAbsent => None
    | CBool pb, CBool cb => Some (Bool.eqb cb pb)
    | _, _ => Some false
    end.
Proof. destruct p; try reflexivity; destruct c; reflexivity. Qed.
Theorem bool_true_iff p c : op_test OBool p c = Some true <-> exists b, p = CBool b /\ c = CBool b.
Proof.
  rewrite bool_sem. split.
  - destruct p; try discriminate; destruct c; try discriminate. rewrite some_true_iff, eqb_true_iff.
    intros ->. eexists; split; reflexivity.
  - intros (b & -> & ->). rewrite eqb_reflx. reflexivity.
Qed.
Theorem bool_refl (b : bool) : op_test OBool (CBool b) (CBool b) = Some true.
Proof. apply bool_true_iff. exists b. auto. Qed.
Theorem bool_sym a b : op_test OBool b a = Some true -> op_test OBool a b = Some true.
Proof. rewrite !bool_true_iff. intros (x & -> & ->). exists x. auto. Qed.
Theorem bool_trans a b c :
  op_test OBool b a = Some true -> op_test OBool c b = Some true -> op_test OBool c a = Some true.
Proof. rewrite !bool_true_iff. intros (x & -> & ->) (y & -> & Hy). exists y. auto. Qed.
(* a request value that is not a boolean (1, "true", None, a list ...) satisfies neither Bool:true nor Bool:false *)
Theorem bool_non_boolean p c : p <> CFn -> c <> CAbsent -> (forall b, c <> CBool b) -> op_test OBool p c = Some false.
Proof.
  intros Hp Hc Hb. rewrite bool_sem.
  destruct c as [| |cb|zc|sc|ac uc|cn|bsc| |]; try (exfalso; apply (Hb cb); reflexivity); try congruence;
    destruct p; try congruence; reflexivity.
Qed.

(* ================================================================================================================
   E. GENERAL *)

(* ---- E1. an operator and its negated form are defined on EXACTLY the same operands -- all operands, no hypothesis *)
Theorem dual_same_domain o o' p c : neg_of o = Some o' -> (op_test o p c = None <-> op_test o' p c = None).
Proof.
  intros Hn. destruct o; inversion Hn; subst o'; clear Hn.
  1-5,7-8: destruct p; try tauto; destruct c; cbn; split; congruence.
  rewrite (proj1 (ip_full_sem p c)), (proj2 (ip_full_sem p c)).
  destruct p; try tauto; try (split; discriminate). destruct c; try tauto; split; discriminate.
Qed.
(* ... and it IS the negation there, except IpAddress / NotIpAddress on a policy value that is not a network, where the
   code answers False for both (C11_ip_policy_not_a_network) *)
Theorem negation_dual_all o o' p c : neg_of o = Some o' ->
  (o = OIpAddress -> p = CFn \/ exists n, p = CNet n) ->
  op_test o' p c = option_map negb (op_test o p c).
Proof.
  intros Hn Hip. destruct o; inversion Hn; subst o'; clear Hn.
  1-5,7-8: destruct p; try reflexivity; destruct c; reflexivity.
  destruct (Hip eq_refl) as [->|[n ->]]; [reflexivity|]. apply not_ip_negation.
Qed.
Theorem ip_negation_not_network_refuted :
  exists p c, op_test OIpAddress p c = Some false /\ op_test ONotIpAddress p c = Some false.
Proof. exists (CStr []), CNone. split; reflexivity. Qed.

(* ---- E2. WHEN IS THE ANSWER UNDEFINED?  The 27 operators fall in six classes *)
Inductive opclass := KEq | KOrd | KText | KIp | KBool | KNull.
Definition op_class (o : base_op) : opclass :=
  match o with
  | OStringEquals | OStringNotEquals | ONumericEquals | ONumericNotEquals | ODateEquals | ODateNotEquals
  | OBinaryEquals | OArnEquals | OArnNotEquals => KEq
  | ONumericLessThan | ONumericLessThanEquals | ONumericGreaterThan | ONumericGreaterThanEquals
  | ODateLessThan | ODateLessThanEquals | ODateGreaterThan | ODateGreaterThanEquals => KOrd
  | OStringEqualsIgnoreCase | OStringNotEqualsIgnoreCase | OStringLike | OStringNotLike | OArnLike | OArnNotLike => KText
  | OIpAddress | ONotIpAddress => KIp
  | OBool => KBool
  | ONull => KNull
  end.

Lemma none_eq o p c : op_class o = KEq \/ op_class o = KBool -> (op_test o p c = None <-> p = CFn \/ c = CAbsent).
Proof.
  intros Hk. destruct o; cbn [op_class] in Hk; try (destruct Hk as [Hk|Hk]; discriminate); clear Hk.
  all: destruct p; cbn; try (split; [auto | reflexivity]; fail); destruct c; cbn;
       try (split; [auto | reflexivity]; fail); (split; [discriminate | intros [H|H]; discriminate]).
Qed.
Lemma none_ord o p c : op_class o = KOrd -> (op_test o p c = None <-> ~ comparable c p).
Proof.
  assert (Hord : forall r : option bool, (r <> None <-> comparable c p) -> (r = None <-> ~ comparable c p)).
  { intros r [H1 H2]. destruct r as [b|]; split; intros H; try discriminate; try reflexivity.
    - exfalso. apply H. apply H1. discriminate.
    - intros Hc. apply H2 in Hc. congruence. }
  intros Hk. destruct o; try discriminate; apply Hord;
    first [apply (ord_defined_iff ONum p c) | apply (ord_defined_iff ODat p c)].
Qed.
Lemma none_text o p c : op_class o = KText ->
  (op_test o p c = None <-> ~ exists ps cs, p = CStr ps /\ c = CStr cs).
Proof.
  intros Hk. destruct o; try discriminate.
  all: destruct p as [| |bp|zp|sp|ap up|pn|bsp| |];
         try (split; [intros _ (ps & cs & H1 & H2); discriminate | reflexivity]);
       destruct c as [| |bc|zc|sc|ac uc|cn|bsc| |];
         try (split; [intros _ (ps & cs & H1 & H2); discriminate | reflexivity]);
       (split; [discriminate | intros H; exfalso; apply H; eexists; eexists; split; reflexivity]).
Qed.
Lemma none_ip o p c : op_class o = KIp ->
  (op_test o p c = None <-> p = CFn \/ ((exists pn, p = CNet pn) /\ ~ exists cn, c = CNet cn)).
Proof.
  intros Hk. destruct o; try discriminate.
  all: rewrite ?(proj1 (ip_full_sem p c)), ?(proj2 (ip_full_sem p c));
       destruct p as [| |bp|zp|sp|ap up|pn|bsp| |];
         try (split; [discriminate | intros [H|[[n H] _]]; discriminate]); try (split; auto; fail);
       destruct c as [| |bc|zc|sc|ac uc|cn|bsc| |];
         try (split; [intros _; right; split; [eexists; reflexivity | intros [n H]; discriminate] | reflexivity]);
       (split; [discriminate | intros [H|[_ H]]; [discriminate | exfalso; apply H; eexists; reflexivity]]).
Qed.
Lemma none_null o p c : op_class o = KNull -> (op_test o p c = None <-> p = CFn).
Proof. intros Hk. destruct o; try discriminate. destruct p; cbn; split; congruence. Qed.

Theorem none_characterised o p c :
  op_test o p c = None <->
  match op_class o with
  | KEq | KBool => p = CFn \/ c = CAbsent
  | KOrd => ~ comparable c p
  | KText => ~ exists ps cs, p = CStr ps /\ c = CStr cs
  | KIp => p = CFn \/ ((exists pn, p = CNet pn) /\ ~ exists cn, c = CNet cn)
  | KNull => p = CFn
  end.
Proof.
  destruct (op_class o) eqn:E.
  - apply none_eq. auto.
  - apply none_ord. exact E.
  - apply none_text. exact E.
  - apply none_ip. exact E.
  - apply none_eq. auto.
  - apply none_null. exact E.
Qed.

(* ---- E3. three-valued, and a function of its operands *)
Theorem three_valued o p c : op_test o p c = Some true \/ op_test o p c = Some false \/ op_test o p c = None.
Proof. destruct (op_test o p c) as [[|]|]; auto. Qed.
Theorem deterministic o p c r1 r2 : op_test o p c = r1 -> op_test o p c = r2 -> r1 = r2.
Proof. congruence. Qed.

(* ================================================================================================================
   F. the statements of Properties/C11.v, assembled *)

Theorem ord_laws f :
  (forall p c, op_test (o_le f) p c = lift2 orb (op_test (o_lt f) p c) (op_test (o_eq f) p c)) /\
  (forall p c, op_test (o_ge f) p c = lift2 orb (op_test (o_gt f) p c) (op_test (o_eq f) p c)) /\
  (forall p c, op_test (o_ge f) p c = option_map negb (op_test (o_lt f) p c)) /\
  (forall p c, op_test (o_gt f) p c = option_map negb (op_test (o_le f) p c)) /\
  (forall p c, op_test (o_ne f) p c = option_map negb (op_test (o_eq f) p c)) /\
  (forall p c, op_test (o_lt f) p c = op_test (o_gt f) c p /\ op_test (o_le f) p c = op_test (o_ge f) c p) /\
  (forall a b c, op_test (o_lt f) b a = Some true -> op_test (o_lt f) c b = Some true -> op_test (o_lt f) c a = Some true) /\
  (forall a b c, op_test (o_le f) b a = Some true -> op_test (o_le f) c b = Some true -> op_test (o_le f) c a = Some true) /\
  (forall a b c, op_test (o_lt f) b a = Some true -> op_test (o_le f) c b = Some true -> op_test (o_lt f) c a = Some true) /\
  (forall a b c, op_test (o_le f) b a = Some true -> op_test (o_lt f) c b = Some true -> op_test (o_lt f) c a = Some true) /\
  (forall a b, op_test (o_le f) b a = Some true -> op_test (o_le f) a b = Some true -> op_test (o_eq f) b a = Some true) /\
  (forall a, op_test (o_lt f) a a <> Some true) /\
  (forall a b, op_test (o_lt f) b a = Some true -> op_test (o_lt f) a b = Some false) /\
  (forall a b, comparable a b -> op_test (o_le f) b a = Some true \/ op_test (o_le f) a b = Some true) /\
  (forall a, comparable a a -> op_test (o_le f) a a = Some true /\ op_test (o_eq f) a a = Some true).
Proof.
  split; [exact (ord_le_is_lt_or_eq f)|]. split; [exact (ord_ge_is_gt_or_eq f)|]. split; [exact (ord_ge_is_not_lt f)|].
  split; [exact (ord_gt_is_not_le f)|]. split; [exact (ne_is_not_eq f)|]. split; [exact (ord_converse f)|].
  split; [exact (ord_lt_trans f)|]. split; [exact (ord_le_trans f)|]. split; [exact (ord_lt_le_trans f)|].
  split; [exact (ord_le_lt_trans f)|]. split; [exact (ord_le_antisym f)|]. split; [exact (ord_lt_irrefl f)|].
  split; [exact (ord_lt_asym f)|]. split; [exact (ord_le_total f)|]. exact (ord_le_refl f).
Qed.

Theorem numeric_argument_order p c x y : as_int c = Some x -> as_int p = Some y ->
  (op_test ONumericEquals p c = Some true <-> x = y) /\
  (op_test ONumericNotEquals p c = Some true <-> x <> y) /\
  (op_test ONumericLessThan p c = Some true <-> (x < y)%Z) /\
  (op_test ONumericLessThanEquals p c = Some true <-> (x <= y)%Z) /\
  (op_test ONumericGreaterThan p c = Some true <-> (x > y)%Z) /\
  (op_test ONumericGreaterThanEquals p c = Some true <-> (x >= y)%Z).
Proof. intros Hc Hp. apply (ord_sem_prop ONum). left. auto. Qed.
Theorem numeric_values p c x y : as_int c = Some x -> as_int p = Some y ->
  op_test ONumericEquals p c = Some (x =? y)%Z /\
  op_test ONumericNotEquals p c = Some (negb (x =? y)%Z) /\
  op_test ONumericLessThan p c = Some (x <? y)%Z /\
  op_test ONumericLessThanEquals p c = Some (x <=? y)%Z /\
  op_test ONumericGreaterThan p c = Some (y <? x)%Z /\
  op_test ONumericGreaterThanEquals p c = Some (y <=? x)%Z.
Proof. intros Hc Hp. apply (ord_sem ONum). left. auto. Qed.
Theorem numeric_trichotomy p c : (exists x y, as_int c = Some x /\ as_int p = Some y) ->
  (op_test ONumericLessThan p c = Some true /\ op_test ONumericEquals p c = Some false /\ op_test ONumericGreaterThan p c = Some false) \/
  (op_test ONumericLessThan p c = Some false /\ op_test ONumericEquals p c = Some true /\ op_test ONumericGreaterThan p c = Some false) \/
  (op_test ONumericLessThan p c = Some false /\ op_test ONumericEquals p c = Some false /\ op_test ONumericGreaterThan p c = Some true).
Proof. intros H. apply (ord_trichotomy ONum). left. exact H. Qed.
Theorem date_argument_order (aware : bool) (x y : Z) :
  op_test ODateEquals (CDate aware y) (CDate aware x) = Some (x =? y)%Z /\
  op_test ODateNotEquals (CDate aware y) (CDate aware x) = Some (negb (x =? y)%Z) /\
  op_test ODateLessThan (CDate aware y) (CDate aware x) = Some (x <? y)%Z /\
  op_test ODateLessThanEquals (CDate aware y) (CDate aware x) = Some (x <=? y)%Z /\
  op_test ODateGreaterThan (CDate aware y) (CDate aware x) = Some (y <? x)%Z /\
  op_test ODateGreaterThanEquals (CDate aware y) (CDate aware x) = Some (y <=? x)%Z.
Proof. apply (ord_sem ODat). right. exists aware. auto. Qed.
Theorem date_trichotomy p c : (exists a x y, c = CDate a x /\ p = CDate a y) ->
  (op_test ODateLessThan p c = Some true /\ op_test ODateEquals p c = Some false /\ op_test ODateGreaterThan p c = Some false) \/
  (op_test ODateLessThan p c = Some false /\ op_test ODateEquals p c = Some true /\ op_test ODateGreaterThan p c = Some false) \/
  (op_test ODateLessThan p c = Some false /\ op_test ODateEquals p c = Some false /\ op_test ODateGreaterThan p c = Some true).
Proof. intros H. apply (ord_trichotomy ODat). right. exact H. Qed.

Theorem equals_equivalence o : is_equals o = true ->
  (forall v, v <> CAbsent /\ v <> COther /\ v <> CFn -> op_test o v v = Some true) /\
  (forall a b, op_test o b a = Some true -> op_test o a b = Some true) /\
  (forall a b c, op_test o b a = Some true -> op_test o c b = Some true -> op_test o c a = Some true) /\
  (forall p c : str, op_test o (CStr p) (CStr c) = Some (str_eqb c p) /\ (op_test o (CStr p) (CStr c) = Some true <-> c = p)).
Proof.
  intros Ho. split; [exact (fun v => equals_refl o v Ho)|]. split; [exact (fun a b => equals_sym o a b Ho)|].
  split; [exact (fun a b c => equals_trans o a b c Ho)|]. exact (fun p c => equals_text o p c Ho).
Qed.
Theorem string_equals_equivalence :
  (forall v, v <> CAbsent /\ v <> COther /\ v <> CFn -> op_test OStringEquals v v = Some true) /\
  (forall a b, op_test OStringEquals b a = Some true -> op_test OStringEquals a b = Some true) /\
  (forall a b c, op_test OStringEquals b a = Some true -> op_test OStringEquals c b = Some true ->
                 op_test OStringEquals c a = Some true) /\
  (forall p c : str, op_test OStringEquals (CStr p) (CStr c) = Some (str_eqb c p) /\
                     (op_test OStringEquals (CStr p) (CStr c) = Some true <-> c = p)).
Proof. apply (equals_equivalence OStringEquals). reflexivity. Qed.
Theorem ignorecase_equivalence :
  (forall p c, op_test OStringEqualsIgnoreCase p c = Some true <->
               exists ps cs, p = CStr ps /\ c = CStr cs /\ fold cs = fold ps) /\
  (forall s : str, op_test OStringEqualsIgnoreCase (CStr s) (CStr s) = Some true) /\
  (forall a b, op_test OStringEqualsIgnoreCase b a = Some true -> op_test OStringEqualsIgnoreCase a b = Some true) /\
  (forall a b c, op_test OStringEqualsIgnoreCase b a = Some true -> op_test OStringEqualsIgnoreCase c b = Some true ->
                 op_test OStringEqualsIgnoreCase c a = Some true) /\
  (forall p (cs cs' : str), fold cs = fold cs' ->
                 op_test OStringEqualsIgnoreCase p (CStr cs) = op_test OStringEqualsIgnoreCase p (CStr cs')).
Proof.
  split; [exact ic_sem|]. split; [exact ic_refl|]. split; [exact ic_sym|]. split; [exact ic_trans|]. exact ic_fold_invariant.
Qed.

Theorem ip_preorder :
  (forall p c : net, op_test OIpAddress (CNet p) (CNet c) = Some (subnet_of c p) /\
                     op_test ONotIpAddress (CNet p) (CNet c) = Some (negb (subnet_of c p))) /\
  (forall p : net, op_test OIpAddress (CNet p) (CNet p) = Some true) /\
  (forall a b c, op_test OIpAddress b a = Some true -> op_test OIpAddress c b = Some true ->
                 op_test OIpAddress c a = Some true) /\
  (forall p c : net, (Z.of_N (n_plen p) <= width (n_ver p))%Z -> (Z.of_N (n_plen c) <= width (n_ver c))%Z ->
     op_test OIpAddress (CNet p) (CNet c) = Some true -> op_test OIpAddress (CNet c) (CNet p) = Some true -> c = p).
Proof. split; [exact ip_sem|]. split; [exact ip_refl|]. split; [exact ip_trans|]. exact ip_antisym. Qed.

Theorem ip_default_route_all :
  (forall c : net, wf_net c -> n_ver c = V4 -> op_test OIpAddress (CNet (Net V4 0 0)) (CNet c) = Some true) /\
  (forall c : net, wf_net c -> n_ver c = V6 -> op_test OIpAddress (CNet (Net V6 0 0)) (CNet c) = Some true) /\
  (forall p : net, wf_net p ->
     (forall c, wf_net c -> n_ver c = n_ver p -> op_test OIpAddress (CNet p) (CNet c) = Some true) ->
     p = Net (n_ver p) 0 0).
Proof.
  split; [|split].
  - intros c Hwf Hv. rewrite <- Hv. apply ip_default_route. exact Hwf.
  - intros c Hwf Hv. rewrite <- Hv. apply ip_default_route. exact Hwf.
  - exact ip_only_default_accepts_all.
Qed.

Theorem ip_prefix_laws (v : ipver) (x l k : N) : (l <= k)%N -> (k <= wbits v)%N -> (x < 2 ^ wbits v)%N ->
  wf_net (net_at v x l) /\ wf_net (net_at v x k) /\
  in_net (Z.of_N x) (net_at v x k) /\
  subnet_of (net_at v x k) (net_at v x l) = true /\
  (forall c, op_test OIpAddress (CNet (net_at v x k)) c = Some true ->
             op_test OIpAddress (CNet (net_at v x l)) c = Some true) /\
  ((l < k)%N -> op_test OIpAddress (CNet (net_at v x l)) (CNet (net_at v x l)) = Some true /\
                op_test OIpAddress (CNet (net_at v x k)) (CNet (net_at v x l)) = Some false).
Proof.
  intros Hlk Hk Hx.
  split; [apply net_at_wf; [lia|exact Hx]|]. split; [apply net_at_wf; assumption|].
  split; [apply net_at_contains; exact Hk|]. split; [apply net_at_mono; assumption|].
  split; [intros c; apply ip_prefix_monotone; assumption|].
  intros Hlt. split; [apply ip_refl|]. rewrite (proj1 (ip_sem _ _)), (net_at_mono_strict v x l k Hlt Hk). reflexivity.
Qed.

Theorem bool_equivalence :
  (forall p c, op_test OBool p c = Some true <-> exists b, p = CBool b /\ c = CBool b) /\
  (forall pb cb : bool, op_test OBool (CBool pb) (CBool cb) = Some (Bool.eqb cb pb)) /\
  (forall b : bool, op_test OBool (CBool b) (CBool b) = Some true) /\
  (forall a b, op_test OBool b a = Some true -> op_test OBool a b = Some true) /\
  (forall a b c, op_test OBool b a = Some true -> op_test OBool c b = Some true -> op_test OBool c a = Some true) /\
  (forall p c, p <> CFn -> c <> CAbsent -> (forall b, c <> CBool b) -> op_test OBool p c = Some false).
Proof.
  split; [exact bool_true_iff|]. split; [reflexivity|]. split; [exact bool_refl|]. split; [exact bool_sym|].
  split; [exact bool_trans|]. exact bool_non_boolean.
Qed.

End Algebra.
