(* C12 -- combination of operators, keys, values and qualifiers in a condition block.
   Executable definitions only (theorems: Iam/BlockFacts.v).  Port of notes/probes/BlockProbe.v.

   Code modelled: statement_condition.build_root_evaluator / StatementCondition.build_eval / __call__  AS SPECIFIED,
   i.e. with each key's evaluator bound to ITS OWN key and negated operators excluding ALL listed values
   (the unrepaired code violates both: known defects 9 and 10). *)
From Coq Require Import List Bool NArith ZArith.
From PV Require Import Base.Str Base.Value Iam.Ops Iam.OpNames.
Import ListNotations.

(* Python all(f(x) for x in l) / any(...) where evaluating f(x) may raise:
   left to right, stop at the first False / True, the first exception aborts (None) *)
Fixpoint all_sc {A} (f : A -> option bool) (l : list A) : option bool :=
  match l with
  | [] => Some true
  | x :: xs => match f x with None => None | Some false => Some false | Some true => all_sc f xs end
  end.
Fixpoint any_sc {A} (f : A -> option bool) (l : list A) : option bool :=
  match l with
  | [] => Some false
  | x :: xs => match f x with None => None | Some true => Some true | Some false => any_sc f xs end
  end.

(* policy value(s) under one key: a single value or a list (the distinction matters: StringEquals {k: "a"} compares
   ctx[k] itself, StringEquals {k: ["a"]} compares each member of ctx[k]) *)
Inductive pvals := POne (p : cval) | PMany (ps : list cval).
Definition plist (pv : pvals) : list cval := match pv with POne p => [p] | PMany ps => ps end.
(* a context value: a single value or a list of values *)
Inductive ctxval := XOne (c : cval) | XMany (cs : list cval).
Definition context := list (str * ctxval).
Definition ctx_get (ctx : context) (k : str) : option ctxval := lookup k ctx.
(* convert_to_list(kwargs[key]) *)
Definition as_list (x : ctxval) : list cval := match x with XOne c => [c] | XMany cs => cs end.
(* kwargs[key] handed to a leaf comparison as it is: a list is "some other object" for every operator *)
Definition leaf_of (x : option ctxval) : cval :=
  match x with None => CAbsent | Some (XOne c) => c | Some (XMany _) => COther end.
(* kwargs.get(key) is not None *)
Definition present (ctx : context) (k : str) : bool :=
  match ctx_get ctx k with None => false | Some (XOne CNone) => false | Some _ => true end.

Definition groups := list (str * pvals).        (* {key: value(s)} of one operator, in input order *)
Definition block := list (str * groups).        (* {operator name: {key: value(s)}}, names as written (maybe with ':') *)

Section Block.
(* the leaf comparison: operator, policy value, context value (Ops.op_test fold) *)
Variable test : base_op -> cval -> cval -> option bool.

(* one context value against the policy values of the key:
   alternatives (any) for a positive operator, jointly excluded (all) for a negated one *)
Definition value_ok (o : base_op) (ps : list cval) (c : cval) : option bool :=
  if negated o then all_sc (fun p => test o p c) ps else any_sc (fun p => test o p c) ps.

(* one (operator, key) after the IfExists suffix has been dealt with *)
Definition eval_inner (q : qual) (o : base_op) (k : str) (pv : pvals) (ctx : context) : option bool :=
  match q, pv with
  | QNone, POne p => test o p (leaf_of (ctx_get ctx k))
  | QAll, _ =>
      match ctx_get ctx k with
      | None => None                                            (* KeyError *)
      | Some x => all_sc (value_ok o (plist pv)) (as_list x)
      end
  | _, _ =>                                                      (* ForAnyValue, or no qualifier and a value LIST *)
      match ctx_get ctx k with
      | None => None
      | Some x => any_sc (value_ok o (plist pv)) (as_list x)
      end
  end.

Definition eval_key (e : op_entry) (k : str) (pv : pvals) (ctx : context) : option bool :=
  if e_ifx e && negb (present ctx k) then Some true
  else eval_inner (e_qual e) (e_base e) k pv ctx.

Definition eval_entry (ctx : context) (eg : op_entry * groups) : option bool :=
  all_sc (fun kp => eval_key (fst eg) (fst kp) (snd kp) ctx) (snd eg).

(* remove_colon: {key.replace(":", ""): value ...} -- a later duplicate replaces an earlier one *)
Definition norm_block (b : block) : block := map (fun ng => (norm_name (fst ng), snd ng)) b.
Definition find_last (n : str) (b : block) : option groups := lookup n (rev b).

(* the operators that are set, in the DECLARATION ORDER of the table (= order of model_dump()) *)
Definition active (ord : list op_entry) (b : block) : list (op_entry * groups) :=
  flat_map (fun e => match find_last (e_name e) (norm_block b) with Some g => [(e, g)] | None => [] end) ord.

Definition pv_has_fn (pv : pvals) : bool := existsb (fun p => match p with CFn => true | _ => false end) (plist pv).
Definition has_fn (act : list (op_entry * groups)) : bool :=
  existsb (fun eg => existsb (fun kp => pv_has_fn (snd kp)) (snd eg)) act.

(* StatementCondition.__call__(ctx):  Some b = returned b,  None = returned None (an exception was caught).
   All evaluators are BUILT before anything is evaluated: an unresolved function object anywhere gives None. *)
Definition eval_block (ord : list op_entry) (b : block) (ctx : context) : option bool :=
  let act := active ord b in
  if has_fn act then None else all_sc (eval_entry ctx) act.

(* every operator name of the block is a field of the class (otherwise pydantic rejects the block: extra=forbid) *)
Definition names_known (ord : list op_entry) (b : block) : bool :=
  forallb (fun ng => mem_str (fst ng) (map e_name ord)) (norm_block b).
End Block.
