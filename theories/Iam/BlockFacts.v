(* C12 -- theorems about eval_block (all blocks, all contexts, any leaf comparison, any operator table). *)
From Coq Require Import List Bool NArith ZArith Lia.
From PV Require Import Base.Str Base.Value Iam.Ops Iam.OpNames Iam.Block.
Import ListNotations.

(* "P holds for some member, and Q for every member before it" *)
Definition first_with {A} (P Q : A -> Prop) (l : list A) : Prop :=
  exists l1 x l2, l = l1 ++ x :: l2 /\ P x /\ Forall Q l1.

Lemma first_with_here {A} (P Q : A -> Prop) x l : P x -> first_with P Q (x :: l).
Proof. intros H. exists [], x, l. auto. Qed.
Lemma first_with_later {A} (P Q : A -> Prop) x l : Q x -> first_with P Q l -> first_with P Q (x :: l).
Proof. intros H (l1 & y & l2 & -> & Hy & Hl). exists (x :: l1), y, l2. auto. Qed.
Lemma first_with_inv {A} (P Q : A -> Prop) x l : first_with P Q (x :: l) -> P x \/ (Q x /\ first_with P Q l).
Proof.
  intros (l1 & y & l2 & E & Hy & Hl). destruct l1 as [|z l1]; simpl in E; inversion E; subst.
  - left; exact Hy.
  - right. inversion Hl; subst. split; [assumption|]. exists l1, y, l2. auto.
Qed.
Lemma first_with_nil {A} (P Q : A -> Prop) : ~ first_with P Q [].
Proof. intros (l1 & y & l2 & E & _). destruct l1; discriminate. Qed.
Lemma first_with_Exists {A} (P Q : A -> Prop) l : first_with P Q l -> Exists P l.
Proof. intros (l1 & y & l2 & -> & Hy & _). apply Exists_app. right. left. exact Hy. Qed.

Section ScLemmas.
Context {A : Type}.
Variable f : A -> option bool.
Variables T F : A -> Prop.
Hypothesis HT : forall x, f x = Some true <-> T x.
Hypothesis HF : forall x, f x = Some false <-> F x.

Lemma all_sc_true_rel l : all_sc f l = Some true <-> Forall T l.
Proof.
  induction l as [|x l IH]; simpl; [split; auto|].
  destruct (f x) as [[|]|] eqn:E.
  - rewrite IH. split; [intros; constructor; [apply HT|]; auto | intros H; inversion H; auto].
  - split; [discriminate | intros H; inversion H; subst]. apply HT in H2. congruence.
  - split; [discriminate | intros H; inversion H; subst]. apply HT in H2. congruence.
Qed.
Lemma all_sc_false_rel l : all_sc f l = Some false <-> first_with F T l.
Proof.
  induction l as [|x l IH]; simpl.
  - split; [discriminate | intros H; exfalso; eapply first_with_nil; eauto].
  - destruct (f x) as [[|]|] eqn:E.
    + rewrite IH. split.
      * intros H. apply first_with_later; [apply HT; exact E | exact H].
      * intros H. apply first_with_inv in H. destruct H as [H|[_ H]]; [apply HF in H; congruence | exact H].
    + split; [intros _; apply first_with_here; apply HF; exact E | reflexivity].
    + split; [discriminate|]. intros H. apply first_with_inv in H.
      destruct H as [H|[H _]]; [apply HF in H | apply HT in H]; congruence.
Qed.
Lemma any_sc_true_rel l : any_sc f l = Some true <-> first_with T F l.
Proof.
  induction l as [|x l IH]; simpl.
  - split; [discriminate | intros H; exfalso; eapply first_with_nil; eauto].
  - destruct (f x) as [[|]|] eqn:E.
    + split; [intros _; apply first_with_here; apply HT; exact E | reflexivity].
    + rewrite IH. split.
      * intros H. apply first_with_later; [apply HF; exact E | exact H].
      * intros H. apply first_with_inv in H. destruct H as [H|[_ H]]; [apply HT in H; congruence | exact H].
    + split; [discriminate|]. intros H. apply first_with_inv in H.
      destruct H as [H|[H _]]; [apply HT in H | apply HF in H]; congruence.
Qed.
Lemma any_sc_false_rel l : any_sc f l = Some false <-> Forall F l.
Proof.
  induction l as [|x l IH]; simpl; [split; auto|].
  destruct (f x) as [[|]|] eqn:E.
  - split; [discriminate | intros H; inversion H; subst]. apply HF in H2. congruence.
  - rewrite IH. split; [intros; constructor; [apply HF|]; auto | intros H; inversion H; auto].
  - split; [discriminate | intros H; inversion H; subst]. apply HF in H2. congruence.
Qed.
End ScLemmas.

Lemma all_sc_true {A} (f : A -> option bool) l : all_sc f l = Some true <-> Forall (fun x => f x = Some true) l.
Proof. apply all_sc_true_rel. intros; reflexivity. Qed.
Lemma all_sc_none {A} (f : A -> option bool) l : all_sc f l = None -> Exists (fun x => f x = None) l.
Proof.
  induction l as [|x l IH]; simpl; [discriminate|].
  destruct (f x) as [[|]|] eqn:E; intros H; [right; auto | discriminate | left; assumption].
Qed.
Lemma any_sc_none {A} (f : A -> option bool) l : any_sc f l = None -> Exists (fun x => f x = None) l.
Proof.
  induction l as [|x l IH]; simpl; [discriminate|].
  destruct (f x) as [[|]|] eqn:E; intros H; [discriminate | right; auto | left; assumption].
Qed.
Lemma any_sc_true_total {A} (f : A -> option bool) l :
  (forall x, In x l -> f x <> None) -> (any_sc f l = Some true <-> Exists (fun x => f x = Some true) l).
Proof.
  induction l as [|x l IH]; simpl; intros Hd.
  - split; [discriminate | intros H; inversion H].
  - destruct (f x) as [[|]|] eqn:E.
    + split; [intros _; left; exact E | reflexivity].
    + rewrite IH by (intros; apply Hd; auto). split; [intros; right; assumption|].
      intros H; inversion H; subst; [congruence | assumption].
    + exfalso. apply (Hd x); auto.
Qed.
Lemma all_sc_defined {A} (f : A -> option bool) l : (forall x, In x l -> f x <> None) -> all_sc f l <> None.
Proof. intros Hd H. apply all_sc_none in H. apply Exists_exists in H. destruct H as (x & Hx & E). exact (Hd x Hx E). Qed.
Lemma any_sc_defined {A} (f : A -> option bool) l : (forall x, In x l -> f x <> None) -> any_sc f l <> None.
Proof. intros Hd H. apply any_sc_none in H. apply Exists_exists in H. destruct H as (x & Hx & E). exact (Hd x Hx E). Qed.

Section Spec.
Variable test : base_op -> cval -> cval -> option bool.
Notation value_ok := (value_ok test).
Notation eval_inner := (eval_inner test).
Notation eval_key := (eval_key test).
Notation eval_entry := (eval_entry test).
Notation eval_block := (eval_block test).

(* ------------------------------------------------------------------------------------------------------------
   Specification: the declarative reading of the property. *)

(* context value c matches / is comparable with but does not match policy value p under operator o *)
Definition t_true (o : base_op) (c p : cval) : Prop := test o p c = Some true.
Definition t_false (o : base_op) (c p : cval) : Prop := test o p c = Some false.

(* one context value against the policy values listed under the key:
   positive operator -- the values are ALTERNATIVES: some value matches (those before it were comparable and did not);
   negated operator  -- the values are JOINTLY EXCLUDED: the test holds for every one of them *)
Definition value_sat (o : base_op) (ps : list cval) (c : cval) : Prop :=
  if negated o then Forall (t_true o c) ps else first_with (t_true o c) (t_false o c) ps.
Definition value_unsat (o : base_op) (ps : list cval) (c : cval) : Prop :=
  if negated o then first_with (t_false o c) (t_true o c) ps else Forall (t_false o c) ps.

Definition inner_sat (q : qual) (o : base_op) (k : str) (pv : pvals) (ctx : context) : Prop :=
  match q, pv with
  | QNone, POne p => test o p (leaf_of (ctx_get ctx k)) = Some true        (* the key's own context value *)
  | QAll, _ =>                                                              (* ForAllValues: EVERY context value *)
      exists x, ctx_get ctx k = Some x /\ Forall (value_sat o (plist pv)) (as_list x)
  | _, _ =>                                                                 (* ForAnyValue / value list: AT LEAST ONE *)
      exists x, ctx_get ctx k = Some x /\
                first_with (value_sat o (plist pv)) (value_unsat o (plist pv)) (as_list x)
  end.

(* IfExists: satisfied when the key is absent (missing or None) *)
Definition key_sat (e : op_entry) (k : str) (pv : pvals) (ctx : context) : Prop :=
  (e_ifx e = true /\ present ctx k = false) \/ inner_sat (e_qual e) (e_base e) k pv ctx.

(* operator e of the table is set in block b with groups g *)
Definition is_set (ord : list op_entry) (b : block) (e : op_entry) (g : groups) : Prop :=
  In e ord /\ find_last (e_name e) (norm_block b) = Some g.

Definition no_fn (ord : list op_entry) (b : block) : Prop :=
  forall e g k pv, is_set ord b e g -> In (k, pv) g -> ~ In CFn (plist pv).

(* satisfied exactly when EVERY operator in it is satisfied for EVERY one of its keys *)
Definition block_sat (ord : list op_entry) (b : block) (ctx : context) : Prop :=
  no_fn ord b /\ forall e g k pv, is_set ord b e g -> In (k, pv) g -> key_sat e k pv ctx.

(* ------------------------------------------------------------------------------------------------------------ *)

Lemma value_ok_true o ps c : value_ok o ps c = Some true <-> value_sat o ps c.
Proof.
  unfold Block.value_ok, value_sat. destruct (negated o).
  - apply all_sc_true_rel. intros; reflexivity.
  - apply any_sc_true_rel; intros; reflexivity.
Qed.
Lemma value_ok_false o ps c : value_ok o ps c = Some false <-> value_unsat o ps c.
Proof.
  unfold Block.value_ok, value_unsat. destruct (negated o).
  - apply all_sc_false_rel; intros; reflexivity.
  - apply any_sc_false_rel. intros; reflexivity.
Qed.

Lemma eval_inner_true q o k pv ctx : eval_inner q o k pv ctx = Some true <-> inner_sat q o k pv ctx.
Proof.
  unfold Block.eval_inner, inner_sat.
  assert (HA : match ctx_get ctx k with None => None | Some x => all_sc (value_ok o (plist pv)) (as_list x) end = Some true
               <-> exists x, ctx_get ctx k = Some x /\ Forall (value_sat o (plist pv)) (as_list x)).
  { destruct (ctx_get ctx k) as [x|].
    - rewrite (all_sc_true_rel _ _ (value_ok_true o (plist pv))).
      split; [intros H; exists x; auto | intros (y & E & H); inversion E; subst; exact H].
    - split; [discriminate | intros (y & E & _); discriminate]. }
  assert (HE : match ctx_get ctx k with None => None | Some x => any_sc (value_ok o (plist pv)) (as_list x) end = Some true
               <-> exists x, ctx_get ctx k = Some x /\
                             first_with (value_sat o (plist pv)) (value_unsat o (plist pv)) (as_list x)).
  { destruct (ctx_get ctx k) as [x|].
    - rewrite (any_sc_true_rel _ _ _ (value_ok_true o (plist pv)) (value_ok_false o (plist pv))).
      split; [intros H; exists x; auto | intros (y & E & H); inversion E; subst; exact H].
    - split; [discriminate | intros (y & E & _); discriminate]. }
  destruct q, pv; try exact HA; try exact HE. reflexivity.
Qed.

Lemma eval_key_true e k pv ctx : eval_key e k pv ctx = Some true <-> key_sat e k pv ctx.
Proof.
  unfold Block.eval_key, key_sat. destruct (e_ifx e) eqn:Ei; destruct (present ctx k) eqn:Ep; simpl.
  - rewrite eval_inner_true. split; [auto | intros [[_ H]|H]; [discriminate | exact H]].
  - split; [intros _; left; auto | reflexivity].
  - rewrite eval_inner_true. split; [auto | intros [[H _]|H]; [discriminate | exact H]].
  - rewrite eval_inner_true. split; [auto | intros [[H _]|H]; [discriminate | exact H]].
Qed.

Lemma in_active ord b e g : In (e, g) (active ord b) <-> is_set ord b e g.
Proof.
  unfold active, is_set. rewrite in_flat_map. split.
  - intros (e' & He' & Hin). destruct (find_last (e_name e') (norm_block b)) as [g'|] eqn:E; [|contradiction].
    destruct Hin as [Hin|[]]. inversion Hin; subst. auto.
  - intros [He Hg]. exists e. split; [exact He|]. rewrite Hg. left. reflexivity.
Qed.

Lemma has_fn_false ord b : has_fn (active ord b) = false <-> no_fn ord b.
Proof.
  unfold has_fn, no_fn. split.
  - intros H e g k pv Hs Hk Hin. apply in_active in Hs.
    apply Bool.not_true_iff_false in H. apply H.
    apply existsb_exists. exists (e, g). split; [exact Hs|]. apply existsb_exists. exists (k, pv). split; [exact Hk|].
    unfold pv_has_fn. apply existsb_exists. exists CFn. auto.
  - intros H. apply Bool.not_true_iff_false. intros E.
    apply existsb_exists in E. destruct E as ([e g] & Hs & E). apply existsb_exists in E. destruct E as ([k pv] & Hk & E).
    unfold pv_has_fn in E. apply existsb_exists in E. destruct E as (p & Hp & E). destruct p; try discriminate.
    apply in_active in Hs. exact (H e g k pv Hs Hk Hp).
Qed.

(* C12_true_iff *)
Theorem block_true_iff ord b ctx : eval_block ord b ctx = Some true <-> block_sat ord b ctx.
Proof.
  unfold Block.eval_block, block_sat. rewrite <- has_fn_false.
  destruct (has_fn (active ord b)); [split; [discriminate | intros [H _]; discriminate]|].
  rewrite all_sc_true, Forall_forall. split.
  - intros H. split; [reflexivity|]. intros e g k pv Hs Hk. apply in_active in Hs. specialize (H _ Hs).
    unfold Block.eval_entry in H. rewrite all_sc_true, Forall_forall in H. apply eval_key_true. exact (H _ Hk).
  - intros [_ H] [e g] Hs. unfold Block.eval_entry. rewrite all_sc_true, Forall_forall. intros [k pv] Hk.
    apply eval_key_true. apply in_active in Hs. exact (H e g k pv Hs Hk).
Qed.

(* C12_total: the verdict is True, False or None; there is no fourth outcome (no exception escapes __call__) *)
Theorem block_total ord b ctx :
  eval_block ord b ctx = Some true \/ eval_block ord b ctx = Some false \/ eval_block ord b ctx = None.
Proof. destruct (eval_block ord b ctx) as [[|]|]; auto. Qed.

(* the context values a (qualifier, key, policy value) group looks at *)
Definition seen (q : qual) (pv : pvals) (ctx : context) (k : str) : list cval :=
  match q, pv with
  | QNone, POne _ => [leaf_of (ctx_get ctx k)]
  | _, _ => match ctx_get ctx k with Some x => as_list x | None => [] end
  end.

Lemma value_ok_none o ps c : value_ok o ps c = None -> exists p, In p ps /\ test o p c = None.
Proof.
  unfold Block.value_ok. destruct (negated o); intros H; [apply all_sc_none in H | apply any_sc_none in H];
    apply Exists_exists in H; exact H.
Qed.

Lemma eval_inner_none q o k pv ctx : eval_inner q o k pv ctx = None ->
  ctx_get ctx k = None \/ exists p c, In p (plist pv) /\ In c (seen q pv ctx k) /\ test o p c = None.
Proof.
  unfold Block.eval_inner, seen.
  assert (HA : forall sc : (cval -> option bool) -> list cval -> option bool,
             (forall f l, sc f l = None -> Exists (fun x => f x = None) l) ->
             match ctx_get ctx k with None => None | Some x => sc (value_ok o (plist pv)) (as_list x) end = None ->
             ctx_get ctx k = None \/
             exists p c, In p (plist pv) /\ In c (match ctx_get ctx k with Some x => as_list x | None => [] end) /\ test o p c = None).
  { intros sc Hsc H. destruct (ctx_get ctx k) as [x|]; [right | left; reflexivity].
    apply Hsc in H. apply Exists_exists in H. destruct H as (c & Hc & H). apply value_ok_none in H.
    destruct H as (p & Hp & H). exists p, c. auto. }
  destruct q, pv; try (apply (HA _ (@all_sc_none cval))); try (apply (HA _ (@any_sc_none cval))).
  intros H. right. exists p, (leaf_of (ctx_get ctx k)). simpl. auto.
Qed.

(* C12_none_only_if: None only if a policy value is still a function object, or a REQUIRED key (no IfExists) is missing,
   or some comparison between a listed policy value and a context value of that key cannot be made *)
Theorem block_none_only_if ord b ctx : eval_block ord b ctx = None ->
  ~ no_fn ord b \/
  exists e g k pv, is_set ord b e g /\ In (k, pv) g /\
    ((e_ifx e = false /\ ctx_get ctx k = None) \/
     exists p c, In p (plist pv) /\ In c (seen (e_qual e) pv ctx k) /\ test (e_base e) p c = None).
Proof.
  unfold Block.eval_block. destruct (has_fn (active ord b)) eqn:Hf.
  - intros _. left. intros H. apply has_fn_false in H. congruence.
  - intros H. right. apply all_sc_none in H. apply Exists_exists in H. destruct H as ([e g] & Hs & H).
    unfold Block.eval_entry in H. apply all_sc_none in H. apply Exists_exists in H. destruct H as ([k pv] & Hk & H).
    simpl in H. exists e, g, k, pv. apply in_active in Hs. split; [exact Hs|]. split; [exact Hk|].
    unfold Block.eval_key in H. destruct (e_ifx e) eqn:Ei; simpl in H.
    + destruct (present ctx k) eqn:Ep; simpl in H; [|discriminate].
      apply eval_inner_none in H. destruct H as [H|H]; [|right; exact H].
      unfold present in Ep. rewrite H in Ep. discriminate.
    + apply eval_inner_none in H. destruct H as [H|H]; [left; auto | right; exact H].
Qed.

(* C12_key_independent: the verdict of the group of key k reads the context at k only *)
Theorem key_independent e k pv ctx ctx' :
  ctx_get ctx k = ctx_get ctx' k -> eval_key e k pv ctx = eval_key e k pv ctx'.
Proof.
  intros H. unfold Block.eval_key, present, Block.eval_inner. rewrite H. reflexivity.
Qed.
Corollary key_independent_update e k1 pv ctx k2 v :
  k2 <> k1 -> eval_key e k1 pv ((k2, v) :: ctx) = eval_key e k1 pv ctx.
Proof.
  intros Hne. apply key_independent. unfold ctx_get. simpl.
  destruct (str_eqb k1 k2) eqn:E; [apply str_eqb_spec in E; congruence | reflexivity].
Qed.

(* IfExists: satisfied when the key is absent *)
Theorem ifexists_absent e k pv ctx : e_ifx e = true -> present ctx k = false -> eval_key e k pv ctx = Some true.
Proof. unfold Block.eval_key. intros -> ->. reflexivity. Qed.

(* C12_colon *)
Lemma norm_block_idem b : norm_block (norm_block b) = norm_block b.
Proof.
  unfold norm_block. rewrite map_map. apply map_ext. intros [n g]. simpl. rewrite norm_name_idem. reflexivity.
Qed.
Theorem colon_irrelevant ord b ctx : eval_block ord (norm_block b) ctx = eval_block ord b ctx.
Proof. unfold Block.eval_block, active. rewrite norm_block_idem. reflexivity. Qed.
Corollary colon_irrelevant_one ord n g b ctx :
  eval_block ord ((n, g) :: b) ctx = eval_block ord ((norm_name n, g) :: b) ctx.
Proof.
  rewrite <- (colon_irrelevant ord ((n, g) :: b)), <- (colon_irrelevant ord ((norm_name n, g) :: b)).
  unfold norm_block. simpl. rewrite norm_name_idem. reflexivity.
Qed.

(* C12_conjunction *)
Lemma active_single ord e g : table_ok ord -> In e ord -> active ord [(e_name e, g)] = [(e, g)].
Proof.
  intros [Hnd Hnorm] He. unfold active, norm_block, find_last. simpl.
  rewrite Forall_forall in Hnorm. rewrite (Hnorm e He).
  induction ord as [|e' ord IH]; [contradiction|].
  simpl in Hnd. inversion Hnd as [|? ? Hni Hnd']; subst. simpl.
  destruct He as [->|He].
  - rewrite str_eqb_refl. simpl. f_equal.
    assert (Hz : forall l, ~ In (e_name e) (map e_name l) ->
                 flat_map (fun e0 => match (if str_eqb (e_name e0) (e_name e) then Some g else None) with
                                     | Some g0 => [(e0, g0)] | None => [] end) l = []).
    { induction l as [|x l IHl]; simpl; [reflexivity|]. intros Hn.
      destruct (str_eqb (e_name x) (e_name e)) eqn:E.
      - apply str_eqb_spec in E. exfalso. apply Hn. left. exact E.
      - simpl. apply IHl. intros Hin. apply Hn. right. exact Hin. }
    apply Hz. exact Hni.
  - destruct (str_eqb (e_name e') (e_name e)) eqn:E.
    + apply str_eqb_spec in E. exfalso. apply Hni. rewrite E. apply in_map. exact He.
    + simpl. apply IH; [exact Hnd' | | exact He]. intros x Hx. apply Hnorm. right. exact Hx.
Qed.

Lemma single_true ord e k pv ctx : table_ok ord -> In e ord ->
  (eval_block ord [(e_name e, [(k, pv)])] ctx = Some true <-> pv_has_fn pv = false /\ eval_key e k pv ctx = Some true).
Proof.
  intros Hok He. unfold Block.eval_block. pose proof (active_single ord e [(k, pv)] Hok He) as HA.
  unfold groups in *. rewrite HA. clear HA.
  unfold has_fn. simpl. rewrite !orb_false_r. destruct (pv_has_fn pv).
  - split; [discriminate | intros [H _]; discriminate].
  - unfold Block.eval_entry. simpl. destruct (eval_key e k pv ctx) as [[|]|]; split; try discriminate; auto; intros [_ H]; discriminate.
Qed.

(* the block is satisfied iff every single-operator single-key sub-block is *)
Theorem block_conjunction ord b ctx : table_ok ord ->
  (eval_block ord b ctx = Some true <->
   forall e g k pv, is_set ord b e g -> In (k, pv) g -> eval_block ord [(e_name e, [(k, pv)])] ctx = Some true).
Proof.
  intros Hok. rewrite block_true_iff. unfold block_sat. split.
  - intros [Hfn H] e g k pv Hs Hk. apply (single_true ord e k pv ctx Hok (proj1 Hs)). split.
    + destruct (pv_has_fn pv) eqn:E; [|reflexivity]. exfalso. unfold pv_has_fn in E. apply existsb_exists in E.
      destruct E as (p & Hp & E). destruct p; try discriminate. exact (Hfn e g k pv Hs Hk Hp).
    + apply eval_key_true. exact (H e g k pv Hs Hk).
  - intros H. split.
    + intros e g k pv Hs Hk Hin. specialize (H e g k pv Hs Hk).
      apply (single_true ord e k pv ctx Hok (proj1 Hs)) in H. destruct H as [H _].
      unfold pv_has_fn in H. assert (existsb (fun p => match p with CFn => true | _ => false end) (plist pv) = true); [|congruence].
      apply existsb_exists. exists CFn. auto.
    + intros e g k pv Hs Hk. specialize (H e g k pv Hs Hk).
      apply (single_true ord e k pv ctx Hok (proj1 Hs)) in H. apply eval_key_true. exact (proj2 H).
Qed.

(* ------------------------------------------------------------------------------------------------------------
   The plain reading (no evaluation order), valid when every comparison the block can make is defined. *)
Definition value_sat_plain (o : base_op) (ps : list cval) (c : cval) : Prop :=
  if negated o then Forall (t_true o c) ps else Exists (t_true o c) ps.
Definition inner_sat_plain (q : qual) (o : base_op) (k : str) (pv : pvals) (ctx : context) : Prop :=
  match q, pv with
  | QNone, POne p => test o p (leaf_of (ctx_get ctx k)) = Some true
  | QAll, _ => exists x, ctx_get ctx k = Some x /\ Forall (value_sat_plain o (plist pv)) (as_list x)
  | _, _ => exists x, ctx_get ctx k = Some x /\ Exists (value_sat_plain o (plist pv)) (as_list x)
  end.
Definition key_sat_plain (e : op_entry) (k : str) (pv : pvals) (ctx : context) : Prop :=
  (e_ifx e = true /\ present ctx k = false) \/ inner_sat_plain (e_qual e) (e_base e) k pv ctx.
Definition block_sat_plain (ord : list op_entry) (b : block) (ctx : context) : Prop :=
  no_fn ord b /\ forall e g k pv, is_set ord b e g -> In (k, pv) g -> key_sat_plain e k pv ctx.
(* every policy value of the block can be compared with every context value of its key *)
Definition comparable (ord : list op_entry) (b : block) (ctx : context) : Prop :=
  forall e g k pv p x c, is_set ord b e g -> In (k, pv) g -> In p (plist pv) -> ctx_get ctx k = Some x -> In c (as_list x) ->
    test (e_base e) p c <> None.

Lemma value_sat_weaken o ps c : value_sat o ps c -> value_sat_plain o ps c.
Proof. unfold value_sat, value_sat_plain. destruct (negated o); [auto | apply first_with_Exists]. Qed.
Lemma value_sat_strengthen o ps c : (forall p, In p ps -> test o p c <> None) -> value_sat_plain o ps c -> value_sat o ps c.
Proof.
  unfold value_sat, value_sat_plain. destruct (negated o); [auto|]. intros Hd H.
  apply (any_sc_true_rel (fun p => test o p c) (t_true o c) (t_false o c)); try (intros; reflexivity).
  apply any_sc_true_total; assumption.
Qed.

(* soundness of the plain reading needs no hypothesis *)
Theorem block_true_plain ord b ctx : eval_block ord b ctx = Some true -> block_sat_plain ord b ctx.
Proof.
  rewrite block_true_iff. intros [Hfn H]. split; [exact Hfn|]. intros e g k pv Hs Hk.
  destruct (H e g k pv Hs Hk) as [Ha|Hi]; [left; exact Ha | right].
  unfold inner_sat in Hi. unfold inner_sat_plain.
  destruct (e_qual e), pv; try exact Hi; destruct Hi as (x & Hx & Hi); exists x; (split; [exact Hx|]).
  all: first [ eapply Forall_impl; [|exact Hi]; intros c; apply value_sat_weaken
             | apply first_with_Exists in Hi; eapply Exists_impl; [|exact Hi]; intros c; apply value_sat_weaken ].
Qed.

Theorem block_true_iff_plain ord b ctx : comparable ord b ctx ->
  (eval_block ord b ctx = Some true <-> block_sat_plain ord b ctx).
Proof.
  intros Hc. split; [apply block_true_plain|]. intros [Hfn H]. apply block_true_iff. split; [exact Hfn|].
  intros e g k pv Hs Hk. destruct (H e g k pv Hs Hk) as [Ha|Hi]; [left; exact Ha | right].
  apply eval_inner_true.
  assert (Hval : forall x c, ctx_get ctx k = Some x -> In c (as_list x) -> value_ok (e_base e) (plist pv) c <> None).
  { intros x c Hx Hin Hn. apply value_ok_none in Hn. destruct Hn as (p & Hp & Hn). exact (Hc e g k pv p x c Hs Hk Hp Hx Hin Hn). }
  assert (Hstr : forall x c, ctx_get ctx k = Some x -> In c (as_list x) ->
                 value_sat_plain (e_base e) (plist pv) c -> value_ok (e_base e) (plist pv) c = Some true).
  { intros x c Hx Hin Hv. apply value_ok_true. apply value_sat_strengthen; [|exact Hv].
    intros p Hp. exact (Hc e g k pv p x c Hs Hk Hp Hx Hin). }
  unfold inner_sat_plain in Hi. unfold Block.eval_inner.
  destruct (e_qual e), pv; try exact Hi; destruct Hi as (x & Hx & Hi); rewrite Hx.
  all: first [ apply all_sc_true; rewrite Forall_forall in *; intros c Hin; apply (Hstr x c Hx Hin); apply Hi; exact Hin
             | apply any_sc_true_total; [intros c Hin; apply (Hval x c Hx Hin)|];
               apply Exists_exists in Hi; destruct Hi as (c & Hin & Hv); apply Exists_exists; exists c; split; [exact Hin|];
               apply (Hstr x c Hx Hin Hv) ].
Qed.
End Spec.
