(* C11 -- the 27 base IAM condition operators of pycfmodel's StatementCondition, as tests on TYPED operands.
   Executable definitions only; the theorems are in Iam/OpsFacts.v.

   Code modelled: statement_condition.build_evaluator.  Each operator becomes a Python lambda
       lambda kwargs: kwargs[key] <comparison> policy_value
   The model is  op_test fold o p c : option bool  with  p = the typed policy value (what pydantic stored in the
   validated model), c = the context value kwargs[key] (CAbsent when the key is missing) and
       Some b = the lambda returned b,      None = the lambda (or building it) raised
   (KeyError for a missing key, TypeError for `<` between unrelated types, AttributeError for .casefold()/.subnet_of()
   on a value that has no such method, re's TypeError for a non-string candidate, ...). *)
From Coq Require Import List Bool NArith ZArith.
From PV Require Import Base.Str Base.Value Glob.Glob Run.RState Iam.IpNet.
Import ListNotations.

Inductive base_op :=
| OStringEquals | OStringNotEquals | OStringEqualsIgnoreCase | OStringNotEqualsIgnoreCase | OStringLike | OStringNotLike
| ONumericEquals | ONumericNotEquals | ONumericLessThan | ONumericLessThanEquals | ONumericGreaterThan | ONumericGreaterThanEquals
| ODateEquals | ODateNotEquals | ODateLessThan | ODateLessThanEquals | ODateGreaterThan | ODateGreaterThanEquals
| OBool | OBinaryEquals | OIpAddress | ONotIpAddress
| OArnEquals | OArnLike | OArnNotEquals | OArnNotLike
| ONull.

Definition all_base_ops : list base_op :=
  [OStringEquals; OStringNotEquals; OStringEqualsIgnoreCase; OStringNotEqualsIgnoreCase; OStringLike; OStringNotLike;
   ONumericEquals; ONumericNotEquals; ONumericLessThan; ONumericLessThanEquals; ONumericGreaterThan; ONumericGreaterThanEquals;
   ODateEquals; ODateNotEquals; ODateLessThan; ODateLessThanEquals; ODateGreaterThan; ODateGreaterThanEquals;
   OBool; OBinaryEquals; OIpAddress; ONotIpAddress; OArnEquals; OArnLike; OArnNotEquals; OArnNotLike; ONull].

Definition base_op_eq_dec (a b : base_op) : {a = b} + {a <> b}.
Proof. decide equality. Defined.
Definition base_op_eqb (a b : base_op) : bool := if base_op_eq_dec a b then true else false.
Lemma base_op_eqb_eq a b : base_op_eqb a b = true <-> a = b.
Proof. unfold base_op_eqb. destruct (base_op_eq_dec a b); split; congruence. Qed.

(* value family of an operator = the type pydantic gives its policy values
   (FBool1: Null takes ONE boolean, never a list; FArn is the same Python type as FStr: `ResolvableArn = ResolvableStr`) *)
Inductive fam := FStr | FArn | FInt | FDate | FBool | FBool1 | FBytes | FIp.
Definition fam_eqb (a b : fam) : bool :=
  match a, b with
  | FStr, FStr | FArn, FArn | FInt, FInt | FDate, FDate | FBool, FBool | FBool1, FBool1 | FBytes, FBytes | FIp, FIp => true
  | _, _ => false
  end.

Definition family (o : base_op) : fam :=
  match o with
  | OStringEquals | OStringNotEquals | OStringEqualsIgnoreCase | OStringNotEqualsIgnoreCase | OStringLike | OStringNotLike => FStr
  | ONumericEquals | ONumericNotEquals | ONumericLessThan | ONumericLessThanEquals | ONumericGreaterThan
  | ONumericGreaterThanEquals => FInt
  | ODateEquals | ODateNotEquals | ODateLessThan | ODateLessThanEquals | ODateGreaterThan | ODateGreaterThanEquals => FDate
  | OBool => FBool
  | OBinaryEquals => FBytes
  | OIpAddress | ONotIpAddress => FIp
  | OArnEquals | OArnLike | OArnNotEquals | OArnNotLike => FArn
  | ONull => FBool1
  end.

(* the negated operators and their positive counterparts *)
Definition neg_of (o : base_op) : option base_op :=
  match o with
  | OStringEquals => Some OStringNotEquals
  | OStringEqualsIgnoreCase => Some OStringNotEqualsIgnoreCase
  | OStringLike => Some OStringNotLike
  | ONumericEquals => Some ONumericNotEquals
  | ODateEquals => Some ODateNotEquals
  | OArnEquals => Some OArnNotEquals
  | OArnLike => Some OArnNotLike
  | OIpAddress => Some ONotIpAddress
  | _ => None
  end.
Definition negated (o : base_op) : bool :=
  match o with
  | OStringNotEquals | OStringNotEqualsIgnoreCase | OStringNotLike | ONumericNotEquals | ODateNotEquals
  | OArnNotEquals | OArnNotLike | ONotIpAddress => true
  | _ => false
  end.

(* qualifiers and rows of the generated operator table (gen/Operators.v) *)
Inductive qual := QNone | QAll | QAny.
Definition qual_eqb (a b : qual) : bool :=
  match a, b with QNone, QNone | QAll, QAll | QAny, QAny => true | _, _ => false end.
Record op_entry := { e_name : str; e_qual : qual; e_ifx : bool; e_base : base_op; e_fam : fam }.

(* Typed operands.  A datetime is (aware?, microseconds since the epoch): for an aware datetime the UTC instant, for a
   naive one its wall-clock fields read as if UTC (Python compares naive datetimes by their fields).
   COther = any other Python object (a list, a dict ...): equal to nothing below, not orderable, no string/network methods.
   CFn = a policy value that is still a CloudFormation function object (building the evaluator raises). *)
Inductive cval :=
| CAbsent                      (* the key is not in the context *)
| CNone                        (* Python None *)
| CBool (b : bool)
| CInt (z : Z)
| CStr (s : str)
| CDate (aware : bool) (us : Z)
| CNet (n : net)
| CBytes (bs : list N)
| COther
| CFn.

(* Python: bool is a subclass of int (True == 1, True < 2) *)
Definition as_int (c : cval) : option Z :=
  match c with CInt z => Some z | CBool b => Some (if b then 1 else 0)%Z | _ => None end.

(* Python `a == b` on these values: never raises; different types are simply unequal; a naive and an aware datetime
   are unequal *)
Definition py_eq (a b : cval) : bool :=
  match as_int a, as_int b with
  | Some x, Some y => Z.eqb x y
  | _, _ =>
      match a, b with
      | CNone, CNone => true
      | CStr x, CStr y => str_eqb x y
      | CDate a1 u1, CDate a2 u2 => Bool.eqb a1 a2 && Z.eqb u1 u2
      | CNet n, CNet m => net_eqb n m
      | CBytes x, CBytes y => str_eqb x y
      | _, _ => false
      end
  end.

(* Python `a < b`, `a <= b` ... for the operand types the ordering operators can meet: integers (and bools) among
   themselves, datetimes of the same awareness among themselves; everything else raises TypeError (None).
   (The policy operand of an ordering operator is an int or a datetime by validation.) *)
Definition py_cmp (a b : cval) : option comparison :=
  match as_int a, as_int b with
  | Some x, Some y => Some (x ?= y)%Z
  | _, _ =>
      match a, b with
      | CDate a1 u1, CDate a2 u2 => if Bool.eqb a1 a2 then Some (u1 ?= u2)%Z else None
      | _, _ => None
      end
  end.
Definition is_lt (c : comparison) : bool := match c with Lt => true | _ => false end.
Definition is_le (c : comparison) : bool := match c with Gt => false | _ => true end.
Definition is_gt (c : comparison) : bool := match c with Gt => true | _ => false end.
Definition is_ge (c : comparison) : bool := match c with Lt => false | _ => true end.

(* kwargs[key]: KeyError when the key is missing *)
Definition on_present (c : cval) (r : option bool) : option bool :=
  match c with CAbsent => None | _ => r end.
(* kwargs.get(key) is not None *)
Definition is_present (c : cval) : bool :=
  match c with CAbsent | CNone => false | _ => true end.

Section WithFold.
(* normalize("NFKD", s.casefold()) -- Unicode data, a leaf oracle: theorems hold for every [fold] *)
Variable fold : str -> str.

Definition test_order (pick : comparison -> bool) (p c : cval) : option bool :=
  on_present c (option_map pick (py_cmp c p)).

Definition test_like (p c : cval) : option bool :=
  match p, c with CStr ps, CStr cs => Some (glob_cs ps cs) | _, _ => None end.
Definition test_eq_fold (p c : cval) : option bool :=
  match p, c with CStr ps, CStr cs => Some (str_eqb (fold cs) (fold ps)) | _, _ => None end.
(* _ip_within(kwargs[key], policy): AttributeError unless the context value is a network; a network of the OTHER version lies in
   no network of this one (since fix F30, /repo a-commit "IpAddress / NotIpAddress treat a value of the other IP version as outside
   the network"; before it subnet_of raised TypeError across versions and the answer was None).
   A policy value that is NOT a network (pydantic kept a string) makes BOTH IpAddress and NotIpAddress constantly
   False, without even reading the context -- this follows the code, such a value is outside the operator's type. *)
Definition test_ip (neg : bool) (p c : cval) : option bool :=
  match p with
  | CNet pn =>
      match c with
      | CNet cn => if ipver_eqb (n_ver cn) (n_ver pn) then Some (xorb neg (subnet_of cn pn)) else Some neg
      | _ => None
      end
  | _ => Some false
  end.

Definition op_test (o : base_op) (p c : cval) : option bool :=
  match p with
  | CFn => None
  | _ =>
    match o with
    | OStringEquals | OArnEquals | OBinaryEquals | ONumericEquals | ODateEquals => on_present c (Some (py_eq c p))
    | OStringNotEquals | OArnNotEquals | ONumericNotEquals | ODateNotEquals => on_present c (Some (negb (py_eq c p)))
    | ONumericLessThan | ODateLessThan => test_order is_lt p c
    | ONumericLessThanEquals | ODateLessThanEquals => test_order is_le p c
    | ONumericGreaterThan | ODateGreaterThan => test_order is_gt p c
    | ONumericGreaterThanEquals | ODateGreaterThanEquals => test_order is_ge p c
    | OStringEqualsIgnoreCase => test_eq_fold p c
    | OStringNotEqualsIgnoreCase => option_map negb (test_eq_fold p c)
    | OStringLike | OArnLike => test_like p c
    | OStringNotLike | OArnNotLike => option_map negb (test_like p c)
    | OIpAddress => test_ip false p c
    | ONotIpAddress => test_ip true p c
    (* kwargs[key] is policy_bool: identity with the singleton True/False *)
    | OBool => on_present c (Some (match p, c with CBool pb, CBool cb => Bool.eqb cb pb | _, _ => false end))
    (* (kwargs.get(key) is not None) is policy_bool *)
    | ONull => Some (match p with CBool pb => Bool.eqb (is_present c) pb | _ => false end)
    end
  end.
End WithFold.

(* operands of the operator's type *)
Definition has_fam (f : fam) (c : cval) : bool :=
  match f, c with
  | (FStr | FArn), CStr _ => true
  | FInt, CInt _ => true
  | FDate, CDate _ _ => true
  | (FBool | FBool1), CBool _ => true
  | FBytes, CBytes _ => true
  | FIp, CNet _ => true
  | _, _ => false
  end.
(* what validation can leave in the policy position of an operator: a value of its family, for IpAddress also a plain
   string, anywhere a function object *)
Definition policy_ok (o : base_op) (p : cval) : bool :=
  has_fam (family o) p || match p with CFn => true | CStr _ => fam_eqb (family o) FIp | _ => false end.
