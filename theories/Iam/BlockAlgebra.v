(* C12 / C11 -- the ALGEBRA of condition blocks: laws of eval_block / eval_key / value_ok for ALL blocks and contexts,
   any leaf comparison [test], any operator table [ord], stated for the evaluation AS DEFINED in Iam/Block.v, i.e. with
   the three-valued verdict  Some true | Some false | None (undetermined: __call__ caught an exception).

   Python's all()/any() over a generator stop at the first decisive member and an exception aborts them, so
   False-versus-None depends on evaluation order while "True" never does.  Every law therefore comes in three parts:
     - the part that holds UNCONDITIONALLY (always about "= Some true", or about "= Some false" for any());
     - FULL equality of the three-valued verdicts under a definedness / comparability hypothesis;
     - a REFUTATION (concrete witness, vm_compute) of full equality without that hypothesis.

   1. order independence     block_perm_ops, block_perm_ops_nodup_needed, entry_perm_*, block_perm_keys_*
   2. value lists            value_ok_app, values_disjunction, negated_values_conjunction, values_monotone, ... block_looser
   3. blocks are conjunctions  block_app_and3, block_app_true, block_app_later, block_cons_restricts
   4. qualifiers             forall_empty, forany_empty, qualifier_absent_none, forany_monotone, forall_antimonotone,
                             ifexists_present
   5. context irrelevance    block_ctx_irrelevant (+ tightness example in Properties/C12.v)
   6. empty block, Null      block_empty, null_presence, null_ifexists_* *)
From Coq Require Import List Bool NArith ZArith Lia Permutation.
From PV Require Import Base.Str Base.Value Iam.IpNet Iam.Ops Iam.OpNames Iam.Block Iam.BlockFacts Iam.OpTable.
From PVGen Require Import Operators.
Import ListNotations.

(* ================================================================================================================
   A. Python's all()/any() with exceptions, as three-valued connectives *)

(* x and-then y / x or-else y, LEFT TO RIGHT: the right operand is looked at only when the left one does not decide;
   an undetermined left operand makes the whole undetermined (the exception escapes before y is evaluated) *)
Definition and_sc (x y : option bool) : option bool :=
  match x with Some true => y | Some false => Some false | None => None end.
Definition or_sc (x y : option bool) : option bool :=
  match x with Some true => Some true | Some false => y | None => None end.

(* r is a conjunction of r1 and r2 whose members were evaluated in an UNKNOWN interleaving:
     true  and y     = y            x and true  = x
     false and false = false        None and None = None
     false and None, None and false: false OR None (whichever member is met first decides) *)
Definition and3_spec (r1 r2 r : option bool) : Prop :=
  match r1, r2 with
  | Some true, _ => r = r2
  | _, Some true => r = r1
  | Some false, Some false => r = Some false
  | None, None => r = None
  | _, _ => r = Some false \/ r = None
  end.

Lemma and3_spec_true r1 r2 r : and3_spec r1 r2 r -> (r = Some true <-> r1 = Some true /\ r2 = Some true).
Proof.
  unfold and3_spec. destruct r1 as [[|]|], r2 as [[|]|]; intros H; subst;
    try (destruct H as [H|H]; subst); split; try tauto; try (intros [? ?]; congruence); try discriminate.
Qed.
Lemma and3_spec_false r1 r2 r : and3_spec r1 r2 r -> r = Some false -> r1 = Some false \/ r2 = Some false.
Proof.
  unfold and3_spec. destruct r1 as [[|]|], r2 as [[|]|]; intros H E; subst;
    try (destruct H as [H|H]); try discriminate; auto.
Qed.
Lemma and3_spec_none r1 r2 r : and3_spec r1 r2 r -> r = None -> r1 = None \/ r2 = None.
Proof.
  unfold and3_spec. destruct r1 as [[|]|], r2 as [[|]|]; intros H E; subst;
    try (destruct H as [H|H]); try discriminate; auto.
Qed.
Lemma and3_spec_and_sc x y : and3_spec x y (and_sc x y).
Proof. destruct x as [[|]|], y as [[|]|]; simpl; auto. Qed.
Lemma and3_spec_and_sc_rev x y : and3_spec x y (and_sc y x).
Proof. destruct x as [[|]|], y as [[|]|]; simpl; auto. Qed.

Section Sc.
Context {A : Type}.
Variable f : A -> option bool.

Lemma all_sc_app l1 l2 : all_sc f (l1 ++ l2) = and_sc (all_sc f l1) (all_sc f l2).
Proof. induction l1 as [|x l1 IH]; simpl; [reflexivity|]. destruct (f x) as [[|]|]; auto. Qed.
Lemma any_sc_app l1 l2 : any_sc f (l1 ++ l2) = or_sc (any_sc f l1) (any_sc f l2).
Proof. induction l1 as [|x l1 IH]; simpl; [reflexivity|]. destruct (f x) as [[|]|]; auto. Qed.
Lemma all_sc_cons x l : all_sc f (x :: l) = and_sc (f x) (all_sc f l).
Proof. simpl. destruct (f x) as [[|]|]; reflexivity. Qed.
Lemma any_sc_cons x l : any_sc f (x :: l) = or_sc (f x) (any_sc f l).
Proof. simpl. destruct (f x) as [[|]|]; reflexivity. Qed.

Lemma all_sc_true_iff l : all_sc f l = Some true <-> forall x, In x l -> f x = Some true.
Proof. rewrite all_sc_true, Forall_forall. reflexivity. Qed.
Lemma any_sc_false_iff l : any_sc f l = Some false <-> forall x, In x l -> f x = Some false.
Proof.
  rewrite (any_sc_false_rel f (fun x => f x = Some false) (fun x => iff_refl _)), Forall_forall. reflexivity.
Qed.
Lemma any_sc_true_exists l : any_sc f l = Some true -> exists x, In x l /\ f x = Some true.
Proof.
  induction l as [|x l IH]; simpl; [discriminate|]. destruct (f x) as [[|]|] eqn:E; intros H.
  - exists x. auto.
  - destruct (IH H) as (y & Hy & Ey). exists y. auto.
  - discriminate.
Qed.
Lemma all_sc_false_exists l : all_sc f l = Some false -> exists x, In x l /\ f x = Some false.
Proof.
  induction l as [|x l IH]; simpl; [discriminate|]. destruct (f x) as [[|]|] eqn:E; intros H.
  - destruct (IH H) as (y & Hy & Ey). exists y. auto.
  - exists x. auto.
  - discriminate.
Qed.

(* every member can be evaluated *)
Definition defined_on (l : list A) : Prop := forall x, In x l -> f x <> None.
(* the two-valued reading of a member *)
Definition holds (x : A) : bool := match f x with Some true => true | _ => false end.

Lemma all_sc_defined_forallb l : defined_on l -> all_sc f l = Some (forallb holds l).
Proof.
  unfold defined_on, holds. induction l as [|x l IH]; simpl; intros Hd; [reflexivity|].
  destruct (f x) as [[|]|] eqn:E; simpl.
  - apply IH. intros y Hy. apply Hd. right. exact Hy.
  - reflexivity.
  - exfalso. apply (Hd x); auto.
Qed.
Lemma any_sc_defined_existsb l : defined_on l -> any_sc f l = Some (existsb holds l).
Proof.
  unfold defined_on, holds. induction l as [|x l IH]; simpl; intros Hd; [reflexivity|].
  destruct (f x) as [[|]|] eqn:E; simpl.
  - reflexivity.
  - apply IH. intros y Hy. apply Hd. right. exact Hy.
  - exfalso. apply (Hd x); auto.
Qed.
Lemma all_sc_defined_not_none l : defined_on l -> all_sc f l <> None.
Proof. intros Hd. rewrite (all_sc_defined_forallb l Hd). discriminate. Qed.
Lemma any_sc_defined_not_none l : defined_on l -> any_sc f l <> None.
Proof. intros Hd. rewrite (any_sc_defined_existsb l Hd). discriminate. Qed.

(* ---- sub-lists (as sets): what is unconditional and what needs definedness ---- *)
Lemma all_sc_true_incl l l' : incl l' l -> all_sc f l = Some true -> all_sc f l' = Some true.
Proof. rewrite !all_sc_true_iff. intros Hi H x Hx. apply H. apply Hi. exact Hx. Qed.
Lemma any_sc_false_incl l l' : incl l' l -> any_sc f l = Some false -> any_sc f l' = Some false.
Proof. rewrite !any_sc_false_iff. intros Hi H x Hx. apply H. apply Hi. exact Hx. Qed.
Lemma any_sc_true_incl l l' : incl l l' -> defined_on l' -> any_sc f l = Some true -> any_sc f l' = Some true.
Proof.
  intros Hi Hd H. apply any_sc_true_exists in H. destruct H as (x & Hx & E).
  apply any_sc_true_total; [exact Hd|]. apply Exists_exists. exists x. split; [apply Hi; exact Hx | exact E].
Qed.
Lemma all_sc_false_incl l l' : incl l l' -> defined_on l' -> all_sc f l = Some false -> all_sc f l' = Some false.
Proof.
  intros Hi Hd H. apply all_sc_false_exists in H. destruct H as (x & Hx & E).
  rewrite (all_sc_defined_forallb l' Hd). f_equal. apply Bool.not_true_iff_false. intros Hall.
  rewrite forallb_forall in Hall. specialize (Hall x (Hi x Hx)). unfold holds in Hall. rewrite E in Hall. discriminate.
Qed.

Lemma forallb_same_set (h : A -> bool) l l' : (forall x, In x l <-> In x l') -> forallb h l = forallb h l'.
Proof.
  intros Hs. destruct (forallb h l) eqn:E1, (forallb h l') eqn:E2; try reflexivity.
  - rewrite forallb_forall in E1. assert (forallb h l' = true); [|congruence].
    apply forallb_forall. intros x Hx. apply E1. apply Hs. exact Hx.
  - rewrite forallb_forall in E2. assert (forallb h l = true); [|congruence].
    apply forallb_forall. intros x Hx. apply E2. apply Hs. exact Hx.
Qed.
Lemma existsb_same_set (h : A -> bool) l l' : (forall x, In x l <-> In x l') -> existsb h l = existsb h l'.
Proof.
  intros Hs. destruct (existsb h l) eqn:E1, (existsb h l') eqn:E2; try reflexivity.
  - apply existsb_exists in E1. destruct E1 as (x & Hx & E). assert (existsb h l' = true); [|congruence].
    apply existsb_exists. exists x. split; [apply Hs; exact Hx | exact E].
  - apply existsb_exists in E2. destruct E2 as (x & Hx & E). assert (existsb h l = true); [|congruence].
    apply existsb_exists. exists x. split; [apply Hs; exact Hx | exact E].
Qed.

(* same members (any order, any multiplicity) + every member defined: the same three-valued verdict *)
Lemma all_sc_same_set l l' : (forall x, In x l <-> In x l') -> defined_on l -> all_sc f l = all_sc f l'.
Proof.
  intros Hs Hd. assert (Hd' : defined_on l') by (intros x Hx; apply Hd; apply Hs; exact Hx).
  rewrite (all_sc_defined_forallb l Hd), (all_sc_defined_forallb l' Hd'). f_equal. apply forallb_same_set. exact Hs.
Qed.
Lemma any_sc_same_set l l' : (forall x, In x l <-> In x l') -> defined_on l -> any_sc f l = any_sc f l'.
Proof.
  intros Hs Hd. assert (Hd' : defined_on l') by (intros x Hx; apply Hd; apply Hs; exact Hx).
  rewrite (any_sc_defined_existsb l Hd), (any_sc_defined_existsb l' Hd'). f_equal. apply existsb_same_set. exact Hs.
Qed.

Lemma perm_same_set (l l' : list A) : Permutation l l' -> forall x, In x l <-> In x l'.
Proof. intros Hp x. split; [apply Permutation_in; exact Hp | apply Permutation_in; apply Permutation_sym; exact Hp]. Qed.

(* permutations: True is order-free for all(), False is order-free for any(); the rest may only trade False for None *)
Lemma all_sc_perm_true l l' : Permutation l l' -> (all_sc f l = Some true <-> all_sc f l' = Some true).
Proof.
  intros Hp. split; apply all_sc_true_incl; intros x Hx; apply (perm_same_set l l' Hp); exact Hx.
Qed.
Lemma any_sc_perm_false l l' : Permutation l l' -> (any_sc f l = Some false <-> any_sc f l' = Some false).
Proof.
  intros Hp. split; apply any_sc_false_incl; intros x Hx; apply (perm_same_set l l' Hp); exact Hx.
Qed.
Lemma all_sc_perm l l' : Permutation l l' -> defined_on l -> all_sc f l = all_sc f l'.
Proof. intros Hp. apply all_sc_same_set. apply perm_same_set. exact Hp. Qed.
Lemma any_sc_perm l l' : Permutation l l' -> defined_on l -> any_sc f l = any_sc f l'.
Proof. intros Hp. apply any_sc_same_set. apply perm_same_set. exact Hp. Qed.
Lemma all_sc_perm_weak l l' : Permutation l l' ->
  all_sc f l = all_sc f l' \/ (all_sc f l <> Some true /\ all_sc f l' <> Some true).
Proof.
  intros Hp. pose proof (all_sc_perm_true l l' Hp) as H.
  destruct (all_sc f l) as [[|]|], (all_sc f l') as [[|]|]; auto;
    try (right; split; discriminate); exfalso;
    first [ assert (C : @Some bool true = Some false) by (apply H; reflexivity); discriminate
          | assert (C : @Some bool true = None) by (apply H; reflexivity); discriminate
          | assert (C : @Some bool false = Some true) by (apply H; reflexivity); discriminate
          | assert (C : @None bool = Some true) by (apply H; reflexivity); discriminate ].
Qed.
Lemma any_sc_perm_weak l l' : Permutation l l' ->
  any_sc f l = any_sc f l' \/ (any_sc f l <> Some false /\ any_sc f l' <> Some false).
Proof.
  intros Hp. pose proof (any_sc_perm_false l l' Hp) as H.
  destruct (any_sc f l) as [[|]|], (any_sc f l') as [[|]|]; auto;
    try (right; split; discriminate); exfalso;
    first [ assert (C : @Some bool false = Some true) by (apply H; reflexivity); discriminate
          | assert (C : @Some bool false = None) by (apply H; reflexivity); discriminate
          | assert (C : @Some bool true = Some false) by (apply H; reflexivity); discriminate
          | assert (C : @None bool = Some false) by (apply H; reflexivity); discriminate ].
Qed.

(* a repeated member changes nothing (unconditionally) *)
Lemma all_sc_dup x l : all_sc f (x :: x :: l) = all_sc f (x :: l).
Proof. simpl. destruct (f x) as [[|]|]; reflexivity. Qed.
Lemma any_sc_dup x l : any_sc f (x :: x :: l) = any_sc f (x :: l).
Proof. simpl. destruct (f x) as [[|]|]; reflexivity. Qed.
End Sc.

Lemma all_sc_ext_in {A} (f g : A -> option bool) l : (forall x, In x l -> f x = g x) -> all_sc f l = all_sc g l.
Proof.
  induction l as [|x l IH]; simpl; intros H; [reflexivity|]. rewrite <- (H x) by auto.
  destruct (f x) as [[|]|]; auto.
Qed.
Lemma any_sc_ext_in {A} (f g : A -> option bool) l : (forall x, In x l -> f x = g x) -> any_sc f l = any_sc g l.
Proof.
  induction l as [|x l IH]; simpl; intros H; [reflexivity|]. rewrite <- (H x) by auto.
  destruct (f x) as [[|]|]; auto.
Qed.
(* two lists related member by member *)
Lemma all_sc_Forall2 {A B} (f : A -> option bool) (g : B -> option bool) l l' :
  Forall2 (fun x y => f x = g y) l l' -> all_sc f l = all_sc g l'.
Proof. induction 1 as [|x y l l' E _ IH]; simpl; [reflexivity|]. rewrite E, IH. reflexivity. Qed.
Lemma all_sc_Forall2_true {A B} (f : A -> option bool) (g : B -> option bool) l l' :
  Forall2 (fun x y => f x = Some true -> g y = Some true) l l' -> all_sc f l = Some true -> all_sc g l' = Some true.
Proof.
  induction 1 as [|x y l l' E _ IH]; simpl; [auto|]. destruct (f x) as [[|]|]; try discriminate.
  intros H. rewrite (E eq_refl). apply IH. exact H.
Qed.
Lemma existsb_Forall2 {A B} (f : A -> bool) (g : B -> bool) l l' :
  Forall2 (fun x y => f x = g y) l l' -> existsb f l = existsb g l'.
Proof. induction 1 as [|x y l l' E _ IH]; simpl; [reflexivity|]. rewrite E, IH. reflexivity. Qed.

Lemma and_sc_true_r x : and_sc x (Some true) = x.
Proof. destruct x as [[|]|]; reflexivity. Qed.
Lemma or_sc_false_r x : or_sc x (Some false) = x.
Proof. destruct x as [[|]|]; reflexivity. Qed.

Section Algebra.
Variable test : base_op -> cval -> cval -> option bool.
Notation value_ok := (value_ok test).
Notation eval_inner := (eval_inner test).
Notation eval_key := (eval_key test).
Notation eval_entry := (eval_entry test).
Notation eval_block := (eval_block test).

(* ================================================================================================================
   2. The policy values listed under one key: a DISJUNCTION for a positive operator, a CONJUNCTION for a negated one.
      value_ok o ps c  is the verdict of ONE context value c against the listed policy values ps. *)

(* every listed policy value can be compared with the context value c *)
Definition comparable_vals (o : base_op) (ps : list cval) (c : cval) : Prop := forall p, In p ps -> test o p c <> None.

Lemma value_ok_pos o ps c : negated o = false -> value_ok o ps c = any_sc (fun p => test o p c) ps.
Proof. unfold Block.value_ok. intros ->. reflexivity. Qed.
Lemma value_ok_neg o ps c : negated o = true -> value_ok o ps c = all_sc (fun p => test o p c) ps.
Proof. unfold Block.value_ok. intros ->. reflexivity. Qed.

(* exact, with the undetermined case: left-to-right or-else / and-then *)
Theorem value_ok_app o ps qs c :
  value_ok o (ps ++ qs) c = (if negated o then and_sc else or_sc) (value_ok o ps c) (value_ok o qs c).
Proof. unfold Block.value_ok. destruct (negated o); [apply all_sc_app | apply any_sc_app]. Qed.
Theorem value_ok_cons o p ps c :
  value_ok o (p :: ps) c = (if negated o then and_sc else or_sc) (test o p c) (value_ok o ps c).
Proof.
  unfold Block.value_ok.
  destruct (negated o); [apply (all_sc_cons (fun q => test o q c)) | apply (any_sc_cons (fun q => test o q c))].
Qed.
Theorem value_ok_nil o c : value_ok o [] c = Some (negated o).
Proof. unfold Block.value_ok. destruct (negated o); reflexivity. Qed.
Theorem value_ok_single o p c : value_ok o [p] c = test o p c.
Proof. rewrite value_ok_cons, value_ok_nil. destruct (negated o); [apply and_sc_true_r | apply or_sc_false_r]. Qed.

Lemma value_ok_defined o ps c : comparable_vals o ps c -> value_ok o ps c <> None.
Proof.
  unfold Block.value_ok, comparable_vals. intros Hc.
  destruct (negated o); [apply all_sc_defined_not_none | apply any_sc_defined_not_none]; exact Hc.
Qed.

(* positive operator: the values are alternatives *)
Theorem values_disjunction o ps c : negated o = false ->
  (value_ok o ps c = Some true -> exists p, In p ps /\ test o p c = Some true) /\
  (value_ok o ps c = Some false <-> forall p, In p ps -> test o p c = Some false) /\
  (comparable_vals o ps c -> (value_ok o ps c = Some true <-> exists p, In p ps /\ test o p c = Some true)).
Proof.
  intros Hn. rewrite (value_ok_pos o ps c Hn). split; [|split].
  - apply any_sc_true_exists.
  - apply any_sc_false_iff.
  - intros Hc. rewrite (any_sc_true_total (fun p => test o p c) ps Hc), Exists_exists. reflexivity.
Qed.

(* negated operator: the values are jointly excluded *)
Theorem negated_values_conjunction o ps c : negated o = true ->
  (value_ok o ps c = Some true <-> forall p, In p ps -> test o p c = Some true) /\
  (value_ok o ps c = Some false -> exists p, In p ps /\ test o p c = Some false) /\
  (comparable_vals o ps c -> (value_ok o ps c = Some false <-> exists p, In p ps /\ test o p c = Some false)).
Proof.
  intros Hn. rewrite (value_ok_neg o ps c Hn). split; [|split].
  - apply all_sc_true_iff.
  - apply all_sc_false_exists.
  - intros Hc. split; [apply all_sc_false_exists|]. intros (p & Hp & E).
    apply (all_sc_false_incl (fun p => test o p c) [p] ps).
    + intros q [<-|[]]. exact Hp.
    + exact Hc.
    + simpl. rewrite E. reflexivity.
Qed.

(* MONOTONE: more values under a positive operator can only turn False into True ... *)
Theorem values_monotone o ps qs c : negated o = false -> incl ps qs ->
  (value_ok o qs c = Some false -> value_ok o ps c = Some false) /\
  (comparable_vals o qs c -> value_ok o ps c = Some true -> value_ok o qs c = Some true).
Proof.
  intros Hn Hi. rewrite (value_ok_pos o ps c Hn), (value_ok_pos o qs c Hn). split.
  - apply any_sc_false_incl. exact Hi.
  - intros Hc. apply any_sc_true_incl; assumption.
Qed.
(* ... appended values never need the hypothesis (they are looked at only after the old ones said False) *)
Theorem values_monotone_app o ps qs c : negated o = false ->
  value_ok o ps c = Some true -> value_ok o (ps ++ qs) c = Some true.
Proof. intros Hn H. rewrite value_ok_app, Hn, H. reflexivity. Qed.
Theorem values_add_one o p ps c : negated o = false -> test o p c <> None ->
  value_ok o ps c = Some true -> value_ok o (p :: ps) c = Some true.
Proof. intros Hn Hp H. rewrite value_ok_cons, Hn, H. destruct (test o p c) as [[|]|]; [reflexivity | reflexivity | congruence]. Qed.

(* ... and more values under a negated operator can only turn True into False *)
Theorem negated_values_antimonotone o ps qs c : negated o = true -> incl ps qs ->
  (value_ok o qs c = Some true -> value_ok o ps c = Some true) /\
  (comparable_vals o qs c -> value_ok o ps c = Some false -> value_ok o qs c = Some false).
Proof.
  intros Hn Hi. rewrite (value_ok_neg o ps c Hn), (value_ok_neg o qs c Hn). split.
  - apply all_sc_true_incl. exact Hi.
  - intros Hc. apply all_sc_false_incl; assumption.
Qed.
Theorem negated_values_antimonotone_app o ps qs c : negated o = true ->
  value_ok o ps c = Some false -> value_ok o (ps ++ qs) c = Some false.
Proof. intros Hn H. rewrite value_ok_app, Hn, H. reflexivity. Qed.
Theorem negated_values_add_one o p ps c : negated o = true -> test o p c <> None ->
  value_ok o ps c = Some false -> value_ok o (p :: ps) c = Some false.
Proof. intros Hn Hp H. rewrite value_ok_cons, Hn, H. destruct (test o p c) as [[|]|]; [reflexivity | reflexivity | congruence]. Qed.

(* the value list is a SET: order and repetition are irrelevant when the comparisons are defined ... *)
Theorem values_same_set o ps qs c : (forall p, In p ps <-> In p qs) -> comparable_vals o ps c ->
  value_ok o ps c = value_ok o qs c.
Proof.
  unfold Block.value_ok, comparable_vals. intros Hs Hc.
  destruct (negated o); [apply all_sc_same_set | apply any_sc_same_set]; assumption.
Qed.
Theorem values_perm o ps qs c : Permutation ps qs -> comparable_vals o ps c -> value_ok o ps c = value_ok o qs c.
Proof. intros Hp. apply values_same_set. apply perm_same_set. exact Hp. Qed.
(* ... in any case the DECISIVE-FOR-ALL verdict (False for a positive, True for a negated operator) is order-free,
   and a permutation can only trade the other verdict for None *)
Theorem values_perm_weak o ps qs c : Permutation ps qs ->
  (value_ok o ps c = Some (negated o) <-> value_ok o qs c = Some (negated o)) /\
  (value_ok o ps c = value_ok o qs c \/
   (value_ok o ps c <> Some (negated o) /\ value_ok o qs c <> Some (negated o))).
Proof.
  unfold Block.value_ok. intros Hp. destruct (negated o).
  - split; [apply all_sc_perm_true | apply all_sc_perm_weak]; exact Hp.
  - split; [apply any_sc_perm_false | apply any_sc_perm_weak]; exact Hp.
Qed.
(* a value written twice counts once (unconditionally) *)
Theorem values_dup o p ps c : value_ok o (p :: p :: ps) c = value_ok o (p :: ps) c.
Proof.
  unfold Block.value_ok.
  destruct (negated o); [apply (all_sc_dup (fun q => test o q c)) | apply (any_sc_dup (fun q => test o q c))].
Qed.

(* ---- the same at the level of one (operator, key) group with a value LIST ---- *)

(* every comparison the group of key k can make in this context is defined *)
Definition comparable_key (o : base_op) (ps : list cval) (ctx : context) (k : str) : Prop :=
  forall x c, ctx_get ctx k = Some x -> In c (as_list x) -> comparable_vals o ps c.

Lemma eval_inner_many q o k ps ctx :
  eval_inner q o k (PMany ps) ctx =
  match ctx_get ctx k with
  | None => None
  | Some x => (match q with QAll => all_sc (value_ok o ps) (as_list x) | _ => any_sc (value_ok o ps) (as_list x) end)
  end.
Proof. unfold Block.eval_inner. destruct q; simpl; destruct (ctx_get ctx k); reflexivity. Qed.

Lemma key_values_looser e k ps ps' ctx :
  (forall x c, ctx_get ctx k = Some x -> In c (as_list x) ->
     value_ok (e_base e) ps c = Some true -> value_ok (e_base e) ps' c = Some true) ->
  (forall x c, ctx_get ctx k = Some x -> In c (as_list x) -> value_ok (e_base e) ps' c <> None) ->
  eval_key e k (PMany ps) ctx = Some true -> eval_key e k (PMany ps') ctx = Some true.
Proof.
  intros Hv Hd. unfold Block.eval_key. destruct (e_ifx e && negb (present ctx k)); [auto|].
  rewrite !eval_inner_many. destruct (ctx_get ctx k) as [x|] eqn:Ex; [|discriminate].
  assert (HA : all_sc (value_ok (e_base e) ps) (as_list x) = Some true ->
               all_sc (value_ok (e_base e) ps') (as_list x) = Some true).
  { rewrite !all_sc_true_iff. intros H c Hc. apply (Hv x c eq_refl Hc). apply H. exact Hc. }
  assert (HE : any_sc (value_ok (e_base e) ps) (as_list x) = Some true ->
               any_sc (value_ok (e_base e) ps') (as_list x) = Some true).
  { intros H. apply any_sc_true_exists in H. destruct H as (c & Hc & E).
    apply any_sc_true_total; [intros c' Hc'; exact (Hd x c' eq_refl Hc')|].
    apply Exists_exists. exists c. split; [exact Hc | exact (Hv x c eq_refl Hc E)]. }
  destruct (e_qual e); assumption.
Qed.

Theorem key_values_monotone e k ps ps' ctx :
  negated (e_base e) = false -> incl ps ps' -> comparable_key (e_base e) ps' ctx k ->
  eval_key e k (PMany ps) ctx = Some true -> eval_key e k (PMany ps') ctx = Some true.
Proof.
  intros Hn Hi Hc. apply key_values_looser.
  - intros x c Hx Hin. apply (values_monotone (e_base e) ps ps' c Hn Hi). exact (Hc x c Hx Hin).
  - intros x c Hx Hin. apply value_ok_defined. exact (Hc x c Hx Hin).
Qed.
Theorem key_negated_values_antimonotone e k ps ps' ctx :
  negated (e_base e) = true -> incl ps' ps -> comparable_key (e_base e) ps ctx k ->
  eval_key e k (PMany ps) ctx = Some true -> eval_key e k (PMany ps') ctx = Some true.
Proof.
  intros Hn Hi Hc. apply key_values_looser.
  - intros x c Hx Hin. apply (negated_values_antimonotone (e_base e) ps' ps c Hn Hi).
  - intros x c Hx Hin. apply value_ok_defined. intros p Hp. apply (Hc x c Hx Hin). apply Hi. exact Hp.
Qed.
Theorem key_values_same_set e k ps ps' ctx :
  (forall p, In p ps <-> In p ps') -> comparable_key (e_base e) ps ctx k ->
  eval_key e k (PMany ps) ctx = eval_key e k (PMany ps') ctx.
Proof.
  intros Hs Hc. unfold Block.eval_key. destruct (e_ifx e && negb (present ctx k)); [reflexivity|].
  rewrite !eval_inner_many. destruct (ctx_get ctx k) as [x|] eqn:Ex; [|reflexivity].
  assert (Hv : forall c, In c (as_list x) -> value_ok (e_base e) ps c = value_ok (e_base e) ps' c).
  { intros c Hin. apply values_same_set; [exact Hs | exact (Hc x c Ex Hin)]. }
  destruct (e_qual e); [apply any_sc_ext_in | apply all_sc_ext_in | apply any_sc_ext_in]; exact Hv.
Qed.
End Algebra.

(* ================================================================================================================
   Association lists, find_last, active *)

Lemma lookup_app {A} n (l1 l2 : list (str * A)) :
  lookup n (l1 ++ l2) = match lookup n l1 with Some v => Some v | None => lookup n l2 end.
Proof.
  induction l1 as [|[k v] l1 IH]; simpl; [reflexivity|]. destruct (str_eqb n k); [reflexivity | exact IH].
Qed.
Lemma lookup_nodup_in {A} n (v : A) d : NoDup (keys d) -> In (n, v) d -> lookup n d = Some v.
Proof.
  induction d as [|[k w] d IH]; simpl; intros Hnd Hin; [contradiction|].
  inversion Hnd as [|? ? Hni Hnd']; subst. destruct Hin as [E|Hin].
  - inversion E; subst. rewrite str_eqb_refl. reflexivity.
  - destruct (str_eqb n k) eqn:E.
    + apply str_eqb_spec in E. subst. exfalso. apply Hni. unfold keys. apply (in_map fst _ _ Hin).
    + apply IH; assumption.
Qed.
Lemma lookup_perm {A} n (d d' : list (str * A)) : NoDup (keys d) -> Permutation d d' -> lookup n d = lookup n d'.
Proof.
  intros Hnd Hp.
  assert (Hnd' : NoDup (keys d')).
  { unfold keys in *. apply (Permutation_NoDup (Permutation_map fst Hp)). exact Hnd. }
  destruct (lookup n d) as [v|] eqn:E.
  - symmetry. apply lookup_nodup_in; [exact Hnd'|]. apply (Permutation_in _ Hp). apply lookup_In. exact E.
  - symmetry. apply lookup_None. apply lookup_None in E. intros Hin. apply E.
    unfold keys in *. apply (Permutation_in _ (Permutation_sym (Permutation_map fst Hp))). exact Hin.
Qed.

Lemma find_last_nil n : find_last n [] = None.
Proof. reflexivity. Qed.
Lemma find_last_app n b1 b2 :
  find_last n (b1 ++ b2) = match find_last n b2 with Some g => Some g | None => find_last n b1 end.
Proof. unfold find_last. rewrite rev_app_distr, lookup_app. reflexivity. Qed.
Lemma find_last_cons n x b :
  find_last n (x :: b) =
  match find_last n b with Some g => Some g | None => if str_eqb n (fst x) then Some (snd x) else None end.
Proof.
  change (x :: b) with ([x] ++ b). rewrite find_last_app. destruct (find_last n b); [reflexivity|].
  unfold find_last. destruct x as [m g]. simpl. reflexivity.
Qed.
Lemma find_last_None n b : find_last n b = None <-> ~ In n (map fst b).
Proof.
  unfold find_last. rewrite lookup_None. unfold keys. rewrite map_rev, <- in_rev. reflexivity.
Qed.
Lemma find_last_In n b g : find_last n b = Some g -> In (n, g) b.
Proof. unfold find_last. intros H. apply lookup_In in H. apply in_rev. exact H. Qed.
Lemma find_last_perm n b b' : NoDup (map fst b) -> Permutation b b' -> find_last n b = find_last n b'.
Proof.
  intros Hnd Hp. unfold find_last. apply lookup_perm.
  - unfold keys. rewrite map_rev. apply (Permutation_NoDup (Permutation_rev (map fst b))). exact Hnd.
  - apply (perm_trans (Permutation_sym (Permutation_rev b))). apply (perm_trans Hp). apply Permutation_rev.
Qed.
Lemma norm_block_app b1 b2 : norm_block (b1 ++ b2) = norm_block b1 ++ norm_block b2.
Proof. unfold norm_block. apply map_app. Qed.

(* the entry a table row contributes to the evaluation *)
Definition pick {E G} (F : E -> option G) (e : E) : list (E * G) := match F e with Some g => [(e, g)] | None => [] end.
Lemma active_pick ord b : active ord b = flat_map (pick (fun e => find_last (e_name e) (norm_block b))) ord.
Proof. reflexivity. Qed.
Lemma active_ext ord b b' :
  (forall e, In e ord -> find_last (e_name e) (norm_block b) = find_last (e_name e) (norm_block b')) ->
  active ord b = active ord b'.
Proof.
  rewrite !active_pick. induction ord as [|e ord IH]; simpl; intros H; [reflexivity|].
  unfold pick at 1 3. rewrite (H e) by auto. f_equal. apply IH. intros e' He'. apply H. right. exact He'.
Qed.

Definition grp_has_fn (g : groups) : bool := existsb (fun kp => pv_has_fn (snd kp)) g.
Lemma has_fn_unfold act : has_fn act = existsb (fun eg => grp_has_fn (snd eg)) act.
Proof. reflexivity. Qed.
Lemma pv_has_fn_false pv : pv_has_fn pv = false <-> ~ In CFn (plist pv).
Proof.
  unfold pv_has_fn. split.
  - intros H Hin. apply Bool.not_true_iff_false in H. apply H. apply existsb_exists. exists CFn. auto.
  - intros H. apply Bool.not_true_iff_false. intros E. apply existsb_exists in E. destruct E as (p & Hp & E).
    destruct p; try discriminate. exact (H Hp).
Qed.

Section Blocks.
Variable test : base_op -> cval -> cval -> option bool.
Notation value_ok := (value_ok test).
Notation eval_inner := (eval_inner test).
Notation eval_key := (eval_key test).
Notation eval_entry := (eval_entry test).
Notation eval_block := (eval_block test).

(* ================================================================================================================
   1a. The order of the OPERATORS of a block is irrelevant -- completely, undetermined case included (evaluation
       follows the declaration order of the class, not the order of the block) -- PROVIDED no operator is written
       twice (possible only with two colon spellings of one name: the later one replaces the earlier one). *)
Theorem block_perm_ops ord b b' ctx :
  NoDup (map fst (norm_block b)) -> Permutation b b' -> eval_block ord b ctx = eval_block ord b' ctx.
Proof.
  intros Hnd Hp. unfold Block.eval_block.
  assert (HA : active ord b = active ord b').
  { apply active_ext. intros e _. apply find_last_perm; [exact Hnd|]. unfold norm_block. apply Permutation_map. exact Hp. }
  rewrite HA. reflexivity.
Qed.

(* ================================================================================================================
   Congruence: two blocks with the same operator names, position by position, whose groups are related by G *)
Definition block_rel (G : str -> groups -> groups -> Prop) (b b' : block) : Prop :=
  Forall2 (fun ng ng' => fst ng = fst ng' /\ G (norm_name (fst ng)) (snd ng) (snd ng')) b b'.
Definition opt_rel {X} (R : X -> X -> Prop) (x y : option X) : Prop :=
  match x, y with Some u, Some v => R u v | None, None => True | _, _ => False end.

Lemma find_last_rel G b b' n : block_rel G b b' ->
  opt_rel (G n) (find_last n (norm_block b)) (find_last n (norm_block b')).
Proof.
  induction 1 as [|[m g] [m' g'] b b' [Hm Hg] _ IH]; [exact I|].
  simpl in Hm, Hg. subst m'. unfold norm_block. simpl map. fold (norm_block b). fold (norm_block b').
  rewrite !find_last_cons. simpl fst. simpl snd.
  destruct (find_last n (norm_block b)) as [u|], (find_last n (norm_block b')) as [v|]; simpl in IH; try contradiction.
  - exact IH.
  - destruct (str_eqb n (norm_name m)) eqn:E; [|exact I]. apply str_eqb_spec in E. subst n. exact Hg.
Qed.

Lemma Forall2_impl {X Y} (R R' : X -> Y -> Prop) l l' :
  (forall x y, R x y -> R' x y) -> Forall2 R l l' -> Forall2 R' l l'.
Proof. intros HR. induction 1 as [|x y l l' Hxy _ IH]; constructor; auto. Qed.
Lemma Forall2_in_l {X Y} (R : X -> Y -> Prop) l l' : Forall2 R l l' -> Forall2 (fun x y => R x y /\ In x l) l l'.
Proof.
  induction 1 as [|x y l l' Hxy _ IH]; constructor; [split; [exact Hxy | left; reflexivity]|].
  eapply Forall2_impl; [|exact IH]. intros a c [H1 H2]. split; [exact H1 | right; exact H2].
Qed.

Definition entry_rel (ord : list op_entry) (b : block) (G : str -> groups -> groups -> Prop)
           (eg eg' : op_entry * groups) : Prop :=
  fst eg = fst eg' /\ is_set ord b (fst eg) (snd eg) /\ G (e_name (fst eg)) (snd eg) (snd eg').

Lemma active_rel ord G b b' : block_rel G b b' -> Forall2 (entry_rel ord b G) (active ord b) (active ord b').
Proof.
  intros Hr.
  assert (H0 : Forall2 (fun eg eg' => fst eg = fst eg' /\ G (e_name (fst eg)) (snd eg) (snd eg')) (active ord b) (active ord b')).
  { rewrite !active_pick. induction ord as [|e ord IH]; simpl; [constructor|].
    apply Forall2_app; [|exact IH]. unfold pick. pose proof (find_last_rel G b b' (e_name e) Hr) as H.
    destruct (find_last (e_name e) (norm_block b)) as [u|], (find_last (e_name e) (norm_block b')) as [v|];
      simpl in H; try contradiction; constructor; [|constructor]. simpl. auto. }
  apply Forall2_in_l in H0. eapply Forall2_impl; [|exact H0].
  intros [e g] [e' g'] [[H1 H2] H3]. unfold entry_rel. split; [exact H1|]. split; [|exact H2].
  apply in_active. exact H3.
Qed.

Lemma existsb_Forall2_false {X Y} (f : X -> bool) (g : Y -> bool) l l' :
  Forall2 (fun x y => f x = false -> g y = false) l l' -> existsb f l = false -> existsb g l' = false.
Proof.
  induction 1 as [|x y l l' E _ IH]; simpl; [auto|]. rewrite !orb_false_iff. intros [H1 H2]. auto.
Qed.

(* related groups give the same entry verdict => the same block verdict (three-valued) *)
Theorem block_congr ord G b b' ctx : block_rel G b b' ->
  (forall e g g', is_set ord b e g -> G (e_name e) g g' ->
     grp_has_fn g = grp_has_fn g' /\ eval_entry ctx (e, g) = eval_entry ctx (e, g')) ->
  eval_block ord b ctx = eval_block ord b' ctx.
Proof.
  intros Hr HG. pose proof (active_rel ord G b b' Hr) as HA. unfold Block.eval_block.
  rewrite (has_fn_unfold (active ord b)), (has_fn_unfold (active ord b')).
  assert (H1 : existsb (fun eg => grp_has_fn (snd eg)) (active ord b) = existsb (fun eg => grp_has_fn (snd eg)) (active ord b')).
  { apply existsb_Forall2. eapply Forall2_impl; [|exact HA]. intros [e g] [e' g'] (He & Hs & Hg). simpl in *. subst e'.
    apply (HG e g g' Hs Hg). }
  assert (H2 : all_sc (eval_entry ctx) (active ord b) = all_sc (eval_entry ctx) (active ord b')).
  { apply all_sc_Forall2. eapply Forall2_impl; [|exact HA]. intros [e g] [e' g'] (He & Hs & Hg). simpl in *. subst e'.
    apply (HG e g g' Hs Hg). }
  rewrite H1, H2. reflexivity.
Qed.
(* related groups keep the entry satisfied => the block stays satisfied *)
Theorem block_congr_true ord G b b' ctx : block_rel G b b' ->
  (forall e g g', is_set ord b e g -> G (e_name e) g g' ->
     (grp_has_fn g = false -> grp_has_fn g' = false) /\
     (eval_entry ctx (e, g) = Some true -> eval_entry ctx (e, g') = Some true)) ->
  eval_block ord b ctx = Some true -> eval_block ord b' ctx = Some true.
Proof.
  intros Hr HG. pose proof (active_rel ord G b b' Hr) as HA. unfold Block.eval_block.
  rewrite (has_fn_unfold (active ord b)), (has_fn_unfold (active ord b')).
  destruct (existsb (fun eg => grp_has_fn (snd eg)) (active ord b)) eqn:Hf; [discriminate|]. intros Hall.
  assert (H1 : existsb (fun eg => grp_has_fn (snd eg)) (active ord b') = false).
  { revert Hf. apply existsb_Forall2_false. eapply Forall2_impl; [|exact HA].
    intros [e g] [e' g'] (He & Hs & Hg). simpl in *. subst e'. apply (HG e g g' Hs Hg). }
  rewrite H1. revert Hall. apply all_sc_Forall2_true. eapply Forall2_impl; [|exact HA].
  intros [e g] [e' g'] (He & Hs & Hg). simpl in *. subst e'. apply (HG e g g' Hs Hg).
Qed.

(* groups related key by key (same keys, position by position) *)
Definition groups_rel (R : str -> pvals -> pvals -> Prop) (g g' : groups) : Prop :=
  Forall2 (fun kp kp' => fst kp = fst kp' /\ R (fst kp) (snd kp) (snd kp')) g g'.

Theorem block_congr_keys ord (R : str -> str -> pvals -> pvals -> Prop) b b' ctx :
  block_rel (fun n => groups_rel (R n)) b b' ->
  (forall e k pv pv', In e ord -> R (e_name e) k pv pv' ->
     pv_has_fn pv = pv_has_fn pv' /\ eval_key e k pv ctx = eval_key e k pv' ctx) ->
  eval_block ord b ctx = eval_block ord b' ctx.
Proof.
  intros Hr HR. apply (block_congr ord _ b b' ctx Hr). intros e g g' [He _] Hg. unfold grp_has_fn, Block.eval_entry. simpl.
  split.
  - apply existsb_Forall2. eapply Forall2_impl; [|exact Hg]. intros [k pv] [k' pv'] [Hk Hp]. simpl in *. subst k'.
    apply (HR e k pv pv' He Hp).
  - apply all_sc_Forall2. eapply Forall2_impl; [|exact Hg]. intros [k pv] [k' pv'] [Hk Hp]. simpl in *. subst k'.
    apply (HR e k pv pv' He Hp).
Qed.
Theorem block_congr_keys_true ord (R : str -> str -> pvals -> pvals -> Prop) b b' ctx :
  block_rel (fun n => groups_rel (R n)) b b' ->
  (forall e k pv pv', In e ord -> R (e_name e) k pv pv' ->
     (pv_has_fn pv = false -> pv_has_fn pv' = false) /\
     (eval_key e k pv ctx = Some true -> eval_key e k pv' ctx = Some true)) ->
  eval_block ord b ctx = Some true -> eval_block ord b' ctx = Some true.
Proof.
  intros Hr HR. apply (block_congr_true ord _ b b' ctx Hr). intros e g g' [He _] Hg. unfold grp_has_fn, Block.eval_entry. simpl.
  split.
  - apply existsb_Forall2_false. eapply Forall2_impl; [|exact Hg]. intros [k pv] [k' pv'] [Hk Hp]. simpl in *. subst k'.
    apply (HR e k pv pv' He Hp).
  - apply all_sc_Forall2_true. eapply Forall2_impl; [|exact Hg]. intros [k pv] [k' pv'] [Hk Hp]. simpl in *. subst k'.
    apply (HR e k pv pv' He Hp).
Qed.
End Blocks.

Lemma iff_true_weak (x y : option bool) :
  (x = Some true <-> y = Some true) -> x = y \/ (x <> Some true /\ y <> Some true).
Proof.
  intros H. destruct x as [[|]|], y as [[|]|]; auto; try (right; split; discriminate); exfalso.
  - assert (C : Some false = Some true) by (apply H; reflexivity). discriminate.
  - assert (C : @None bool = Some true) by (apply H; reflexivity). discriminate.
  - assert (C : Some false = Some true) by (apply H; reflexivity). discriminate.
  - assert (C : @None bool = Some true) by (apply H; reflexivity). discriminate.
Qed.

Section Laws.
Variable test : base_op -> cval -> cval -> option bool.
Notation value_ok := (value_ok test).
Notation eval_inner := (eval_inner test).
Notation eval_key := (eval_key test).
Notation eval_entry := (eval_entry test).
Notation eval_block := (eval_block test).

(* ================================================================================================================
   2 (lifted to blocks).  b' is obtained from b by changing value LISTS only: under a positive operator values were
   ADDED, under a negated operator values were REMOVED (in any order / multiplicity), the comparisons of the larger
   list being defined.  Then b' is at least as permissive as b. *)
Definition looser (ord : list op_entry) (ctx : context) (n k : str) (pv pv' : pvals) : Prop :=
  pv = pv' \/
  exists ps ps', pv = PMany ps /\ pv' = PMany ps' /\ ~ In CFn ps' /\
    forall e, In e ord -> e_name e = n ->
      (negated (e_base e) = false /\ incl ps ps' /\ comparable_key test (e_base e) ps' ctx k) \/
      (negated (e_base e) = true /\ incl ps' ps /\ comparable_key test (e_base e) ps ctx k).

Theorem block_looser ord b b' ctx :
  block_rel (fun n => groups_rel (looser ord ctx n)) b b' ->
  eval_block ord b ctx = Some true -> eval_block ord b' ctx = Some true.
Proof.
  intros Hr. apply (block_congr_keys_true test ord _ b b' ctx Hr).
  intros e k pv pv' He [->|(ps & ps' & -> & -> & Hfn & H)]; [auto|].
  split.
  - intros _. apply pv_has_fn_false. exact Hfn.
  - destruct (H e He eq_refl) as [(Hn & Hi & Hc)|(Hn & Hi & Hc)];
      [apply key_values_monotone | apply key_negated_values_antimonotone]; assumption.
Qed.

(* the value lists of b and b' have the same members (order, repetition may differ), comparisons defined:
   the same three-valued verdict *)
Definition same_values (ord : list op_entry) (ctx : context) (n k : str) (pv pv' : pvals) : Prop :=
  pv = pv' \/
  exists ps ps', pv = PMany ps /\ pv' = PMany ps' /\ (forall p, In p ps <-> In p ps') /\
    forall e, In e ord -> e_name e = n -> comparable_key test (e_base e) ps ctx k.

Theorem block_values_same_set ord b b' ctx :
  block_rel (fun n => groups_rel (same_values ord ctx n)) b b' -> eval_block ord b ctx = eval_block ord b' ctx.
Proof.
  intros Hr. apply (block_congr_keys test ord _ b b' ctx Hr).
  intros e k pv pv' He [->|(ps & ps' & -> & -> & Hs & H)]; [auto|].
  split.
  - unfold pv_has_fn. simpl. apply existsb_same_set. exact Hs.
  - apply key_values_same_set; [exact Hs | exact (H e He eq_refl)].
Qed.

(* ================================================================================================================
   1b. The order of the KEYS under one operator.  all() stops at the first key that is not satisfied: "satisfied"
       does not depend on the order, but WHICH of False / None comes out does (refuted in general, see the witness
       key_order_refuted below); with every key's verdict defined the order is irrelevant altogether.
       (Keys are an association list; a repeated key is simply evaluated twice, no side condition is needed.) *)
Theorem entry_perm_true e g g' ctx : Permutation g g' ->
  (eval_entry ctx (e, g) = Some true <-> eval_entry ctx (e, g') = Some true).
Proof. intros Hp. unfold Block.eval_entry. simpl. apply all_sc_perm_true. exact Hp. Qed.
Theorem entry_perm e g g' ctx : Permutation g g' ->
  (forall k pv, In (k, pv) g -> eval_key e k pv ctx <> None) ->
  eval_entry ctx (e, g) = eval_entry ctx (e, g').
Proof.
  intros Hp Hd. unfold Block.eval_entry. simpl. apply all_sc_perm; [exact Hp|].
  intros [k pv] Hin. simpl. apply Hd. exact Hin.
Qed.
Theorem entry_perm_weak e g g' ctx : Permutation g g' ->
  eval_entry ctx (e, g) = eval_entry ctx (e, g') \/
  (eval_entry ctx (e, g) <> Some true /\ eval_entry ctx (e, g') <> Some true).
Proof. intros Hp. apply iff_true_weak. apply entry_perm_true. exact Hp. Qed.

Lemma grp_has_fn_perm g g' : Permutation g g' -> grp_has_fn g = grp_has_fn g'.
Proof. intros Hp. unfold grp_has_fn. apply existsb_same_set. apply perm_same_set. exact Hp. Qed.

(* same operators position by position, each with its keys permuted *)
Definition keys_permuted (b b' : block) : Prop := block_rel (fun _ g g' => Permutation g g') b b'.
Lemma keys_permuted_sym b b' : keys_permuted b b' -> keys_permuted b' b.
Proof.
  unfold keys_permuted, block_rel. induction 1 as [|ng ng' b b' [Hn Hp] _ IH]; constructor; [|exact IH].
  split; [symmetry; exact Hn | apply Permutation_sym; exact Hp].
Qed.

Theorem block_perm_keys_true ord b b' ctx : keys_permuted b b' ->
  (eval_block ord b ctx = Some true <-> eval_block ord b' ctx = Some true).
Proof.
  assert (H : forall b b', keys_permuted b b' -> eval_block ord b ctx = Some true -> eval_block ord b' ctx = Some true).
  { intros c c' Hr. apply (block_congr_true test ord _ c c' ctx Hr). intros e g g' _ Hp. split.
    - rewrite (grp_has_fn_perm g g' Hp). auto.
    - apply (proj1 (entry_perm_true e g g' ctx Hp)). }
  intros Hr. split; [apply H; exact Hr | apply H; apply keys_permuted_sym; exact Hr].
Qed.
Theorem block_perm_keys ord b b' ctx : keys_permuted b b' ->
  (forall e g k pv, is_set ord b e g -> In (k, pv) g -> eval_key e k pv ctx <> None) ->
  eval_block ord b ctx = eval_block ord b' ctx.
Proof.
  intros Hr Hd. apply (block_congr test ord _ b b' ctx Hr). intros e g g' Hs Hp. split.
  - apply grp_has_fn_perm. exact Hp.
  - apply entry_perm; [exact Hp|]. intros k pv Hin. exact (Hd e g k pv Hs Hin).
Qed.
Theorem block_perm_keys_weak ord b b' ctx : keys_permuted b b' ->
  eval_block ord b ctx = eval_block ord b' ctx \/
  (eval_block ord b ctx <> Some true /\ eval_block ord b' ctx <> Some true).
Proof. intros Hr. apply iff_true_weak. apply block_perm_keys_true. exact Hr. Qed.

(* ================================================================================================================
   3. Blocks are conjunctions.  The operators of b1 ++ b2 are evaluated in the declaration order of the class, i.e. in
      an interleaving of those of b1 and b2: the verdict is the three-valued AND of the two verdicts in the sense of
      and3_spec (False and None combine to False or to None, whichever member comes first in the class).  The operator
      names of the two parts must be different (else b2's replaces b1's). *)
Definition ops_disjoint (b1 b2 : block) : Prop :=
  forall n, In n (map fst (norm_block b1)) -> ~ In n (map fst (norm_block b2)).

Lemma merge_and3 {E G} (f : E * G -> option bool) (F1 F2 : E -> option G) l :
  (forall e, F1 e <> None -> F2 e = None) ->
  and3_spec (all_sc f (flat_map (pick F1) l)) (all_sc f (flat_map (pick F2) l))
            (all_sc f (flat_map (pick (fun e => match F2 e with Some g => Some g | None => F1 e end)) l)).
Proof.
  intros Hdis. induction l as [|e l IH]; simpl; [reflexivity|].
  unfold pick at 1 3 5. pose proof (Hdis e) as He.
  destruct (F1 e) as [g1|] eqn:E1, (F2 e) as [g2|] eqn:E2.
  - assert (C : Some g2 = None) by (apply He; discriminate). discriminate.
  - simpl. destruct (f (e, g1)) as [[|]|].
    + exact IH.
    + destruct (all_sc f (flat_map (pick F2) l)) as [[|]|]; simpl; auto.
    + destruct (all_sc f (flat_map (pick F2) l)) as [[|]|]; simpl; auto.
  - simpl. destruct (f (e, g2)) as [[|]|].
    + exact IH.
    + destruct (all_sc f (flat_map (pick F1) l)) as [[|]|]; simpl; auto.
    + destruct (all_sc f (flat_map (pick F1) l)) as [[|]|]; simpl; auto.
  - simpl. exact IH.
Qed.
Lemma merge_existsb {E G} (h : E * G -> bool) (F1 F2 : E -> option G) l :
  (forall e, F1 e <> None -> F2 e = None) ->
  existsb h (flat_map (pick (fun e => match F2 e with Some g => Some g | None => F1 e end)) l) =
  existsb h (flat_map (pick F1) l) || existsb h (flat_map (pick F2) l).
Proof.
  intros Hdis. induction l as [|e l IH]; simpl; [reflexivity|].
  unfold pick at 1 3 5. pose proof (Hdis e) as He.
  destruct (F1 e) as [g1|] eqn:E1, (F2 e) as [g2|] eqn:E2.
  - assert (C : Some g2 = None) by (apply He; discriminate). discriminate.
  - simpl. rewrite IH. destruct (h (e, g1)); reflexivity.
  - simpl. rewrite IH. destruct (h (e, g2)); simpl; [rewrite orb_true_r; reflexivity | reflexivity].
  - simpl. exact IH.
Qed.
Lemma active_app ord b1 b2 :
  active ord (b1 ++ b2) =
  flat_map (pick (fun e => match find_last (e_name e) (norm_block b2) with
                           | Some g => Some g | None => find_last (e_name e) (norm_block b1) end)) ord.
Proof.
  rewrite active_pick, norm_block_app. apply flat_map_ext. intros e. unfold pick. rewrite find_last_app. reflexivity.
Qed.

Theorem block_app_and3 ord b1 b2 ctx : ops_disjoint b1 b2 ->
  and3_spec (eval_block ord b1 ctx) (eval_block ord b2 ctx) (eval_block ord (b1 ++ b2) ctx).
Proof.
  intros Hd.
  assert (Hdis : forall e : op_entry, find_last (e_name e) (norm_block b1) <> None -> find_last (e_name e) (norm_block b2) = None).
  { intros e H1. apply find_last_None. apply Hd. destruct (find_last (e_name e) (norm_block b1)) eqn:E; [|congruence].
    apply find_last_In in E. apply (in_map fst) in E. exact E. }
  pose (F1 := fun e : op_entry => find_last (e_name e) (norm_block b1)).
  pose (F2 := fun e : op_entry => find_last (e_name e) (norm_block b2)).
  pose (h := fun eg : op_entry * groups => grp_has_fn (snd eg)).
  assert (E1 : eval_block ord b1 ctx =
               if existsb h (flat_map (pick F1) ord) then None else all_sc (eval_entry ctx) (flat_map (pick F1) ord))
    by reflexivity.
  assert (E2 : eval_block ord b2 ctx =
               if existsb h (flat_map (pick F2) ord) then None else all_sc (eval_entry ctx) (flat_map (pick F2) ord))
    by reflexivity.
  assert (E12 : eval_block ord (b1 ++ b2) ctx =
                if existsb h (flat_map (pick F1) ord) || existsb h (flat_map (pick F2) ord) then None
                else all_sc (eval_entry ctx)
                       (flat_map (pick (fun e => match F2 e with Some g => Some g | None => F1 e end)) ord)).
  { unfold Block.eval_block. rewrite active_app. rewrite <- (merge_existsb h F1 F2 ord Hdis). reflexivity. }
  rewrite E1, E2, E12. clear E1 E2 E12.
  pose proof (merge_and3 (eval_entry ctx) F1 F2 ord Hdis) as HM.
  destruct (existsb h (flat_map (pick F1) ord)); destruct (existsb h (flat_map (pick F2) ord)); simpl.
  - reflexivity.
  - destruct (all_sc (eval_entry ctx) (flat_map (pick F2) ord)) as [[|]|]; simpl; auto.
  - destruct (all_sc (eval_entry ctx) (flat_map (pick F1) ord)) as [[|]|]; simpl; auto.
  - exact HM.
Qed.

Theorem block_app_true ord b1 b2 ctx : ops_disjoint b1 b2 ->
  (eval_block ord (b1 ++ b2) ctx = Some true <-> eval_block ord b1 ctx = Some true /\ eval_block ord b2 ctx = Some true).
Proof. intros Hd. apply and3_spec_true. apply block_app_and3. exact Hd. Qed.
Theorem block_app_false ord b1 b2 ctx : ops_disjoint b1 b2 -> eval_block ord (b1 ++ b2) ctx = Some false ->
  eval_block ord b1 ctx = Some false \/ eval_block ord b2 ctx = Some false.
Proof. intros Hd. apply and3_spec_false. apply block_app_and3. exact Hd. Qed.
Theorem block_app_none ord b1 b2 ctx : ops_disjoint b1 b2 -> eval_block ord (b1 ++ b2) ctx = None ->
  eval_block ord b1 ctx = None \/ eval_block ord b2 ctx = None.
Proof. intros Hd. apply and3_spec_none. apply block_app_and3. exact Hd. Qed.

(* without any side condition: the LATER part is never replaced, so it must be satisfied too *)
Theorem block_app_later ord b1 b2 ctx : eval_block ord (b1 ++ b2) ctx = Some true -> eval_block ord b2 ctx = Some true.
Proof.
  intros H. apply block_true_iff in H. apply block_true_iff. destruct H as [Hfn H].
  assert (Hs : forall e g, is_set ord b2 e g -> is_set ord (b1 ++ b2) e g).
  { intros e g [He Hg]. split; [exact He|]. rewrite norm_block_app, find_last_app, Hg. reflexivity. }
  split.
  - intros e g k pv Hset. exact (Hfn e g k pv (Hs e g Hset)).
  - intros e g k pv Hset. exact (H e g k pv (Hs e g Hset)).
Qed.
(* adding an operator (in front: it cannot replace anything) can only make a block LESS permissive *)
Theorem block_cons_restricts ord n g b ctx : eval_block ord ((n, g) :: b) ctx = Some true -> eval_block ord b ctx = Some true.
Proof. apply (block_app_later ord [(n, g)] b ctx). Qed.

(* ================================================================================================================
   4. Qualifiers *)

(* ForAllValues over an EMPTY list of request values is True, ForAnyValue is False (with or without IfExists:
   an empty list is a present value) *)
Theorem forall_empty e k pv ctx : e_qual e = QAll -> ctx_get ctx k = Some (XMany []) -> eval_key e k pv ctx = Some true.
Proof.
  intros Hq Hx. unfold Block.eval_key, present, Block.eval_inner. rewrite Hq, Hx, andb_false_r. simpl. reflexivity.
Qed.
Theorem forany_empty e k pv ctx : e_qual e = QAny -> ctx_get ctx k = Some (XMany []) -> eval_key e k pv ctx = Some false.
Proof.
  intros Hq Hx. unfold Block.eval_key, present, Block.eval_inner. rewrite Hq, Hx, andb_false_r. simpl.
  destruct pv; reflexivity.
Qed.
(* over an ABSENT key both are UNDETERMINED (kwargs[key] raises KeyError), unless IfExists makes them True *)
Theorem qualifier_absent e k pv ctx : e_qual e <> QNone -> ctx_get ctx k = None ->
  eval_key e k pv ctx = if e_ifx e then Some true else None.
Proof.
  intros Hq Hx. unfold Block.eval_key, present, Block.eval_inner. rewrite Hx.
  destruct (e_ifx e); simpl; [reflexivity|]. destruct (e_qual e); [congruence | reflexivity | destruct pv; reflexivity].
Qed.

Lemma eval_key_list e k pv ctx cs : e_qual e <> QNone -> ctx_get ctx k = Some (XMany cs) ->
  eval_key e k pv ctx =
  match e_qual e with
  | QAll => all_sc (value_ok (e_base e) (plist pv)) cs
  | _ => any_sc (value_ok (e_base e) (plist pv)) cs
  end.
Proof.
  intros Hq Hx. unfold Block.eval_key, present, Block.eval_inner. rewrite Hx, andb_false_r. simpl.
  destruct (e_qual e); [congruence | reflexivity | destruct pv; reflexivity].
Qed.

(* exact: request values cs ++ ds = and-then (ForAllValues) / or-else (ForAnyValue) of the two parts *)
Theorem qualifier_app e k pv ctx1 ctx2 ctx cs ds : e_qual e <> QNone ->
  ctx_get ctx1 k = Some (XMany cs) -> ctx_get ctx2 k = Some (XMany ds) -> ctx_get ctx k = Some (XMany (cs ++ ds)) ->
  eval_key e k pv ctx =
  (match e_qual e with QAll => and_sc | _ => or_sc end) (eval_key e k pv ctx1) (eval_key e k pv ctx2).
Proof.
  intros Hq H1 H2 H. rewrite (eval_key_list e k pv ctx (cs ++ ds) Hq H), (eval_key_list e k pv ctx1 cs Hq H1),
    (eval_key_list e k pv ctx2 ds Hq H2).
  destruct (e_qual e); [congruence | apply all_sc_app | apply any_sc_app].
Qed.

(* ForAnyValue is MONOTONE in the request values ... *)
Theorem forany_monotone e k pv ctx ctx' cs cs' : e_qual e = QAny ->
  ctx_get ctx k = Some (XMany cs) -> ctx_get ctx' k = Some (XMany cs') -> incl cs cs' ->
  (eval_key e k pv ctx' = Some false -> eval_key e k pv ctx = Some false) /\
  ((forall c, In c cs' -> value_ok (e_base e) (plist pv) c <> None) ->
   eval_key e k pv ctx = Some true -> eval_key e k pv ctx' = Some true).
Proof.
  intros Hq H H' Hi. assert (Hq' : e_qual e <> QNone) by (rewrite Hq; discriminate).
  rewrite (eval_key_list e k pv ctx cs Hq' H), (eval_key_list e k pv ctx' cs' Hq' H'), Hq. split.
  - apply any_sc_false_incl. exact Hi.
  - intros Hd. apply any_sc_true_incl; assumption.
Qed.
Theorem forany_monotone_app e k pv ctx ctx' cs ds : e_qual e = QAny ->
  ctx_get ctx k = Some (XMany cs) -> ctx_get ctx' k = Some (XMany (cs ++ ds)) ->
  eval_key e k pv ctx = Some true -> eval_key e k pv ctx' = Some true.
Proof.
  intros Hq H H'. assert (Hq' : e_qual e <> QNone) by (rewrite Hq; discriminate).
  rewrite (eval_key_list e k pv ctx cs Hq' H), (eval_key_list e k pv ctx' (cs ++ ds) Hq' H'), Hq, any_sc_app.
  intros ->. reflexivity.
Qed.
(* ... ForAllValues is ANTI-MONOTONE *)
Theorem forall_antimonotone e k pv ctx ctx' cs cs' : e_qual e = QAll ->
  ctx_get ctx k = Some (XMany cs) -> ctx_get ctx' k = Some (XMany cs') -> incl cs cs' ->
  (eval_key e k pv ctx' = Some true -> eval_key e k pv ctx = Some true) /\
  ((forall c, In c cs' -> value_ok (e_base e) (plist pv) c <> None) ->
   eval_key e k pv ctx = Some false -> eval_key e k pv ctx' = Some false).
Proof.
  intros Hq H H' Hi. assert (Hq' : e_qual e <> QNone) by (rewrite Hq; discriminate).
  rewrite (eval_key_list e k pv ctx cs Hq' H), (eval_key_list e k pv ctx' cs' Hq' H'), Hq. split.
  - apply all_sc_true_incl. exact Hi.
  - intros Hd. apply all_sc_false_incl; assumption.
Qed.
Theorem forall_antimonotone_app e k pv ctx ctx' cs ds : e_qual e = QAll ->
  ctx_get ctx k = Some (XMany cs) -> ctx_get ctx' k = Some (XMany (cs ++ ds)) ->
  eval_key e k pv ctx = Some false -> eval_key e k pv ctx' = Some false.
Proof.
  intros Hq H H'. assert (Hq' : e_qual e <> QNone) by (rewrite Hq; discriminate).
  rewrite (eval_key_list e k pv ctx cs Hq' H), (eval_key_list e k pv ctx' (cs ++ ds) Hq' H'), Hq, all_sc_app.
  intros ->. reflexivity.
Qed.

(* ...IfExists on a PRESENT key is the plain operator (absent: BlockFacts.ifexists_absent) *)
Theorem ifexists_present e e0 k pv ctx :
  e_qual e0 = e_qual e -> e_base e0 = e_base e -> e_ifx e0 = false -> present ctx k = true ->
  eval_key e k pv ctx = eval_key e0 k pv ctx.
Proof.
  intros Hq Hb Hi Hp. unfold Block.eval_key. rewrite Hq, Hb, Hi, Hp, andb_false_r. reflexivity.
Qed.
Theorem ifexists_split e e0 k pv ctx :
  e_qual e0 = e_qual e -> e_base e0 = e_base e -> e_ifx e0 = false -> e_ifx e = true ->
  eval_key e k pv ctx = if present ctx k then eval_key e0 k pv ctx else Some true.
Proof.
  intros Hq Hb Hi Hi'. unfold Block.eval_key. rewrite Hq, Hb, Hi, Hi'. destruct (present ctx k); reflexivity.
Qed.

(* ================================================================================================================
   5. Context irrelevance at full strength: the verdict reads the context only at the keys of the operators that are
      set (and known to the class) *)
Theorem block_ctx_irrelevant ord b ctx ctx' :
  (forall e g k pv, is_set ord b e g -> In (k, pv) g -> ctx_get ctx k = ctx_get ctx' k) ->
  eval_block ord b ctx = eval_block ord b ctx'.
Proof.
  intros H. unfold Block.eval_block. destruct (has_fn (active ord b)); [reflexivity|].
  apply all_sc_ext_in. intros [e g] Hin. unfold Block.eval_entry. simpl.
  apply all_sc_ext_in. intros [k pv] Hk. simpl. apply key_independent.
  apply (H e g k pv); [apply in_active; exact Hin | exact Hk].
Qed.

(* the keys mentioned anywhere in the block *)
Definition block_keys (b : block) : list str := flat_map (fun ng => map fst (snd ng)) b.
Lemma is_set_in_block ord b e g : is_set ord b e g -> exists n, In (n, g) b.
Proof.
  intros [_ H]. apply find_last_In in H. unfold norm_block in H. apply in_map_iff in H.
  destruct H as ([n g'] & E & Hin). simpl in E. inversion E; subst. exists n. exact Hin.
Qed.
Theorem block_ctx_irrelevant_keys ord b ctx ctx' :
  (forall k, In k (block_keys b) -> ctx_get ctx k = ctx_get ctx' k) -> eval_block ord b ctx = eval_block ord b ctx'.
Proof.
  intros H. apply block_ctx_irrelevant. intros e g k pv Hs Hk. apply H.
  destruct (is_set_in_block ord b e g Hs) as (n & Hn). unfold block_keys. apply in_flat_map.
  exists (n, g). split; [exact Hn|]. simpl. apply (in_map fst _ _ Hk).
Qed.
Corollary block_ctx_update ord b ctx k2 v :
  ~ In k2 (block_keys b) -> eval_block ord b ((k2, v) :: ctx) = eval_block ord b ctx.
Proof.
  intros Hni. apply block_ctx_irrelevant_keys. intros k Hk. unfold ctx_get. simpl.
  destruct (str_eqb k k2) eqn:E; [apply str_eqb_spec in E; subst; contradiction | reflexivity].
Qed.

(* ================================================================================================================
   6. A block with no operator is True; so is a block whose operators list no key *)
Lemma active_nil ord : active ord [] = [].
Proof. unfold active. induction ord as [|e ord IH]; simpl; [reflexivity | exact IH]. Qed.
Theorem block_empty ord ctx : eval_block ord [] ctx = Some true.
Proof. unfold Block.eval_block. rewrite active_nil. reflexivity. Qed.
Theorem block_no_keys ord b ctx : (forall n g, In (n, g) b -> g = []) -> eval_block ord b ctx = Some true.
Proof.
  intros H. apply block_true_iff. split.
  - intros e g k pv Hs Hk. destruct (is_set_in_block ord b e g Hs) as (n & Hn). rewrite (H n g Hn) in Hk. contradiction.
  - intros e g k pv Hs Hk. destruct (is_set_in_block ord b e g Hs) as (n & Hn). rewrite (H n g Hn) in Hk. contradiction.
Qed.
End Laws.

(* ================================================================================================================
   6 (continued).  The Null operator, with the leaf comparison of C11 (op_test, any fold).
   As implemented -- and pinned by the library's tests --  {"Null": {k: true}}  holds iff k is PRESENT (the reverse of
   the AWS wording, see DESIGN C11).  "Present" = in the context and not None; a context never holds the marker
   CAbsent as a value (ctx_real). *)
Section NullOp.
Variable fold : str -> str.
Notation ekey := (eval_key (op_test fold)).

Definition ctx_real (ctx : context) (k : str) : Prop := ctx_get ctx k <> Some (XOne CAbsent).
Definition null_plain (e : op_entry) : Prop := e_base e = ONull /\ e_qual e = QNone /\ e_ifx e = false.

Lemma is_present_leaf ctx k : ctx_real ctx k -> is_present (leaf_of (ctx_get ctx k)) = present ctx k.
Proof.
  unfold ctx_real, present. intros Hr. destruct (ctx_get ctx k) as [[c|cs]|]; simpl; try reflexivity.
  destruct c; simpl; try reflexivity. exfalso. apply Hr. reflexivity.
Qed.

Theorem null_presence e k pb ctx : null_plain e -> ctx_real ctx k ->
  ekey e k (POne (CBool pb)) ctx = Some (Bool.eqb (present ctx k) pb).
Proof.
  intros (Hb & Hq & Hi) Hr. unfold Block.eval_key, Block.eval_inner. rewrite Hb, Hq, Hi. simpl.
  rewrite (is_present_leaf ctx k Hr). reflexivity.
Qed.
Theorem null_true_iff_present e k ctx : null_plain e -> ctx_real ctx k ->
  (ekey e k (POne (CBool true)) ctx = Some true <-> present ctx k = true).
Proof.
  intros He Hr. rewrite (null_presence e k true ctx He Hr). destruct (present ctx k); simpl; split; congruence.
Qed.
Theorem null_false_iff_absent e k ctx : null_plain e -> ctx_real ctx k ->
  (ekey e k (POne (CBool false)) ctx = Some true <-> present ctx k = false).
Proof.
  intros He Hr. rewrite (null_presence e k false ctx He Hr). destruct (present ctx k); simpl; split; congruence.
Qed.

(* interplay with IfExists: next to {"Null": {k: false}} (k absent) every ...IfExists test of k is vacuous;
   next to {"Null": {k: true}} (k present) every ...IfExists test of k is the plain operator *)
Theorem null_false_ifexists en e k pv ctx : null_plain en -> ctx_real ctx k -> e_ifx e = true ->
  ekey en k (POne (CBool false)) ctx = Some true -> ekey e k pv ctx = Some true.
Proof.
  intros Hn Hr Hi H. apply ifexists_absent; [exact Hi|]. apply (null_false_iff_absent en k ctx Hn Hr). exact H.
Qed.
Theorem null_true_ifexists en e e0 k pv ctx : null_plain en -> ctx_real ctx k ->
  e_qual e0 = e_qual e -> e_base e0 = e_base e -> e_ifx e0 = false ->
  ekey en k (POne (CBool true)) ctx = Some true -> ekey e k pv ctx = ekey e0 k pv ctx.
Proof.
  intros Hn Hr Hq Hb Hi H. apply ifexists_present; try assumption. apply (null_true_iff_present en k ctx Hn Hr). exact H.
Qed.
(* why the class has no NullIfExists field: {"NullIfExists": {k: true}} could never fail *)
Theorem null_ifexists_tautology e k ctx : e_base e = ONull -> e_qual e = QNone -> e_ifx e = true -> ctx_real ctx k ->
  ekey e k (POne (CBool true)) ctx = Some true.
Proof.
  intros Hb Hq Hi Hr. unfold Block.eval_key, Block.eval_inner. rewrite Hb, Hq, Hi. simpl.
  destruct (present ctx k) eqn:Ep; simpl; [|reflexivity]. rewrite (is_present_leaf ctx k Hr), Ep. reflexivity.
Qed.
End NullOp.

(* ================================================================================================================
   2 (continued).  WHEN can the comparability side condition fail?  Only when the listed values disagree on whether
   the context value can be compared at all.  With C11's comparison that happens for two operator groups only:
   IpAddress / NotIpAddress (ranges of both IP versions in one list) and the four Date ORDERING operators (naive and
   aware datetimes in one list).  For every other operator and policy values of the operator's type, the value list
   is a SET unconditionally, undetermined case included. *)
Section Uniform.
Variable test : base_op -> cval -> cval -> option bool.

Definition uniform_vals (o : base_op) (ps : list cval) (c : cval) : Prop :=
  (forall p, In p ps -> test o p c = None) \/ comparable_vals test o ps c.

Theorem values_same_set_uniform o ps qs c : uniform_vals o ps c -> (forall p, In p ps <-> In p qs) ->
  value_ok test o ps c = value_ok test o qs c.
Proof.
  intros [Hn|Hc] Hs; [|apply values_same_set; assumption].
  destruct ps as [|p ps], qs as [|q qs].
  - reflexivity.
  - exfalso. apply (proj2 (Hs q)). left. reflexivity.
  - exfalso. apply (proj1 (Hs p)). left. reflexivity.
  - rewrite !value_ok_cons. rewrite (Hn p (or_introl eq_refl)).
    rewrite (Hn q (proj2 (Hs q) (or_introl eq_refl))). destruct (negated o); reflexivity.
Qed.
Theorem values_perm_uniform o ps qs c : uniform_vals o ps c -> Permutation ps qs ->
  value_ok test o ps c = value_ok test o qs c.
Proof. intros Hu Hp. apply values_same_set_uniform; [exact Hu | apply perm_same_set; exact Hp]. Qed.
End Uniform.

Definition uniform_op (o : base_op) : bool :=
  match o with
  | ODateLessThan | ODateLessThanEquals | ODateGreaterThan | ODateGreaterThanEquals => false
  | _ => true
  end.

Theorem op_test_uniform fold o p q c :
  uniform_op o = true -> has_fam (family o) p = true -> has_fam (family o) q = true ->
  (op_test fold o p c = None <-> op_test fold o q c = None).
Proof.
  intros Hu Hp Hq.
  destruct o; simpl in Hu; try discriminate Hu; clear Hu;
    destruct p; simpl in Hp; try discriminate Hp; clear Hp;
    destruct q; simpl in Hq; try discriminate Hq; clear Hq;
    destruct c; simpl; split; intros H;
      solve [reflexivity | discriminate H | exact H
             | match goal with |- context [ipver_eqb ?x ?y] => destruct (ipver_eqb x y) end; discriminate
             | match type of H with context [ipver_eqb ?x ?y] => destruct (ipver_eqb x y) end; discriminate H].
Qed.

Theorem typed_values_uniform fold o ps c :
  uniform_op o = true -> (forall p, In p ps -> has_fam (family o) p = true) -> uniform_vals (op_test fold) o ps c.
Proof.
  intros Hu Hf. destruct ps as [|p0 ps]; [right; intros p []|].
  destruct (op_test fold o p0 c) as [r|] eqn:E.
  - right. intros p Hp Hn.
    apply (op_test_uniform fold o p p0 c Hu (Hf p Hp) (Hf p0 (or_introl eq_refl))) in Hn. congruence.
  - left. intros p Hp. apply (op_test_uniform fold o p0 p c Hu (Hf p0 (or_introl eq_refl)) (Hf p Hp)). exact E.
Qed.

Theorem typed_values_set fold o ps qs c :
  uniform_op o = true -> (forall p, In p ps -> has_fam (family o) p = true) -> (forall p, In p ps <-> In p qs) ->
  value_ok (op_test fold) o ps c = value_ok (op_test fold) o qs c.
Proof. intros Hu Hf Hs. apply values_same_set_uniform; [apply typed_values_uniform; assumption | exact Hs]. Qed.

(* ================================================================================================================
   Witnesses on the LIVE operator table: the side conditions above are needed, the unconditional versions are FALSE
   of the evaluation as defined (and of the Python code: each witness was run against the library). *)
Module Witness.
Local Open Scope N_scope.
Definition idf (s : str) : str := s.
Definition ev := eval_block (op_test idf) OPERATORS.
Definition S (c : N) : cval := CStr [c].
Definition n_StringEquals : str := base_name OStringEquals.
Definition n_String_Equals : str := [83; 116; 114; 105; 110; 103; 58; 69; 113; 117; 97; 108; 115].   (* "String:Equals" *)
Definition n_StringLike : str := base_name OStringLike.
Definition n_IpAddress : str := base_name OIpAddress.
Definition n_NotIpAddress : str := base_name ONotIpAddress.
Definition n_Null : str := base_name ONull.
Definition k1 : str := [107; 49].
Definition k2 : str := [107; 50].
Definition a := 97. Definition b := 98. Definition x := 120.
Definition net10 : cval := CNet (Net V4 167772160 8).          (* 10.0.0.0/8 *)
Definition net6all : cval := CNet (Net V6 0 0).                (* ::/0 *)
Definition host10 : cval := CNet (Net V4 167837953 32).        (* 10.1.1.1/32 *)
Definition dt2030 (aware : bool) : cval := CDate aware 1893456000000000.   (* 2030-01-01T00:00:00, with / without a zone *)
Definition dt2020 : cval := CDate true 1577836800000000.                   (* 2020-01-01T00:00:00Z *)
Definition n_DateLessThan : str := base_name ODateLessThan.

(* 1a: without NoDup the order of the operators matters.
   {"StringEquals": {"k1": "b"}, "String:Equals": {"k1": "a"}}  on {"k1": "a"}: True;  the two swapped: False *)
Theorem ops_order_nodup_needed :
  exists b1 b2 ctx, Permutation b1 b2 /\ ev b1 ctx = Some true /\ ev b2 ctx = Some false.
Proof.
  exists [(n_StringEquals, [(k1, POne (S b))]); (n_String_Equals, [(k1, POne (S a))])],
         [(n_String_Equals, [(k1, POne (S a))]); (n_StringEquals, [(k1, POne (S b))])],
         [(k1, XOne (S a))].
  split; [apply perm_swap | split; vm_compute; reflexivity].
Qed.

(* 1b: full equality under a permutation of the keys is FALSE: False and None can be exchanged.
   {"StringEquals": {"k1": "a", "k2": "b"}} on {"k1": "x"}: False;  {"StringEquals": {"k2": "b", "k1": "a"}}: None *)
Theorem key_order_refuted :
  exists b1 b2 ctx, keys_permuted b1 b2 /\ ev b1 ctx = Some false /\ ev b2 ctx = None.
Proof.
  exists [(n_StringEquals, [(k1, POne (S a)); (k2, POne (S b))])],
         [(n_StringEquals, [(k2, POne (S b)); (k1, POne (S a))])],
         [(k1, XOne (S x))].
  split; [|split; vm_compute; reflexivity].
  constructor; [|constructor]. split; [reflexivity | apply perm_swap].
Qed.

(* 2: full equality under a permutation of the VALUES, and monotonicity without comparability, are FALSE.
   {"DateLessThan": {"k1": ["2030-01-01T00:00:00Z", "2030-01-01T00:00:00"]}} on k1 = 2020-01-01T00:00:00Z: True; with the naive
   timestamp first: None (aware < naive raises TypeError before the comparable value is reached); the aware value alone: True, so
   ADDING a value in front turned True into None.  (Until fix F30 the IP operators had the same defect, with a far more ordinary
   witness -- {"IpAddress": {"k1": ["::/0", "10.0.0.0/8"]}} on 10.1.1.1: None -- which is how that finding was made.) *)
Theorem values_order_refuted :
  exists o ps qs c, negated o = false /\ Permutation ps qs /\
    value_ok (op_test idf) o ps c = Some true /\ value_ok (op_test idf) o qs c = None.
Proof.
  exists ODateLessThan, [dt2030 true; dt2030 false], [dt2030 false; dt2030 true], dt2020.
  split; [reflexivity|]. split; [apply perm_swap|]. split; vm_compute; reflexivity.
Qed.
Theorem values_monotone_needs_comparable :
  exists o p ps c, negated o = false /\
    value_ok (op_test idf) o ps c = Some true /\ value_ok (op_test idf) o (p :: ps) c = None.
Proof. exists ODateLessThan, (dt2030 false), [dt2030 true], dt2020. repeat split; vm_compute; reflexivity. Qed.
Theorem block_values_order_refuted :
  exists b1 b2 ctx, block_rel (fun _ => groups_rel (fun _ pv pv' => Permutation (plist pv) (plist pv'))) b1 b2 /\
    ev b1 ctx = Some true /\ ev b2 ctx = None.
Proof.
  exists [(n_DateLessThan, [(k1, PMany [dt2030 true; dt2030 false])])], [(n_DateLessThan, [(k1, PMany [dt2030 false; dt2030 true])])],
         [(k1, XOne dt2020)].
  split; [|split; vm_compute; reflexivity].
  constructor; [|constructor]. split; [reflexivity|]. constructor; [|constructor]. split; [reflexivity | apply perm_swap].
Qed.
(* the other operator group: {"DateLessThan": {"k1": ["2030-01-01T00:00:00Z", "2030-01-01T00:00:00"]}} on
   k1 = 2020-01-01T00:00:00Z: True; with the naive datetime first: None (aware < naive raises TypeError) *)
Theorem values_order_refuted_date :
  exists ps qs c, Permutation ps qs /\
    value_ok (op_test idf) ODateLessThan ps c = Some true /\ value_ok (op_test idf) ODateLessThan qs c = None.
Proof.
  exists [CDate true 1893456000000000; CDate false 1893456000000000],
         [CDate false 1893456000000000; CDate true 1893456000000000], (CDate true 1577836800000000).
  split; [apply perm_swap|]. split; vm_compute; reflexivity.
Qed.
(* the negated counterpart: False / None -- since fix F30 only with a policy value outside the operator's type (a number under a
   string operator; pydantic does not produce such a block): for typed values every negated operator is order-blind
   (typed_values_set, ip_values_order_blind) *)
Theorem negated_values_order_refuted :
  exists o ps qs c, negated o = true /\ Permutation ps qs /\
    value_ok (op_test idf) o ps c = Some false /\ value_ok (op_test idf) o qs c = None.
Proof.
  exists OStringNotEqualsIgnoreCase, [S a; CInt 5], [CInt 5; S a], (S a).
  split; [reflexivity|]. split; [apply perm_swap|]. split; vm_compute; reflexivity.
Qed.

(* SINCE FIX F30 the IP operators are no exception any more: ranges of both IP versions in one list are alternatives in any order
   ({"IpAddress": {"k1": ["10.0.0.0/8", "::/0"]}} on 10.1.1.1/32 is True whichever range comes first, and on an IPv6 address too) *)
Theorem ip_values_order_blind fold o ps qs c :
  (o = OIpAddress \/ o = ONotIpAddress) -> (forall p, In p ps -> has_fam (family o) p = true) -> (forall p, In p ps <-> In p qs) ->
  value_ok (op_test fold) o ps c = value_ok (op_test fold) o qs c.
Proof. intros [->| ->] Hf Hs; apply typed_values_set; try reflexivity; assumption. Qed.
Example ip_mixed_versions_any_order :
  value_ok (op_test idf) OIpAddress [net10; net6all] host10 = Some true /\
  value_ok (op_test idf) OIpAddress [net6all; net10] host10 = Some true /\
  value_ok (op_test idf) OIpAddress [net10; net6all] (CNet (Net V6 1 128)) = Some true /\
  value_ok (op_test idf) ONotIpAddress [net6all; net10] host10 = Some false.
Proof. repeat split; vm_compute; reflexivity. Qed.

(* 3: eval (b1 ++ b2) = True does NOT give eval b1 = True when b2 spells an operator of b1 again; in particular
   adding an operator at the END can make a block MORE permissive.
   b1 = {"StringEquals": {"k1": "b"}}, b2 = {"String:Equals": {"k1": "a"}}, context {"k1": "a"} *)
Theorem app_needs_disjoint :
  exists b1 b2 ctx, ev (b1 ++ b2) ctx = Some true /\ ev b1 ctx = Some false.
Proof.
  exists [(n_StringEquals, [(k1, POne (S b))])], [(n_String_Equals, [(k1, POne (S a))])], [(k1, XOne (S a))].
  split; vm_compute; reflexivity.
Qed.
(* 3: False and None combine to False or to None, depending on the declaration order of the two operators:
   {"StringEquals": {"k1": "a"}} (False) ++ {"StringLike": {"k2": "b"}} (None) on {"k1": "x"}: False;
   {"StringLike": {"k1": "a"}} (False) ++ {"StringEquals": {"k2": "b"}} (None): None *)
Theorem and3_mixed_both_occur :
  exists b1 b2 b1' b2' ctx, ops_disjoint b1 b2 /\ ops_disjoint b1' b2' /\
    ev b1 ctx = Some false /\ ev b2 ctx = None /\ ev (b1 ++ b2) ctx = Some false /\
    ev b1' ctx = Some false /\ ev b2' ctx = None /\ ev (b1' ++ b2') ctx = None.
Proof.
  exists [(n_StringEquals, [(k1, POne (S a))])], [(n_StringLike, [(k2, POne (S b))])],
         [(n_StringLike, [(k1, POne (S a))])], [(n_StringEquals, [(k2, POne (S b))])], [(k1, XOne (S x))].
  split; [|split].
  - intros n [<-|[]] [E|[]]. vm_compute in E. discriminate.
  - intros n [<-|[]] [E|[]]. vm_compute in E. discriminate.
  - repeat split; vm_compute; reflexivity.
Qed.

(* 5: tightness -- a key that IS mentioned matters: changing it flips the verdict *)
Theorem mentioned_key_matters :
  exists blk ctx ctx' k, In k (block_keys blk) /\ (forall k', k' <> k -> ctx_get ctx k' = ctx_get ctx' k') /\
    ev blk ctx = Some true /\ ev blk ctx' = Some false.
Proof.
  exists [(n_StringEquals, [(k1, POne (S a)); (k2, POne (S b))])],
         [(k1, XOne (S a)); (k2, XOne (S b))], [(k1, XOne (S a)); (k2, XOne (S x))], k2.
  split; [simpl; auto|]. split; [|split; vm_compute; reflexivity].
  intros k' Hne. unfold ctx_get. simpl. destruct (str_eqb k' k1); [reflexivity|].
  destruct (str_eqb k' k2) eqn:E; [apply str_eqb_spec in E; congruence | reflexivity].
Qed.

(* 6: {"Null": {"k1": "true"}} is True iff k1 is PRESENT -- "true iff absent" (the AWS reading) is FALSE of the
   evaluation: on {} it is False, on {"k1": "a"} it is True *)
Theorem null_true_iff_absent_refuted :
  exists ctx ctx', present ctx k1 = false /\ present ctx' k1 = true /\
    ev [(n_Null, [(k1, POne (CBool true))])] ctx = Some false /\ ev [(n_Null, [(k1, POne (CBool true))])] ctx' = Some true.
Proof. exists [], [(k1, XOne (S a))]. repeat split; vm_compute; reflexivity. Qed.
End Witness.
