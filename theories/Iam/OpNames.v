(* Names of the base operators and the name-stripping rule of build_root_evaluator:
     if function.endswith("IfExists"):        new = function.replace("IfExists", "")        (suffix tested FIRST)
     elif function.startswith("ForAllValues"): new = function.replace("ForAllValues", "")
     elif function.startswith("ForAnyValue"):  new = function.replace("ForAnyValue", "")
   applied again to `new` by the recursive call, until build_evaluator sees a base name. *)
From Coq Require Import List Bool NArith String.
From PV Require Import Base.Str Iam.Ops.
Import ListNotations.
Local Open Scope string_scope.

Definition base_name_raw (o : base_op) : string :=
  match o with
  | OStringEquals => "StringEquals" | OStringNotEquals => "StringNotEquals"
  | OStringEqualsIgnoreCase => "StringEqualsIgnoreCase" | OStringNotEqualsIgnoreCase => "StringNotEqualsIgnoreCase"
  | OStringLike => "StringLike" | OStringNotLike => "StringNotLike"
  | ONumericEquals => "NumericEquals" | ONumericNotEquals => "NumericNotEquals"
  | ONumericLessThan => "NumericLessThan" | ONumericLessThanEquals => "NumericLessThanEquals"
  | ONumericGreaterThan => "NumericGreaterThan" | ONumericGreaterThanEquals => "NumericGreaterThanEquals"
  | ODateEquals => "DateEquals" | ODateNotEquals => "DateNotEquals"
  | ODateLessThan => "DateLessThan" | ODateLessThanEquals => "DateLessThanEquals"
  | ODateGreaterThan => "DateGreaterThan" | ODateGreaterThanEquals => "DateGreaterThanEquals"
  | OBool => "Bool" | OBinaryEquals => "BinaryEquals"
  | OIpAddress => "IpAddress" | ONotIpAddress => "NotIpAddress"
  | OArnEquals => "ArnEquals" | OArnLike => "ArnLike" | OArnNotEquals => "ArnNotEquals" | OArnNotLike => "ArnNotLike"
  | ONull => "Null"
  end.
Definition base_name (o : base_op) : str := of_string (base_name_raw o).
Definition base_of_name (s : str) : option base_op := find (fun o => str_eqb (base_name o) s) all_base_ops.

Definition IFEXISTS : str := of_string "IfExists".
Definition FORALL : str := of_string "ForAllValues".
Definition FORANY : str := of_string "ForAnyValue".

Definition ends_with (suf s : str) : bool := starts_with (rev suf) (rev s).
(* s.replace(d, "") for a non-empty d: leftmost, non-overlapping occurrences *)
Definition remove_all (d s : str) : str := List.concat (split d s).

(* one application of the rule: Some (what was recognised, remaining name), None when no rule applies *)
Inductive affix := AIfExists | AForAll | AForAny.
Definition strip_step (f : str) : option (affix * str) :=
  if ends_with IFEXISTS f then Some (AIfExists, remove_all IFEXISTS f)
  else if starts_with FORALL f then Some (AForAll, remove_all FORALL f)
  else if starts_with FORANY f then Some (AForAny, remove_all FORANY f)
  else None.

(* the reading the evaluator gives a field name: optional IfExists (outermost), optional qualifier, base operator.
   None when the name is not read that way (e.g. a qualifier met twice, or an unknown base name). *)
Definition parse_name (f : str) : option (qual * base_op * bool) :=
  let '(ifx, f1) := match strip_step f with Some (AIfExists, r) => (true, r) | _ => (false, f) end in
  let '(q, f2) := match strip_step f1 with
                  | Some (AForAll, r) => (QAll, r) | Some (AForAny, r) => (QAny, r)
                  | Some (AIfExists, r) => (QNone, []) (* IfExists again: not a name of the table *)
                  | None => (QNone, f1) end in
  match strip_step f2, base_of_name f2 with
  | None, Some o => Some (q, o, ifx)
  | _, _ => None
  end.

(* key.replace(":", "") of StatementCondition.remove_colon *)
Definition COLON : N := 58%N.
Definition norm_name (n : str) : str := filter (fun c => negb (N.eqb c COLON)) n.
Lemma norm_name_idem n : norm_name (norm_name n) = norm_name n.
Proof.
  unfold norm_name. induction n as [|c n IH]; simpl; [reflexivity|].
  destruct (negb (N.eqb c COLON)) eqn:E; simpl; [rewrite E, IH|]; auto.
Qed.

(* what block evaluation needs from an operator table: names pairwise different and free of colons *)
Definition table_ok (tbl : list op_entry) : Prop :=
  NoDup (map e_name tbl) /\ Forall (fun e => norm_name (e_name e) = e_name e) tbl.

Example parse_ex1 : parse_name (of_string "ForAllValuesStringNotLikeIfExists") = Some (QAll, OStringNotLike, true).
Proof. vm_compute. reflexivity. Qed.
Example parse_ex2 : parse_name (of_string "NotIpAddress") = Some (QNone, ONotIpAddress, false).
Proof. vm_compute. reflexivity. Qed.
Example parse_ex3 : parse_name (of_string "ForAnyValueNull") = Some (QAny, ONull, false).
Proof. vm_compute. reflexivity. Qed.
Example parse_ex4 : parse_name (of_string "StringEqualsIfExistsIfExists") = Some (QNone, OStringEquals, true).
Proof. vm_compute. reflexivity. Qed.
Example norm_ex : norm_name (of_string "ForAllValues:StringLike") = of_string "ForAllValuesStringLike".
Proof. vm_compute. reflexivity. Qed.
