(* C11 -- theorems about op_test (all operands, no bounds). *)
From Coq Require Import List Bool NArith ZArith Lia.
From PV Require Import Base.Str Base.Value Glob.Glob Run.RState Iam.IpNet Iam.Ops.
Import ListNotations.

Definition is_equals (o : base_op) : bool :=
  match o with OStringEquals | OArnEquals | OBinaryEquals | ONumericEquals | ODateEquals => true | _ => false end.
Definition is_not_equals (o : base_op) : bool :=
  match o with OStringNotEquals | OArnNotEquals | ONumericNotEquals | ODateNotEquals => true | _ => false end.

(* Python == on two operands of one family is equality of the values *)
Lemma py_eq_typed f p c : has_fam f p = true -> has_fam f c = true -> (py_eq c p = true <-> c = p).
Proof.
  destruct f, p; simpl; try discriminate; intros _; destruct c; simpl; try discriminate; intros _; unfold py_eq; simpl.
  1,2: rewrite str_eqb_spec; split; congruence.
  - rewrite Z.eqb_eq; split; congruence.
  - rewrite andb_true_iff, eqb_true_iff, Z.eqb_eq. split; [intros [-> ->]; reflexivity | intros H; inversion H; auto].
  - destruct b, b0; simpl; split; congruence.
  - destruct b, b0; simpl; split; congruence.
  - rewrite str_eqb_spec; split; congruence.
  - rewrite net_eqb_eq; split; congruence.
Qed.

Lemma typed_not_special f c : has_fam f c = true -> c <> CAbsent /\ c <> CFn /\ c <> CNone /\ c <> COther.
Proof. destruct f, c; simpl; try discriminate; intros _; repeat split; discriminate. Qed.

Lemma negated_are_the_duals : forall o', negated o' = true <-> exists o, neg_of o = Some o'.
Proof.
  intros o'. split.
  - destruct o'; try discriminate; intros _;
      [exists OStringEquals | exists OStringEqualsIgnoreCase | exists OStringLike | exists ONumericEquals
      | exists ODateEquals | exists OIpAddress | exists OArnEquals | exists OArnLike]; reflexivity.
  - intros [o H]. destruct o; inversion H; reflexivity.
Qed.

Section Facts.
Variable fold : str -> str.
Notation op_test := (op_test fold).

Theorem equals_correct o p c :
  is_equals o = true -> has_fam (family o) p = true -> has_fam (family o) c = true ->
  exists b, op_test o p c = Some b /\ (b = true <-> c = p).
Proof.
  intros Ho Hp Hc. exists (py_eq c p). split; [|apply (py_eq_typed _ _ _ Hp Hc)].
  destruct (typed_not_special _ _ Hp) as (_ & Hfn & _). destruct (typed_not_special _ _ Hc) as (Habs & _).
  destruct o; try discriminate; destruct p; try congruence; destruct c; try congruence; reflexivity.
Qed.

Theorem not_equals_correct o p c :
  is_not_equals o = true -> has_fam (family o) p = true -> has_fam (family o) c = true ->
  exists b, op_test o p c = Some b /\ (b = true <-> c <> p).
Proof.
  intros Ho Hp Hc. exists (negb (py_eq c p)). split.
  - destruct (typed_not_special _ _ Hp) as (_ & Hfn & _). destruct (typed_not_special _ _ Hc) as (Habs & _).
    destruct o; try discriminate; destruct p; try congruence; destruct c; try congruence; reflexivity.
  - rewrite negb_true_iff. pose proof (py_eq_typed _ _ _ Hp Hc) as H.
    destruct (py_eq c p) eqn:E.
    + split; [discriminate|]. intros Hne. exfalso. apply Hne. apply H. reflexivity.
    + split; [|reflexivity]. intros _ Heq. apply H in Heq. discriminate.
Qed.

(* ordering: context value x against policy value y *)
Lemma order_int pick x y : test_order pick (CInt y) (CInt x) = Some (pick (x ?= y)%Z).
Proof. reflexivity. Qed.
Lemma order_date pick a x y : test_order pick (CDate a y) (CDate a x) = Some (pick (x ?= y)%Z).
Proof. unfold test_order, py_cmp; simpl. rewrite eqb_reflx. reflexivity. Qed.
Lemma order_date_mixed pick a x y : test_order pick (CDate a y) (CDate (negb a) x) = None.
Proof. unfold test_order, py_cmp; simpl. destruct a; reflexivity. Qed.

Lemma is_lt_iff x y : is_lt (x ?= y)%Z = true <-> (x < y)%Z.
Proof. destruct (Z.compare_spec x y); simpl; split; intros; try lia; try discriminate. Qed.
Lemma is_le_iff x y : is_le (x ?= y)%Z = true <-> (x <= y)%Z.
Proof. destruct (Z.compare_spec x y); simpl; split; intros; try lia; try discriminate; reflexivity. Qed.
Lemma is_gt_iff x y : is_gt (x ?= y)%Z = true <-> (x > y)%Z.
Proof. destruct (Z.compare_spec x y); simpl; split; intros; try lia; try discriminate. Qed.
Lemma is_ge_iff x y : is_ge (x ?= y)%Z = true <-> (x >= y)%Z.
Proof. destruct (Z.compare_spec x y); simpl; split; intros; try lia; try discriminate; reflexivity. Qed.

Lemma some_true_iff (b : bool) : Some b = Some true <-> b = true.
Proof. split; congruence. Qed.

Theorem order_numeric (x y : Z) :
  (op_test ONumericLessThan (CInt y) (CInt x) = Some true <-> (x < y)%Z) /\
  (op_test ONumericLessThanEquals (CInt y) (CInt x) = Some true <-> (x <= y)%Z) /\
  (op_test ONumericGreaterThan (CInt y) (CInt x) = Some true <-> (x > y)%Z) /\
  (op_test ONumericGreaterThanEquals (CInt y) (CInt x) = Some true <-> (x >= y)%Z) /\
  (forall o, family o = FInt -> op_test o (CInt y) (CInt x) <> None).
Proof.
  cbn [Ops.op_test]. rewrite !order_int, !some_true_iff.
  repeat split; try apply is_lt_iff; try apply is_le_iff; try apply is_gt_iff; try apply is_ge_iff.
  - intros o Ho. destruct o; try discriminate; cbn [Ops.op_test]; rewrite ?order_int; discriminate.
Qed.

Theorem order_date_same (a : bool) (x y : Z) :
  (op_test ODateLessThan (CDate a y) (CDate a x) = Some true <-> (x < y)%Z) /\
  (op_test ODateLessThanEquals (CDate a y) (CDate a x) = Some true <-> (x <= y)%Z) /\
  (op_test ODateGreaterThan (CDate a y) (CDate a x) = Some true <-> (x > y)%Z) /\
  (op_test ODateGreaterThanEquals (CDate a y) (CDate a x) = Some true <-> (x >= y)%Z).
Proof.
  cbn [Ops.op_test]. rewrite !order_date, !some_true_iff.
  repeat split; try apply is_lt_iff; try apply is_le_iff; try apply is_gt_iff; try apply is_ge_iff.
Qed.

(* a naive datetime against an aware one: Python raises TypeError for <, <=, >, >= ; == is False, != is True *)
Theorem order_date_naive_vs_aware (a : bool) (x y : Z) :
  op_test ODateLessThan (CDate a y) (CDate (negb a) x) = None /\
  op_test ODateLessThanEquals (CDate a y) (CDate (negb a) x) = None /\
  op_test ODateGreaterThan (CDate a y) (CDate (negb a) x) = None /\
  op_test ODateGreaterThanEquals (CDate a y) (CDate (negb a) x) = None /\
  op_test ODateEquals (CDate a y) (CDate (negb a) x) = Some false /\
  op_test ODateNotEquals (CDate a y) (CDate (negb a) x) = Some true.
Proof.
  cbn [Ops.op_test]. rewrite !order_date_mixed. repeat split; unfold py_eq; simpl; destruct a; reflexivity.
Qed.

Theorem ignorecase_correct (p c : str) :
  op_test OStringEqualsIgnoreCase (CStr p) (CStr c) = Some (str_eqb (fold c) (fold p)) /\
  (op_test OStringEqualsIgnoreCase (CStr p) (CStr c) = Some true <-> fold c = fold p).
Proof. split; [reflexivity|]. cbn. rewrite some_true_iff. apply str_eqb_spec. Qed.

Theorem like_correct (p c : str) :
  (op_test OStringLike (CStr p) (CStr c) = Some true <-> glob_spec N (tokens N N.eqb STAR QM p) c) /\
  (op_test OArnLike (CStr p) (CStr c) = Some true <-> glob_spec N (tokens N N.eqb STAR QM p) c).
Proof.
  cbn. rewrite some_true_iff. unfold glob_cs. split; apply (glob_correct N N.eqb N.eqb_eq STAR QM).
Qed.

Theorem ip_correct (a b : net) : wf_net a -> wf_net b ->
  (op_test OIpAddress (CNet b) (CNet a) = Some true <-> same_ver a b /\ forall x, in_net x a -> in_net x b).
Proof.
  intros Ha Hb. rewrite <- (subnet_of_iff a b Ha Hb). cbn [Ops.op_test test_ip].
  destruct (ipver_eqb (n_ver a) (n_ver b)) eqn:E.
  - rewrite xorb_false_l. apply some_true_iff.
  - split; [discriminate|]. unfold subnet_of. rewrite E. simpl. discriminate.
Qed.
(* a network of the other IP version lies in no network of this one: IpAddress False, NotIpAddress True (fix F30; before it the
   pair was incomparable -- None for both -- which made the answer for a list mixing the versions depend on the order) *)
Theorem ip_other_version (a b : net) : n_ver a <> n_ver b ->
  op_test OIpAddress (CNet b) (CNet a) = Some false /\ op_test ONotIpAddress (CNet b) (CNet a) = Some true.
Proof.
  intros H. cbn. destruct (ipver_eqb (n_ver a) (n_ver b)) eqn:E; [apply ipver_eqb_eq in E; contradiction|]. auto.
Qed.
(* a policy value that is not a network (a string pydantic could not read as one): BOTH operators are constantly False *)
Theorem ip_policy_not_a_network (s : str) (c : cval) :
  op_test OIpAddress (CStr s) c = Some false /\ op_test ONotIpAddress (CStr s) c = Some false.
Proof. split; reflexivity. Qed.

Theorem bool_identity (b : bool) (c : cval) :
  (c = CAbsent -> op_test OBool (CBool b) c = None) /\
  (c <> CAbsent -> exists r, op_test OBool (CBool b) c = Some r /\ (r = true <-> c = CBool b)).
Proof.
  split; [intros ->; reflexivity|]. intros Hc.
  destruct c; try congruence; cbn; eexists; (split; [reflexivity|]); try (split; [discriminate|congruence]).
  rewrite eqb_true_iff. split; congruence.
Qed.

Theorem null_presence (b : bool) (c : cval) :
  op_test ONull (CBool b) c = Some (Bool.eqb (is_present c) b) /\
  (is_present c = true <-> c <> CAbsent /\ c <> CNone).
Proof.
  split; [reflexivity|]. destruct c; simpl; split; try tauto; try discriminate; intros; repeat split; discriminate.
Qed.

(* every negated operator is the negation of its positive counterpart -- for ALL context values (absent and ill-typed
   ones included: both raise together), whenever the policy value has the operator's type *)
Theorem negation_dual o o' p c :
  neg_of o = Some o' -> has_fam (family o) p = true ->
  op_test o' p c = option_map negb (op_test o p c).
Proof.
  intros Hn Hp. destruct (typed_not_special _ _ Hp) as (_ & Hfn & _).
  destruct o; inversion Hn; subst o'; destruct p; try discriminate; clear Hn Hfn Hp; cbn [Ops.op_test].
  all: try (destruct c; reflexivity).
  - (* IpAddress *) unfold test_ip. destruct c; try reflexivity.
    destruct (ipver_eqb (n_ver n0) (n_ver n)); [|reflexivity]. simpl. destruct (subnet_of n0 n); reflexivity.
Qed.

(* on two operands of the operator's type the test is defined, except across datetime awareness / IP versions *)
Theorem typed_defined o p c :
  has_fam (family o) p = true -> has_fam (family o) c = true ->
  op_test o p c = None ->
  (exists a x y, p = CDate a y /\ c = CDate (negb a) x) \/ (exists a b, p = CNet b /\ c = CNet a /\ n_ver a <> n_ver b).
Proof.
  intros Hp Hc. destruct o; simpl in Hp, Hc; destruct p; try discriminate; destruct c; try discriminate;
    cbn; try discriminate.
  1-4: unfold test_order, py_cmp; simpl; destruct (Bool.eqb aware0 aware) eqn:E; try discriminate; intros _; left;
       exists aware, us0, us; split; [reflexivity|]; f_equal; destruct aware, aware0; simpl in *; congruence.
  1-2: destruct (ipver_eqb (n_ver n0) (n_ver n)) eqn:E; try discriminate; intros _; right; exists n0, n;
       repeat split; intros H; apply ipver_eqb_eq in H; congruence.
Qed.
End Facts.
