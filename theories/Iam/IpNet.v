(* IP networks as (version, network address, prefix length), modelled ARITHMETICALLY: a /l network of a
   W-bit address space is the interval [a, a + 2^(W-l)).  Port of notes/probes/NetProbe.v with the
   version (W = 32 | 128) made explicit.  That Python's ipaddress computes the same interval with
   int(addr) & int(netmask) is ipaddress' business (leaf), tied by the correspondence. *)
From Coq Require Import NArith ZArith Lia Bool.
Local Open Scope Z_scope.

Inductive ipver := V4 | V6.
Definition ipver_eqb (a b : ipver) : bool :=
  match a, b with V4, V4 | V6, V6 => true | _, _ => false end.
Lemma ipver_eqb_eq a b : ipver_eqb a b = true <-> a = b.
Proof. destruct a, b; simpl; split; congruence. Qed.

Definition width (v : ipver) : Z := match v with V4 => 32 | V6 => 128 end.
Lemma width_pos v : 0 < width v. Proof. destruct v; simpl; lia. Qed.

Record net := Net { n_ver : ipver; n_addr : N; n_plen : N }.

(* number of addresses of a /l network *)
Definition blk (v : ipver) (l : N) : Z := 2 ^ (width v - Z.of_N l).
Definition lo (n : net) : Z := Z.of_N (n_addr n).
Definition hi (n : net) : Z := lo n + blk (n_ver n) (n_plen n).       (* exclusive upper end *)

(* well-formed: prefix within the width, address within the space, host bits zero *)
Definition wf_net (n : net) : Prop :=
  Z.of_N (n_plen n) <= width (n_ver n) /\ lo n < 2 ^ width (n_ver n) /\ lo n mod blk (n_ver n) (n_plen n) = 0.

Definition same_ver (a b : net) : Prop := n_ver a = n_ver b.
(* x is an address of network n *)
Definition in_net (x : Z) (n : net) : Prop := lo n <= x < hi n.

(* Python: a.subnet_of(b) for two networks of the SAME version
   (b.network_address <= a.network_address and b.broadcast_address >= a.broadcast_address);
   for different versions Python raises TypeError -- that is decided by the caller (Ops.op_test). *)
Definition subnet_of (a b : net) : bool :=
  ipver_eqb (n_ver a) (n_ver b) && (lo b <=? lo a) && (hi a <=? hi b).

Definition net_eqb (a b : net) : bool :=
  ipver_eqb (n_ver a) (n_ver b) && N.eqb (n_addr a) (n_addr b) && N.eqb (n_plen a) (n_plen b).
Lemma net_eqb_eq a b : net_eqb a b = true <-> a = b.
Proof.
  destruct a as [v x l], b as [v' x' l']; unfold net_eqb; simpl.
  rewrite !andb_true_iff, ipver_eqb_eq, !N.eqb_eq. split.
  - intros [[-> ->] ->]. reflexivity.
  - intros H. inversion H. auto.
Qed.

Lemma blk_pos v l : Z.of_N l <= width v -> 0 < blk v l.
Proof. intros. unfold blk. apply Z.pow_pos_nonneg; lia. Qed.

Lemma lo_nonneg n : 0 <= lo n. Proof. unfold lo. lia. Qed.

(* containment as SETS OF ADDRESSES *)
Theorem subnet_of_iff a b : wf_net a -> wf_net b ->
  (subnet_of a b = true <-> same_ver a b /\ forall x, in_net x a -> in_net x b).
Proof.
  unfold wf_net, subnet_of, same_ver, in_net, hi.
  intros (Hl & Ha & _) (Hk & Hb & _).
  pose proof (blk_pos _ _ Hl) as Pa. pose proof (blk_pos _ _ Hk) as Pb.
  rewrite !andb_true_iff, ipver_eqb_eq, !Z.leb_le. split.
  - intros [[Hv H1] H2]. split; [exact Hv|]. intros x Hx. lia.
  - intros [Hv Hx]. pose proof (Hx (lo a)) as X1. pose proof (Hx (lo a + blk (n_ver a) (n_plen a) - 1)) as X2.
    split; [split; [exact Hv|]|]; lia.
Qed.

(* a network is a subnet of itself; the relation is transitive (an order on well-formed networks) *)
Lemma subnet_of_refl a : subnet_of a a = true.
Proof.
  unfold subnet_of. rewrite !andb_true_iff, !Z.leb_le. repeat split; try lia.
  apply ipver_eqb_eq; reflexivity.
Qed.
Lemma subnet_of_trans a b c : subnet_of a b = true -> subnet_of b c = true -> subnet_of a c = true.
Proof.
  unfold subnet_of. rewrite !andb_true_iff, !ipver_eqb_eq, !Z.leb_le.
  intros [[-> ?] ?] [[-> ?] ?]. repeat split; lia.
Qed.

(* the whole address space: /0 at address 0 contains every address of its version *)
Lemma slash_zero_all v x : 0 <= x < 2 ^ width v -> in_net x (Net v 0 0).
Proof. unfold in_net, hi, lo, blk; simpl. rewrite Z.sub_0_r. lia. Qed.
