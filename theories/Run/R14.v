(* Runner operations for C14 (ops 1400-1499).  The verdicts "the dedicated class accepts this definition in isolation" and
   "GenericResource accepts it, strictness aside" are supplied per request by the harness (TypeAdapter(C).validate_python,
   never CFModel / parse): they instantiate the Section variables of Typed/Dispatch.v. *)
From Coq Require Import List Bool NArith ZArith.
From PV Require Import Base.Str Base.Value Base.Wire Run.RState Resolver.Resolve Typed.Schema Typed.Dispatch Typed.SchemaTable.
From PVGen Require Schema.
Import ListNotations.
Local Open Scope N_scope.

Definition enc_outcome (r : res outcome) : value :=
  enc_res (match r with
           | Ok o => Ok (VList [VStr (o_class o); VList (map VStr (o_kept o))])
           | Err e => Err e
           end).

Definition wanted_of (v : value) : option wanted :=
  match v with
  | VList [VInt 0%Z; VStr c] => Some (WClass c)
  | VList [VInt 1%Z; VStr s] => Some (WType s)
  | _ => None
  end.
Definition parsed_of (v : value) : option (str * parsed) :=
  match v with
  | VList [VStr id; VStr c; VStr t] => Some (id, {| p_class := c; p_type := Some t |})
  | VList [VStr id; VStr c; VNull] => Some (id, {| p_class := c; p_type := None |})
  | _ => None
  end.
Fixpoint all_some {A B} (f : A -> option B) (l : list A) : option (list B) :=
  match l with
  | [] => Some []
  | x :: r => match f x, all_some f r with Some y, Some ys => Some (y :: ys) | _, _ => None end
  end.

(* the class the dispatch gives a resource whose dedicated class (if any) accepts it, from its Type string alone *)
Definition class_for_type (t : value) : str :=
  match t with
  | VStr s => match class_of Schema.RESOURCE_MODELS s with Some c => c | None => GENERIC end
  | _ => GENERIC
  end.

Definition run14 (st : rstate) (op : N) (arg : value) : option (rstate * value) :=
  match op, arg with
  (* parse: class of Resources[id] or ValidationError.  [strict; definition; class verdict; generic verdict] *)
  | 1401, VList [VBool strict; r; VBool vc; VBool vg] =>
      Some (st, enc_outcome (dispatch_resource Schema.RESOURCE_MODELS (fun _ _ => vc) (fun _ => vg) strict r))
  (* resources_filtered_by_type: [allowed; resources] -> ids kept, in order *)
  | 1402, VList [VList allowed; VList rs] =>
      match all_some wanted_of allowed, all_some parsed_of rs with
      | Some a, Some p => Some (st, VList (map (fun ir => VStr (fst ir)) (filter_by_type bases_of a p)))
      | _, _ => None
      end
  (* class after resolve(): the Type string after leaf normalisation with these parameters, then the table *)
  | 1403, VList [VStr t; VDict ps] =>
      let t' := render_str ps t in Some (st, VList [VStr t'; VStr (class_for_type (VStr t')); VBool (type_fixed t)])
  (* class after expand_actions(): the Type value is not under Action / NotAction, so it is the same value *)
  | 1404, VList [t] => Some (st, VStr (class_for_type t))
  (* the table itself, for the harness to compare with the live classes *)
  | 1405, VNull => Some (st, VList (map (fun tc => VList [VStr (fst tc); VStr (snd tc)]) Schema.RESOURCE_MODELS))
  | _, _ => None
  end.
