(* Runner operations for C05 (ops 500-599): the well-formedness predicate the theorems are stated under,
   the action-expansion walk and its step counter. *)
From Coq Require Import List Bool NArith ZArith.
From PV Require Import Base.Str Base.Value Base.Wire Run.RState Run.R01 Resolver.Resolve Resolver.Template
  Robust.Validators Robust.ValidatorsFacts Robust.WellFormed Robust.Cost.
Import ListNotations.
Local Open Scope N_scope.

Definition ty_code (o : option ty) : Z :=
  match o with
  | None => 0 | Some TStr => 1 | Some TStrs => 2 | Some TPlain => 3 | Some TBool => 4 | Some TAny => 5
  end.
Definition nat_of_value (v : value) : nat := match v with VInt z => Z.to_nat z | _ => O end.

Definition run05 (st : rstate) (op : N) (arg : value) : option (rstate * value) :=
  match op, arg with
  | 501, VList [pseudo; decls; extra; maps; cdecl; rs] =>
      Some (st, VBool (valid_template (dict_of pseudo) (dict_of decls) (dict_of extra) (dict_of maps) (dict_of cdecl) (dict_of rs)))
  | 502, VList [ps; maps; v] => Some (st, VInt (ty_code (ty_of (dict_of ps) (dict_of maps) v)))
  (* diagnosis of a template outside the domain: which part is ill-formed *)
  | 503, VList [pseudo; decls; extra; maps; cdecl; rs] =>
      Some (st, match bind_params (dict_of pseudo) (dict_of decls) (dict_of extra) with
                | Ok ps =>
                    VList [VBool (wf_decls (dict_of decls) (dict_of extra)); VBool (wf_maps (dict_of maps));
                           VDict (map (fun kb => (fst kb, VBool (wf_cond ps (dict_of maps) (snd kb)))) (dict_of cdecl));
                           VDict (map (fun ir => (fst ir, VBool (wf_resource ps (dict_of maps) (snd ir)))) (dict_of rs))]
                | Err _ => VList [VBool (wf_decls (dict_of decls) (dict_of extra))]
                end)
  | 504, VList [v] => Some (st, VBool (actions_textual v))
  | 505, VList [VBool guard; v] =>
      Some (st, enc_res (match expand_tree guard (fun _ l => l) v with Ok _ => Ok VNull | Err e => Err e end))
  | 506, VList [VBool guard; k; v] =>
      let rc := expand_tree_c guard (fun _ l => l) (nat_of_value k) v in
      Some (st, VList [VBool (is_ok (fst rc)); VInt (Z.of_nat (snd rc)); VInt (Z.of_nat (vsize v))])
  | _, _ => None
  end.
