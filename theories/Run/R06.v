(* Runner operations for C06 (ops 600-699): run the heap model of Purity/Api.v on an encoded history.

   argument  VList [objects; calls]
     objects : VList of VList [VInt id; VDict members]; a member {"$ref": id'} is a reference cell, anything else a value cell.
               ids 1, 2, 3 are PSEUDO_PARAMETERS, CLOUDFORMATION_ACTIONS, GenericResource._strict.
     calls   : VList of VList [VInt kind; a; b]
               1 parse(a)  2 a.resolve(b | null)  3 a.expand_actions()  4 query number a on b  5 a(b) (condition a, context b)
               6 resolver.resolve(expr a, params b);   an object is named by VInt id or VList [VInt k] = the model returned by call k
   result    VList [per-call records; ids (existing at the start) whose object differs at the end]
     record  : VNull for a call the harness marks as not modelled, else VList [ids existing before the call whose object differs after it; VBool result is a new object (or no object);
                      VInt index of the first call of the history with an equal result; VBool the _eval cache changed;
                      VBool some object reachable from the returned model existed before the call]
   601 repaired code   602 extra_params not copied (F04)   603 Fn::Sub replacements aliased (F01)
   604 Fn::FindInMap leaf not copied   605 all three
   611..615 : the same, and the (symbolic) result values as a third component *)
From Coq Require Import List Bool NArith ZArith.
From PV Require Import Base.Str Base.Value Purity.Heap Purity.Api Purity.Sym Run.RState.
Import ListNotations.
Local Open Scope N_scope.

Definition T_REF : str := [36;114;101;102].    (* "$ref" *)

Definition dec_cell (v : value) : cell :=
  match v with
  | VDict [(k, VInt z)] => if str_eqb k T_REF then CRef (Z.to_N z) else CVal v
  | _ => CVal v
  end.
Definition dec_obj (v : value) : option (oid * obj) :=
  match v with
  | VList [VInt z; VDict d] => Some (Z.to_N z, map (fun kv => (fst kv, dec_cell (snd kv))) d)
  | _ => None
  end.
Definition dec_heap (v : value) : heap :=
  match v with VList l => flat_map (fun x => match dec_obj x with Some o => [o] | None => [] end) l | _ => [] end.

Definition handle (rids : list (option oid)) (v : value) : oid :=
  match v with
  | VInt z => Z.to_N z
  | VList [VInt k] => match nth_error rids (Z.to_nat k) with Some (Some r) => r | _ => 0 end
  | _ => 0
  end.
Definition dec_call (rids : list (option oid)) (v : value) : option call :=
  match v with
  | VList [VInt 1%Z; a; _] => Some (CParse (handle rids a))
  | VList [VInt 2%Z; a; VNull] => Some (CResolve (handle rids a) None)
  | VList [VInt 2%Z; a; b] => Some (CResolve (handle rids a) (Some (handle rids b)))
  | VList [VInt 3%Z; a; _] => Some (CExpand (handle rids a))
  | VList [VInt 4%Z; VInt q; b] => Some (CQuery (Z.to_N q) (handle rids b))
  | VList [VInt 5%Z; a; b] => Some (CEval (handle rids a) (handle rids b))
  | VList [VInt 6%Z; e; b] => Some (CExpr e (handle rids b))
  | _ => None
  end.

Definition cell_eqb (a b : cell) : bool :=
  match a, b with
  | CVal x, CVal y => vstrict_eqb x y
  | CRef x, CRef y => N.eqb x y
  | _, _ => false
  end.
Fixpoint obj_eqb (a b : obj) : bool :=
  match a, b with
  | [], [] => true
  | (k, x) :: r, (k', y) :: r' => str_eqb k k' && cell_eqb x y && obj_eqb r r'
  | _, _ => false
  end.
Definition oobj_eqb (a b : option obj) : bool :=
  match a, b with Some x, Some y => obj_eqb x y | None, None => true | _, _ => false end.
Definition ids_upto (n : N) : list N := map N.of_nat (seq 1 (N.to_nat n)).
Definition changed (h h' : heap) : list N :=
  filter (fun o => negb (oobj_eqb (h_get h o) (h_get h' o))) (ids_upto (hi h)).

Fixpoint first_equal (i : nat) (vs : list value) (v : value) : nat :=
  match vs with
  | [] => i
  | x :: r => if vstrict_eqb x v then i else first_equal (S i) r v
  end.
Definition ev_eqb (a b : list (oid * value)) : bool := Nat.eqb (length a) (length b).

Fixpoint reach_list (n : nat) (h : heap) (o : oid) : list oid :=
  match n with
  | O => [o]
  | S n' => o :: flat_map (fun kc => match snd kc with CRef t => reach_list n' h t | CVal _ => [] end) (h_obj h o)
  end.

Definition vnat (n : nat) : value := VInt (Z.of_nat n).
Definition vids (l : list N) : value := VList (map (fun o => VInt (Z.of_N o)) l).

(* acc: state, rids (in call order), result values (in call order), records (in call order) *)
Fixpoint hist (fl : flags) (s : state) (rids : list (option oid)) (vs : list value) (recs : list value)
         (cs : list value) : state * list value * list value :=
  match cs with
  | [] => (s, vs, recs)
  | cv :: r =>
      match dec_call rids cv with
      | None => hist fl s (rids ++ [None]) (vs ++ [VList [VStr T_REF; vnat (length vs)]]) (recs ++ [VNull]) r   (* not modelled: skipped *)
      | Some c =>
          let '(s', x) := api_step fl SYM s c in
          let is_new := match rid x with Some o => N.ltb (hi (hp s)) o | None => true end in
          let shares := match rid x with
                        | Some o => existsb (fun o' => N.leb o' (hi (hp s))) (reach_list DEPTH (hp s') o)
                        | None => false
                        end in
          let rec := VList [vids (changed (hp s) (hp s')); VBool is_new;
                            vnat (first_equal 0 vs (rval x)); VBool (negb (ev_eqb (ev s) (ev s'))); VBool shares] in
          hist fl s' (rids ++ [rid x]) (vs ++ [rval x]) (recs ++ [rec]) r
      end
  end.

Definition run_hist (fl : flags) (full : bool) (arg : value) : option value :=
  match arg with
  | VList [objs; VList calls] =>
      let h0 := dec_heap objs in
      let '(s, vs, recs) := hist fl {| hp := h0; ev := [] |} [] [] [] calls in
      Some (VList ([VList recs; vids (changed h0 (hp s))] ++ (if full then [VList vs] else [])))
  | _ => None
  end.

Definition fl_of (n : N) : flags :=
  match n with
  | 1 => REPAIRED
  | 2 => {| flag_copy_extra := false; flag_copy_sub := true; flag_copy_leaf := true |}
  | 3 => {| flag_copy_extra := true; flag_copy_sub := false; flag_copy_leaf := true |}
  | 4 => {| flag_copy_extra := true; flag_copy_sub := true; flag_copy_leaf := false |}
  | _ => {| flag_copy_extra := false; flag_copy_sub := false; flag_copy_leaf := false |}
  end.

Definition run06 (st : rstate) (op : N) (arg : value) : option (rstate * value) :=
  if (601 <=? op) && (op <=? 605) then
    match run_hist (fl_of (op - 600)) false arg with Some v => Some (st, v) | None => None end
  else if (611 <=? op) && (op <=? 615) then
    match run_hist (fl_of (op - 610)) true arg with Some v => Some (st, v) | None => None end
  else None.
