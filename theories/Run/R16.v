(* Runner operations for C16 (ops 1600-1699).
   Arguments are raw JSON statements / documents; outside the boolean domain of the property
   (Policy.wf_stmt_raw / wf_doc_raw) the answer is Err EUndefined: counted, never compared. *)
From Coq Require Import List Bool NArith ZArith.
From PV Require Import Base.Str Base.Value Base.Wire Glob.Glob Run.RState Policy.StrSet Policy.Policy.
Import ListNotations.
Local Open Scope N_scope.

(* The `Pattern` arguments the harness builds, and what each compiled regex accepts with `.match`:
   0 = regex_from_cf_string(p)                       IAM glob, whole string, ASCII case-insensitive
   1 = regex_from_cf_string(p, case_sensitive=True)  IAM glob, whole string, case-sensitive
   2 = re.compile(re.escape(p))                      literal prefix *)
Definition pat_match (kind : Z) (p : str) (s : str) : bool :=
  match kind with
  | 0%Z => glob_ci p s
  | 1%Z => glob_cs p s
  | _ => starts_with p s
  end.
Definition pat_ok (kind : Z) : bool := (Z.eqb kind 0 || Z.eqb kind 1 || Z.eqb kind 2)%bool.

(* expansion of one statement over the catalogue (Action patterns only; NotAction is C09's subject) *)
Definition expanded_cat (cat : list str) (st : stmt) : list str :=
  let pats := strings (field_items (action st)) in
  filter (fun a => existsb (fun p => glob_ci p a) pats) cat.

(* get_allowed_actions is compared only for statements whose Action is a string / list of strings and
   that have no NotAction *)
Definition actions_plain (st : stmt) : bool :=
  match not_action st with VNull => true | _ => false end &&
  match action st with
  | VNull => true
  | VStr _ => true
  | VList l => forallb is_str l
  | _ => false
  end.

Definition with_stmt (raw : value) (k : stmt -> res value) : value :=
  enc_res (if wf_stmt_raw raw then st <- parse_stmt raw ;; k st else Err EUndefined).
Definition with_doc (raw : value) (k : list stmt -> res value) : value :=
  enc_res (if wf_doc_raw raw then l <- parse_doc raw ;; k l else Err EUndefined).
Definition vstrs (l : list str) : value := VList (map VStr l).

Definition run16 (st : rstate) (op : N) (arg : value) : option (rstate * value) :=
  match op, arg with
  (* Statement.Effect validator on a literal *)
  | 1601, VList [VStr s] => Some (st, enc_res (t <- effect_store s ;; Ok (VStr t)))
  (* Statement.model_validate(raw).Effect *)
  | 1602, VList [raw] => Some (st, with_stmt raw (fun s => Ok (VStr (name (effect_of s)))))
  (* Statement.get_principal_list() *)
  | 1603, VList [raw] => Some (st, with_stmt raw (fun s => Ok (VList (principals s))))
  (* Statement.non_whitelisted_principals(wl) *)
  | 1604, VList [raw; wl] => Some (st, with_stmt raw (fun s => Ok (vstrs (non_whitelisted (strs_of wl) s))))
  (* Statement.principals_with(pattern) *)
  | 1605, VList [raw; VInt k; VStr p] =>
      if pat_ok k then Some (st, with_stmt raw (fun s => Ok (vstrs (principals_with (pat_match k p) s)))) else None
  (* Statement.get_resource_list() *)
  | 1606, VList [raw] => Some (st, with_stmt raw (fun s => Ok (VList (resource_list s))))
  (* Statement.resources_with(pattern) *)
  | 1607, VList [raw; VInt k; VStr p] =>
      if pat_ok k then Some (st, with_stmt raw (fun s => Ok (vstrs (resources_with (pat_match k p) s)))) else None
  (* Statement.get_action_list(include_action, include_not_action) *)
  | 1608, VList [raw; VBool ia; VBool ina] => Some (st, with_stmt raw (fun s => Ok (VList (action_list_of ia ina s))))
  (* [s.Effect for s in PolicyDocument.statement_as_list()] *)
  | 1610, VList [doc] => Some (st, with_doc doc (fun l => Ok (vstrs (map (fun s => name (effect_of s)) l))))
  (* PolicyDocument.allowed_principals_with(pattern), as sorted(set(..)) *)
  | 1611, VList [doc; VInt k; VStr p] =>
      if pat_ok k then Some (st, with_doc doc (fun l => Ok (vstrs (allowed_principals_with (pat_match k p) l)))) else None
  (* PolicyDocument.non_whitelisted_allowed_principals(wl), as sorted(set(..)) *)
  | 1612, VList [doc; wl] =>
      Some (st, with_doc doc (fun l => Ok (vstrs (non_whitelisted_allowed_principals (strs_of wl) l))))
  (* [s.Sid for s in PolicyDocument.allowed_actions_with(pattern)] *)
  | 1613, VList [doc; VInt k; VStr p] =>
      if pat_ok k then Some (st, with_doc doc (fun l => Ok (VList (map sid (allowed_actions_with (pat_match k p) l))))) else None
  (* PolicyDocument.get_allowed_actions() (compared as a set) *)
  | 1614, VList [doc] =>
      Some (st, with_doc doc (fun l =>
        if forallb actions_plain l then Ok (vstrs (allowed_actions (expanded_cat (catalogue st)) l))
        else Err EUndefined))
  (* PolicyDocument.statements_with(pattern): [[s.Sid for s in result], [position in the document of each s]] *)
  | 1615, VList [doc; VInt k; VStr p] =>
      if pat_ok k then Some (st, with_doc doc (fun l =>
        Ok (VList [VList (map sid (statements_with (pat_match k p) l));
                   VList (map (fun i => VInt (Z.of_nat i)) (statements_with_positions (pat_match k p) l))])))
      else None
  (* PolicyDocument.get_iam_actions(difference) (sorted, duplicate-free) *)
  | 1616, VList [doc; VBool diff] =>
      Some (st, with_doc doc (fun l =>
        if forallb actions_plain l then
          Ok (vstrs (if diff then iam_actions_difference (expanded_cat (catalogue st)) (catalogue st) l
                     else iam_actions (expanded_cat (catalogue st)) l))
        else Err EUndefined))
  | _, _ => None
  end.
