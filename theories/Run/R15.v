(* Runner operations for C15 (ops 1500-1599): pycfmodel's own leaf validators (Typed/Leaves.v) one by one, and the schema
   interpreter (Typed/Roundtrip.v) run over the generated class table on DUMPED data, where the oracle leaves of pydantic-core
   are instantiated by what they do on already-typed values (anything else: the model declines, EUndefined). *)
From Coq Require Import List Bool NArith ZArith.
From PV Require Import Base.Str Base.Value Base.Wire Run.RState Resolver.Consts Resolver.Text.
From PV Require Import Typed.Schema Typed.Dispatch Typed.Leaves Typed.Roundtrip Typed.RoundtripRun.
From PVGen Require Schema.
Import ListNotations.
Local Open Scope N_scope.

Definition opt_bytes (o : option (list N)) : res value := match o with Some b => Ok (VBytes b) | None => Err EValue end.

Definition run15 (st : rstate) (op : N) (arg : value) : option (rstate * value) :=
  match op, arg with
  | 1501, VList [v] => Some (st, enc_res (semi_strict_bool v))
  | 1502, VList [v] => Some (st, enc_res (loose_net4 v))
  | 1503, VList [v] => Some (st, enc_res (loose_net6 v))
  | 1504, VList [v] => Some (st, enc_res (validate_binary v))
  | 1505, VList [v] => Some (st, enc_res (validate_binary_old v))
  | 1506, VList [v] => Some (st, enc_res (str_num (tag_value_hook v)))
  | 1507, VList [v] => Some (st, enc_res (effect_hook v))
  | 1508, VList [VDict d] => Some (st, VList (map (fun kv => VStr (fst kv)) (remove_colon d)))
  | 1509, VList [v] => Some (st, enc_res (function_dict v))
  | 1510, VList [VStr s] => Some (st, enc_res (opt_bytes (b64decode s)))
  | 1510, VList [VBytes s] => Some (st, enc_res (opt_bytes (b64decode s)))
  (* re-validation of dumped data against a class of the table: the erased result, and its dump *)
  | 1520, VList [VBool strict; VStr cls; v] =>
      Some (st, enc_res (match val_dumped strict (TModel cls) v with
                         | Ok x => Ok (VList [erase x; dump x])
                         | Err e => Err e
                         end))
  (* the round trip inside the model: validate, dump, validate again: are the two results the same? *)
  | 1521, VList [VBool strict; VStr cls; v] =>
      Some (st, enc_res (match val_dumped strict (TModel cls) v with
                         | Ok x => match val_dumped strict (TModel cls) (dump x) with
                                   | Ok x' => Ok (VBool (vstrict_eqb (erase x) (erase x')))
                                   | Err e => Err e
                                   end
                         | Err e => Err e
                         end))
  (* the same, compared inside the runner with the picture the harness took of pydantic's re-validated object graph:
     [graph equal; dump equal to the input; model-level round trip equal] *)
  | 1522, VList [VBool strict; VStr cls; v; g] =>
      Some (st, enc_res (match val_dumped strict (TModel cls) v with
                         | Ok x => match val_dumped strict (TModel cls) (dump x) with
                                   | Ok x' => Ok (VList [VBool (veqb (erase x) g); VBool (veqb (dump x) v); VBool (vstrict_eqb (erase x) (erase x'))])
                                   | Err e => Err e
                                   end
                         | Err e => Err e
                         end))
  | _, _ => None
  end.
