(* Runner operations for C08 (ops 800-899). *)
From Coq Require Import List Bool NArith ZArith.
From PV Require Import Base.Str Base.Value Glob.Glob Run.RState.
Import ListNotations.
Local Open Scope N_scope.

Definition run08 (st : rstate) (op : N) (arg : value) : option (rstate * value) :=
  match op, arg with
  | 801, VList [VStr p; VStr s] => Some (st, VBool (glob_cs p s))
  | 802, VList [VStr p; VStr s] => Some (st, VBool (glob_ci p s))
  | 803, VList [VStr p] => Some (st, VList (map VStr (filter (glob_ci p) (catalogue st))))
  | _, _ => None
  end.
