(* Runner operations for C13 (ops 1300-1399).
   Arguments: cfgflag = VInt 0 (specified algorithm) | VInt 1 (code as found); funcs = VList of VStr (live
   IMPLEMENTED_FUNCTIONS); props = VDict name -> annotated value (encoding of Typed/GValue.gdec). *)
From Coq Require Import List Bool NArith ZArith.
From PV Require Import Base.Str Base.Value Typed.GValue Typed.Cast Typed.Collect Typed.PdSpec Typed.PdFull Typed.TypedDocs Run.RState.
Import ListNotations.
Local Open Scope N_scope.

Definition cfg_of (flag : Z) (funcs : value) : cfg :=
  if Z.eqb flag 0 then spec_cfg (strs_of funcs) else orig_cfg (strs_of funcs).

Fixpoint dec_props (d : list (str * value)) : option (list (str * gvalue)) :=
  match d with
  | [] => Some []
  | (k, x) :: r => match gdec x, dec_props r with Some x', Some r' => Some ((k, x') :: r') | _, _ => None end
  end.

Definition enc_docs (ds : list pdoc) : value :=
  VList (map (fun nd => VList [match fst nd with Some n => VStr n | None => VNull end; snd nd]) ds).

(* the name annotation of every recognised wrapper agrees with the text under PolicyName *)
Fixpoint names_confirmed (g : gvalue) : bool :=
  match g with
  | GStr _ (Some j) _ => names_confirmed j
  | GList l => forallb names_confirmed l
  | GDict d r =>
      match r with Some r' => name_confirmed d r' | None => true end &&
      forallb (fun kv => names_confirmed (snd kv)) d
  | _ => true
  end.

Definition run13 (st : rstate) (op : N) (arg : value) : option (rstate * value) :=
  match arg with
  | VList [VInt flag; funcs; VDict d] =>
      match dec_props d with
      | None => None
      | Some props =>
          let c := cfg_of flag funcs in
          match op with
          | 1301 => Some (st, enc_docs (resource_docs c props))               (* collect (cast ...)): the code's algorithm *)
          | 1302 => Some (st, enc_docs (resource_embedded true c props))      (* the property: every position *)
          | 1303 => Some (st, enc_docs (resource_embedded false c props))     (* positions the code looks at *)
          | 1304 => Some (st, VList (resource_conditions c props))
          | 1305 => Some (st, VList [VBool (forallb (fun kv => hidden_free c (snd kv)) props);
                                      VBool (forallb (fun kv => names_confirmed (snd kv)) props)])
          | 1308 => Some (st, VList (conditions_of (resource_embedded true c props)))
          | 1309 =>   (* everything at once (one round trip per case) *)
              Some (st, VList [VBool (forallb (fun kv => hidden_free c (snd kv)) props);
                               VBool (forallb (fun kv => names_confirmed (snd kv)) props);
                               enc_docs (resource_docs c props);
                               enc_docs (resource_embedded false c props);
                               enc_docs (resource_embedded true c props);
                               VList (resource_conditions c props);
                               VList (conditions_of (resource_embedded true c props))])
          | _ => None
          end
      end
  | VList [VInt flag; funcs; VStr t; VDict d] =>
      match dec_props d, find_row_full t with
      | Some props, Some r =>
          let c := cfg_of flag funcs in
          match op with
          | 1306 => Some (st, VList [enc_docs (typed_docs c r props); enc_docs (dedicated_docs r props);
                                      VList (conditions_of (typed_docs c r props))])
          | _ => None
          end
      | _, _ => None
      end
  | _ => None
  end.
