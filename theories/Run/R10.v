(* Runner operations for C10 (ops 1000-1099). *)
From Coq Require Import List Bool NArith ZArith.
From PV Require Import Base.Str Base.Value Run.RState Actions.Expand Actions.Tree Actions.Fast.
Import ListNotations.
Local Open Scope N_scope.

Definition run10 (st : rstate) (op : N) (arg : value) : option (rstate * value) :=
  let cat := catalogue st in
  match op with
  | 1001 => Some (st, expand_model_pre cat arg)                          (* CFModel.expand_actions() once *)
  | 1002 => Some (st, expand_model_twice_pre cat arg)       (* ... twice *)
  | 1003 => Some (st, expand_tree_pre cat arg)                           (* action_expander.expand_actions(obj) *)
  | _ => None
  end.
