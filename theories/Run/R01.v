(* Runner operations for the resolver family C01-C07 (ops 100-199). *)
From Coq Require Import List Bool NArith ZArith.
From PV Require Import Base.Str Base.Value Base.Wire Resolver.Consts Resolver.Text Resolver.Resolve Resolver.Template Resolver.Creds Resolver.Spec Resolver.SubFacts Resolver.FixFacts Resolver.Memo Resolver.QTree Resolver.MemoFacts Resolver.ModelFix Run.RState.
Import ListNotations.
Local Open Scope N_scope.

Definition dict_of (v : value) : list (str * value) := match v with VDict d => d | _ => [] end.
Definition conds_of (v : value) : str -> res bool :=
  fun n => match lookup n (dict_of v) with
           | Some (VBool b) => Ok b
           | Some _ => Err EUndefined
           | None => Ok false
           end.

(* first binding wins, as in [lookup]; the wire cannot carry shadowed duplicates (a Python dict would merge them) *)
Fixpoint dedup_first (seen : list str) (d : list (str * value)) : list (str * value) :=
  match d with
  | [] => []
  | (k, v) :: r => if mem_str k seen then dedup_first seen r else (k, v) :: dedup_first (k :: seen) r
  end.

Definition run01 (st : rstate) (op : N) (arg : value) : option (rstate * value) :=
  match op, arg with
  | 101, VList [expr; ps; maps; cs] =>
      Some (st, enc_res (resolve {| params := dict_of ps; mappings := dict_of maps; conds := conds_of cs |} expr))
  | 102, VList [pseudo; decls; extra; maps; cdecl; rs] =>
      Some (st, enc_res (resolve_model (dict_of pseudo) (dict_of decls) (dict_of extra) (dict_of maps) (dict_of cdecl) (dict_of rs)))
  | 103, VList [d; provided] =>
      Some (st, enc_res (match ref_value d (match provided with VNull => None | x => Some x end) with
                         | Ok (Some v) => Ok v
                         | Ok None => Ok VNull
                         | Err e => Err e
                         end))
  | 104, VList [pseudo; decls; extra] =>
      Some (st, enc_res (match bind_params (dict_of pseudo) (dict_of decls) (dict_of extra) with
                         | Ok ps => Ok (VDict (dedup_first [] ps)) | Err e => Err e end))
  | 105, VList [metadata] =>
      Some (st, enc_res (match has_hc metadata with Ok b => Ok (VBool b) | Err e => Err e end))
  | 106, VList [login; metadata] =>
      Some (st, enc_res (match has_hc_user login metadata with Ok b => Ok (VBool b) | Err e => Err e end))
  | 107, VList [ps; v] =>
      Some (st, VList [VBool (no_fn_dict v); VBool (rendered (dict_of ps) v)])
  | 108, VList [ps; maps; v] =>
      Some (st, VList [VBool (fn_keys_alone v);
                       VBool (forallb (fun kv => nodict (snd kv)) (dict_of ps));
                       VBool (forallb (fun m => forallb (fun t => forallb (fun l => nodict (snd l)) (dict_of (snd t)))
                                                        (dict_of (snd m))) (dict_of maps))])
  | 109, VList [ps; maps; cdecl] =>
      (* the memoising condition resolver itself: values in declaration order + the names it left in its cache, oldest first *)
      Some (st, enc_res (match memo_resolve_all (dict_of ps) (dict_of maps) (dict_of cdecl) with
                         | Ok (l, s) => Ok (VList [VDict (map (fun nb => (fst nb, VBool (snd nb))) l);
                                                   VList (map (fun nb => VList [VStr (fst nb); VBool (snd nb)]) (rev (cache s)))])
                         | Err e => Err e
                         end))
  | 110, VList [pseudo; decls; extra; maps; cdecl; rs] =>
      (* resolve_model applied to its own output: [first; second; hypotheses of C03_model_fixed_point on the first output;
         its hypothesis on the input].  When the first resolution fails or is not of the model_out shape: second = EUndefined. *)
      let first := resolve_model (dict_of pseudo) (dict_of decls) (dict_of extra) (dict_of maps) (dict_of cdecl) (dict_of rs) in
      let none := VList [enc_res first; enc_res (Err EUndefined); VBool false; VBool false] in
      Some (st, match first, bind_params (dict_of pseudo) (dict_of decls) (dict_of extra) with
                | Ok (VDict [(_, VDict cs); (_, VDict rs')]), Ok ps =>
                    VList [enc_res first;
                           enc_res (resolve_model (dict_of pseudo) (dict_of decls) (dict_of extra) (dict_of maps) cs rs');
                           VBool (forallb (fun kv => no_fn_dict (snd kv) && rendered ps (snd kv)) rs');
                           VBool (forallb (fun kv => negb (gate_open (cond_bools cs) (snd kv)) || resource_wf ps (snd kv)) (dict_of rs))]
                | _, _ => none
                end)
  | _, _ => None
  end.
