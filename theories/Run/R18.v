(* Runner operations for C18 (ops 1800-1899).  Arguments as in R13: cfgflag, funcs, one annotated value. *)
From Coq Require Import List Bool NArith ZArith.
From PV Require Import Base.Str Base.Value Typed.GValue Typed.Cast Typed.Literals Typed.Collect Typed.CastOk Run.RState Run.R13.
Import ListNotations.
Local Open Scope N_scope.

(* the implementation's own answer, as the harness presents it, read back as a tval (to evaluate the spec on it) *)
Fixpoint tdec (v : value) : option tval :=
  match v with
  | VNull => Some TNull
  | VBool b => Some (TBool b)
  | VInt z => Some (TInt z)
  | VStr s => Some (TStr s)
  | VTyped KFloat x => Some (TFloat x)
  | VTyped KDate x => Some (TDate x)
  | VTyped KDatetime x => Some (TDatetime x)
  | VTyped k x => Some (TNet k x)
  | VBytes _ => None
  | VList l =>
      option_map TList
        ((fix go (l : list value) : option (list tval) :=
            match l with
            | [] => Some []
            | x :: xs => match tdec x, go xs with Some x', Some xs' => Some (x' :: xs') | _, _ => None end
            end) l)
  | VDict [(k, raw)] =>
      if str_eqb k K_FN then Some (TFn raw)
      else match tdec raw with Some t => Some (TGeneric [(k, t)]) | None => None end
  | VDict [(k1, VInt kind); (k2, VStr dump)] =>
      if str_eqb k1 K_PROP && str_eqb k2 K_DUMP then
        match pk_of_code kind with
        | Some pk' => Some (TProp {| r_kind := pk'; r_dump := dump; r_name := None; r_doc := VNull |})
        | None => None
        end
      else Some (TGeneric [(k1, TInt kind); (k2, TStr dump)])
  | VDict d =>
      option_map TGeneric
        ((fix go (d : list (str * value)) : option (list (str * tval)) :=
            match d with
            | [] => Some []
            | (k, x) :: xs => match tdec x, go xs with Some x', Some xs' => Some ((k, x') :: xs') | _, _ => None end
            end) d)
  end.

(* per converted leaf: 1 strict literal, 2 accepted-liberal (pydantic's liberal reading), 0 not converted *)
Fixpoint lib_stats (g : gvalue) (t : tval) {struct g} : list N :=
  match g with
  | GList l =>
      match t with
      | TList ts =>
          (fix go (l : list gvalue) (ts : list tval) : list N :=
             match l, ts with
             | x :: l', y :: ts' => lib_stats x y ++ go l' ts'
             | _, _ => []
             end) l ts
      | _ => []
      end
  | GDict d _ =>
      match t with
      | TGeneric d' =>
          (fix go (d : list (str * gvalue)) (d' : list (str * tval)) : list N :=
             match d, d' with
             | (_, x) :: r1, (_, y) :: r2 => lib_stats x y ++ go r1 r2
             | _, _ => []
             end) d d'
      | _ => []
      end
  | GStr s (Some j) _ => if literal_ok s t then [liberal_leaf g t] else lib_stats j t
  | _ => [liberal_leaf g t]
  end.
Definition count (k : N) (l : list N) : Z := Z.of_nat (length (filter (N.eqb k) l)).

Definition run18 (st : rstate) (op : N) (arg : value) : option (rstate * value) :=
  match arg with
  | VList [VInt flag; funcs; gv] =>
      match gdec gv with
      | None => None
      | Some g =>
          let c := cfg_of flag funcs in
          match op with
          | 1801 => Some (st, tenc (cast c g))            (* Properties.<name>: value and Python type *)
          | 1802 => Some (st, tdump (cast c g))           (* model_dump() *)
          | 1803 =>                                       (* checks: annotations confirmed, spec holds of the model, statistics *)
              let t := cast c g in
              let ls := lib_stats g t in
              Some (st, VList [VBool (all_confirmed g); VBool (cast_ok c g t); VInt (count 1 ls); VInt (count 2 ls)])
          | 1805 =>                                       (* 1801 + 1802 + 1803 in one round trip *)
              let t := cast c g in
              let ls := lib_stats g t in
              Some (st, VList [tenc t; tdump t; VBool (all_confirmed g); VBool (cast_ok c g t); VInt (count 1 ls); VInt (count 2 ls)])
          | _ => None
          end
      end
  | VList [VInt flag; funcs; gv; tv] =>
      match gdec gv, tdec tv with
      | Some g, Some t =>
          match op with
          | 1804 => Some (st, VBool (cast_ok (cfg_of flag funcs) g t))   (* the spec evaluated on a given answer *)
          | _ => None
          end
      | _, _ => None
      end
  | _ => None
  end.
