(* Runner operations for C12 (ops 1200-1299).
   block   = [[operator name, [[key, policy value | [policy values]] ...]] ...]   (names as written, maybe with ':')
   context = {key: value | [values]}          operands in the wire form of Run/R11.v *)
From Coq Require Import List Bool NArith ZArith.
From PV Require Import Base.Str Base.Value Base.Wire Run.RState Iam.Ops Iam.OpNames Iam.Block Run.R11.
From PVGen Require Import Operators.
Import ListNotations.
Local Open Scope N_scope.

Definition pvals_of (v : value) : option pvals :=
  match v with
  | VList l => option_map PMany (map_opt cval_of l)
  | _ => option_map POne (cval_of v)
  end.
(* a list inside a list of context values is just "some other object" for every comparison *)
Definition cval_of_member (v : value) : option cval :=
  match v with VList _ => Some COther | _ => cval_of v end.
Definition ctxval_of (v : value) : option ctxval :=
  match v with
  | VList l => option_map XMany (map_opt cval_of_member l)
  | _ => option_map XOne (cval_of v)
  end.
Definition group_of (v : value) : option (str * pvals) :=
  match v with
  | VList [VStr k; pv] => option_map (fun p => (k, p)) (pvals_of pv)
  | _ => None
  end.
Definition entry_of (v : value) : option (str * groups) :=
  match v with
  | VList [VStr n; VList gs] => option_map (fun g => (n, g)) (map_opt group_of gs)
  | _ => None
  end.
Definition block_of (v : value) : option block :=
  match v with VList es => map_opt entry_of es | _ => None end.
Definition context_of (v : value) : option context :=
  match v with
  | VDict d => map_opt (fun kv => option_map (fun x => (fst kv, x)) (ctxval_of (snd kv))) d
  | _ => None
  end.

(* every policy value is something validation can leave under that operator *)
Definition policies_ok (act : list (op_entry * groups)) : bool :=
  forallb (fun eg => forallb (fun kp => forallb (policy_ok (e_base (fst eg))) (plist (snd kp))) (snd eg)) act.

Definition run12 (st : rstate) (op : N) (arg : value) : option (rstate * value) :=
  match op, arg with
  (* 1201: [block, context, fold table] -> res (bool | null);  EValidation when an operator name is not a field *)
  | 1201, VList [vb; vc; VDict tbl] =>
      match block_of vb, context_of vc with
      | Some b, Some ctx =>
          if negb (names_known OPERATORS b) then Some (st, enc_res (Err EValidation))
          else if negb (policies_ok (active OPERATORS b)) then Some (st, enc_res (Err EUndefined))
          else Some (st, enc_res (Ok (vopt_bool (eval_block (op_test (fold_of tbl)) OPERATORS b ctx))))
      | _, _ => Some (st, enc_res (Err EUndefined))
      end
  | _, _ => None
  end.
