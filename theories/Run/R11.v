(* Runner operations for C11 (ops 1100-1199).
   Wire form of a typed operand (cval):  null | bool | int | str | bytes | {"dt": [aware, microseconds]}
   | {"net": [4|6, address, prefixlen]} | {"fn": null} | {"other": null}.
   The IgnoreCase operators use the fold table sent with each request: a dict  raw string -> normalize("NFKD", s.casefold())
   computed by the harness with Python's own unicodedata (leaf oracle); a string missing from the table folds to itself. *)
From Coq Require Import List Bool NArith ZArith.
From PV Require Import Base.Str Base.Value Base.Wire Run.RState Iam.IpNet Iam.Ops Iam.OpNames.
From PVGen Require Import Operators.
Import ListNotations.
Local Open Scope N_scope.

Definition K_DT : str := [100; 116].
Definition K_NET : str := [110; 101; 116].
Definition K_FN : str := [102; 110].
Definition K_OTHER : str := [111; 116; 104; 101; 114].

Definition net_of (ver addr plen : Z) : option cval :=
  if (Z.ltb addr 0 || Z.ltb plen 0)%bool then None
  else if Z.eqb ver 4 then Some (CNet (Net V4 (Z.to_N addr) (Z.to_N plen)))
  else if Z.eqb ver 6 then Some (CNet (Net V6 (Z.to_N addr) (Z.to_N plen)))
  else None.

Definition cval_of (v : value) : option cval :=
  match v with
  | VNull => Some CNone
  | VBool b => Some (CBool b)
  | VInt z => Some (CInt z)
  | VStr s => Some (CStr s)
  | VBytes b => Some (CBytes b)
  | VDict d =>
      match d with
      | [(k, body)] =>
          match body with
          | VNull => if str_eqb k K_FN then Some CFn else if str_eqb k K_OTHER then Some COther else None
          | VList l =>
              match l with
              | [VBool a; VInt us] => if str_eqb k K_DT then Some (CDate a us) else None
              | [VInt ver; VInt addr; VInt plen] => if str_eqb k K_NET then net_of ver addr plen else None
              | _ => None
              end
          | _ => None
          end
      | _ => None
      end
  | _ => None
  end.

Fixpoint map_opt {A B} (f : A -> option B) (l : list A) : option (list B) :=
  match l with
  | [] => Some []
  | x :: xs => match f x, map_opt f xs with Some y, Some ys => Some (y :: ys) | _, _ => None end
  end.

Definition fold_of (tbl : list (str * value)) (s : str) : str :=
  match lookup s tbl with Some (VStr f) => f | _ => s end.

Definition qual_code (q : qual) : Z := match q with QNone => 0 | QAll => 1 | QAny => 2 end.
Definition fam_code (f : fam) : Z :=
  match f with FStr => 0 | FArn => 1 | FInt => 2 | FDate => 3 | FBool => 4 | FBool1 => 5 | FBytes => 6 | FIp => 7 end.
Definition entry_value (e : op_entry) : value :=
  VList [VStr (e_name e); VInt (qual_code (e_qual e)); VBool (e_ifx e); VStr (base_name (e_base e)); VInt (fam_code (e_fam e))].

Definition run11 (st : rstate) (op : N) (arg : value) : option (rstate * value) :=
  match op, arg with
  (* 1101: [operator name, policy value, [] | [context value], fold table] -> res (bool | null) *)
  | 1101, VList [VStr name; pol; VList cl; VDict tbl] =>
      let c := match cl with [] => Some CAbsent | [v] => cval_of v | _ => None end in
      match base_of_name name, cval_of pol, c with
      | Some o, Some p, Some cv =>
          if policy_ok o p then Some (st, enc_res (Ok (vopt_bool (op_test (fold_of tbl) o p cv))))
          else Some (st, enc_res (Err EUndefined))
      | _, _, _ => Some (st, enc_res (Err EUndefined))
      end
  (* 1102: the generated operator table, as the model reads it *)
  | 1102, _ => Some (st, VList (map entry_value OPERATORS))
  | _, _ => None
  end.
