(* State of the extracted runner and definitions shared by the per-property operation tables. *)
From Coq Require Import List Bool NArith ZArith.
From PV Require Import Base.Str Base.Value Glob.Glob.
Import ListNotations.
Local Open Scope N_scope.

Record rstate := { catalogue : list str }.
Definition init : rstate := {| catalogue := [] |}.

Definition STAR : N := 42.
Definition QM : N := 63.
Definition glob_cs (p s : str) : bool := glob_match N N.eqb STAR QM p s.
Definition glob_ci (p s : str) : bool := glob_match_ci N N.eqb STAR QM lower_cp p s.

Definition strs_of (v : value) : list str :=
  match v with
  | VList l => flat_map (fun x => match x with VStr s => [s] | _ => [] end) l
  | _ => []
  end.
