(* Runner operations for C17 (ops 1700-1799).  The private-network table is an ARGUMENT of op 1705 (the harness
   passes the table of the running Python, produced by the same function that writes gen/PrivateNets.v), so the
   runner itself does not depend on gen/. *)
From Coq Require Import List Bool NArith ZArith.
From PV Require Import Base.Str Base.Value Base.Wire Net.Arith Net.NetText Net.IPv4 Net.IPv6 Net.IPv6Print Net.Public Run.RState.
Import ListNotations.
Local Open Scope N_scope.

Definition vN (n : N) : value := VInt (Z.of_N n).
Definition enc_net4 (n : net) : value := VList [vN (fst n); vN (snd n); VStr (print4 n)].
(* address, prefix length, .exploded, str() *)
Definition enc_net6 (n : net) : value := VList [vN (fst n); vN (snd n); VStr (print6_full n); VStr (print6 n)].
Definition map_res {A B} (f : A -> B) (r : res A) : res B := match r with Ok a => Ok (f a) | Err e => Err e end.

(* a typed CIDR field of a pycfmodel model: the ValueError of ipaddress surfaces as pydantic's ValidationError *)
Definition as_validation {A} (r : res A) : res A := match r with Err EValue => Err EValidation | _ => r end.
Definition field4 (v : value) : res (option net) :=
  match v with VNull => Ok None | _ => map_res Some (as_validation (parse4v v)) end.
Definition field6 (v : value) : res (option net) :=
  match v with VNull => Ok None | VStr s => map_res Some (as_validation (parse6 s)) | _ => Err EUndefined end.
(* resolve(): the stored network is stringified and the new model validates that text again *)
Definition reparse4 (r : res (option net)) : res (option net) :=
  match r with Ok (Some n) => map_res Some (as_validation (parse4 (print4 n))) | _ => r end.
Definition reparse6 (r : res (option net)) : res (option net) :=
  match r with Ok (Some n) => map_res Some (as_validation (parse6 (print6 n))) | _ => r end.

Definition enc_opt (f : net -> value) (o : option net) : value := match o with Some n => f n | None => VNull end.
Definition opt_str (v : value) : option (option str) :=
  match v with VNull => Some None | VStr s => Some (Some s) | _ => None end.
Definition net_of_value (v : value) : option net :=
  match v with VList [VInt a; VInt l] => Some (Z.to_N a, Z.to_N l) | _ => None end.
Fixpoint nets_of_values (l : list value) : option (list net) :=
  match l with
  | [] => Some []
  | v :: vs => match net_of_value v, nets_of_values vs with Some n, Some ns => Some (n :: ns) | _, _ => None end
  end.

Definition run17 (st : rstate) (op : N) (arg : value) : option (rstate * value) :=
  match op, arg with
  (* field value after parse *)
  | 1701, VList [v] => Some (st, enc_res (map_res (enc_opt enc_net4) (field4 v)))
  | 1702, VList [v] => Some (st, enc_res (map_res (enc_opt enc_net6) (field6 v)))
  (* field value after resolve (stringify + validate again) *)
  | 1703, VList [v] => Some (st, enc_res (map_res (enc_opt enc_net4) (reparse4 (field4 v))))
  | 1704, VList [v] => Some (st, enc_res (map_res (enc_opt enc_net6) (reparse6 (field6 v))))
  (* ipv4_slash_zero(), ipv6_slash_zero() of a rule with both fields *)
  | 1705, VList [v4; v6] =>
      Some (st, enc_res (match field4 v4, field6 v6 with
                         | Ok c4, Ok c6 => Ok (VList [VBool (slash_zero_field c4); VBool (slash_zero_field c6)])
                         | Err e, _ => Err e
                         | _, Err e => Err e
                         end))
  (* is_public() of an RDS ingress rule: CIDRIP, EC2SecurityGroupName, EC2SecurityGroupId, shared, private table *)
  | 1706, VList [v; gname; gid; sh; VList tbl] =>
      match opt_str gname, opt_str gid, net_of_value sh, nets_of_values tbl with
      | Some n, Some i, Some shared, Some priv =>
          Some (st, enc_res (map_res (fun c => VBool (is_public_rule shared priv c n i)) (field4 v)))
      | _, _, _, _ => None
      end
  (* membership / containment, used by the harness to cross-examine generated inputs *)
  | 1707, VList [VInt x; VInt a; VInt l; VInt w] =>
      Some (st, VBool (in_netb (Z.to_N w) (Z.to_N x) (Z.to_N a, Z.to_N l)))
  (* str(IPv6Network((address, prefix length))) of a well-formed network (host bits clear); anything else is outside the model *)
  | 1708, VList [VInt a; VInt l] =>
      Some (st, enc_res (if (0 <=? a)%Z && (0 <=? l)%Z && wfb W6 (Z.to_N a, Z.to_N l)
                         then Ok (VStr (print6 (Z.to_N a, Z.to_N l))) else Err EUndefined))
  (* str(IPv6Address(address)) *)
  | 1709, VList [VInt a] =>
      Some (st, enc_res (if (0 <=? a)%Z && (Z.to_N a <? 2 ^ 128)
                         then Ok (VStr (print_addr6 (Z.to_N a))) else Err EUndefined))
  | _, _ => None
  end.
