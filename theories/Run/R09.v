(* Runner operations for C09 (ops 900-999).  The catalogue is the one loaded with op 0 (the live python list).
   The ops call the staged twins of Actions/Fast.v, each proved equal to the model function named in the comment. *)
From Coq Require Import List Bool NArith ZArith.
From PV Require Import Base.Str Base.Value Glob.Glob Run.RState Actions.Expand Actions.Catalogue Actions.Tree Actions.Fast.
Import ListNotations.
Local Open Scope N_scope.

Definition vstr_list (l : list str) : value := VList (map VStr l).

Definition arg_of (v : value) : option action_arg :=
  match v with
  | VStr p => Some (OneAction p)
  | VList _ => Some (ManyActions (strs_of v))
  | _ => None
  end.

Definition stmt_of (v : value) : option stmt :=
  match v with
  | VList [VStr e; a; n] =>
      Some {| s_effect := e; s_actions := pats_or_nil (pats_of_value a); s_notactions := pats_of_value n |}
  | _ => None
  end.
Fixpoint stmts_of (l : list value) : option (list stmt) :=
  match l with
  | [] => Some []
  | v :: r => match stmt_of v, stmts_of r with Some s, Some ss => Some (s :: ss) | _, _ => None end
  end.

Definition run09 (st : rstate) (op : N) (arg : value) : option (rstate * value) :=
  let cat := catalogue st in
  match op, arg with
  (* _expand_actions(x, not_action) *)
  | 901, VList [x; VBool na] =>
      match arg_of x with Some a => Some (st, vstr_list (expand_actions_fast cat a na)) | None => None end
  (* _expand_action(p, not_action) *)
  | 902, VList [VStr p; VBool na] => Some (st, vstr_list (expand_action_fast cat p na))
  (* Statement(Effect, Action, NotAction).get_expanded_action_list() *)
  | 903, _ => match stmt_of arg with Some s => Some (st, vstr_list (stmt_list_fast cat s)) | None => None end
  (* PolicyDocument.get_allowed_actions() / get_iam_actions() *)
  | 904, VList l => match stmts_of l with Some ss => Some (st, vstr_list (allowed_actions_fast cat ss)) | None => None end
  | 905, VList l => match stmts_of l with Some ss => Some (st, vstr_list (iam_actions_fast cat ss)) | None => None end
  (* model level: CFModel.expand_actions() on the dumped template *)
  | 906, _ => Some (st, expand_model_pre cat arg)
  (* catalogue invariants of the loaded catalogue *)
  | 908, VNull => Some (st, VBool (catalogue_ok cat))
  | _, _ => None
  end.
