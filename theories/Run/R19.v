(* Runner operations for C19 (ops 1900-1999): the custom validators of pycfmodel on arbitrary JSON values. *)
From Coq Require Import List Bool NArith ZArith.
From PV Require Import Base.Str Base.Value Base.Wire Run.RState Robust.Validators.
Import ListNotations.
Local Open Scope N_scope.

Definition as_bool (v : value) : bool := match v with VBool b => b | _ => false end.
(* json.loads oracle annotation: VList [] = it raised, VList [j] = it returned j *)
Definition loads_of (ann : value) : str -> option value :=
  fun _ => match ann with VList [j] => Some j | _ => None end.
Definition outcome (r : res value) : value := enc_res (match r with Ok _ => Ok VNull | Err e => Err e end).

Definition run19 (st : rstate) (op : N) (arg : value) : option (rstate * value) :=
  match op, arg with
  | 1901, VList [strict; modelled; v] => Some (st, enc_res (check_type (as_bool strict) (strs_of modelled) v))
  | 1902, VList [v] => Some (st, enc_res (validate_binary v))
  | 1903, VList [v] => Some (st, enc_res (semi_strict_bool v))
  | 1904, VList [v] => Some (st, enc_res (check_fn_dict v))
  | 1905, VList [v] => Some (st, enc_res (generic_casting (fun x => x) v))
  | 1906, VList [v; ann] => Some (st, enc_res (json_prepass (loads_of ann) v))
  | 1907, VList [v] => Some (st, enc_res (remove_colon v))
  | 1908, VList [v] => Some (st, enc_res (effect_validator v))
  | 1909, VList [v] => Some (st, enc_res (tag_coerce v))
  | 1910, VList [na; v] => Some (st, outcome (expand_acts (fun _ l => l) (as_bool na) v))
  | 1911, VList [strict; modelled; v] => Some (st, enc_res (type_field (as_bool strict) (strs_of modelled) v))
  | 1912, VList [v] => Some (st, enc_res (binary_field v))
  | 1913, VList [v] => Some (st, enc_res (bool_field v))
  | 1914, VList [v] => Some (st, enc_res (effect_field v))
  | 1915, VList [v] => Some (st, enc_res (tag_value_field v))
  | 1916, VList [v] => Some (st, enc_res (fn_dict_field v))
  | 1917, VList [v] => Some (st, outcome (generic_field (fun x => x) v))
  | 1918, VList [v] => Some (st, enc_res (resolvable std_str v))
  | 1919, VList [v] => Some (st, enc_res (match v with VNull => Ok VNull | _ => match generic_field (fun x => x) v with Ok _ => Ok VNull | Err e => Err e end end))
  | 1921, VList [v; ann] =>
      Some (st, enc_res (not_from_numbers (fun s => match lookup s (match ann with VDict d => d | _ => [] end) with Some (VBool true) => true | _ => false end) v))
  | 1922, VList [v] => Some (st, enc_res (not_from_booleans v))
  | 1920, VList [VStr s] => Some (st, match b64decode s with Some b => VBytes b | None => VNull end)
  | _, _ => None
  end.
