(* C10 -- frame, object-valued Action, other sections, idempotence. *)
From Coq Require Import List Bool NArith Lia Sorting.Sorted Permutation.
From PV Require Import Base.Str Base.Value Glob.Glob Run.RState Actions.Expand Actions.ExpandThm Actions.Catalogue Actions.Tree.
Import ListNotations.
Local Open Scope N_scope.

(* [frame_rel may v w]: w has the shape of v -- same constructor, same keys in the same order, same list lengths,
   members related -- and differs from v at most in members whose key satisfies [may] and whose value in v is
   action text (a string / list of strings); such a member holds a list of strings in w. *)
Inductive frame_rel (may : str -> bool) : value -> value -> Prop :=
| FR_same v : frame_rel may v v
| FR_list l l' : Forall2 (frame_rel may) l l' -> frame_rel may (VList l) (VList l')
| FR_dict d d' :
    Forall2 (fun kv kv' =>
               fst kv = fst kv' /\
               (frame_rel may (snd kv) (snd kv') \/
                (may (fst kv) = true /\ action_text (snd kv) <> None /\ exists ss, snd kv' = vstrs ss))) d d' ->
    frame_rel may (VDict d) (VDict d').

(* the relation is not vacuous: when no key may change, related values are equal *)
Lemma frame_rel_none_eq v : forall w, frame_rel (fun _ => false) v w -> v = w.
Proof.
  induction v as [| | | | | |l IH|d IH] using value_ind'; intros w H; inversion H as [|? l' HF|? d' HF]; subst;
    try reflexivity.
  - f_equal. revert IH. induction HF as [|x y l0 l0' Hxy HF IHF]; intros IH; [reflexivity|].
    inversion IH as [|? ? Hx Hr]; subst. f_equal; [apply Hx; exact Hxy | apply IHF; [apply FR_list; exact HF | exact Hr]].
  - f_equal. revert IH. induction HF as [|x y l0 l0' Hxy HF IHF]; intros IH; [reflexivity|].
    inversion IH as [|? ? Hx Hr]; subst. destruct x as [k x], y as [k' y]. cbn [fst snd] in *.
    destruct Hxy as [-> [Hxy|[C _]]]; [|discriminate].
    f_equal; [f_equal; apply Hx; exact Hxy | apply IHF; [apply FR_dict; exact HF | exact Hr]].
Qed.

Lemma all_strs_map l : all_strs (map VStr l) = Some l.
Proof. induction l as [|s l IH]; simpl; [reflexivity|]. rewrite IH. reflexivity. Qed.
Lemma action_text_vstrs l : action_text (vstrs l) = Some l.
Proof. apply all_strs_map. Qed.

Fixpoint has_action_text (v : value) : bool :=
  match v with
  | VDict d =>
      (fix go (d : list (str * value)) : bool :=
         match d with
         | [] => false
         | (k, x) :: r =>
             (is_action_key k && match action_text x with Some _ => true | None => false end)
             || has_action_text x || go r
         end) d
  | VList l => existsb has_action_text l
  | _ => false
  end.

Section WalkFacts.
Variable expA expN : list str -> list str.
Notation walk := (walk expA expN).
Notation walk_member := (walk_member expA expN).
Notation walk_model := (walk_model expA expN).

Lemma walk_member_nontext k x : action_text x = None -> walk_member k x = walk x.
Proof. intros H. unfold Tree.walk_member. rewrite H. destruct (str_eqb k K_ACTION), (str_eqb k K_NOTACTION); reflexivity. Qed.
Lemma walk_member_other k x : is_action_key k = false -> walk_member k x = walk x.
Proof.
  unfold is_action_key, Tree.walk_member. intros H. apply orb_false_iff in H. destruct H as [-> ->]. reflexivity.
Qed.

(* FRAME *)
Theorem walk_frame v : frame_rel is_action_key v (walk v).
Proof.
  induction v as [| | | | | |l IH|d IH] using value_ind'; try apply FR_same.
  - rewrite walk_list. apply FR_list. induction IH as [|x l Hx Hl IHl]; simpl; constructor; assumption.
  - rewrite walk_dict. apply FR_dict. induction IH as [|[k x] r Hx Hr IHr]; cbn [map]; constructor; [|assumption].
    cbn [fst snd] in *. split; [reflexivity|]. unfold Tree.walk_member.
    destruct (str_eqb k K_ACTION) eqn:EA.
    + destruct (action_text x) as [ps|] eqn:ET; [|left; exact Hx].
      right. split; [unfold is_action_key; rewrite EA; reflexivity|]. split; [discriminate | eexists; reflexivity].
    + destruct (str_eqb k K_NOTACTION) eqn:EN; [|left; exact Hx].
      destruct (action_text x) as [ps|] eqn:ET; [|left; exact Hx].
      right. split; [unfold is_action_key; rewrite EA, EN; reflexivity|]. split; [discriminate | eexists; reflexivity].
Qed.

(* a tree without action text under an Action/NotAction key is returned unchanged *)
Theorem walk_no_text v : has_action_text v = false -> walk v = v.
Proof.
  induction v as [| | | | | |l IH|d IH] using value_ind'; try reflexivity; intros H.
  - rewrite walk_list. f_equal. cbn [has_action_text] in H.
    induction IH as [|x l Hx Hl IHl]; [reflexivity|]. simpl in H. apply orb_false_iff in H. destruct H as [H1 H2].
    simpl. rewrite (Hx H1), (IHl H2). reflexivity.
  - rewrite walk_dict. f_equal. cbn [has_action_text] in H.
    induction IH as [|[k x] r Hx Hr IHr]; [reflexivity|].
    apply orb_false_iff in H. destruct H as [H H3]. apply orb_false_iff in H. destruct H as [H1 H2].
    cbn [map fst snd]. rewrite (IHr H3). simpl in Hx. f_equal. f_equal.
    destruct (action_text x) eqn:ET.
    + rewrite andb_true_r in H1. rewrite walk_member_other by exact H1. apply Hx; exact H2.
    + rewrite walk_member_nontext by exact ET. apply Hx; exact H2.
Qed.

Lemma lookup_walk_dict k d :
  lookup k (map (fun kv => (fst kv, walk_member (fst kv) (snd kv))) d) = option_map (walk_member k) (lookup k d).
Proof.
  induction d as [|[k' x] r IH]; [reflexivity|]. cbn [map fst snd lookup].
  destruct (str_eqb k k') eqn:E; [|exact IH]. apply str_eqb_spec in E. subst. reflexivity.
Qed.

(* OTHER SECTIONS: the model-level function keeps the keys and every section but Resources *)
Definition vlookup (k : str) (v : value) : option value := match v with VDict d => lookup k d | _ => None end.
Definition vkeys (v : value) : list str := match v with VDict d => keys d | _ => [] end.

Theorem walk_model_other t k : k <> K_RESOURCES -> vlookup k (walk_model t) = vlookup k t.
Proof.
  intros Hk. destruct t as [| | | | | | |d]; try reflexivity. cbn [Tree.walk_model vlookup].
  induction d as [|[k' x] r IH]; [reflexivity|]. cbn [map fst snd].
  destruct (str_eqb k' K_RESOURCES) eqn:E.
  - apply str_eqb_spec in E. subst k'.
    assert (Hne : str_eqb k K_RESOURCES = false) by (apply str_eqb_neq; exact Hk).
    destruct x; cbn [lookup fst snd]; rewrite Hne; exact IH.
  - cbn [lookup]. destruct (str_eqb k k'); [reflexivity | exact IH].
Qed.
Theorem walk_model_keys t : vkeys (walk_model t) = vkeys t.
Proof.
  destruct t as [| | | | | | |d]; try reflexivity. cbn [Tree.walk_model vkeys]. unfold keys. rewrite map_map.
  apply map_ext. intros [k x]. cbn [fst snd]. destruct (str_eqb k K_RESOURCES); [|reflexivity]. destruct x; reflexivity.
Qed.
(* ... and inside Resources every resource keeps its name and is walked on its own *)
Theorem walk_model_resources t rs :
  vlookup K_RESOURCES t = Some (VDict rs) ->
  vlookup K_RESOURCES (walk_model t) = Some (VDict (map (fun nr => (fst nr, walk (snd nr))) rs)).
Proof.
  destruct t as [| | | | | | |d]; try discriminate. cbn [Tree.walk_model vlookup].
  induction d as [|[k x] r IH]; [discriminate|]. cbn [map fst snd lookup].
  destruct (str_eqb k K_RESOURCES) eqn:E.
  - apply str_eqb_spec in E. subst k. rewrite str_eqb_refl. intros H. inversion H; subst.
    cbn [lookup fst snd]. rewrite str_eqb_refl. reflexivity.
  - rewrite str_eqb_sym in E. rewrite E. exact IH.
Qed.

(* the Type of a resource (a string) is untouched, so the resource is dispatched to the same class *)
Theorem walk_type_kept d t :
  lookup K_TYPE d = Some (VStr t) -> vlookup K_TYPE (walk (VDict d)) = Some (VStr t).
Proof.
  intros H. rewrite walk_dict. cbn [vlookup]. rewrite lookup_walk_dict, H. reflexivity.
Qed.

(* walking keeps the "is action text" status of a value *)
Lemma all_strs_walk l : all_strs (map walk l) = all_strs l.
Proof.
  induction l as [|x l IH]; [reflexivity|]. destruct x; try reflexivity.
  cbn [map Tree.walk all_strs]. fold (Tree.walk expA expN). rewrite IH. reflexivity.
Qed.
Lemma action_text_walk x : action_text (walk x) = action_text x.
Proof. destruct x; try reflexivity. rewrite walk_list. cbn [action_text]. apply all_strs_walk. Qed.

(* IDEMPOTENCE on Action elements: if expanding an expanded Action list gives the same list, then a second walk
   can only change NotAction text *)
Definition is_notaction_key (k : str) : bool := str_eqb k K_NOTACTION.
Lemma walk_member_action k x ps :
  str_eqb k K_ACTION = true -> action_text x = Some ps -> walk_member k x = vstrs (expA ps).
Proof. intros E H. unfold Tree.walk_member. rewrite E, H. reflexivity. Qed.
Lemma walk_member_notaction k x ps :
  str_eqb k K_ACTION = false -> str_eqb k K_NOTACTION = true -> action_text x = Some ps ->
  walk_member k x = vstrs (expN ps).
Proof. intros E1 E2 H. unfold Tree.walk_member. rewrite E1, E2, H. reflexivity. Qed.

Lemma walk_member_twice (HA : forall ps, expA (expA ps) = expA ps) k x :
  frame_rel is_notaction_key (walk x) (walk (walk x)) ->
  frame_rel is_notaction_key (walk_member k x) (walk_member k (walk_member k x)) \/
  (is_notaction_key k = true /\ action_text (walk_member k x) <> None /\
   exists ss, walk_member k (walk_member k x) = vstrs ss).
Proof.
  intros Hx.
  destruct (action_text x) as [ps|] eqn:ET.
  - destruct (str_eqb k K_ACTION) eqn:EA.
    + left. rewrite (walk_member_action k x ps EA ET).
      rewrite (walk_member_action k _ _ EA (action_text_vstrs _)), HA. apply FR_same.
    + destruct (str_eqb k K_NOTACTION) eqn:EN.
      * right. rewrite (walk_member_notaction k x ps EA EN ET).
        rewrite (walk_member_notaction k _ _ EA EN (action_text_vstrs _)).
        split; [exact EN|]. split; [rewrite action_text_vstrs; discriminate | eexists; reflexivity].
      * left. assert (Hk : is_action_key k = false) by (unfold is_action_key; rewrite EA, EN; reflexivity).
        rewrite (walk_member_other k x Hk), (walk_member_other k _ Hk). exact Hx.
  - left. rewrite (walk_member_nontext k x ET).
    rewrite walk_member_nontext by (rewrite action_text_walk; exact ET). exact Hx.
Qed.

Theorem walk_twice (HA : forall ps, expA (expA ps) = expA ps) v :
  frame_rel is_notaction_key (walk v) (walk (walk v)).
Proof.
  induction v as [| | | | | |l IH|d IH] using value_ind'; try apply FR_same.
  - rewrite !walk_list. apply FR_list. induction IH as [|x l Hx Hl IHl]; simpl; constructor; assumption.
  - rewrite !walk_dict. apply FR_dict. induction IH as [|[k x] r Hx Hr IHr]; cbn [map]; constructor; [|assumption].
    cbn [fst snd] in *. split; [reflexivity|]. apply walk_member_twice; assumption.
Qed.
End WalkFacts.

(* ------------------------------------------------------------------------------------------------ *)
(* catalogue entries used as patterns: each matches exactly itself (needs the catalogue invariants) *)

Lemma lower_cp_not_wild c : (c <> STAR -> lower_cp c <> STAR) /\ (c <> QM -> lower_cp c <> QM).
Proof.
  unfold lower_cp, STAR, QM. destruct ((65 <=? c) && (c <=? 90)) eqn:E; [|tauto].
  apply andb_true_iff in E. destruct E as [E1 E2]. apply N.leb_le in E1. apply N.leb_le in E2. split; lia.
Qed.

Lemma glob_ci_literal p a : ~ In STAR p -> ~ In QM p -> (glob_ci p a = true <-> lower a = lower p).
Proof.
  intros H1 H2. unfold glob_ci, glob_match_ci.
  change (gmb N N.eqb (tokens N N.eqb STAR QM (map lower_cp p)) (map lower_cp a))
    with (glob_match N N.eqb STAR QM (map lower_cp p) (map lower_cp a)).
  apply (glob_literal N N.eqb N.eqb_eq STAR QM). unfold no_wild. apply Forall_forall.
  intros c Hc. apply in_map_iff in Hc. destruct Hc as (c0 & <- & Hc0).
  destruct (lower_cp_not_wild c0) as [L1 L2]. split; [apply L1 | apply L2]; intros ->; contradiction.
Qed.

Lemma NoDup_map_inj {A B} (f : A -> B) l x y :
  NoDup (map f l) -> In x l -> In y l -> f x = f y -> x = y.
Proof.
  induction l as [|z l IH]; simpl; [tauto|]. intros Hnd Hx Hy E. inversion Hnd as [|? ? Hz Hl]; subst.
  destruct Hx as [->|Hx], Hy as [->|Hy]; [reflexivity | | | auto].
  - exfalso. apply Hz. rewrite E. apply in_map. exact Hy.
  - exfalso. apply Hz. rewrite <- E. apply in_map. exact Hx.
Qed.

Lemma entry_matches_itself_only cat : catalogue_spec cat ->
  forall p a, In p cat -> In a cat -> (glob_ci p a = true <-> a = p).
Proof.
  intros (_ & _ & Hl & He) p a Hp Ha. rewrite Forall_forall in He.
  destruct (He p Hp) as (_ & H1 & H2 & _). rewrite (glob_ci_literal p a H1 H2). split.
  - intros E. exact (NoDup_map_inj lower cat a p Hl Ha Hp E).
  - intros ->. reflexivity.
Qed.

Theorem expand_idem cat ps : catalogue_spec cat -> expand cat (expand cat ps) = expand cat ps.
Proof.
  intros Hc. apply ssorted_ext; try apply nodup_sort_sorted. intros a.
  rewrite (action_mem cat (expand cat ps)). split.
  - intros [Ha (p & Hp & Hm)]. assert (Hpc : In p cat) by (apply action_mem in Hp; tauto).
    apply (entry_matches_itself_only cat Hc p a Hpc Ha) in Hm. subst. exact Hp.
  - intros Ha. assert (Hac : In a cat) by (apply action_mem in Ha; tauto).
    split; [assumption|]. exists a. split; [assumption|].
    apply (entry_matches_itself_only cat Hc a a Hac Hac). reflexivity.
Qed.

(* NotAction is not idempotent but an involution: the complement of the complement is the expansion *)
Theorem expand_not_involution cat ps : catalogue_spec cat -> expand_not cat (expand_not cat ps) = expand cat ps.
Proof.
  intros Hc. apply ssorted_ext; try apply nodup_sort_sorted. intros a.
  rewrite (notaction_mem cat (expand_not cat ps)). split.
  - intros [Ha H]. destruct (proj1 (partition_cover_g glob_ci cat ps a) Ha) as [Hin|Hin]; [exact Hin|].
    exfalso. specialize (H a Hin).
    assert (glob_ci a a = true) by (apply (entry_matches_itself_only cat Hc a a Ha Ha); reflexivity). congruence.
  - intros Ha. assert (Hac : In a cat) by (apply action_mem in Ha; tauto). split; [assumption|].
    intros p Hp. assert (Hpc : In p cat) by (apply notaction_mem in Hp; tauto).
    destruct (glob_ci p a) eqn:E; [|reflexivity]. exfalso.
    apply (entry_matches_itself_only cat Hc p a Hpc Hac) in E. subst.
    exact (partition_disjoint_g glob_ci cat ps p Ha Hp).
Qed.

Theorem expand_tree_twice cat v : catalogue_spec cat ->
  frame_rel is_notaction_key (expand_tree cat v) (expand_tree cat (expand_tree cat v)).
Proof. intros Hc. apply walk_twice. intros ps. apply expand_idem. exact Hc. Qed.

(* without NotAction text the second application is the identity *)
Fixpoint has_notaction_text (v : value) : bool :=
  match v with
  | VDict d =>
      (fix go (d : list (str * value)) : bool :=
         match d with
         | [] => false
         | (k, x) :: r =>
             (is_notaction_key k && match action_text x with Some _ => true | None => false end)
             || has_notaction_text x || go r
         end) d
  | VList l => existsb has_notaction_text l
  | _ => false
  end.

Section WalkIdem.
Variable expA expN : list str -> list str.
Hypothesis HA : forall ps, expA (expA ps) = expA ps.
Notation walk := (walk expA expN).
Notation walk_member := (walk_member expA expN).

Lemma walk_member_idem k x :
  (is_notaction_key k && match action_text x with Some _ => true | None => false end) = false ->
  walk (walk x) = walk x -> walk_member k (walk_member k x) = walk_member k x.
Proof.
  intros Hn Hx. destruct (action_text x) as [ps|] eqn:ET.
  - destruct (str_eqb k K_ACTION) eqn:EA.
    + rewrite (walk_member_action expA expN k x ps EA ET).
      rewrite (walk_member_action expA expN k _ _ EA (action_text_vstrs _)), HA. reflexivity.
    + rewrite andb_true_r in Hn. unfold is_notaction_key in Hn.
      assert (Hk : is_action_key k = false) by (unfold is_action_key; rewrite EA, Hn; reflexivity).
      rewrite (walk_member_other expA expN k x Hk), (walk_member_other expA expN k _ Hk). exact Hx.
  - rewrite (walk_member_nontext expA expN k x ET).
    rewrite walk_member_nontext by (rewrite action_text_walk; exact ET). exact Hx.
Qed.

Theorem walk_idem_no_notaction v : has_notaction_text v = false -> walk (walk v) = walk v.
Proof.
  induction v as [| | | | | |l IH|d IH] using value_ind'; try reflexivity; intros H.
  - rewrite !walk_list. f_equal. cbn [has_notaction_text] in H.
    induction IH as [|x l Hx Hl IHl]; [reflexivity|]. simpl in H. apply orb_false_iff in H. destruct H as [H1 H2].
    cbn [map]. rewrite (Hx H1), (IHl H2). reflexivity.
  - rewrite !walk_dict. f_equal. cbn [has_notaction_text] in H.
    induction IH as [|[k x] r Hx Hr IHr]; [reflexivity|].
    apply orb_false_iff in H. destruct H as [H H3]. apply orb_false_iff in H. destruct H as [H1 H2].
    cbn [map fst snd]. rewrite (IHr H3). cbn [fst snd] in Hx. f_equal. f_equal.
    apply walk_member_idem; [exact H1 | apply Hx; exact H2].
Qed.
End WalkIdem.

Theorem expand_tree_idem cat v : catalogue_spec cat -> has_notaction_text v = false ->
  expand_tree cat (expand_tree cat v) = expand_tree cat v.
Proof. intros Hc H. apply walk_idem_no_notaction; [intros ps; apply expand_idem; exact Hc | exact H]. Qed.

(* what a NotAction element becomes on the second application: the expansion itself (involution) *)
Theorem notaction_twice cat x ps : catalogue_spec cat -> action_text x = Some ps ->
  walk_member (expand cat) (expand_not cat) K_NOTACTION (walk_member (expand cat) (expand_not cat) K_NOTACTION x)
  = vstrs (expand cat ps).
Proof.
  intros Hc H.
  rewrite (walk_member_notaction _ _ K_NOTACTION x ps eq_refl eq_refl H).
  rewrite (walk_member_notaction _ _ K_NOTACTION _ _ eq_refl eq_refl (action_text_vstrs _)).
  rewrite expand_not_involution by exact Hc. reflexivity.
Qed.
