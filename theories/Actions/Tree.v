(* C10 -- the walk of expand_actions() over a dumped model.  SPECIFIED behaviour: inside any object, a member named
   Action / NotAction whose value is action text (a string, or a list of strings only) is replaced by its expansion;
   every other value is walked recursively (objects member by member, lists element by element); leaves are kept. *)
From Coq Require Import List Bool NArith Lia.
From PV Require Import Base.Str Base.Value Run.RState Actions.Expand.
Import ListNotations.
Local Open Scope N_scope.

Definition K_ACTION : str := [65; 99; 116; 105; 111; 110].                         (* "Action" *)
Definition K_NOTACTION : str := [78; 111; 116; 65; 99; 116; 105; 111; 110].        (* "NotAction" *)
Definition K_RESOURCES : str := [82; 101; 115; 111; 117; 114; 99; 101; 115].       (* "Resources" *)
Definition K_TYPE : str := [84; 121; 112; 101].                                     (* "Type" *)

(* a list made of strings only *)
Fixpoint all_strs (l : list value) : option (list str) :=
  match l with
  | [] => Some []
  | VStr s :: r => match all_strs r with Some ss => Some (s :: ss) | None => None end
  | _ :: _ => None
  end.
(* action text: a string or a list of strings (action_expander._is_action_text) *)
Definition action_text (v : value) : option (list str) :=
  match v with
  | VStr s => Some [s]
  | VList l => all_strs l
  | _ => None
  end.
Definition vstrs (l : list str) : value := VList (map VStr l).

Section Walk.
(* what an Action / a NotAction pattern list is replaced by *)
Variable expA expN : list str -> list str.

Definition is_action_key (k : str) : bool := str_eqb k K_ACTION || str_eqb k K_NOTACTION.

Fixpoint walk (v : value) : value :=
  match v with
  | VDict d =>
      VDict ((fix go (d : list (str * value)) : list (str * value) :=
                match d with
                | [] => []
                | (k, x) :: r =>
                    (k, if str_eqb k K_ACTION then
                          match action_text x with Some ps => vstrs (expA ps) | None => walk x end
                        else if str_eqb k K_NOTACTION then
                          match action_text x with Some ps => vstrs (expN ps) | None => walk x end
                        else walk x) :: go r
                end) d)
  | VList l => VList (map walk l)
  | _ => v
  end.

(* the same thing said member by member *)
Definition walk_member (k : str) (x : value) : value :=
  if str_eqb k K_ACTION then match action_text x with Some ps => vstrs (expA ps) | None => walk x end
  else if str_eqb k K_NOTACTION then match action_text x with Some ps => vstrs (expN ps) | None => walk x end
  else walk x.
Lemma walk_dict d : walk (VDict d) = VDict (map (fun kv => (fst kv, walk_member (fst kv) (snd kv))) d).
Proof.
  cbn [walk]. f_equal. induction d as [|[k x] r IH]; [reflexivity|]. cbn [map fst snd]. rewrite <- IH. reflexivity.
Qed.
Lemma walk_list l : walk (VList l) = VList (map walk l).
Proof. reflexivity. Qed.

(* CFModel.expand_actions(): only the members of the Resources section are walked *)
Definition walk_model (t : value) : value :=
  match t with
  | VDict d =>
      VDict (map (fun kv =>
                    if str_eqb (fst kv) K_RESOURCES then
                      match snd kv with
                      | VDict rs => (fst kv, VDict (map (fun nr => (fst nr, walk (snd nr))) rs))
                      | _ => kv
                      end
                    else kv) d)
  | _ => t
  end.
End Walk.

Definition expand_tree (cat : list str) : value -> value := walk (expand cat) (expand_not cat).
Definition expand_model (cat : list str) : value -> value := walk_model (expand cat) (expand_not cat).
