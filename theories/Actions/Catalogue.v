(* C09 / C10 -- invariants of an action catalogue: a boolean check and what it means.
   The check is run on the shipped catalogue in Actions/CatalogueChecks.v (re-proved on every run). *)
From Coq Require Import List Bool Arith NArith Lia Sorting.Sorted Permutation Sorting.Mergesort Orders.
From PV Require Import Base.Str Base.Value Run.RState Actions.Expand.
Import ListNotations.
Local Open Scope N_scope.

(* merge sort (Coq.Sorting.Mergesort) on strings; only its Permutation property is used: the result is
   CHECKED to be strictly increasing, which is what gives duplicate-freeness *)
Module StrOrder <: TotalLeBool.
  Definition t := str.
  Definition leb (a b : str) : bool := negb (str_ltb b a).
  Theorem leb_total : forall a b, leb a b = true \/ leb b a = true.
  Proof.
    intros a b. unfold leb. destruct (str_ltb b a) eqn:E; [|left; reflexivity].
    right. rewrite (str_ltb_asym _ _ E). reflexivity.
  Qed.
End StrOrder.
Module StrSort := Sort StrOrder.

Definition COLON : N := 58.
Definition is_nil {A} (l : list A) : bool := match l with [] => true | _ => false end.
Fixpoint count_cp (c : N) (s : str) : nat :=
  match s with [] => O | x :: r => Nat.add (if N.eqb x c then 1%nat else 0%nat) (count_cp c r) end.
Fixpoint before (c : N) (s : str) : str :=
  match s with [] => [] | x :: r => if x =? c then [] else x :: before c r end.
Fixpoint after (c : N) (s : str) : str :=
  match s with [] => [] | x :: r => if x =? c then r else after c r end.

(* service:Name -- exactly one ':', something on both sides, no wildcard character, plain ASCII *)
Definition entry_ok (a : str) : bool :=
  Nat.eqb (count_cp COLON a) 1 && negb (is_nil (before COLON a)) && negb (is_nil (after COLON a))
  && forallb (fun c => negb (c =? STAR) && negb (c =? QM) && (c <? 128)) a.

Definition catalogue_ok (c : list str) : bool :=
  strictly_sorted c && strictly_sorted (StrSort.sort (map lower c)) && forallb entry_ok c.

Definition entry_spec (a : str) : Prop :=
  (exists svc name, a = svc ++ COLON :: name /\ svc <> [] /\ name <> [] /\ ~ In COLON svc /\ ~ In COLON name)
  /\ ~ In STAR a /\ ~ In QM a /\ Forall (fun c => c < 128) a.

Definition catalogue_spec (c : list str) : Prop :=
  StronglySorted str_lt c            (* sorted in code-point order, strictly ... *)
  /\ NoDup c                          (* ... hence duplicate-free *)
  /\ NoDup (map lower c)              (* duplicate-free also when letter case is ignored *)
  /\ Forall entry_spec c.             (* every entry has the form service:Name *)

Lemma count_zero_notin c s : count_cp c s = O <-> ~ In c s.
Proof.
  induction s as [|x r IH]; simpl; [tauto|].
  destruct (N.eqb_spec x c) as [E|E]; simpl.
  - split; [discriminate | intros H; exfalso; apply H; auto].
  - rewrite IH. split; [intros H [C|C]; [contradiction | tauto] | tauto].
Qed.
Lemma split_at c s : (count_cp c s >= 1)%nat -> s = before c s ++ c :: after c s.
Proof.
  induction s as [|x r IH]; simpl; [lia|].
  destruct (N.eqb_spec x c) as [E|E]; simpl; [subst; reflexivity|].
  intros H. f_equal. apply IH. exact H.
Qed.
Lemma before_notin c s : ~ In c (before c s).
Proof.
  induction s as [|x r IH]; simpl; [tauto|].
  destruct (N.eqb_spec x c) as [E|E]; simpl; [tauto|]. intros [C|C]; [contradiction | tauto].
Qed.
Lemma count_after c s : (count_cp c s >= 1)%nat -> count_cp c (after c s) = (count_cp c s - 1)%nat.
Proof.
  induction s as [|x r IH]; simpl; [lia|].
  destruct (N.eqb_spec x c) as [E|E]; simpl; [lia|]. exact IH.
Qed.

Lemma entry_ok_spec a : entry_ok a = true -> entry_spec a.
Proof.
  unfold entry_ok. rewrite !andb_true_iff. intros [[[Hc Hb] Ha] Hf].
  apply Nat.eqb_eq in Hc.
  assert (Hge : (count_cp COLON a >= 1)%nat) by lia.
  rewrite forallb_forall in Hf.
  split; [|split; [|split]].
  - exists (before COLON a), (after COLON a). split; [apply split_at; exact Hge|].
    split; [destruct (before COLON a); [discriminate | congruence]|].
    split; [destruct (after COLON a); [discriminate | congruence]|].
    split; [apply before_notin|]. apply count_zero_notin. rewrite count_after by exact Hge. lia.
  - intros Hin. specialize (Hf _ Hin). rewrite N.eqb_refl in Hf. discriminate.
  - intros Hin. specialize (Hf _ Hin). rewrite N.eqb_refl, andb_false_r in Hf. discriminate.
  - apply Forall_forall. intros c Hin. specialize (Hf _ Hin).
    rewrite !andb_true_iff in Hf. destruct Hf as [_ Hlt]. apply N.ltb_lt in Hlt. exact Hlt.
Qed.

Theorem catalogue_ok_spec c : catalogue_ok c = true -> catalogue_spec c.
Proof.
  unfold catalogue_ok. rewrite !andb_true_iff. intros [[Hs Hl] He].
  apply strictly_sorted_ok in Hs. apply strictly_sorted_ok in Hl.
  split; [exact Hs|]. split; [apply ssorted_NoDup; exact Hs|]. split.
  - apply (Permutation_NoDup (l := StrSort.sort (map lower c))).
    + apply Permutation_sym, StrSort.Permuted_sort.
    + apply ssorted_NoDup; exact Hl.
  - apply Forall_forall. intros a Ha. rewrite forallb_forall in He. apply entry_ok_spec, He, Ha.
Qed.
