(* C10 (with C09) -- the algebra of the walk [expand_tree] over JSON trees; every statement for ANY catalogue, ANY tree, ANY
   pattern lists (structural induction, no bounds).
   1. FUSION: a walk after a walk is one walk with the composed functions ([walk_compose]); walks with equal functions are equal;
   2. PATHS: [member_at p i v] is the i-th member of the object reached from the root by the path p (through object members and
      array elements, any depth).  [member_at_walk]: the members of the walked tree are EXACTLY the members of the tree, each
      with its own value walked -- hence at any depth an Action element holds precisely the matched catalogue entries,
      a NotAction element precisely the unmatched ones, and every expanded element is sorted, duplicate-free, within the catalogue;
   3. LOCALITY: the walk distributes over ++ of members / elements, a member's result does not mention its siblings, keys,
      their order and array lengths are kept; the SKELETON (the tree with the contents of Action/NotAction text forgotten)
      is invariant;
   4. CATALOGUE UPDATE: the walk over the old catalogue = the walk over the new one, restricted; fixed points survive;
   5. ITERATION: twice = every Action AND NotAction element holds the plain expansion; three times = once; period 2 ever after;
   6. PATTERN ALGEBRA lifted: trees that differ only in how the patterns of Action/NotAction elements are written (order,
      repetition, equivalent spellings, a string for a one-element list) are walked to the SAME tree. *)
From Coq Require Import List Bool NArith Lia Sorting.Sorted Permutation.
From PV Require Import Base.Str Base.Value Glob.Glob Run.RState.
From PV Require Import Actions.Expand Actions.ExpandThm Actions.ExpandAlgebra Actions.Catalogue Actions.Tree Actions.TreeThm.
From PV Require Import Actions.CatalogueMono.
Import ListNotations.
Local Open Scope N_scope.

(* ================================================================================================ *)
(* 0. members, one by one *)

Definition walk_members (expA expN : list str -> list str) (d : list (str * value)) : list (str * value) :=
  map (fun kv => (fst kv, walk_member expA expN (fst kv) (snd kv))) d.
Lemma walk_dict' expA expN d : walk expA expN (VDict d) = VDict (walk_members expA expN d).
Proof. apply walk_dict. Qed.

(* a member is either walked, or it is action text and becomes a list of strings *)
Lemma walk_member_text_or_walk expA expN k x :
  walk_member expA expN k x = walk expA expN x \/
  (exists ps out, action_text x = Some ps /\ walk_member expA expN k x = vstrs out).
Proof.
  destruct (action_text x) as [ps|] eqn:ET; [|left; apply walk_member_nontext; exact ET].
  destruct (str_eqb k K_ACTION) eqn:EA.
  - right. exists ps, (expA ps). split; [reflexivity | apply walk_member_action; assumption].
  - destruct (str_eqb k K_NOTACTION) eqn:EN.
    + right. exists ps, (expN ps). split; [reflexivity | apply walk_member_notaction; assumption].
    + left. apply walk_member_other. unfold is_action_key. rewrite EA, EN. reflexivity.
Qed.

(* ================================================================================================ *)
(* 1. FUSION and extensionality *)

Section Compose.
Variable a n f g : list str -> list str.
Let fa := fun ps => f (a ps).
Let gn := fun ps => g (n ps).

Lemma walk_member_compose k x :
  walk f g (walk a n x) = walk fa gn x ->
  walk_member f g k (walk_member a n k x) = walk_member fa gn k x.
Proof.
  intros Hx. destruct (action_text x) as [ps|] eqn:ET.
  - destruct (str_eqb k K_ACTION) eqn:EA.
    + rewrite (walk_member_action a n k x ps EA ET), (walk_member_action f g k _ _ EA (action_text_vstrs _)).
      rewrite (walk_member_action fa gn k x ps EA ET). reflexivity.
    + destruct (str_eqb k K_NOTACTION) eqn:EN.
      * rewrite (walk_member_notaction a n k x ps EA EN ET).
        rewrite (walk_member_notaction f g k _ _ EA EN (action_text_vstrs _)).
        rewrite (walk_member_notaction fa gn k x ps EA EN ET). reflexivity.
      * assert (Hk : is_action_key k = false) by (unfold is_action_key; rewrite EA, EN; reflexivity).
        rewrite (walk_member_other a n k x Hk), (walk_member_other f g k _ Hk), (walk_member_other fa gn k x Hk). exact Hx.
  - rewrite (walk_member_nontext a n k x ET), (walk_member_nontext fa gn k x ET).
    rewrite walk_member_nontext by (rewrite action_text_walk; exact ET). exact Hx.
Qed.

Theorem walk_compose v : walk f g (walk a n v) = walk fa gn v.
Proof.
  induction v as [| | | | | |l IH|d IH] using value_ind'; try reflexivity.
  - rewrite !walk_list. f_equal. rewrite map_map.
    induction IH as [|x l Hx Hl IHl]; [reflexivity|]. cbn [map]. rewrite Hx, IHl. reflexivity.
  - rewrite !walk_dict. f_equal. rewrite map_map.
    induction IH as [|[k x] r Hx Hr IHr]; [reflexivity|]. cbn [map fst snd] in *. rewrite IHr. f_equal. f_equal.
    apply walk_member_compose. exact Hx.
Qed.
End Compose.

Theorem walk_ext a n a' n' v :
  (forall ps, a ps = a' ps) -> (forall ps, n ps = n' ps) -> walk a n v = walk a' n' v.
Proof.
  intros HA HN. induction v as [| | | | | |l IH|d IH] using value_ind'; try reflexivity.
  - rewrite !walk_list. f_equal. induction IH as [|x l Hx Hl IHl]; [reflexivity|]. cbn [map]. rewrite Hx, IHl. reflexivity.
  - rewrite !walk_dict. f_equal. induction IH as [|[k x] r Hx Hr IHr]; [reflexivity|]. cbn [map fst snd] in *.
    rewrite IHr. f_equal. f_equal. unfold walk_member. rewrite Hx.
    destruct (action_text x) as [ps|]; [rewrite (HA ps), (HN ps)|]; reflexivity.
Qed.

(* without NotAction text the NotAction function is never called *)
Theorem walk_ext_action a n a' n' v :
  (forall ps, a ps = a' ps) -> has_notaction_text v = false -> walk a n v = walk a' n' v.
Proof.
  intros HA. induction v as [| | | | | |l IH|d IH] using value_ind'; try reflexivity; intros H.
  - rewrite !walk_list. f_equal. cbn [has_notaction_text] in H.
    induction IH as [|x l Hx Hl IHl]; [reflexivity|]. cbn [existsb] in H. apply orb_false_iff in H. destruct H as [H1 H2].
    cbn [map]. rewrite (Hx H1), (IHl H2). reflexivity.
  - rewrite !walk_dict. f_equal. cbn [has_notaction_text] in H.
    induction IH as [|[k x] r Hx Hr IHr]; [reflexivity|].
    apply orb_false_iff in H. destruct H as [H H3]. apply orb_false_iff in H. destruct H as [H1 H2].
    cbn [map fst snd] in *. rewrite (IHr H3). f_equal. f_equal. specialize (Hx H2).
    destruct (action_text x) as [ps|] eqn:ET.
    + rewrite andb_true_r in H1. unfold is_notaction_key in H1.
      destruct (str_eqb k K_ACTION) eqn:EA.
      * rewrite (walk_member_action a n k x ps EA ET), (walk_member_action a' n' k x ps EA ET), (HA ps). reflexivity.
      * assert (Hk : is_action_key k = false) by (unfold is_action_key; rewrite EA, H1; reflexivity).
        rewrite (walk_member_other a n k x Hk), (walk_member_other a' n' k x Hk). exact Hx.
    + rewrite (walk_member_nontext a n k x ET), (walk_member_nontext a' n' k x ET). exact Hx.
Qed.

(* two walks with the same Action function differ in NotAction text only *)
Theorem walk_same_action_frame a n n' v : frame_rel is_notaction_key (walk a n v) (walk a n' v).
Proof.
  induction v as [| | | | | |l IH|d IH] using value_ind'; try apply FR_same.
  - rewrite !walk_list. apply FR_list. induction IH as [|x l Hx Hl IHl]; cbn [map]; constructor; assumption.
  - rewrite !walk_dict. apply FR_dict. induction IH as [|[k x] r Hx Hr IHr]; cbn [map]; constructor; [|assumption].
    cbn [fst snd] in *. split; [reflexivity|].
    destruct (action_text x) as [ps|] eqn:ET.
    + destruct (str_eqb k K_ACTION) eqn:EA.
      * left. rewrite (walk_member_action a n k x ps EA ET), (walk_member_action a n' k x ps EA ET). apply FR_same.
      * destruct (str_eqb k K_NOTACTION) eqn:EN.
        -- right. rewrite (walk_member_notaction a n k x ps EA EN ET), (walk_member_notaction a n' k x ps EA EN ET).
           split; [exact EN|]. split; [rewrite action_text_vstrs; discriminate | eexists; reflexivity].
        -- left. assert (Hk : is_action_key k = false) by (unfold is_action_key; rewrite EA, EN; reflexivity).
           rewrite (walk_member_other a n k x Hk), (walk_member_other a n' k x Hk). exact Hx.
    + left. rewrite (walk_member_nontext a n k x ET), (walk_member_nontext a n' k x ET). exact Hx.
Qed.

(* ================================================================================================ *)
(* 2. PATHS: the members of every object, at any depth *)

Inductive step := SMember (i : nat) | SElem (i : nat).     (* into the i-th member of an object / i-th element of an array *)
Definition path := list step.

Fixpoint value_at (p : path) (v : value) : option value :=
  match p with
  | [] => Some v
  | SMember i :: p' =>
      match v with
      | VDict d => match nth_error d i with Some kx => value_at p' (snd kx) | None => None end
      | _ => None
      end
  | SElem i :: p' =>
      match v with
      | VList l => match nth_error l i with Some x => value_at p' x | None => None end
      | _ => None
      end
  end.
(* the object at the end of path p, as its list of members *)
Definition dict_at (p : path) (v : value) : option (list (str * value)) :=
  match value_at p v with Some (VDict d) => Some d | _ => None end.
(* its i-th member: key and value *)
Definition member_at (p : path) (i : nat) (v : value) : option (str * value) :=
  match dict_at p v with Some d => nth_error d i | None => None end.

Lemma dict_at_nil v : dict_at [] v = match v with VDict d => Some d | _ => None end.
Proof. reflexivity. Qed.
Lemma dict_at_member i p d :
  dict_at (SMember i :: p) (VDict d) = match nth_error d i with Some kx => dict_at p (snd kx) | None => None end.
Proof. unfold dict_at. cbn [value_at]. destruct (nth_error d i); reflexivity. Qed.
Lemma dict_at_elem i p l :
  dict_at (SElem i :: p) (VList l) = match nth_error l i with Some x => dict_at p x | None => None end.
Proof. unfold dict_at. cbn [value_at]. destruct (nth_error l i); reflexivity. Qed.

Lemma all_strs_nth l : forall ss i x, all_strs l = Some ss -> nth_error l i = Some x -> exists s, x = VStr s.
Proof.
  induction l as [|y l IH]; intros ss i x Hs Hn; [destruct i; discriminate|].
  destruct y as [| | |s0| | | |]; try discriminate. cbn [all_strs] in Hs. destruct (all_strs l) as [ss'|] eqn:E; [|discriminate].
  destruct i as [|i]; cbn [nth_error] in Hn.
  - inversion Hn; subst. eexists; reflexivity.
  - exact (IH ss' i x eq_refl Hn).
Qed.

(* there is no object inside action text *)
Lemma dict_at_text p x ps : action_text x = Some ps -> dict_at p x = None.
Proof.
  intros H. destruct x as [| | |s0| | |l|d]; try discriminate.
  - destruct p as [|[i|i] p']; reflexivity.
  - destruct p as [|[i|i] p']; try reflexivity. rewrite dict_at_elem.
    destruct (nth_error l i) as [y|] eqn:En; [|reflexivity].
    cbn [action_text] in H. destruct (all_strs_nth l ps i y H En) as [s1 ->].
    destruct p' as [|[j|j] p'']; reflexivity.
Qed.

Section PathFacts.
Variable expA expN : list str -> list str.
Notation walk := (walk expA expN).
Notation walk_member := (walk_member expA expN).
Notation walk_members := (walk_members expA expN).

(* THE PATH THEOREM: the walked tree has an object exactly where the tree has one, and it holds the same members,
   each with its value walked as a member *)
Theorem dict_at_walk p : forall v, dict_at p (walk v) = option_map walk_members (dict_at p v).
Proof.
  induction p as [|[i|i] p IH]; intros v.
  - destruct v as [| | | | | |l|d]; try reflexivity. rewrite walk_dict'. reflexivity.
  - destruct v as [| | | | | |l|d]; try reflexivity. rewrite walk_dict', !dict_at_member. unfold TreeAlgebra.walk_members at 1.
    rewrite nth_error_map. destruct (nth_error d i) as [[k x]|]; [|reflexivity]. cbn [option_map fst snd].
    destruct (walk_member_text_or_walk expA expN k x) as [H|(ps & out & ET & H)]; rewrite H.
    + apply IH.
    + rewrite (dict_at_text p x ps ET), (dict_at_text p (vstrs out) out (action_text_vstrs out)). reflexivity.
  - destruct v as [| | | | | |l|d]; try reflexivity.
    rewrite walk_list, !dict_at_elem, nth_error_map. destruct (nth_error l i) as [x|]; [|reflexivity].
    cbn [option_map]. apply IH.
Qed.

Theorem member_at_walk p i v :
  member_at p i (walk v) = option_map (fun kv => (fst kv, walk_member (fst kv) (snd kv))) (member_at p i v).
Proof.
  unfold member_at. rewrite dict_at_walk. destruct (dict_at p v) as [d|]; [|reflexivity].
  cbn [option_map]. apply nth_error_map.
Qed.

(* read from the input side ... *)
Theorem action_at_walk p i v x ps :
  member_at p i v = Some (K_ACTION, x) -> action_text x = Some ps ->
  member_at p i (walk v) = Some (K_ACTION, vstrs (expA ps)).
Proof.
  intros Hm Ht. rewrite member_at_walk, Hm. cbn [option_map fst snd].
  rewrite (walk_member_action expA expN K_ACTION x ps eq_refl Ht). reflexivity.
Qed.
Theorem notaction_at_walk p i v x ps :
  member_at p i v = Some (K_NOTACTION, x) -> action_text x = Some ps ->
  member_at p i (walk v) = Some (K_NOTACTION, vstrs (expN ps)).
Proof.
  intros Hm Ht. rewrite member_at_walk, Hm. cbn [option_map fst snd].
  rewrite (walk_member_notaction expA expN K_NOTACTION x ps eq_refl eq_refl Ht). reflexivity.
Qed.
Theorem other_at_walk p i v k x :
  member_at p i v = Some (k, x) -> is_action_key k = false \/ action_text x = None ->
  member_at p i (walk v) = Some (k, walk x).
Proof.
  intros Hm Hk. rewrite member_at_walk, Hm. cbn [option_map fst snd]. destruct Hk as [Hk|Hk].
  - rewrite (walk_member_other expA expN k x Hk). reflexivity.
  - rewrite (walk_member_nontext expA expN k x Hk). reflexivity.
Qed.

(* ... and from the output side: nothing appears from nowhere *)
Theorem member_at_origin p i v k y :
  member_at p i (walk v) = Some (k, y) -> exists x, member_at p i v = Some (k, x) /\ y = walk_member k x.
Proof.
  rewrite member_at_walk. destruct (member_at p i v) as [[k' x]|]; [|discriminate].
  cbn [option_map fst snd]. intros H. inversion H; subst. exists x. split; reflexivity.
Qed.
Theorem expanded_at_origin p i v k y out :
  member_at p i (walk v) = Some (k, y) -> is_action_key k = true -> action_text y = Some out ->
  exists x ps, member_at p i v = Some (k, x) /\ action_text x = Some ps /\
               out = if str_eqb k K_ACTION then expA ps else expN ps.
Proof.
  intros Hm Hk Ht. destruct (member_at_origin p i v k y Hm) as (x & Hx & ->). exists x.
  destruct (action_text x) as [ps|] eqn:ET.
  - exists ps. split; [exact Hx|]. split; [reflexivity|].
    destruct (str_eqb k K_ACTION) eqn:EA.
    + rewrite (walk_member_action expA expN k x ps EA ET), action_text_vstrs in Ht. inversion Ht. reflexivity.
    + unfold is_action_key in Hk. rewrite EA in Hk. cbn [orb] in Hk.
      rewrite (walk_member_notaction expA expN k x ps EA Hk ET), action_text_vstrs in Ht. inversion Ht. reflexivity.
  - exfalso. rewrite (walk_member_nontext expA expN k x ET), action_text_walk, ET in Ht. discriminate.
Qed.
End PathFacts.

(* ---- at the running instance: SOUND and COMPLETE at any depth ---- *)

Theorem action_at_sound_complete cat v p i x ps :
  member_at p i v = Some (K_ACTION, x) -> action_text x = Some ps ->
  exists out, member_at p i (expand_tree cat v) = Some (K_ACTION, vstrs out) /\
    forall a, In a out <-> In a cat /\ exists q, In q ps /\ glob_ci q a = true.
Proof.
  intros Hm Ht. exists (expand cat ps). split; [exact (action_at_walk _ _ p i v x ps Hm Ht)|].
  intros a. apply action_mem.
Qed.
Theorem notaction_at_sound_complete cat v p i x ps :
  member_at p i v = Some (K_NOTACTION, x) -> action_text x = Some ps ->
  exists out, member_at p i (expand_tree cat v) = Some (K_NOTACTION, vstrs out) /\
    forall a, In a out <-> In a cat /\ forall q, In q ps -> glob_ci q a = false.
Proof.
  intros Hm Ht. exists (expand_not cat ps). split; [exact (notaction_at_walk _ _ p i v x ps Hm Ht)|].
  intros a. apply notaction_mem.
Qed.

(* whatever list of strings sits under an Action / NotAction key of the RESULT, at any depth, is the expansion of the
   patterns written at the same place of the input *)
Theorem expanded_origin cat v p i k y out :
  member_at p i (expand_tree cat v) = Some (k, y) -> is_action_key k = true -> action_text y = Some out ->
  exists x ps, member_at p i v = Some (k, x) /\ action_text x = Some ps /\
               out = if str_eqb k K_ACTION then expand cat ps else expand_not cat ps.
Proof. apply expanded_at_origin. Qed.

(* CANONICAL FORM at any depth *)
Theorem expanded_canonical cat v p i k y out :
  member_at p i (expand_tree cat v) = Some (k, y) -> is_action_key k = true -> action_text y = Some out ->
  StronglySorted str_lt out /\ NoDup out /\ incl out cat /\ (length out <= length cat)%nat.
Proof.
  intros Hm Hk Ht. destruct (expanded_origin cat v p i k y out Hm Hk Ht) as (x & ps & _ & _ & ->).
  destruct (sorted_nodup cat ps) as (S1 & N1 & S2 & N2). destruct (expand_incl_cat cat ps) as [I1 I2].
  destruct (str_eqb k K_ACTION).
  - split; [exact S1|]. split; [exact N1|]. split; [exact I1 | apply expand_length].
  - split; [exact S2|]. split; [exact N2|]. split; [exact I2 | apply expand_not_length].
Qed.

(* ================================================================================================ *)
(* 3. LOCALITY *)

Definition vmembers (v : value) : list (str * value) := match v with VDict d => d | _ => [] end.
Definition velems (v : value) : list value := match v with VList l => l | _ => [] end.

Section Locality.
Variable expA expN : list str -> list str.
Notation walk := (walk expA expN).
Notation walk_member := (walk_member expA expN).

Theorem walk_dict_app d1 d2 :
  walk (VDict (d1 ++ d2)) = VDict (vmembers (walk (VDict d1)) ++ vmembers (walk (VDict d2))).
Proof. rewrite !walk_dict'. cbn [vmembers]. unfold walk_members. rewrite map_app. reflexivity. Qed.
Theorem walk_list_app l1 l2 :
  walk (VList (l1 ++ l2)) = VList (velems (walk (VList l1)) ++ velems (walk (VList l2))).
Proof. rewrite !walk_list. cbn [velems]. rewrite map_app. reflexivity. Qed.
Theorem walk_dict_cons k x d : walk (VDict ((k, x) :: d)) = VDict ((k, walk_member k x) :: vmembers (walk (VDict d))).
Proof. rewrite !walk_dict'. reflexivity. Qed.
Theorem walk_list_cons x l : walk (VList (x :: l)) = VList (walk x :: velems (walk (VList l))).
Proof. rewrite !walk_list. reflexivity. Qed.

(* one member among any siblings: its result is [walk_member k x], a function of the member alone *)
Theorem walk_member_among d1 k x d2 :
  walk (VDict (d1 ++ (k, x) :: d2)) =
  VDict (vmembers (walk (VDict d1)) ++ (k, walk_member k x) :: vmembers (walk (VDict d2))).
Proof. rewrite walk_dict_app, walk_dict_cons. reflexivity. Qed.
Theorem walk_elem_among l1 x l2 :
  walk (VList (l1 ++ x :: l2)) = VList (velems (walk (VList l1)) ++ walk x :: velems (walk (VList l2))).
Proof. rewrite walk_list_app, walk_list_cons. reflexivity. Qed.

Theorem walk_nth_member d i :
  nth_error (vmembers (walk (VDict d))) i =
  option_map (fun kv => (fst kv, walk_member (fst kv) (snd kv))) (nth_error d i).
Proof. rewrite walk_dict'. cbn [vmembers]. apply nth_error_map. Qed.
Theorem walk_nth_elem l i : nth_error (velems (walk (VList l))) i = option_map walk (nth_error l i).
Proof. rewrite walk_list. cbn [velems]. apply nth_error_map. Qed.

(* keys in order, array lengths *)
Theorem walk_keys v : vkeys (walk v) = vkeys v.
Proof.
  destruct v as [| | | | | |l|d]; try reflexivity. rewrite walk_dict'. cbn [vkeys]. unfold keys, walk_members. rewrite map_map.
  apply map_ext. intros [k x]. reflexivity.
Qed.
Theorem walk_length v : length (velems (walk v)) = length (velems v) /\ length (vmembers (walk v)) = length (vmembers v).
Proof.
  destruct v as [| | | | | |l|d]; try (split; reflexivity).
  - rewrite walk_list. cbn [velems vmembers]. split; [apply map_length | reflexivity].
  - rewrite walk_dict'. cbn [velems vmembers]. split; [reflexivity | apply map_length].
Qed.
End Locality.

(* ---- SHAPE: the skeleton forgets what Action / NotAction text says, and nothing else ---- *)

Definition skel_member (skel : value -> value) (k : str) (x : value) : value :=
  if is_action_key k then match action_text x with Some _ => VNull | None => skel x end else skel x.

Fixpoint skeleton (v : value) : value :=
  match v with
  | VDict d =>
      VDict ((fix go (d : list (str * value)) : list (str * value) :=
                match d with
                | [] => []
                | (k, x) :: r =>
                    (k, if is_action_key k then match action_text x with Some _ => VNull | None => skeleton x end
                        else skeleton x) :: go r
                end) d)
  | VList l => VList (map skeleton l)
  | _ => v
  end.
Lemma skeleton_dict d : skeleton (VDict d) = VDict (map (fun kv => (fst kv, skel_member skeleton (fst kv) (snd kv))) d).
Proof.
  cbn [skeleton]. f_equal. induction d as [|[k x] r IH]; [reflexivity|]. cbn [map fst snd]. rewrite <- IH. reflexivity.
Qed.
Lemma skeleton_list l : skeleton (VList l) = VList (map skeleton l).
Proof. reflexivity. Qed.

Theorem skeleton_walk expA expN v : skeleton (walk expA expN v) = skeleton v.
Proof.
  induction v as [| | | | | |l IH|d IH] using value_ind'; try reflexivity.
  - rewrite walk_list, !skeleton_list. f_equal. rewrite map_map.
    induction IH as [|x l Hx Hl IHl]; [reflexivity|]. cbn [map]. rewrite Hx, IHl. reflexivity.
  - rewrite walk_dict, !skeleton_dict. f_equal. rewrite map_map.
    induction IH as [|[k x] r Hx Hr IHr]; [reflexivity|]. cbn [map fst snd] in *. rewrite IHr. f_equal. f_equal.
    unfold skel_member. destruct (is_action_key k) eqn:EK.
    + destruct (walk_member_text_or_walk expA expN k x) as [H|(ps & out & ET & H)]; rewrite H.
      * rewrite action_text_walk. destruct (action_text x); [reflexivity | exact Hx].
      * rewrite action_text_vstrs, ET. reflexivity.
    + rewrite (walk_member_other expA expN k x EK). exact Hx.
Qed.

(* the skeleton loses nothing else: a tree without action text under such keys IS its skeleton; keys and lengths stay *)
Theorem skeleton_no_text v : has_action_text v = false -> skeleton v = v.
Proof.
  induction v as [| | | | | |l IH|d IH] using value_ind'; try reflexivity; intros H.
  - rewrite skeleton_list. f_equal. cbn [has_action_text] in H.
    induction IH as [|x l Hx Hl IHl]; [reflexivity|]. cbn [existsb] in H. apply orb_false_iff in H. destruct H as [H1 H2].
    cbn [map]. rewrite (Hx H1), (IHl H2). reflexivity.
  - rewrite skeleton_dict. f_equal. cbn [has_action_text] in H.
    induction IH as [|[k x] r Hx Hr IHr]; [reflexivity|].
    apply orb_false_iff in H. destruct H as [H H3]. apply orb_false_iff in H. destruct H as [H1 H2].
    cbn [map fst snd] in *. rewrite (IHr H3). f_equal. f_equal. unfold skel_member.
    destruct (is_action_key k); [|exact (Hx H2)]. cbn [andb] in H1.
    destruct (action_text x); [discriminate | exact (Hx H2)].
Qed.
Theorem skeleton_keys_lengths v :
  vkeys (skeleton v) = vkeys v /\ length (velems (skeleton v)) = length (velems v).
Proof.
  destruct v as [| | | | | |l|d]; try (split; reflexivity).
  - rewrite skeleton_list. cbn [velems vkeys]. split; [reflexivity | apply map_length].
  - rewrite skeleton_dict. cbn [velems vkeys]. split; [|reflexivity]. unfold keys. rewrite map_map.
    apply map_ext. intros [k x]. reflexivity.
Qed.

(* ================================================================================================ *)
(* 4. CATALOGUE UPDATE, on trees *)

Theorem expand_tree_mono cat cat' v : incl cat cat' ->
  expand_tree cat v = walk (restrict cat) (restrict cat) (expand_tree cat' v).
Proof.
  intros Hi. unfold expand_tree. rewrite walk_compose. apply walk_ext; intros ps.
  - apply expand_mono. exact Hi.
  - apply expand_not_mono. exact Hi.
Qed.

Theorem expand_tree_same_entries cat cat' v : (forall a, In a cat <-> In a cat') -> expand_tree cat v = expand_tree cat' v.
Proof. intros H. unfold expand_tree. apply walk_ext; intros ps; apply (expand_same_entries cat cat' ps H). Qed.

(* expanded with the old catalogue, then with the new (well-formed) one: Action elements stay as they are ... *)
Theorem expand_tree_after_update cat cat' v : catalogue_spec cat' -> incl cat cat' ->
  expand_tree cat' (expand_tree cat v) = walk (expand cat) (fun ps => expand_not cat' (expand_not cat ps)) v.
Proof.
  intros Hc Hi. unfold expand_tree. rewrite walk_compose. apply walk_ext; intros ps; [|reflexivity].
  apply (expand_fixed_after_update cat cat' ps Hc Hi).
Qed.
(* ... so the whole tree does, when it holds no NotAction text; and only NotAction text can differ otherwise *)
Theorem expand_tree_fixed_after_update cat cat' v : catalogue_spec cat' -> incl cat cat' ->
  (has_notaction_text v = false -> expand_tree cat' (expand_tree cat v) = expand_tree cat v) /\
  frame_rel is_notaction_key (expand_tree cat v) (expand_tree cat' (expand_tree cat v)).
Proof.
  intros Hc Hi. rewrite (expand_tree_after_update cat cat' v Hc Hi). split.
  - intros H. unfold expand_tree. apply walk_ext_action; [reflexivity | exact H].
  - unfold expand_tree. apply walk_same_action_frame.
Qed.

(* ================================================================================================ *)
(* 5. ITERATION *)

Fixpoint iterate (k : nat) (f : value -> value) (v : value) : value :=
  match k with O => v | S k' => f (iterate k' f v) end.

(* twice: Action elements as after once; NotAction elements hold the PLAIN expansion of their patterns *)
Theorem expand_tree_twice_is cat v : catalogue_spec cat ->
  expand_tree cat (expand_tree cat v) = walk (expand cat) (expand cat) v.
Proof.
  intros Hc. unfold expand_tree. rewrite walk_compose. apply walk_ext; intros ps.
  - apply expand_idem. exact Hc.
  - apply expand_not_involution. exact Hc.
Qed.
(* the complement of an expansion is the complement of its patterns *)
Lemma expand_not_of_expand cat ps : catalogue_spec cat -> expand_not cat (expand cat ps) = expand_not cat ps.
Proof.
  intros Hc. assert (Hi : incl cat cat) by (intros a Ha; exact Ha).
  rewrite <- (expand_not_involution cat ps Hc). rewrite (expand_not_involution cat (expand_not cat ps) Hc).
  exact (proj2 (expand_fixed_after_update cat cat ps Hc Hi)).
Qed.
(* three times = once *)
Theorem expand_tree_thrice cat v : catalogue_spec cat ->
  expand_tree cat (expand_tree cat (expand_tree cat v)) = expand_tree cat v.
Proof.
  intros Hc. rewrite (expand_tree_twice_is cat v Hc). unfold expand_tree. rewrite walk_compose. apply walk_ext; intros ps.
  - apply expand_idem. exact Hc.
  - apply expand_not_of_expand. exact Hc.
Qed.
(* hence period two from the first application on *)
Theorem expand_tree_period cat v k : catalogue_spec cat ->
  iterate (S (S (S k))) (expand_tree cat) v = iterate (S k) (expand_tree cat) v.
Proof.
  intros Hc. induction k as [|k IH].
  - cbn [iterate]. apply expand_tree_thrice. exact Hc.
  - change (expand_tree cat (iterate (S (S (S k))) (expand_tree cat) v) = expand_tree cat (iterate (S k) (expand_tree cat) v)).
    rewrite IH. reflexivity.
Qed.
Theorem expand_tree_odd_even cat v k : catalogue_spec cat ->
  iterate (S (2 * k)) (expand_tree cat) v = expand_tree cat v /\
  iterate (S (S (2 * k))) (expand_tree cat) v = expand_tree cat (expand_tree cat v).
Proof.
  intros Hc. induction k as [|k [IH1 IH2]]; [split; reflexivity|].
  replace (2 * S k)%nat with (S (S (2 * k))) by lia. split.
  - rewrite (expand_tree_period cat v (2 * k) Hc). exact IH1.
  - rewrite (expand_tree_period cat v (S (2 * k)) Hc). exact IH2.
Qed.

(* ================================================================================================ *)
(* 6. THE PATTERN ALGEBRA, on trees *)

(* the same SET of patterns up to equivalence: order, repetition and spelling set aside *)
Definition pats_equiv (ps qs : list str) : Prop := covers ps qs /\ covers qs ps.

Lemma covers_incl ps qs : incl ps qs -> covers ps qs.
Proof. intros H p Hp. exists p. split; [apply H; exact Hp | apply ci_equiv_refl]. Qed.
Lemma pats_equiv_refl ps : pats_equiv ps ps.
Proof. split; apply covers_incl; intros p Hp; exact Hp. Qed.
Lemma pats_equiv_sym ps qs : pats_equiv ps qs -> pats_equiv qs ps.
Proof. intros [H1 H2]. split; assumption. Qed.
Lemma pats_equiv_trans ps qs rs : pats_equiv ps qs -> pats_equiv qs rs -> pats_equiv ps rs.
Proof.
  intros [H1 H2] [H3 H4]. split.
  - intros p Hp. destruct (H1 p Hp) as (q & Hq & E1). destruct (H3 q Hq) as (r & Hr & E2).
    exists r. split; [exact Hr | exact (ci_equiv_trans _ _ _ E1 E2)].
  - intros r Hr. destruct (H4 r Hr) as (q & Hq & E1). destruct (H2 q Hq) as (p & Hp & E2).
    exists p. split; [exact Hp | exact (ci_equiv_trans _ _ _ E1 E2)].
Qed.
Lemma pats_equiv_same_members ps qs : (forall p, In p ps <-> In p qs) -> pats_equiv ps qs.
Proof. intros H. split; apply covers_incl; intros p Hp; apply H; exact Hp. Qed.
Lemma pats_equiv_perm ps qs : Permutation ps qs -> pats_equiv ps qs.
Proof.
  intros H. apply pats_equiv_same_members. intros p. split; intros Hp.
  - exact (Permutation_in p H Hp).
  - exact (Permutation_in p (Permutation_sym H) Hp).
Qed.
Lemma pats_equiv_dup ps : pats_equiv (ps ++ ps) ps.
Proof. apply pats_equiv_same_members. intros p. rewrite in_app_iff. tauto. Qed.
Lemma pats_equiv_spelling ps qs : Forall2 ci_equiv ps qs -> pats_equiv ps qs.
Proof.
  induction 1 as [|p q ps qs Hpq HF [IH1 IH2]]; [apply pats_equiv_refl|]. split.
  - intros r [<-|Hr]; [exists q; split; [left; reflexivity | exact Hpq]|].
    destruct (IH1 r Hr) as (r' & Hr' & E). exists r'. split; [right; exact Hr' | exact E].
  - intros r [<-|Hr]; [exists p; split; [left; reflexivity | apply ci_equiv_sym; exact Hpq]|].
    destruct (IH2 r Hr) as (r' & Hr' & E). exists r'. split; [right; exact Hr' | exact E].
Qed.
Theorem pats_equiv_expand cat ps qs : pats_equiv ps qs ->
  expand cat ps = expand cat qs /\ expand_not cat ps = expand_not cat qs.
Proof. intros [H1 H2]. apply expand_equiv_sets; assumption. Qed.

(* [pat_rel v w]: the same tree, except that an Action / NotAction member holding action text in both may hold the
   patterns written differently (an equivalent set) *)
Inductive pat_rel : value -> value -> Prop :=
| PR_same v : pat_rel v v
| PR_list l l' : Forall2 pat_rel l l' -> pat_rel (VList l) (VList l')
| PR_dict d d' :
    Forall2 (fun kv kv' =>
               fst kv = fst kv' /\
               (pat_rel (snd kv) (snd kv') \/
                (is_action_key (fst kv) = true /\
                 exists ps qs, action_text (snd kv) = Some ps /\ action_text (snd kv') = Some qs /\ pats_equiv ps qs))) d d' ->
    pat_rel (VDict d) (VDict d').

Lemma pat_rel_str_l s0 y : pat_rel (VStr s0) y -> y = VStr s0.
Proof. intros H. inversion H; subst. reflexivity. Qed.
Lemma pat_rel_str_r x s0 : pat_rel x (VStr s0) -> x = VStr s0.
Proof. intros H. inversion H; subst. reflexivity. Qed.

Lemma pat_rel_all_strs l l' : Forall2 pat_rel l l' -> all_strs l = all_strs l'.
Proof.
  induction 1 as [|x y l l' Hxy HF IHF]; [reflexivity|].
  destruct x as [| | |sx| | | |].
  4: { apply pat_rel_str_l in Hxy. subst y. cbn [all_strs]. rewrite IHF. reflexivity. }
  all: destruct y as [| | |sy| | | |]; try reflexivity; apply pat_rel_str_r in Hxy; discriminate.
Qed.
Lemma pat_rel_action_text x y : pat_rel x y -> action_text x = action_text y.
Proof.
  intros H. inversion H as [|l l' HF|d d' HF]; subst; [reflexivity| |reflexivity].
  cbn [action_text]. apply pat_rel_all_strs. exact HF.
Qed.

Section PatRel.
Variable expA expN : list str -> list str.
Hypothesis HR : forall ps qs, pats_equiv ps qs -> expA ps = expA qs /\ expN ps = expN qs.
Notation walk := (walk expA expN).
Notation walk_member := (walk_member expA expN).

Lemma walk_member_pats k x y ps qs :
  is_action_key k = true -> action_text x = Some ps -> action_text y = Some qs -> pats_equiv ps qs ->
  walk_member k x = walk_member k y.
Proof.
  intros HK E1 E2 HE. destruct (HR ps qs HE) as [RA RN].
  destruct (str_eqb k K_ACTION) eqn:EA.
  - rewrite (walk_member_action expA expN k x ps EA E1), (walk_member_action expA expN k y qs EA E2), RA. reflexivity.
  - unfold is_action_key in HK. rewrite EA in HK. cbn [orb] in HK.
    rewrite (walk_member_notaction expA expN k x ps EA HK E1), (walk_member_notaction expA expN k y qs EA HK E2), RN.
    reflexivity.
Qed.

Theorem walk_pat_rel v : forall w, pat_rel v w -> walk v = walk w.
Proof.
  induction v as [| | | | | |l IH|d IH] using value_ind'; intros w H; inversion H as [|? l' HF|? d' HF]; subst;
    try reflexivity.
  - rewrite !walk_list. f_equal. clear H. revert IH.
    induction HF as [|x y l0 l0' Hxy HF IHF]; intros IH; [reflexivity|].
    inversion IH as [|? ? Hx Hr]; subst. cbn [map]. f_equal; [apply Hx; exact Hxy | apply IHF; exact Hr].
  - rewrite !walk_dict. f_equal. clear H. revert IH.
    induction HF as [|x y l0 l0' Hxy HF IHF]; intros IH; [reflexivity|].
    inversion IH as [|? ? Hx Hr]; subst. destruct x as [k x], y as [k' y]. cbn [fst snd] in *.
    destruct Hxy as [<- Hxy]. cbn [map fst snd]. f_equal; [|apply IHF; exact Hr]. f_equal.
    destruct Hxy as [Hxy|(HK & ps & qs & E1 & E2 & HE)].
    + unfold Tree.walk_member. rewrite (pat_rel_action_text x y Hxy), (Hx y Hxy). reflexivity.
    + exact (walk_member_pats k x y ps qs HK E1 E2 HE).
Qed.
End PatRel.

Theorem expand_tree_pat_rel cat v w : pat_rel v w -> expand_tree cat v = expand_tree cat w.
Proof. intros H. unfold expand_tree. apply walk_pat_rel; [apply pats_equiv_expand | exact H]. Qed.

(* one element, written two ways *)
Theorem expand_member_pats cat k x y ps qs :
  is_action_key k = true -> action_text x = Some ps -> action_text y = Some qs -> pats_equiv ps qs ->
  walk_member (expand cat) (expand_not cat) k x = walk_member (expand cat) (expand_not cat) k y.
Proof. apply walk_member_pats. apply pats_equiv_expand. Qed.

(* replacing one Action / NotAction element, anywhere among its siblings, by an equivalent one *)
Theorem pat_rel_member d1 k x y d2 ps qs :
  is_action_key k = true -> action_text x = Some ps -> action_text y = Some qs -> pats_equiv ps qs ->
  pat_rel (VDict (d1 ++ (k, x) :: d2)) (VDict (d1 ++ (k, y) :: d2)).
Proof.
  intros HK E1 E2 HE. apply PR_dict. apply Forall2_app.
  - induction d1 as [|kv d1 IH]; constructor; [|exact IH]. split; [reflexivity | left; apply PR_same].
  - constructor.
    + cbn [fst snd]. split; [reflexivity|]. right. split; [exact HK|]. exists ps, qs. auto.
    + induction d2 as [|kv d2 IH]; constructor; [|exact IH]. split; [reflexivity | left; apply PR_same].
Qed.
