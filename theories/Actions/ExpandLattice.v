(* C09: the set laws of action expansion as ORDER laws over the pattern list, for every catalogue and every list of patterns:
   the order of the patterns and repeated patterns are irrelevant (as EQUAL result lists), Action is monotone and NotAction
   antitone in the pattern set, the empty Action list expands to nothing and the empty NotAction list to the whole catalogue,
   and a pattern already covered by the list changes nothing. *)
From Coq Require Import List Bool NArith Permutation.
From PV Require Import Base.Str Base.Value Glob.Glob Run.RState Actions.Expand Actions.ExpandThm Actions.ExpandAlgebra.
Import ListNotations.

Lemma covers_incl ps qs : incl ps qs -> covers ps qs.
Proof. intros H p Hp. exists p. split; [apply H; exact Hp | apply ci_equiv_refl]. Qed.

(* same SET of patterns, same expansion: order and multiplicity of the patterns never matter *)
Theorem expand_same_set cat ps qs : incl ps qs -> incl qs ps ->
  expand cat ps = expand cat qs /\ expand_not cat ps = expand_not cat qs.
Proof. intros H1 H2. apply expand_equiv_sets; apply covers_incl; assumption. Qed.

Theorem expand_perm cat ps qs : Permutation ps qs ->
  expand cat ps = expand cat qs /\ expand_not cat ps = expand_not cat qs.
Proof.
  intros H. apply expand_same_set; intros p Hp.
  - eapply Permutation_in; [exact H | exact Hp].
  - eapply Permutation_in; [apply Permutation_sym; exact H | exact Hp].
Qed.

Theorem expand_rev cat ps : expand cat (rev ps) = expand cat ps /\ expand_not cat (rev ps) = expand_not cat ps.
Proof. apply expand_perm. apply Permutation_sym. apply Permutation_rev. Qed.

Theorem expand_twice cat ps : expand cat (ps ++ ps) = expand cat ps /\ expand_not cat (ps ++ ps) = expand_not cat ps.
Proof.
  apply expand_same_set; intros p Hp.
  - apply in_app_or in Hp. destruct Hp as [Hp | Hp]; exact Hp.
  - apply in_or_app. left. exact Hp.
Qed.

(* Action grows, NotAction shrinks, when patterns are added *)
Theorem expand_mono cat ps qs : incl ps qs ->
  incl (expand cat ps) (expand cat qs) /\ incl (expand_not cat qs) (expand_not cat ps).
Proof.
  intros H. split; intros a Ha.
  - apply action_mem in Ha. destruct Ha as (Hc & p & Hp & Hm). apply action_mem. split; [exact Hc |].
    exists p. split; [apply H; exact Hp | exact Hm].
  - apply notaction_mem in Ha. destruct Ha as (Hc & Hn). apply notaction_mem. split; [exact Hc |].
    intros p Hp. apply Hn. apply H. exact Hp.
Qed.

(* a pattern whose matches are already matched by the list adds nothing *)
Theorem expand_absorb cat ps p : (forall a, glob_ci p a = true -> exists q, In q ps /\ glob_ci q a = true) ->
  expand cat (p :: ps) = expand cat ps /\ expand_not cat (p :: ps) = expand_not cat ps.
Proof.
  intros H. apply expand_of_any_match. intros a. unfold any_match, any_match_g. cbn [existsb].
  destruct (glob_ci p a) eqn:E; [| reflexivity]. cbn [orb].
  destruct (H a E) as (q & Hq & Hm). symmetry. apply existsb_exists. exists q. split; assumption.
Qed.

(* the empty lists *)
Theorem expand_nil cat : expand cat [] = [] /\ expand_not cat [] = nodup_sort cat.
Proof.
  unfold expand, expand_not, expand_g, expand_not_g, any_match_g. cbn [existsb negb]. split.
  - replace (filter (fun _ : str => false) cat) with (@nil str); [reflexivity |].
    induction cat as [| c cat IH]; [reflexivity | exact IH].
  - f_equal. induction cat as [| c cat IH]; [reflexivity | cbn [filter]; f_equal; exact IH].
Qed.

(* Action and NotAction of the same list never share a name, whatever is added to either *)
Theorem expand_disjoint_mono cat ps qs a : incl ps qs -> In a (expand cat ps) -> In a (expand_not cat qs) -> False.
Proof.
  intros H Ha Hn. destruct (partition cat qs) as (Hd & _). apply (Hd a); [| exact Hn].
  destruct (expand_mono cat ps qs H) as (Hi & _). apply Hi. exact Ha.
Qed.

Example lattice_nonvacuous :
  let cat := [[97%N; 58%N; 98%N]; [97%N; 58%N; 99%N]; [100%N; 58%N; 101%N]] in
  expand cat [[97%N; 58%N; STAR]; [100%N; 58%N; 101%N]] = expand cat [[100%N; 58%N; 101%N]; [97%N; 58%N; STAR]; [97%N; 58%N; STAR]] /\
  expand cat [[97%N; 58%N; STAR]] = [[97%N; 58%N; 98%N]; [97%N; 58%N; 99%N]] /\
  expand_not cat [[97%N; 58%N; STAR]] = [[100%N; 58%N; 101%N]].
Proof. vm_compute. repeat split. Qed.

(* the pattern "*" matches every name: Action "*" is the whole catalogue, NotAction "*" nothing, and "*" absorbs any list *)
Lemma glob_ci_star a : glob_ci [STAR] a = true.
Proof.
  unfold glob_ci, glob_match_ci. change (map lower_cp [STAR]) with [STAR].
  exact (glob_star_alone N N.eqb N.eqb_eq STAR QM (map lower_cp a) STAR_neq_QM).
Qed.

Lemma filter_all_true (f : str -> bool) l : (forall a, f a = true) -> filter f l = l.
Proof. intros H. induction l as [| c l IH]; [reflexivity | cbn [filter]; rewrite H, IH; reflexivity]. Qed.
Lemma filter_all_false (f : str -> bool) l : (forall a, f a = false) -> filter f l = [].
Proof. intros H. induction l as [| c l IH]; [reflexivity | cbn [filter]; rewrite H; exact IH]. Qed.

Theorem expand_star cat ps : In [STAR] ps -> expand cat ps = nodup_sort cat /\ expand_not cat ps = [].
Proof.
  intros Hin.
  assert (Hm : forall a, any_match_g glob_ci ps a = true).
  { intros a. unfold any_match_g. apply existsb_exists. exists [STAR]. split; [exact Hin | apply glob_ci_star]. }
  unfold expand, expand_not, expand_g, expand_not_g. split.
  - rewrite (filter_all_true _ cat Hm). reflexivity.
  - rewrite (filter_all_false _ cat); [reflexivity |]. intros a. rewrite Hm. reflexivity.
Qed.

(* the same at the level of one statement (Action and NotAction side by side): only the SETS of patterns matter *)
Lemma any_match_same_set ps qs : incl ps qs -> incl qs ps -> forall a, any_match ps a = any_match qs a.
Proof. intros H1 H2. apply any_match_covers; apply covers_incl; assumption. Qed.

Theorem stmt_expanded_same_sets cat acts acts' nots nots' :
  incl acts acts' -> incl acts' acts ->
  match nots, nots' with
  | Some ns, Some ns' => incl ns ns' /\ incl ns' ns
  | None, None => True
  | _, _ => False
  end ->
  stmt_expanded cat acts nots = stmt_expanded cat acts' nots'.
Proof.
  intros Ha1 Ha2 Hn. unfold stmt_expanded. f_equal. apply filter_ext. intros a. unfold stmt_pred.
  rewrite (any_match_same_set acts acts' Ha1 Ha2 a). f_equal.
  destruct nots as [ns|], nots' as [ns'|]; try contradiction; [|reflexivity].
  destruct Hn as [Hn1 Hn2]. rewrite (any_match_same_set ns ns' Hn1 Hn2 a). reflexivity.
Qed.

Theorem stmt_expanded_perm cat acts acts' ns ns' : Permutation acts acts' -> Permutation ns ns' ->
  stmt_expanded cat acts (Some ns) = stmt_expanded cat acts' (Some ns') /\
  stmt_expanded cat acts None = stmt_expanded cat acts' None.
Proof.
  intros Ha Hn.
  assert (I : forall (l l' : list str), Permutation l l' -> incl l l' /\ incl l' l).
  { intros l l' H. split; intros p Hp; [eapply Permutation_in; [exact H | exact Hp] |
      eapply Permutation_in; [apply Permutation_sym; exact H | exact Hp]]. }
  destruct (I _ _ Ha) as [A1 A2]. destruct (I _ _ Hn) as [N1 N2].
  split; apply stmt_expanded_same_sets; try assumption; [split; assumption | exact Logic.I].
Qed.

(* the same at the level of a policy document: only the SET of statements matters -- their order and repetitions do not --
   and adding a statement can only add allowed / IAM actions; a statement whose effect is not Allow adds no allowed action *)
Theorem doc_same_statements cat ss ss' : incl ss ss' -> incl ss' ss ->
  allowed_actions cat ss = allowed_actions cat ss' /\ iam_actions cat ss = iam_actions cat ss'.
Proof.
  intros H1 H2. split; (apply ssorted_ext; [apply nodup_sort_sorted | apply nodup_sort_sorted |]); intros a.
  - rewrite !allowed_actions_In. split; intros (s & Hs & H); exists s; (split; [| exact H]); [apply H1 | apply H2]; exact Hs.
  - rewrite !iam_actions_In. split; intros (Hp & s & Hs & H); (split; [exact Hp |]); exists s; (split; [| exact H]);
      [apply H1 | apply H2]; exact Hs.
Qed.

Theorem doc_perm cat ss ss' : Permutation ss ss' ->
  allowed_actions cat ss = allowed_actions cat ss' /\ iam_actions cat ss = iam_actions cat ss'.
Proof.
  intros H. apply doc_same_statements; intros s Hs; [eapply Permutation_in; [exact H | exact Hs] |
    eapply Permutation_in; [apply Permutation_sym; exact H | exact Hs]].
Qed.

Theorem doc_mono cat ss ss' : incl ss ss' ->
  incl (allowed_actions cat ss) (allowed_actions cat ss') /\ incl (iam_actions cat ss) (iam_actions cat ss').
Proof.
  intros H1. split; intros a Ha.
  - apply allowed_actions_In in Ha. apply allowed_actions_In. destruct Ha as (s & Hs & H). exists s. split; [apply H1; exact Hs | exact H].
  - apply iam_actions_In in Ha. apply iam_actions_In. destruct Ha as (Hp & s & Hs & H). split; [exact Hp |].
    exists s. split; [apply H1; exact Hs | exact H].
Qed.

Theorem doc_non_allow_ignored cat ss s : is_allow s = false -> allowed_actions cat (s :: ss) = allowed_actions cat ss.
Proof.
  intros Hd. apply ssorted_ext; [apply nodup_sort_sorted | apply nodup_sort_sorted |]. intros a.
  rewrite !allowed_actions_In. split.
  - intros (t & [Ht | Ht] & Hal & H); [subst t; congruence | exists t; auto].
  - intros (t & Ht & H). exists t. split; [right; exact Ht | exact H].
Qed.
