(* C09 -- action expansion as set algebra over an ARBITRARY catalogue.
   Model of pycfmodel/action_expander.py (_expand_action, _expand_actions), Statement.get_expanded_action_list,
   PolicyDocument.get_allowed_actions / get_iam_actions.  Executable definitions and their laws. *)
From Coq Require Import List Bool NArith Lia Sorting.Sorted Permutation.
From PV Require Import Base.Str Base.Value Glob.Glob Run.RState.
Import ListNotations.
Local Open Scope N_scope.

(* ------------------------------------------------------------------------------------------------ *)
(* sorted(set(l)) : Python's sorted() on str is code-point lexicographic order = str_ltb *)

Fixpoint ins (x : str) (l : list str) : list str :=
  match l with
  | [] => [x]
  | y :: ys => if str_ltb x y then x :: l else if str_eqb x y then l else y :: ins x ys
  end.
Definition nodup_sort (l : list str) : list str := fold_right ins [] l.

Definition ssorted : list str -> Prop := StronglySorted str_lt.

Lemma ins_In x y l : In y (ins x l) <-> y = x \/ In y l.
Proof.
  induction l as [|z l IH]; simpl; [intuition|].
  destruct (str_ltb x z) eqn:E1; simpl; [intuition|].
  destruct (str_eqb x z) eqn:E2; simpl.
  - apply str_eqb_spec in E2; subst. intuition.
  - rewrite IH. intuition.
Qed.
Lemma nodup_sort_In y l : In y (nodup_sort l) <-> In y l.
Proof. induction l as [|x l IH]; simpl; [tauto|]. rewrite ins_In, IH. intuition. Qed.

Lemma ins_sorted x l : ssorted l -> ssorted (ins x l).
Proof.
  induction 1 as [|y ys Hs IH Hy]; simpl; [repeat constructor|].
  destruct (str_ltb x y) eqn:E1.
  - constructor; [constructor; assumption|].
    constructor; [exact E1|]. eapply Forall_impl; [|exact Hy].
    intros a Ha. exact (str_ltb_trans _ _ _ E1 Ha).
  - destruct (str_eqb x y) eqn:E2; [constructor; assumption|].
    apply str_eqb_neq in E2.
    assert (Hyx : str_ltb y x = true).
    { destruct (str_ltb y x) eqn:E3; [reflexivity|]. exfalso. apply E2. apply str_ltb_total; assumption. }
    constructor; [assumption|].
    apply Forall_forall. intros z Hz. apply ins_In in Hz. destruct Hz as [->|Hz]; [exact Hyx|].
    rewrite Forall_forall in Hy. auto.
Qed.
Lemma nodup_sort_sorted l : ssorted (nodup_sort l).
Proof. induction l; simpl; [constructor | apply ins_sorted; assumption]. Qed.

Lemma str_lt_irrefl a : ~ str_lt a a.
Proof. unfold str_lt. rewrite str_ltb_irrefl. discriminate. Qed.
Lemma str_lt_asym a b : str_lt a b -> str_lt b a -> False.
Proof. unfold str_lt. intros H1 H2. rewrite (str_ltb_asym _ _ H1) in H2. discriminate. Qed.

(* strongly sorted lists with the same members are EQUAL: the canonical form of a finite set of strings *)
Lemma ssorted_ext l1 : forall l2, ssorted l1 -> ssorted l2 -> (forall x, In x l1 <-> In x l2) -> l1 = l2.
Proof.
  induction l1 as [|a l1 IH]; intros l2 H1 H2 H.
  - destruct l2 as [|b l2]; [reflexivity|]. exfalso. apply (H b). left; reflexivity.
  - destruct l2 as [|b l2]; [exfalso; apply (H a); left; reflexivity|].
    inversion H1 as [|? ? Hs1 Ha]; inversion H2 as [|? ? Hs2 Hb]; subst.
    rewrite Forall_forall in Ha, Hb.
    assert (a = b).
    { destruct (proj1 (H a) (or_introl eq_refl)) as [E|E]; [congruence|].
      destruct (proj2 (H b) (or_introl eq_refl)) as [E'|E']; [congruence|].
      exfalso. exact (str_lt_asym _ _ (Hb _ E) (Ha _ E')). }
    subst b. f_equal. apply IH; auto. intros x. split; intros Hx.
    + destruct (proj1 (H x) (or_intror Hx)) as [E|E]; [|assumption]. subst.
      exfalso. exact (str_lt_irrefl _ (Ha _ Hx)).
    + destruct (proj2 (H x) (or_intror Hx)) as [E|E]; [|assumption]. subst.
      exfalso. exact (str_lt_irrefl _ (Hb _ Hx)).
Qed.

Lemma ssorted_NoDup l : ssorted l -> NoDup l.
Proof.
  induction 1 as [|a l Hs IH Ha]; constructor; [|assumption].
  intros Hin. rewrite Forall_forall in Ha. exact (str_lt_irrefl _ (Ha _ Hin)).
Qed.

(* sorting an already strictly sorted list changes nothing *)
Lemma nodup_sort_id l : ssorted l -> nodup_sort l = l.
Proof.
  induction 1 as [|a l Hs IH Ha]; [reflexivity|]. simpl. rewrite IH.
  destruct l as [|b l]; [reflexivity|]. simpl.
  inversion Ha as [|? ? Hab _]; subst. unfold str_lt in Hab. rewrite Hab. reflexivity.
Qed.
Lemma ssorted_filter (f : str -> bool) l : ssorted l -> ssorted (filter f l).
Proof.
  induction 1 as [|a l Hs IH Ha]; simpl; [constructor|].
  destruct (f a); [|assumption]. constructor; [assumption|].
  apply Forall_forall. intros x Hx. apply filter_In in Hx. rewrite Forall_forall in Ha. apply Ha. tauto.
Qed.
Lemma nodup_sort_idem l : nodup_sort (nodup_sort l) = nodup_sort l.
Proof. apply nodup_sort_id, nodup_sort_sorted. Qed.

(* boolean check of strict sortedness (used for the catalogue and in examples) *)
Fixpoint strictly_sorted (l : list str) : bool :=
  match l with
  | [] => true
  | a :: l' => match l' with [] => true | b :: _ => str_ltb a b && strictly_sorted l' end
  end.
Lemma strictly_sorted_ok l : strictly_sorted l = true -> ssorted l.
Proof.
  induction l as [|a l IH]; [constructor|]. destruct l as [|b l]; [repeat constructor|].
  cbn [strictly_sorted]. rewrite andb_true_iff. intros [Hab Hr]. specialize (IH Hr).
  constructor; [assumption|]. constructor; [exact Hab|].
  inversion IH as [|? ? _ Hb]; subst. eapply Forall_impl; [|exact Hb].
  intros c Hc. exact (str_ltb_trans _ _ _ Hab Hc).
Qed.

Lemma NoDup_app_disj {A} (l1 l2 : list A) :
  NoDup l1 -> NoDup l2 -> (forall a, In a l1 -> In a l2 -> False) -> NoDup (l1 ++ l2).
Proof.
  induction 1 as [|a l1 Ha H1 IH]; intros H2 Hd; simpl; [assumption|].
  constructor.
  - rewrite in_app_iff. intros [H|H]; [contradiction|]. apply (Hd a); [left; reflexivity | assumption].
  - apply IH; [assumption|]. intros b Hb1 Hb2. apply (Hd b); [right; assumption | assumption].
Qed.

(* set intersection of two lists, in the order of the first *)
Definition inter (l m : list str) : list str := filter (fun a => mem_str a m) l.
Lemma inter_In a l m : In a (inter l m) <-> In a l /\ In a m.
Proof. unfold inter. rewrite filter_In, mem_str_In. tauto. Qed.

(* ------------------------------------------------------------------------------------------------ *)
(* the set laws, for an abstract matcher *)

Section Laws.
Variable matches : str -> str -> bool.      (* matches pattern action *)
Variable cat : list str.

Definition any_match_g (ps : list str) (a : str) : bool := existsb (fun p => matches p a) ps.
Definition expand_g (ps : list str) : list str := nodup_sort (filter (any_match_g ps) cat).
Definition expand_not_g (ps : list str) : list str := nodup_sort (filter (fun a => negb (any_match_g ps a)) cat).

Lemma any_match_g_false ps a : any_match_g ps a = false <-> forall p, In p ps -> matches p a = false.
Proof.
  unfold any_match_g. split.
  - intros H p Hp. destruct (matches p a) eqn:E; [|reflexivity].
    assert (existsb (fun p => matches p a) ps = true) by (apply existsb_exists; eauto). congruence.
  - intros H. destruct (existsb (fun p => matches p a) ps) eqn:E; [|reflexivity].
    apply existsb_exists in E. destruct E as (p & Hp & Hm). rewrite (H p Hp) in Hm. discriminate.
Qed.

Theorem action_mem_g ps a : In a (expand_g ps) <-> In a cat /\ exists p, In p ps /\ matches p a = true.
Proof. unfold expand_g. rewrite nodup_sort_In, filter_In. unfold any_match_g. rewrite existsb_exists. tauto. Qed.

Theorem notaction_mem_g ps a : In a (expand_not_g ps) <-> In a cat /\ forall p, In p ps -> matches p a = false.
Proof. unfold expand_not_g. rewrite nodup_sort_In, filter_In, negb_true_iff, any_match_g_false. tauto. Qed.

Theorem sorted_nodup_g ps : ssorted (expand_g ps) /\ ssorted (expand_not_g ps).
Proof. split; apply nodup_sort_sorted. Qed.

Theorem partition_disjoint_g ps a : In a (expand_g ps) -> In a (expand_not_g ps) -> False.
Proof.
  rewrite action_mem_g, notaction_mem_g. intros [_ (p & Hp & Hm)] [_ H]. rewrite (H p Hp) in Hm. discriminate.
Qed.
Theorem partition_cover_g ps a : In a cat <-> In a (expand_g ps) \/ In a (expand_not_g ps).
Proof.
  unfold expand_g, expand_not_g. rewrite !nodup_sort_In, !filter_In. destruct (any_match_g ps a); simpl; intuition.
Qed.
Theorem partition_perm_g ps : Permutation (expand_g ps ++ expand_not_g ps) (nodup_sort cat).
Proof.
  apply NoDup_Permutation.
  - apply NoDup_app_disj; try (apply ssorted_NoDup, nodup_sort_sorted). intros a. apply partition_disjoint_g.
  - apply ssorted_NoDup, nodup_sort_sorted.
  - intros a. rewrite in_app_iff, nodup_sort_In. symmetry. apply partition_cover_g.
Qed.

Theorem union_law_g ps qs : expand_g (ps ++ qs) = nodup_sort (expand_g ps ++ expand_g qs).
Proof.
  apply ssorted_ext; try apply nodup_sort_sorted. intros a.
  rewrite nodup_sort_In, in_app_iff, !action_mem_g. split.
  - intros [Hc (p & Hp & Hm)]. apply in_app_iff in Hp. destruct Hp; [left|right]; eauto.
  - intros [[Hc (p & Hp & Hm)]|[Hc (p & Hp & Hm)]]; (split; [assumption|]); exists p; rewrite in_app_iff; auto.
Qed.
Theorem demorgan_mem_g ps qs a :
  In a (expand_not_g (ps ++ qs)) <-> In a (expand_not_g ps) /\ In a (expand_not_g qs).
Proof.
  rewrite !notaction_mem_g. split.
  - intros [Hc H]. split; (split; [assumption|]); intros p Hp; apply H; rewrite in_app_iff; auto.
  - intros [[Hc H1] [_ H2]]. split; [assumption|]. intros p Hp. apply in_app_iff in Hp. destruct Hp; auto.
Qed.
Theorem demorgan_law_g ps qs : expand_not_g (ps ++ qs) = inter (expand_not_g ps) (expand_not_g qs).
Proof.
  apply ssorted_ext; [apply nodup_sort_sorted | apply ssorted_filter, nodup_sort_sorted |].
  intros a. rewrite inter_In. apply demorgan_mem_g.
Qed.
(* on a catalogue that is already strictly sorted, expansion is the plain filter, in catalogue order *)
Theorem expand_g_filter ps : ssorted cat -> expand_g ps = filter (any_match_g ps) cat.
Proof. intros H. apply nodup_sort_id, ssorted_filter, H. Qed.
Theorem expand_not_g_filter ps : ssorted cat -> expand_not_g ps = filter (fun a => negb (any_match_g ps a)) cat.
Proof. intros H. apply nodup_sort_id, ssorted_filter, H. Qed.
End Laws.

(* ------------------------------------------------------------------------------------------------ *)
(* the instance that runs: patterns are IAM globs matched without regard to ASCII letter case (C08) *)

Definition any_match (ps : list str) (a : str) : bool := any_match_g glob_ci ps a.
Definition expand (cat ps : list str) : list str := expand_g glob_ci cat ps.
Definition expand_not (cat ps : list str) : list str := expand_not_g glob_ci cat ps.

(* action_expander._expand_action(action, not_action): one pattern *)
Definition expand_action (cat : list str) (p : str) (not_action : bool) : list str :=
  if not_action then expand_not cat [p] else expand cat [p].

(* action_expander._expand_actions(actions, not_action): a string or a list of strings *)
Inductive action_arg := OneAction (p : str) | ManyActions (ps : list str).
Definition expand_actions (cat : list str) (x : action_arg) (not_action : bool) : list str :=
  match x with
  | OneAction p => expand_action cat p not_action
  | ManyActions ps => if not_action then expand_not cat ps else expand cat ps
  end.

(* An Action / NotAction element as it appears in a statement: absent, one string, or a list. *)
Definition pats_of_value (v : value) : option (list str) :=
  match v with
  | VStr s => Some [s]
  | VList l => Some (strs_of v)
  | _ => None
  end.
Definition pats_or_nil (o : option (list str)) : list str := match o with Some l => l | None => [] end.

(* Statement.get_expanded_action_list(), SPECIFIED: the Action patterns expand to their union; a NotAction
   element, when present, expands to the catalogue entries matched by NONE of its patterns. *)
Definition stmt_pred (acts : list str) (nots : option (list str)) (a : str) : bool :=
  any_match acts a || match nots with Some ns => negb (any_match ns a) | None => false end.
Definition stmt_expanded (cat : list str) (acts : list str) (nots : option (list str)) : list str :=
  nodup_sort (filter (stmt_pred acts nots) cat).

(* what the code computed before the repair: the UNION of the per-pattern complements (kept to state the defect) *)
Definition stmt_expanded_defect (cat : list str) (acts : list str) (nots : option (list str)) : list str :=
  nodup_sort (expand cat acts ++ flat_map (fun p => expand_not cat [p]) (pats_or_nil nots)).

(* PolicyDocument *)
Record stmt := { s_effect : str; s_actions : list str; s_notactions : option (list str) }.
Definition S_ALLOW : str := [97; 108; 108; 111; 119].        (* "allow" *)
Definition S_IAM : str := [105; 97; 109; 58].                (* "iam:" *)
Definition is_allow (s : stmt) : bool := str_eqb (lower (s_effect s)) S_ALLOW.
Definition stmt_has (s : stmt) (a : str) : bool := stmt_pred (s_actions s) (s_notactions s) a.
Definition stmt_list (cat : list str) (s : stmt) : list str := stmt_expanded cat (s_actions s) (s_notactions s).

Definition allowed_actions (cat : list str) (ss : list stmt) : list str :=
  nodup_sort (filter (fun a => existsb (fun s => is_allow s && stmt_has s a) ss) cat).
Definition iam_actions (cat : list str) (ss : list stmt) : list str :=
  nodup_sort (filter (fun a => starts_with S_IAM a && existsb (fun s => stmt_has s a) ss) cat).
