(* C09 corollaries of the pattern algebra (Glob/GlobAlgebra.v): patterns that are equivalent as globs -- under the matcher used
   for action names, blind to ASCII letter case -- have the SAME expansion over ANY catalogue, in every entry point.
   Hence "a**" expands as "a*", "a*?" as "a?*", a pattern as its normal form; but "a*?" does NOT expand as "a*". *)
From Coq Require Import List Bool NArith Lia.
From PV Require Import Base.Str Base.Value Glob.Glob Glob.GlobAlgebra Run.RState Actions.Expand Actions.ExpandThm.
Import ListNotations.
Local Open Scope N_scope.

(* the normal form of GlobAlgebra at the running instance: code points, '*' = 42, '?' = 63 *)
Definition norm_pat (p : str) : str := norm N N.eqb STAR QM p.

(* equivalent as action patterns: they match the same names *)
Definition ci_equiv (p q : str) : Prop := forall a, glob_ci p a = glob_ci q a.

Lemma ci_equiv_refl p : ci_equiv p p.
Proof. intros a. reflexivity. Qed.
Lemma ci_equiv_sym p q : ci_equiv p q -> ci_equiv q p.
Proof. intros H a. symmetry. apply H. Qed.
Lemma ci_equiv_trans p q r : ci_equiv p q -> ci_equiv q r -> ci_equiv p r.
Proof. intros H1 H2 a. rewrite H1. apply H2. Qed.

(* ASCII case folding neither creates nor destroys a wildcard character *)
Lemma lower_cp_star c : N.eqb (lower_cp c) STAR = N.eqb c STAR.
Proof.
  unfold lower_cp, STAR. destruct ((65 <=? c) && (c <=? 90)) eqn:E; [|reflexivity].
  apply andb_true_iff in E. destruct E as [E1 E2]. apply N.leb_le in E1. apply N.leb_le in E2.
  rewrite (proj2 (N.eqb_neq (c + 32) 42)) by lia. rewrite (proj2 (N.eqb_neq c 42)) by lia. reflexivity.
Qed.
Lemma lower_cp_qm c : N.eqb (lower_cp c) QM = N.eqb c QM.
Proof.
  unfold lower_cp, QM. destruct ((65 <=? c) && (c <=? 90)) eqn:E; [|reflexivity].
  apply andb_true_iff in E. destruct E as [E1 E2]. apply N.leb_le in E1. apply N.leb_le in E2.
  rewrite (proj2 (N.eqb_neq (c + 32) 63)) by lia. rewrite (proj2 (N.eqb_neq c 63)) by lia. reflexivity.
Qed.
Lemma STAR_neq_QM : STAR <> QM.
Proof. discriminate. Qed.

(* ------------------------------------------------------------------------------------------------ *)
(* the algebra, for action patterns *)

Theorem ci_equiv_star_run p q n : ci_equiv (p ++ repeat STAR (S n) ++ q) (p ++ [STAR] ++ q).
Proof. intros a. exact (ci_star_run N N.eqb N.eqb_eq STAR QM lower_cp lower_cp_star p q n a). Qed.
Theorem ci_equiv_star_star p q : ci_equiv (p ++ [STAR; STAR] ++ q) (p ++ [STAR] ++ q).
Proof. exact (ci_equiv_star_run p q 1). Qed.
Theorem ci_equiv_star_qm p q : ci_equiv (p ++ [STAR; QM] ++ q) (p ++ [QM; STAR] ++ q).
Proof. intros a. exact (ci_star_qm_commute N N.eqb N.eqb_eq STAR QM lower_cp lower_cp_star lower_cp_qm p q a). Qed.
Theorem ci_equiv_norm p : ci_equiv (norm_pat p) p.
Proof. intros a. exact (ci_norm_correct N N.eqb N.eqb_eq STAR QM lower_cp lower_cp_star lower_cp_qm p a). Qed.
Theorem ci_equiv_case p : ci_equiv (lower p) p.
Proof. intros a. exact (glob_ci_fold_pattern N N.eqb STAR QM lower_cp p a lower_cp_idem). Qed.

(* ------------------------------------------------------------------------------------------------ *)
(* equivalent patterns, same expansion -- any catalogue *)

Lemma any_match_equiv ps qs : Forall2 ci_equiv ps qs -> forall a, any_match ps a = any_match qs a.
Proof.
  unfold any_match, any_match_g. induction 1 as [|p q ps qs Hpq Hrest IH]; intros a; [reflexivity|].
  cbn [existsb]. rewrite (Hpq a), (IH a). reflexivity.
Qed.

(* set-wise: every member of one list has an equivalent member in the other *)
Definition covers (ps qs : list str) : Prop := forall p, In p ps -> exists q, In q qs /\ ci_equiv p q.
Lemma any_match_covers ps qs : covers ps qs -> covers qs ps -> forall a, any_match ps a = any_match qs a.
Proof.
  intros H1 H2 a. unfold any_match, any_match_g.
  destruct (existsb (fun p => glob_ci p a) ps) eqn:E1; destruct (existsb (fun p => glob_ci p a) qs) eqn:E2; try reflexivity.
  - apply existsb_exists in E1. destruct E1 as (p & Hp & Hm). destruct (H1 p Hp) as (q & Hq & Heq).
    rewrite (Heq a) in Hm. assert (Ht : existsb (fun p => glob_ci p a) qs = true) by (apply existsb_exists; eauto). congruence.
  - apply existsb_exists in E2. destruct E2 as (q & Hq & Hm). destruct (H2 q Hq) as (p & Hp & Heq).
    rewrite (Heq a) in Hm. assert (Ht : existsb (fun p => glob_ci p a) ps = true) by (apply existsb_exists; eauto). congruence.
Qed.

Lemma expand_of_any_match cat ps qs : (forall a, any_match ps a = any_match qs a) ->
  expand cat ps = expand cat qs /\ expand_not cat ps = expand_not cat qs.
Proof.
  intros H. unfold expand, expand_not, expand_g, expand_not_g. split; f_equal; apply filter_ext; intros a.
  - exact (H a).
  - f_equal. exact (H a).
Qed.

(* expansion of a list is invariant under replacing members by equivalent ones (Action and NotAction alike) *)
Theorem expand_equiv cat ps qs : Forall2 ci_equiv ps qs ->
  expand cat ps = expand cat qs /\ expand_not cat ps = expand_not cat qs.
Proof. intros H. apply expand_of_any_match. apply any_match_equiv. exact H. Qed.

Theorem expand_equiv_sets cat ps qs : covers ps qs -> covers qs ps ->
  expand cat ps = expand cat qs /\ expand_not cat ps = expand_not cat qs.
Proof. intros H1 H2. apply expand_of_any_match. apply any_match_covers; assumption. Qed.

(* one pattern, every entry point *)
Theorem expand_action_equiv cat p q na : ci_equiv p q -> expand_action cat p na = expand_action cat q na.
Proof.
  intros H. assert (HF : Forall2 ci_equiv [p] [q]) by (constructor; [exact H | constructor]).
  destruct (expand_equiv cat [p] [q] HF) as [H1 H2]. unfold expand_action. destruct na; assumption.
Qed.

Inductive arg_equiv : action_arg -> action_arg -> Prop :=
| ae_one p q : ci_equiv p q -> arg_equiv (OneAction p) (OneAction q)
| ae_many ps qs : Forall2 ci_equiv ps qs -> arg_equiv (ManyActions ps) (ManyActions qs).

Theorem expand_actions_equiv cat x y na : arg_equiv x y -> expand_actions cat x na = expand_actions cat y na.
Proof.
  intros H. destruct H as [p q Hpq|ps qs HF]; cbn [expand_actions].
  - apply expand_action_equiv. exact Hpq.
  - destruct (expand_equiv cat ps qs HF) as [H1 H2]. destruct na; assumption.
Qed.

Theorem stmt_expanded_equiv cat acts acts' nots nots' :
  Forall2 ci_equiv acts acts' ->
  match nots, nots' with
  | Some ns, Some ns' => Forall2 ci_equiv ns ns'
  | None, None => True
  | _, _ => False
  end ->
  stmt_expanded cat acts nots = stmt_expanded cat acts' nots'.
Proof.
  intros Ha Hn. unfold stmt_expanded. f_equal. apply filter_ext. intros a. unfold stmt_pred.
  rewrite (any_match_equiv acts acts' Ha a). f_equal.
  destruct nots as [ns|], nots' as [ns'|]; try contradiction; [|reflexivity].
  rewrite (any_match_equiv ns ns' Hn a). reflexivity.
Qed.

(* ------------------------------------------------------------------------------------------------ *)
(* the corollaries asked for *)

Theorem expand_star_star cat p q na :
  expand_action cat (p ++ [STAR; STAR] ++ q) na = expand_action cat (p ++ [STAR] ++ q) na.
Proof. apply expand_action_equiv. apply ci_equiv_star_star. Qed.
Theorem expand_star_run cat p q n na :
  expand_action cat (p ++ repeat STAR (S n) ++ q) na = expand_action cat (p ++ [STAR] ++ q) na.
Proof. apply expand_action_equiv. apply ci_equiv_star_run. Qed.
Theorem expand_star_qm cat p q na :
  expand_action cat (p ++ [STAR; QM] ++ q) na = expand_action cat (p ++ [QM; STAR] ++ q) na.
Proof. apply expand_action_equiv. apply ci_equiv_star_qm. Qed.
Theorem expand_norm cat p na : expand_action cat (norm_pat p) na = expand_action cat p na.
Proof. apply expand_action_equiv. apply ci_equiv_norm. Qed.

Lemma Forall2_map_equiv (f : str -> str) ps : (forall p, ci_equiv (f p) p) -> Forall2 ci_equiv (map f ps) ps.
Proof. intros H. induction ps as [|p ps IH]; cbn [map]; constructor; [apply H | exact IH]. Qed.

Theorem expand_norm_list cat ps :
  expand cat (map norm_pat ps) = expand cat ps /\ expand_not cat (map norm_pat ps) = expand_not cat ps.
Proof. apply expand_equiv. apply Forall2_map_equiv. exact ci_equiv_norm. Qed.
Theorem expand_lower_list cat ps :
  expand cat (map lower ps) = expand cat ps /\ expand_not cat (map lower ps) = expand_not cat ps.
Proof. apply expand_equiv. apply Forall2_map_equiv. exact ci_equiv_case. Qed.

(* BUT "p*?" does not expand as "p*": a catalogue entry that is p with its stars deleted is in the second expansion and not
   in the first (and the other way round for NotAction) *)
Theorem expand_star_qm_is_not_star cat p q :
  let a := witness N N.eqb STAR p ++ witness N N.eqb STAR q in
  In a cat ->
  (In a (expand cat [p ++ [STAR] ++ q]) /\ ~ In a (expand cat [p ++ [STAR; QM] ++ q])) /\
  (~ In a (expand_not cat [p ++ [STAR] ++ q]) /\ In a (expand_not cat [p ++ [STAR; QM] ++ q])).
Proof.
  intros a Hin.
  destruct (ci_star_qm_is_not_star N N.eqb N.eqb_eq STAR QM lower_cp lower_cp_star lower_cp_qm p q STAR_neq_QM) as [Ht Hf].
  fold a in Ht, Hf. change (glob_ci (p ++ [STAR] ++ q) a = true) in Ht. change (glob_ci (p ++ [STAR; QM] ++ q) a = false) in Hf.
  split; split.
  - apply action_mem. split; [exact Hin|]. eexists. split; [left; reflexivity | exact Ht].
  - intros H. apply action_mem in H. destruct H as [_ (r & [<-|[]] & Hm)]. congruence.
  - intros H. apply notaction_mem in H. destruct H as [_ H]. specialize (H _ (or_introl eq_refl)). congruence.
  - apply notaction_mem. split; [exact Hin|]. intros r [<-|[]]. exact Hf.
Qed.
