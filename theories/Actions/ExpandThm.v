(* C09 -- theorems about the running instance (glob_ci) and the entry-point models. *)
From Coq Require Import List Bool NArith Lia Sorting.Sorted Permutation.
From PV Require Import Base.Str Base.Value Glob.Glob Run.RState Actions.Expand.
Import ListNotations.
Local Open Scope N_scope.

Theorem action_mem cat ps a :
  In a (expand cat ps) <-> In a cat /\ exists p, In p ps /\ glob_ci p a = true.
Proof. apply action_mem_g. Qed.

Theorem notaction_mem cat ps a :
  In a (expand_not cat ps) <-> In a cat /\ forall p, In p ps -> glob_ci p a = false.
Proof. apply notaction_mem_g. Qed.

Theorem sorted_nodup cat ps :
  StronglySorted str_lt (expand cat ps) /\ NoDup (expand cat ps) /\
  StronglySorted str_lt (expand_not cat ps) /\ NoDup (expand_not cat ps).
Proof.
  destruct (sorted_nodup_g glob_ci cat ps) as [H1 H2].
  repeat split; try assumption; apply ssorted_NoDup; assumption.
Qed.

Theorem partition cat ps :
  (forall a, In a (expand cat ps) -> In a (expand_not cat ps) -> False) /\
  (forall a, In a cat <-> In a (expand cat ps) \/ In a (expand_not cat ps)) /\
  Permutation (expand cat ps ++ expand_not cat ps) (nodup_sort cat).
Proof.
  split; [|split].
  - apply partition_disjoint_g.
  - apply partition_cover_g.
  - apply partition_perm_g.
Qed.

Theorem union_law cat ps qs : expand cat (ps ++ qs) = nodup_sort (expand cat ps ++ expand cat qs).
Proof. apply union_law_g. Qed.

(* a list expands to the union of its members *)
Theorem union_members cat ps : expand cat ps = nodup_sort (flat_map (fun p => expand cat [p]) ps).
Proof.
  apply ssorted_ext; try apply nodup_sort_sorted. intros a.
  rewrite nodup_sort_In, in_flat_map, action_mem. split.
  - intros [Hc (p & Hp & Hm)]. exists p. split; [assumption|]. apply action_mem. split; [assumption|].
    exists p. split; [left; reflexivity | assumption].
  - intros (p & Hp & Ha). apply action_mem in Ha. destruct Ha as [Hc (q & [<-|[]] & Hm)].
    split; [assumption|]. exists p. auto.
Qed.

Theorem demorgan_law cat ps qs :
  expand_not cat (ps ++ qs) = inter (expand_not cat ps) (expand_not cat qs).
Proof. apply demorgan_law_g. Qed.

(* NotAction of a list = what is left after removing every member's matches: in every member's complement *)
Theorem demorgan_members cat ps a :
  In a (expand_not cat ps) <-> In a cat /\ forall p, In p ps -> In a (expand_not cat [p]).
Proof.
  rewrite notaction_mem. split.
  - intros [Hc H]. split; [assumption|]. intros p Hp. apply notaction_mem. split; [assumption|].
    intros q [<-|[]]. auto.
  - intros [Hc H]. split; [assumption|]. intros p Hp. specialize (H p Hp). apply notaction_mem in H.
    apply H. left; reflexivity.
Qed.

Theorem expand_is_filter cat ps :
  StronglySorted str_lt cat ->
  expand cat ps = filter (any_match ps) cat /\
  expand_not cat ps = filter (fun a => negb (any_match ps a)) cat.
Proof. intros H. split; [apply expand_g_filter | apply expand_not_g_filter]; exact H. Qed.

(* ---- entry points ---- *)

Theorem api_single_vs_list cat p na :
  expand_action cat p na = expand_actions cat (ManyActions [p]) na /\
  expand_actions cat (OneAction p) na = expand_actions cat (ManyActions [p]) na.
Proof. split; destruct na; reflexivity. Qed.

Theorem api_list cat ps :
  expand_actions cat (ManyActions ps) false = expand cat ps /\
  expand_actions cat (ManyActions ps) true = expand_not cat ps.
Proof. split; reflexivity. Qed.

Lemma stmt_expanded_In cat acts nots a :
  In a (stmt_expanded cat acts nots) <->
  In a (expand cat acts) \/ (exists ns, nots = Some ns /\ In a (expand_not cat ns)).
Proof.
  unfold stmt_expanded, stmt_pred. rewrite nodup_sort_In, filter_In, orb_true_iff.
  unfold expand, expand_not, expand_g, expand_not_g. split.
  - intros [Hc [H|H]].
    + left. rewrite nodup_sort_In, filter_In. auto.
    + destruct nots as [ns|]; [|discriminate]. right. exists ns. split; [reflexivity|].
      rewrite nodup_sort_In, filter_In. auto.
  - intros [H|(ns & -> & H)]; rewrite nodup_sort_In, filter_In in H; destruct H as [Hc H]; auto.
Qed.

Theorem api_statement cat acts nots :
  stmt_expanded cat acts nots =
    nodup_sort (expand cat acts ++ match nots with Some ns => expand_not cat ns | None => [] end).
Proof.
  apply ssorted_ext; try apply nodup_sort_sorted. intros a.
  rewrite stmt_expanded_In, nodup_sort_In, in_app_iff. split.
  - intros [H|(ns & -> & H)]; auto.
  - intros [H|H]; [auto|]. destruct nots as [ns|]; [|contradiction]. right. eauto.
Qed.
Theorem api_statement_action_only cat acts : stmt_expanded cat acts None = expand cat acts.
Proof.
  rewrite api_statement, app_nil_r. apply nodup_sort_id, nodup_sort_sorted.
Qed.
Theorem api_statement_notaction_only cat ns : stmt_expanded cat [] (Some ns) = expand_not cat ns.
Proof.
  rewrite api_statement. replace (expand cat []) with (@nil str).
  - simpl. apply nodup_sort_id, nodup_sort_sorted.
  - unfold expand, expand_g. induction cat as [|c cat IH]; [reflexivity|]. simpl. exact IH.
Qed.

Lemma stmt_has_In cat s a : In a cat -> (stmt_has s a = true <-> In a (stmt_list cat s)).
Proof.
  intros Hc. unfold stmt_list, stmt_expanded, stmt_has. rewrite nodup_sort_In, filter_In. tauto.
Qed.

Theorem allowed_actions_In cat ss a :
  In a (allowed_actions cat ss) <-> exists s, In s ss /\ is_allow s = true /\ In a (stmt_list cat s).
Proof.
  unfold allowed_actions. rewrite nodup_sort_In, filter_In, existsb_exists. split.
  - intros [Hc (s & Hs & H)]. apply andb_true_iff in H. destruct H as [H1 H2].
    exists s. repeat split; try assumption. apply stmt_has_In; assumption.
  - intros (s & Hs & H1 & H2). assert (Hc : In a cat).
    { unfold stmt_list, stmt_expanded in H2. rewrite nodup_sort_In, filter_In in H2. tauto. }
    split; [assumption|]. exists s. split; [assumption|]. rewrite H1. simpl. apply (stmt_has_In cat); assumption.
Qed.
Theorem api_allowed cat ss :
  allowed_actions cat ss = nodup_sort (flat_map (stmt_list cat) (filter is_allow ss)).
Proof.
  apply ssorted_ext; try apply nodup_sort_sorted. intros a.
  rewrite allowed_actions_In, nodup_sort_In, in_flat_map. split.
  - intros (s & Hs & H1 & H2). exists s. rewrite filter_In. auto.
  - intros (s & Hs & H2). apply filter_In in Hs. destruct Hs. eauto.
Qed.

Theorem iam_actions_In cat ss a :
  In a (iam_actions cat ss) <-> (exists r, a = S_IAM ++ r) /\ exists s, In s ss /\ In a (stmt_list cat s).
Proof.
  unfold iam_actions. rewrite nodup_sort_In, filter_In, andb_true_iff, starts_with_spec, existsb_exists. split.
  - intros [Hc [Hp (s & Hs & H)]]. split; [assumption|]. exists s. split; [assumption|].
    apply stmt_has_In; assumption.
  - intros [Hp (s & Hs & H2)]. assert (Hc : In a cat).
    { unfold stmt_list, stmt_expanded in H2. rewrite nodup_sort_In, filter_In in H2. tauto. }
    split; [assumption|]. split; [assumption|]. exists s. split; [assumption|].
    apply (stmt_has_In cat); assumption.
Qed.
Theorem api_iam cat ss :
  iam_actions cat ss = nodup_sort (filter (starts_with S_IAM) (flat_map (stmt_list cat) ss)).
Proof.
  apply ssorted_ext; try apply nodup_sort_sorted. intros a.
  rewrite iam_actions_In, nodup_sort_In, filter_In, in_flat_map, starts_with_spec. tauto.
Qed.

(* one Allow statement: every API returns the same list *)
Theorem api_one_statement cat s :
  is_allow s = true -> allowed_actions cat [s] = stmt_list cat s.
Proof.
  intros H. rewrite api_allowed. simpl. rewrite H. simpl. rewrite app_nil_r.
  apply nodup_sort_id. apply nodup_sort_sorted.
Qed.
