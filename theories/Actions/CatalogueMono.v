(* C09 / C10 -- what happens to an expansion when the CATALOGUE changes (an upstream release adds actions).
   [cat] the old catalogue, [cat'] the new one, every entry of [cat] an entry of [cat'] ([incl cat cat']).
   * MONOTONE: the expansion over [cat] is the expansion over [cat'] restricted to [cat], for Action and for NotAction alike
     -- for ANY two lists, no well-formedness needed (expansion sorts and de-duplicates on its own);
   * FIXED POINT: a strictly sorted list of entries of a well-formed catalogue expands to itself; hence an expansion made with
     the old catalogue is unchanged by an expansion with the new one, PROVIDED the new one is well-formed; the exact condition
     (old catalogue well-formed): no entry of the new catalogue differs from an old entry by letter case only;
   * canonical form: the length of an expansion is at most the length of the catalogue. *)
From Coq Require Import List Bool NArith Lia Sorting.Sorted Permutation.
From PV Require Import Base.Str Base.Value Glob.Glob Run.RState.
From PV Require Import Actions.Expand Actions.ExpandThm Actions.Catalogue Actions.Tree Actions.TreeThm.
Import ListNotations.
Local Open Scope N_scope.

(* ------------------------------------------------------------------------------------------------ *)
(* lengths *)

Lemma ins_length x l : (length (ins x l) <= S (length l))%nat.
Proof.
  induction l as [|y l IH]; cbn [ins length]; [lia|].
  destruct (str_ltb x y) eqn:E1; cbn [length]; [lia|].
  destruct (str_eqb x y) eqn:E2; cbn [length]; lia.
Qed.
Lemma nodup_sort_length l : (length (nodup_sort l) <= length l)%nat.
Proof.
  induction l as [|x l IH]; cbn [nodup_sort fold_right length]; [lia|].
  fold (nodup_sort l). pose proof (ins_length x (nodup_sort l)) as H. lia.
Qed.
Lemma filter_length {A} (f : A -> bool) l : (length (filter f l) <= length l)%nat.
Proof. induction l as [|x l IH]; cbn [filter length]; [lia|]. destruct (f x) eqn:E; cbn [length]; lia. Qed.

Theorem expand_length cat ps : (length (expand cat ps) <= length cat)%nat.
Proof.
  unfold expand, expand_g. pose proof (nodup_sort_length (filter (any_match_g glob_ci ps) cat)) as H1.
  pose proof (filter_length (any_match_g glob_ci ps) cat) as H2. lia.
Qed.
Theorem expand_not_length cat ps : (length (expand_not cat ps) <= length cat)%nat.
Proof.
  unfold expand_not, expand_not_g.
  pose proof (nodup_sort_length (filter (fun a => negb (any_match_g glob_ci ps a)) cat)) as H1.
  pose proof (filter_length (fun a => negb (any_match_g glob_ci ps a)) cat) as H2. lia.
Qed.
(* Action and NotAction of the same patterns together: exactly the distinct entries of the catalogue *)
Theorem expand_lengths_add cat ps :
  (length (expand cat ps) + length (expand_not cat ps) = length (nodup_sort cat))%nat.
Proof.
  destruct (partition cat ps) as (_ & _ & HP). apply Permutation_length in HP. rewrite app_length in HP. exact HP.
Qed.

Theorem expand_incl_cat cat ps : incl (expand cat ps) cat /\ incl (expand_not cat ps) cat.
Proof.
  split; intros a Ha.
  - apply action_mem in Ha. tauto.
  - apply notaction_mem in Ha. tauto.
Qed.

(* ------------------------------------------------------------------------------------------------ *)
(* MONOTONE in the catalogue *)

(* every entry of [cat] is an entry of [cat'], as a check *)
Definition sub_catalogue (cat cat' : list str) : bool := forallb (fun a => mem_str a cat') cat.
Lemma sub_catalogue_incl cat cat' : sub_catalogue cat cat' = true <-> incl cat cat'.
Proof.
  unfold sub_catalogue. rewrite forallb_forall. split.
  - intros H a Ha. apply mem_str_In. apply H. exact Ha.
  - intros H a Ha. apply mem_str_In. apply H. exact Ha.
Qed.

(* the members of [l] that are entries of [cat], in the order of [l] *)
Definition restrict (cat l : list str) : list str := filter (fun a => mem_str a cat) l.
Lemma restrict_In cat l a : In a (restrict cat l) <-> In a l /\ In a cat.
Proof. unfold restrict. rewrite filter_In, mem_str_In. tauto. Qed.

Theorem expand_mono cat cat' ps : incl cat cat' -> expand cat ps = restrict cat (expand cat' ps).
Proof.
  intros Hi. apply ssorted_ext; [apply nodup_sort_sorted | apply ssorted_filter, nodup_sort_sorted |].
  intros a. rewrite restrict_In, !action_mem. split.
  - intros [Hc Hm]. split; [split; [apply Hi; exact Hc | exact Hm] | exact Hc].
  - intros [[_ Hm] Hc]. split; assumption.
Qed.
Theorem expand_not_mono cat cat' ps : incl cat cat' -> expand_not cat ps = restrict cat (expand_not cat' ps).
Proof.
  intros Hi. apply ssorted_ext; [apply nodup_sort_sorted | apply ssorted_filter, nodup_sort_sorted |].
  intros a. rewrite restrict_In, !notaction_mem. split.
  - intros [Hc Hm]. split; [split; [apply Hi; exact Hc | exact Hm] | exact Hc].
  - intros [[_ Hm] Hc]. split; assumption.
Qed.

(* said member by member: nothing returned before disappears; whatever is new in the result is new in the catalogue *)
Theorem expand_mono_mem cat cat' ps : incl cat cat' ->
  (forall a, In a (expand cat ps) -> In a (expand cat' ps)) /\
  (forall a, In a (expand cat' ps) -> ~ In a (expand cat ps) -> In a cat' /\ ~ In a cat) /\
  (forall a, In a (expand_not cat ps) -> In a (expand_not cat' ps)) /\
  (forall a, In a (expand_not cat' ps) -> ~ In a (expand_not cat ps) -> In a cat' /\ ~ In a cat).
Proof.
  intros Hi. split; [|split; [|split]].
  - intros a Ha. rewrite (expand_mono cat cat' ps Hi) in Ha. apply restrict_In in Ha. tauto.
  - intros a Ha Hn. split; [apply action_mem in Ha; tauto|].
    intros Hc. apply Hn. rewrite (expand_mono cat cat' ps Hi). apply restrict_In. split; assumption.
  - intros a Ha. rewrite (expand_not_mono cat cat' ps Hi) in Ha. apply restrict_In in Ha. tauto.
  - intros a Ha Hn. split; [apply notaction_mem in Ha; tauto|].
    intros Hc. apply Hn. rewrite (expand_not_mono cat cat' ps Hi). apply restrict_In. split; assumption.
Qed.

(* two catalogues with the same entries (any order, any repetition) expand alike *)
Theorem expand_same_entries cat cat' ps : (forall a, In a cat <-> In a cat') ->
  expand cat ps = expand cat' ps /\ expand_not cat ps = expand_not cat' ps.
Proof.
  intros H. split; (apply ssorted_ext; [apply nodup_sort_sorted | apply nodup_sort_sorted |]); intros a.
  - rewrite !action_mem, (H a). tauto.
  - rewrite !notaction_mem, (H a). tauto.
Qed.

(* ------------------------------------------------------------------------------------------------ *)
(* FIXED POINTS *)

(* over a well-formed catalogue, a strictly sorted list of entries expands to itself ... *)
Theorem expand_entries_fixed cat l : catalogue_spec cat -> StronglySorted str_lt l -> incl l cat -> expand cat l = l.
Proof.
  intros Hc Hs Hi. apply ssorted_ext; [apply nodup_sort_sorted | exact Hs |]. intros a. rewrite action_mem. split.
  - intros [Ha (p & Hp & Hm)]. apply (entry_matches_itself_only cat Hc p a (Hi p Hp) Ha) in Hm. subst. exact Hp.
  - intros Ha. split; [apply Hi; exact Ha|]. exists a. split; [exact Ha|].
    apply (entry_matches_itself_only cat Hc a a (Hi a Ha) (Hi a Ha)). reflexivity.
Qed.
(* ... and its NotAction expansion is its complement *)
Theorem expand_not_entries cat l a : catalogue_spec cat -> incl l cat ->
  (In a (expand_not cat l) <-> In a cat /\ ~ In a l).
Proof.
  intros Hc Hi. rewrite notaction_mem. split.
  - intros [Ha H]. split; [exact Ha|]. intros Hl. specialize (H a Hl).
    assert (Ht : glob_ci a a = true) by (apply (entry_matches_itself_only cat Hc a a Ha Ha); reflexivity). congruence.
  - intros [Ha Hn]. split; [exact Ha|]. intros p Hp. destruct (glob_ci p a) eqn:E; [|reflexivity]. exfalso.
    apply (entry_matches_itself_only cat Hc p a (Hi p Hp) Ha) in E. subst. contradiction.
Qed.

(* idempotence survives a catalogue update: what was expanded with the old catalogue is a fixed point of expansion with
   the new one, when the NEW catalogue is well-formed (nothing is asked of the old one beyond being a part of the new) *)
Theorem expand_fixed_after_update cat cat' ps : catalogue_spec cat' -> incl cat cat' ->
  expand cat' (expand cat ps) = expand cat ps /\ expand cat' (expand_not cat ps) = expand_not cat ps.
Proof.
  intros Hc Hi. split; (apply expand_entries_fixed; [exact Hc | apply nodup_sort_sorted |]); intros a Ha; apply Hi.
  - apply action_mem in Ha. tauto.
  - apply notaction_mem in Ha. tauto.
Qed.

(* a NotAction element expanded with the old catalogue and expanded AGAIN with the new one: the actions matched by the
   patterns (the involution) together with every action the update added *)
Theorem expand_not_twice_after_update cat cat' ps a : catalogue_spec cat' -> incl cat cat' ->
  (In a (expand_not cat' (expand_not cat ps)) <-> In a (expand cat ps) \/ (In a cat' /\ ~ In a cat)).
Proof.
  intros Hc Hi.
  assert (Hin : incl (expand_not cat ps) cat') by (intros b Hb; apply Hi; apply notaction_mem in Hb; tauto).
  rewrite (expand_not_entries cat' (expand_not cat ps) a Hc Hin). split.
  - intros [Ha Hn]. destruct (in_dec (fun x y => list_eq_dec N.eq_dec x y) a cat) as [Hcat|Hcat]; [|right; tauto].
    left. destruct (proj1 (partition_cover_g glob_ci cat ps a) Hcat) as [H|H]; [exact H | contradiction].
  - intros [Ha|[Ha Hn]].
    + split; [apply Hi; apply action_mem in Ha; tauto|]. intros Hb. exact (partition_disjoint_g glob_ci cat ps a Ha Hb).
    + split; [exact Ha|]. intros Hb. apply Hn. apply notaction_mem in Hb. tauto.
Qed.

(* THE EXACT CONDITION (old catalogue well-formed): expansions over [cat] are fixed points of expansion over [cat'] for every
   pattern list IF AND ONLY IF no entry of [cat'] differs from an entry of [cat] by ASCII letter case only *)
Definition no_case_variant (cat cat' : list str) : Prop :=
  forall q a, In q cat -> In a cat' -> lower a = lower q -> a = q.

Lemma entry_no_wild cat q : catalogue_spec cat -> In q cat -> ~ In STAR q /\ ~ In QM q.
Proof. intros (_ & _ & _ & He) Hq. rewrite Forall_forall in He. destruct (He q Hq) as (_ & H1 & H2 & _). tauto. Qed.

Theorem fixed_after_update_iff cat cat' : catalogue_spec cat -> incl cat cat' ->
  ((forall ps, expand cat' (expand cat ps) = expand cat ps) <-> no_case_variant cat cat').
Proof.
  intros Hc Hi. split.
  - intros H q a Hq Ha E. destruct (entry_no_wild cat q Hc Hq) as [W1 W2].
    assert (Hqq : In q (expand cat [q])).
    { apply action_mem. split; [exact Hq|]. exists q. split; [left; reflexivity|]. apply (glob_ci_literal q q W1 W2). reflexivity. }
    assert (Haa : In a (expand cat' (expand cat [q]))).
    { apply action_mem. split; [exact Ha|]. exists q. split; [exact Hqq|]. apply (glob_ci_literal q a W1 W2). exact E. }
    rewrite (H [q]) in Haa. apply action_mem in Haa. destruct Haa as [Hac (p & [<-|[]] & Hm)].
    apply (entry_matches_itself_only cat Hc q a Hq Hac). exact Hm.
  - intros H ps. apply ssorted_ext; [apply nodup_sort_sorted | apply nodup_sort_sorted |]. intros a.
    rewrite (action_mem cat' (expand cat ps)). split.
    + intros [Ha (q & Hq & Hm)]. assert (Hqc : In q cat) by (apply action_mem in Hq; tauto).
      destruct (entry_no_wild cat q Hc Hqc) as [W1 W2]. apply (glob_ci_literal q a W1 W2) in Hm.
      rewrite (H q a Hqc Ha Hm). exact Hq.
    + intros Ha. assert (Hac : In a cat) by (apply action_mem in Ha; tauto). split; [apply Hi; exact Hac|].
      exists a. split; [exact Ha|]. destruct (entry_no_wild cat a Hc Hac) as [W1 W2].
      apply (glob_ci_literal a a W1 W2). reflexivity.
Qed.

(* a well-formed new catalogue has no case variants (of anything in it) *)
Lemma ok_no_case_variant cat cat' : catalogue_spec cat' -> incl cat cat' -> no_case_variant cat cat'.
Proof.
  intros (_ & _ & Hl & _) Hi q a Hq Ha E. exact (NoDup_map_inj lower cat' a q Hl Ha (Hi q Hq) E).
Qed.
