(* Staged twins of the C09/C10 model functions, used by the extracted runner: each pattern is tokenised once per call
   and each catalogue entry is lower-cased once per sweep (instead of once per (pattern, entry) pair).
   Every twin is proved EQUAL to the plain definition the theorems are about. *)
From Coq Require Import List Bool NArith Lia.
From PV Require Import Base.Str Base.Value Glob.Glob Run.RState Actions.Expand Actions.Tree.
Import ListNotations.
Local Open Scope N_scope.

Definition ptok := list (tok N).
Definition ptoks (p : str) : ptok := tokens N N.eqb STAR QM (map lower_cp p).
Definition any_tok (tps : list ptok) (la : str) : bool := existsb (fun tp => gmb N N.eqb tp la) tps.

Lemma any_tok_ok ps a : any_tok (map ptoks ps) (map lower_cp a) = any_match ps a.
Proof.
  unfold any_tok, any_match, any_match_g. induction ps as [|p ps IH]; [reflexivity|].
  cbn [map existsb]. rewrite IH. reflexivity.
Qed.

Definition expand_fast (cat ps : list str) : list str :=
  let tps := map ptoks ps in nodup_sort (filter (fun a => any_tok tps (map lower_cp a)) cat).
Definition expand_not_fast (cat ps : list str) : list str :=
  let tps := map ptoks ps in nodup_sort (filter (fun a => negb (any_tok tps (map lower_cp a))) cat).

Lemma expand_fast_ok cat ps : expand_fast cat ps = expand cat ps.
Proof.
  unfold expand_fast, expand, expand_g. cbv zeta. f_equal. apply filter_ext. intros a. apply any_tok_ok.
Qed.
Lemma expand_not_fast_ok cat ps : expand_not_fast cat ps = expand_not cat ps.
Proof.
  unfold expand_not_fast, expand_not, expand_not_g. cbv zeta. f_equal. apply filter_ext. intros a.
  f_equal. apply any_tok_ok.
Qed.

Definition expand_action_fast (cat : list str) (p : str) (na : bool) : list str :=
  if na then expand_not_fast cat [p] else expand_fast cat [p].
Definition expand_actions_fast (cat : list str) (x : action_arg) (na : bool) : list str :=
  match x with
  | OneAction p => expand_action_fast cat p na
  | ManyActions ps => if na then expand_not_fast cat ps else expand_fast cat ps
  end.
Lemma expand_action_fast_ok cat p na : expand_action_fast cat p na = expand_action cat p na.
Proof. unfold expand_action_fast, expand_action. rewrite expand_fast_ok, expand_not_fast_ok. reflexivity. Qed.
Lemma expand_actions_fast_ok cat x na : expand_actions_fast cat x na = expand_actions cat x na.
Proof.
  destruct x; cbn [expand_actions_fast expand_actions];
    rewrite ?expand_action_fast_ok, ?expand_fast_ok, ?expand_not_fast_ok; reflexivity.
Qed.

(* statements *)
Record pstmt := { p_allow : bool; p_acts : list ptok; p_nots : option (list ptok) }.
Definition prep_stmt (s : stmt) : pstmt :=
  {| p_allow := is_allow s; p_acts := map ptoks (s_actions s);
     p_nots := match s_notactions s with Some ns => Some (map ptoks ns) | None => None end |}.
Definition pstmt_has (ps : pstmt) (la : str) : bool :=
  any_tok (p_acts ps) la || match p_nots ps with Some t => negb (any_tok t la) | None => false end.

Lemma pstmt_has_ok s a : pstmt_has (prep_stmt s) (map lower_cp a) = stmt_has s a.
Proof.
  unfold pstmt_has, prep_stmt, stmt_has, stmt_pred. cbn [p_acts p_nots]. rewrite any_tok_ok.
  destruct (s_notactions s) as [ns|]; [rewrite any_tok_ok|]; reflexivity.
Qed.

Definition stmt_list_fast (cat : list str) (s : stmt) : list str :=
  let ps := prep_stmt s in nodup_sort (filter (fun a => pstmt_has ps (map lower_cp a)) cat).
Lemma stmt_list_fast_ok cat s : stmt_list_fast cat s = stmt_list cat s.
Proof.
  unfold stmt_list_fast, stmt_list, stmt_expanded. cbv zeta. f_equal. apply filter_ext. intros a.
  apply pstmt_has_ok.
Qed.

Definition allowed_actions_fast (cat : list str) (ss : list stmt) : list str :=
  let pss := map prep_stmt ss in
  nodup_sort (filter (fun a => let la := map lower_cp a in existsb (fun ps => p_allow ps && pstmt_has ps la) pss) cat).
Definition iam_actions_fast (cat : list str) (ss : list stmt) : list str :=
  let pss := map prep_stmt ss in
  nodup_sort (filter (fun a => starts_with S_IAM a &&
                               (let la := map lower_cp a in existsb (fun ps => pstmt_has ps la) pss)) cat).

Lemma existsb_map {A B} (f : B -> bool) (g : A -> B) l : existsb f (map g l) = existsb (fun x => f (g x)) l.
Proof. induction l as [|x l IH]; [reflexivity|]. cbn [map existsb]. rewrite IH. reflexivity. Qed.
Lemma existsb_ext {A} (f g : A -> bool) l : (forall x, f x = g x) -> existsb f l = existsb g l.
Proof. intros H. induction l as [|x l IH]; [reflexivity|]. cbn [existsb]. rewrite H, IH. reflexivity. Qed.

Lemma allowed_actions_fast_ok cat ss : allowed_actions_fast cat ss = allowed_actions cat ss.
Proof.
  unfold allowed_actions_fast, allowed_actions. cbv zeta. f_equal. apply filter_ext. intros a.
  rewrite existsb_map. apply existsb_ext. intros s. rewrite pstmt_has_ok. reflexivity.
Qed.
Lemma iam_actions_fast_ok cat ss : iam_actions_fast cat ss = iam_actions cat ss.
Proof.
  unfold iam_actions_fast, iam_actions. cbv zeta. f_equal. apply filter_ext. intros a. f_equal.
  rewrite existsb_map. apply existsb_ext. intros s. apply pstmt_has_ok.
Qed.

(* the tree walk depends on the two expansion functions only through their values *)
Lemma walk_ext (eA eN eA' eN' : list str -> list str) :
  (forall ps, eA ps = eA' ps) -> (forall ps, eN ps = eN' ps) -> forall v, walk eA eN v = walk eA' eN' v.
Proof.
  intros HA HN v. induction v as [| | | | | |l IH|d IH] using value_ind'; try reflexivity.
  - rewrite !walk_list. f_equal. induction IH as [|x l Hx Hl IHl]; [reflexivity|]. cbn [map]. rewrite Hx, IHl. reflexivity.
  - rewrite !walk_dict. f_equal. induction IH as [|[k x] r Hx Hr IHr]; [reflexivity|]. cbn [map fst snd] in *.
    rewrite IHr. f_equal. f_equal. unfold walk_member. rewrite Hx.
    destruct (action_text x); [rewrite HA, HN|]; reflexivity.
Qed.

Definition expand_tree_fast (cat : list str) : value -> value := walk (expand_fast cat) (expand_not_fast cat).
Definition expand_model_fast (cat : list str) : value -> value := walk_model (expand_fast cat) (expand_not_fast cat).
Lemma expand_tree_fast_ok cat v : expand_tree_fast cat v = expand_tree cat v.
Proof. apply walk_ext; intros ps; [apply expand_fast_ok | apply expand_not_fast_ok]. Qed.
Lemma expand_model_fast_ok cat t : expand_model_fast cat t = expand_model cat t.
Proof.
  unfold expand_model_fast, expand_model, walk_model. destruct t; try reflexivity. f_equal.
  apply map_ext. intros [k x]. cbn [fst snd]. destruct (str_eqb k K_RESOURCES); [|reflexivity].
  destruct x; try reflexivity. f_equal. f_equal. apply map_ext. intros [n r]. cbn [fst snd]. f_equal.
  apply expand_tree_fast_ok.
Qed.

(* Second stage, for the tree walk (one sweep per Action element): the catalogue is lower-cased ONCE per walk. *)
Definition prelower (cat : list str) : list (str * str) := map (fun a => (a, map lower_cp a)) cat.
Definition expand_pre (lcat : list (str * str)) (ps : list str) : list str :=
  let tps := map ptoks ps in nodup_sort (map fst (filter (fun al => any_tok tps (snd al)) lcat)).
Definition expand_not_pre (lcat : list (str * str)) (ps : list str) : list str :=
  let tps := map ptoks ps in nodup_sort (map fst (filter (fun al => negb (any_tok tps (snd al))) lcat)).

Lemma filter_prelower (f : str -> bool) cat :
  map fst (filter (fun al => f (snd al)) (prelower cat)) = filter (fun a => f (map lower_cp a)) cat.
Proof.
  induction cat as [|a cat IH]; [reflexivity|].
  change (prelower (a :: cat)) with ((a, map lower_cp a) :: prelower cat). cbn [filter snd].
  destruct (f (map lower_cp a)); cbn [map fst]; rewrite IH; reflexivity.
Qed.
Lemma expand_pre_ok cat ps : expand_pre (prelower cat) ps = expand cat ps.
Proof.
  rewrite <- expand_fast_ok. unfold expand_pre, expand_fast. cbv zeta.
  rewrite (filter_prelower (any_tok (map ptoks ps))). reflexivity.
Qed.
Lemma expand_not_pre_ok cat ps : expand_not_pre (prelower cat) ps = expand_not cat ps.
Proof.
  rewrite <- expand_not_fast_ok. unfold expand_not_pre, expand_not_fast. cbv zeta.
  rewrite (filter_prelower (fun la => negb (any_tok (map ptoks ps) la))). reflexivity.
Qed.

Definition expand_tree_pre (cat : list str) (v : value) : value :=
  let lcat := prelower cat in walk (expand_pre lcat) (expand_not_pre lcat) v.
Definition expand_model_pre (cat : list str) (t : value) : value :=
  let lcat := prelower cat in walk_model (expand_pre lcat) (expand_not_pre lcat) t.
Definition expand_model_twice_pre (cat : list str) (t : value) : value :=
  let lcat := prelower cat in
  walk_model (expand_pre lcat) (expand_not_pre lcat) (walk_model (expand_pre lcat) (expand_not_pre lcat) t).

Lemma expand_tree_pre_ok cat v : expand_tree_pre cat v = expand_tree cat v.
Proof. apply walk_ext; intros ps; [apply expand_pre_ok | apply expand_not_pre_ok]. Qed.
Lemma walk_model_ext (eA eN eA' eN' : list str -> list str) :
  (forall ps, eA ps = eA' ps) -> (forall ps, eN ps = eN' ps) -> forall t, walk_model eA eN t = walk_model eA' eN' t.
Proof.
  intros HA HN t. unfold walk_model. destruct t; try reflexivity. f_equal.
  apply map_ext. intros [k x]. cbn [fst snd]. destruct (str_eqb k K_RESOURCES); [|reflexivity].
  destruct x; try reflexivity. f_equal. f_equal. apply map_ext. intros [n r]. cbn [fst snd]. f_equal.
  apply walk_ext; assumption.
Qed.
Lemma expand_model_pre_ok cat t : expand_model_pre cat t = expand_model cat t.
Proof. apply walk_model_ext; intros ps; [apply expand_pre_ok | apply expand_not_pre_ok]. Qed.
Lemma expand_model_twice_pre_ok cat t : expand_model_twice_pre cat t = expand_model cat (expand_model cat t).
Proof.
  unfold expand_model_twice_pre. cbv zeta.
  rewrite (walk_model_ext _ _ (expand cat) (expand_not cat) (expand_pre_ok cat) (expand_not_pre_ok cat)).
  fold (expand_model cat). f_equal.
  apply walk_model_ext; intros ps; [apply expand_pre_ok | apply expand_not_pre_ok].
Qed.
