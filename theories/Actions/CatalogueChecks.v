(* Finite proof about the SHIPPED catalogue (gen/Catalogue.v is regenerated from the live
   pycfmodel/cloudformation_actions.py on every run, so this file is re-proved against the source as it is now). *)
From Coq Require Import List Bool NArith Sorting.Sorted.
From PV Require Import Base.Str Base.Value Run.RState Actions.Expand Actions.ExpandThm Actions.Catalogue Actions.Tree Actions.TreeThm.
From PVGen Require Import Catalogue.
Import ListNotations.

(* sorted (code-point order), duplicate-free, duplicate-free ignoring case, every entry service:Name without wildcards *)
Theorem Catalogue_ok : catalogue_ok CATALOGUE = true.
Proof. vm_compute. reflexivity. Qed.

Theorem Catalogue_spec : catalogue_spec CATALOGUE.
Proof. exact (catalogue_ok_spec CATALOGUE Catalogue_ok). Qed.

(* consequences for the shipped catalogue: expansion is the plain filter, and is idempotent *)
Theorem Shipped_expand_is_filter : forall ps,
  expand CATALOGUE ps = filter (any_match ps) CATALOGUE /\
  expand_not CATALOGUE ps = filter (fun a => negb (any_match ps a)) CATALOGUE.
Proof. intros ps. apply expand_is_filter. exact (proj1 Catalogue_spec). Qed.

Theorem Shipped_idempotent_action : forall ps, expand CATALOGUE (expand CATALOGUE ps) = expand CATALOGUE ps.
Proof. intros ps. exact (expand_idem CATALOGUE ps Catalogue_spec). Qed.

Theorem Shipped_idempotent_tree : forall v,
  frame_rel is_notaction_key (expand_tree CATALOGUE v) (expand_tree CATALOGUE (expand_tree CATALOGUE v)).
Proof. intros v. exact (expand_tree_twice CATALOGUE v Catalogue_spec). Qed.

Print Assumptions Catalogue_spec.
Print Assumptions Shipped_expand_is_filter.
Print Assumptions Shipped_idempotent_action.
Print Assumptions Shipped_idempotent_tree.
