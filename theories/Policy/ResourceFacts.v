(* Theorems about the resource side of the C16 model (Policy/Policy.v): get_resource_list, resources_with,
   get_action_list with its two flags, PolicyDocument.statements_with and get_iam_actions.
   All for arbitrary inputs; no bounds. *)
From Coq Require Import List Bool NArith ZArith Lia Sorted Permutation.
From PV Require Import Base.Str Base.Value Policy.StrSet Policy.Policy Policy.PolicyFacts.
Import ListNotations.

(* ------------------------------------------------------------------------------------------ *)
(* get_resource_list *)

(* declarative reading: r is the string / a member of the list found under Resource or under NotResource *)
Definition resource_named (st : stmt) (r : value) : Prop :=
  field_names (resource st) r \/ field_names (not_resource st) r.

Theorem resource_list_complete st r : In r (resource_list st) <-> resource_named st r.
Proof. unfold resource_list, resource_named. rewrite in_app_iff, !field_items_spec. tauto. Qed.

(* order: everything of Resource before everything of NotResource, each in input order *)
Theorem resource_list_order st :
  resource_list st = field_items (resource st) ++ field_items (not_resource st).
Proof. reflexivity. Qed.

(* the shapes one by one *)
Theorem field_items_shapes :
  field_items VNull = [] /\
  (forall s, field_items (VStr s) = [VStr s]) /\
  (forall l, field_items (VList l) = l) /\
  (forall d, field_items (VDict d) = []).
Proof. repeat split. Qed.

(* a function object inside a list is enumerated (it is a member like any other) ... *)
Theorem resource_list_keeps_member_objects st l d :
  resource st = VList l -> In (VDict d) l -> In (VDict d) (resource_list st).
Proof. intros E H. apply resource_list_complete. left. rewrite E. constructor. exact H. Qed.

(* ... but nothing that is not a string is ever reported by resources_with *)
Theorem resources_with_spec m st r :
  In r (resources_with m st) <-> In (VStr r) (resource_list st) /\ m r = true.
Proof. unfold resources_with. rewrite filter_In, In_strings. tauto. Qed.

Theorem resources_with_spec_value m st v :
  In v (map VStr (resources_with m st)) <->
  In v (resource_list st) /\ exists r, v = VStr r /\ m r = true.
Proof.
  rewrite in_map_iff. split.
  - intros (r & <- & H). apply resources_with_spec in H. destruct H as [H1 H2].
    split; [exact H1|]. exists r. split; [reflexivity | exact H2].
  - intros (H1 & r & -> & H2). exists r. split; [reflexivity|]. apply resources_with_spec. tauto.
Qed.

(* order and multiplicity are those of the enumeration *)
Theorem resources_with_is_filter m st : resources_with m st = filter m (strings (resource_list st)).
Proof. reflexivity. Qed.

Lemma strings_app l1 l2 : strings (l1 ++ l2) = strings l1 ++ strings l2.
Proof. unfold strings. apply flat_map_app. Qed.

(* Resource matches come before NotResource matches *)
Theorem resources_with_order m st :
  resources_with m st =
    filter m (strings (field_items (resource st))) ++ filter m (strings (field_items (not_resource st))).
Proof. unfold resources_with, resource_list. rewrite strings_app, filter_app. reflexivity. Qed.

(* the answer is a function of the two resource elements alone: Sid, Effect, Principal, NotPrincipal, Action
   and NotAction play no part *)
Theorem resources_with_depends_on_resources_only m st st' :
  resource st = resource st' -> not_resource st = not_resource st' ->
  resource_list st = resource_list st' /\ resources_with m st = resources_with m st'.
Proof. intros H1 H2. unfold resources_with, resource_list. rewrite H1, H2. split; reflexivity. Qed.

(* the same, field by field, with explicit updates of a statement *)
Definition set_effect (e : effect) (st : stmt) : stmt :=
  {| sid := sid st; effect_of := e; principal := principal st; not_principal := not_principal st;
     action := action st; not_action := not_action st; resource := resource st; not_resource := not_resource st |}.
Definition set_principals (p np : value) (st : stmt) : stmt :=
  {| sid := sid st; effect_of := effect_of st; principal := p; not_principal := np;
     action := action st; not_action := not_action st; resource := resource st; not_resource := not_resource st |}.
Definition set_actions (a na : value) (st : stmt) : stmt :=
  {| sid := sid st; effect_of := effect_of st; principal := principal st; not_principal := not_principal st;
     action := a; not_action := na; resource := resource st; not_resource := not_resource st |}.
Definition set_sid (s : value) (st : stmt) : stmt :=
  {| sid := s; effect_of := effect_of st; principal := principal st; not_principal := not_principal st;
     action := action st; not_action := not_action st; resource := resource st; not_resource := not_resource st |}.
Definition set_resources (r nr : value) (st : stmt) : stmt :=
  {| sid := sid st; effect_of := effect_of st; principal := principal st; not_principal := not_principal st;
     action := action st; not_action := not_action st; resource := r; not_resource := nr |}.

(* [same_resources f]: the update f leaves Resource and NotResource alone *)
Definition keeps_resources (f : stmt -> stmt) : Prop :=
  forall st, resource (f st) = resource st /\ not_resource (f st) = not_resource st.

Lemma keeps_set_effect e : keeps_resources (set_effect e).
Proof. intros st. split; reflexivity. Qed.
Lemma keeps_set_principals p np : keeps_resources (set_principals p np).
Proof. intros st. split; reflexivity. Qed.
Lemma keeps_set_actions a na : keeps_resources (set_actions a na).
Proof. intros st. split; reflexivity. Qed.
Lemma keeps_set_sid s : keeps_resources (set_sid s).
Proof. intros st. split; reflexivity. Qed.

Theorem resources_with_independent m st :
  (forall e, resources_with m (set_effect e st) = resources_with m st) /\
  (forall p np, resources_with m (set_principals p np st) = resources_with m st) /\
  (forall a na, resources_with m (set_actions a na st) = resources_with m st) /\
  (forall s, resources_with m (set_sid s st) = resources_with m st).
Proof. repeat split. Qed.

(* and conversely the resource elements play no part in the principal / action queries *)
Theorem other_queries_ignore_resources r nr st :
  principals (set_resources r nr st) = principals st /\
  action_list (set_resources r nr st) = action_list st /\
  (forall wl, non_whitelisted wl (set_resources r nr st) = non_whitelisted wl st) /\
  (forall m, principals_with m (set_resources r nr st) = principals_with m st) /\
  (forall m, actions_with m (set_resources r nr st) = actions_with m st) /\
  effect_of (set_resources r nr st) = effect_of st.
Proof. repeat split. Qed.

(* ------------------------------------------------------------------------------------------ *)
(* get_action_list(include_action, include_not_action) *)

Theorem action_list_of_spec ia ina st a :
  In a (action_list_of ia ina st) <->
  (ia = true /\ field_names (action st) a) \/ (ina = true /\ field_names (not_action st) a).
Proof.
  unfold action_list_of. rewrite in_app_iff, <- !field_items_spec.
  destruct ia, ina; cbn [In]; intuition discriminate.
Qed.

Theorem action_list_of_flags st :
  action_list_of true true st = action_list st /\
  action_list_of true false st = field_items (action st) /\
  action_list_of false true st = field_items (not_action st) /\
  action_list_of false false st = [].
Proof. unfold action_list_of, action_list. rewrite app_nil_r. repeat split. Qed.

(* the default call is the Action part followed by the NotAction part *)
Theorem action_list_split st :
  action_list st = action_list_of true false st ++ action_list_of false true st.
Proof. unfold action_list_of, action_list. rewrite app_nil_r. reflexivity. Qed.

(* ------------------------------------------------------------------------------------------ *)
(* PolicyDocument.statements_with *)

Theorem statements_with_is_filter m l :
  statements_with m l = filter (fun st => nonempty (resources_with m st)) l.
Proof. reflexivity. Qed.

Lemma has_resource_spec m st :
  nonempty (resources_with m st) = true <-> exists r, In (VStr r) (resource_list st) /\ m r = true.
Proof.
  rewrite nonempty_ex. split; intros (r & H); exists r; apply resources_with_spec; exact H.
Qed.

(* membership: a statement of the document with at least one matching string resource -- whatever its Effect *)
Theorem statements_with_spec m l st :
  In st (statements_with m l) <->
  In st l /\ exists r, In (VStr r) (resource_list st) /\ m r = true.
Proof. unfold statements_with. rewrite filter_In, has_resource_spec. tauto. Qed.

(* document order is kept: the query distributes over concatenation, ... *)
Theorem statements_with_app m l1 l2 :
  statements_with m (l1 ++ l2) = statements_with m l1 ++ statements_with m l2.
Proof. unfold statements_with. apply filter_app. Qed.

Theorem statements_with_cons m st l :
  statements_with m (st :: l) =
    (if nonempty (resources_with m st) then [st] else []) ++ statements_with m l.
Proof. unfold statements_with. cbn [filter]. destruct (nonempty _); reflexivity. Qed.

(* ... asking again changes nothing, ... *)
Theorem statements_with_idem m l : statements_with m (statements_with m l) = statements_with m l.
Proof.
  unfold statements_with. induction l as [|st l IH]; cbn [filter]; [reflexivity|].
  destruct (nonempty (resources_with m st)) eqn:E; cbn [filter]; [rewrite E, IH; reflexivity | exact IH].
Qed.

Theorem statements_with_NoDup m l : NoDup l -> NoDup (statements_with m l).
Proof. intros H. unfold statements_with. apply NoDup_filter. exact H. Qed.

(* ... and the answer is the sub-sequence of the document at strictly increasing positions *)
Lemma positions_from_bounds {A} (f : A -> bool) l : forall i p,
  In p (positions_from f i l) -> i <= p < i + length l.
Proof.
  induction l as [|x l IH]; intros i p H; cbn [positions_from length] in *; [destruct H|].
  apply in_app_or in H. destruct H as [H|H].
  - destruct (f x); [|destruct H]. destruct H as [<-|[]]. lia.
  - apply IH in H. lia.
Qed.

Lemma positions_from_sorted {A} (f : A -> bool) l : forall i, StronglySorted lt (positions_from f i l).
Proof.
  induction l as [|x l IH]; intros i; cbn [positions_from]; [constructor|].
  destruct (f x); cbn [app]; [|apply IH].
  constructor; [apply IH|]. apply Forall_forall. intros p H. apply positions_from_bounds in H. lia.
Qed.

Lemma positions_from_nth {A} (f : A -> bool) l : forall pre,
  map (nth_error (pre ++ l)) (positions_from f (length pre) l) = map Some (filter f l).
Proof.
  induction l as [|x l IH]; intros pre; cbn [positions_from filter map]; [reflexivity|].
  rewrite map_app.
  assert (nth_error (pre ++ x :: l) (length pre) = Some x) as Hx.
  { rewrite nth_error_app2 by lia. rewrite Nat.sub_diag. reflexivity. }
  specialize (IH (pre ++ [x])). rewrite <- app_assoc in IH. cbn [app] in IH.
  rewrite app_length in IH. cbn [length] in IH. rewrite Nat.add_1_r in IH.
  destruct (f x); cbn [map app]; rewrite IH; [rewrite Hx|]; reflexivity.
Qed.

Theorem statements_with_positions_spec m l :
  map (nth_error l) (statements_with_positions m l) = map Some (statements_with m l) /\
  StronglySorted lt (statements_with_positions m l) /\
  (forall p, In p (statements_with_positions m l) -> p < length l).
Proof.
  unfold statements_with_positions, statements_with. split; [|split].
  - apply (positions_from_nth _ l []).
  - apply positions_from_sorted.
  - intros p H. apply positions_from_bounds in H. lia.
Qed.

Lemma positions_from_In {A} (f : A -> bool) l : forall pre p,
  In p (positions_from f (length pre) l) <->
  exists x, nth_error (pre ++ l) p = Some x /\ length pre <= p /\ f x = true.
Proof.
  induction l as [|x l IH]; intros pre p; cbn [positions_from].
  - split; [intros []|]. intros (x & H & Hp & _). rewrite app_nil_r in H.
    assert (nth_error pre p <> None) as Hn by congruence. apply nth_error_Some in Hn. lia.
  - rewrite in_app_iff.
    specialize (IH (pre ++ [x]) p). rewrite <- app_assoc in IH. cbn [app] in IH.
    rewrite app_length in IH. cbn [length] in IH. rewrite Nat.add_1_r in IH. rewrite IH.
    assert (nth_error (pre ++ x :: l) (length pre) = Some x) as Hx.
    { rewrite nth_error_app2 by lia. rewrite Nat.sub_diag. reflexivity. }
    split.
    + intros [H|(y & H1 & H2 & H3)].
      * destruct (f x) eqn:E; [|destruct H]. destruct H as [<-|[]]. exists x. repeat split; [exact Hx | lia | exact E].
      * exists y. repeat split; [exact H1 | lia | exact H3].
    + intros (y & H1 & H2 & H3).
      destruct (Nat.eq_dec p (length pre)) as [->|Hne].
      * left. rewrite Hx in H1. inversion H1; subst y. rewrite H3. left; reflexivity.
      * right. exists y. repeat split; [exact H1 | lia | exact H3].
Qed.

(* position p is reported exactly when the p-th statement of the document has a matching string resource *)
Theorem statements_with_positions_In m l p :
  In p (statements_with_positions m l) <->
  exists st, nth_error l p = Some st /\ exists r, In (VStr r) (resource_list st) /\ m r = true.
Proof.
  unfold statements_with_positions. rewrite (positions_from_In _ l [] p). cbn [app length].
  split; intros (st & H1 & H2); exists st; (split; [exact H1|]).
  - apply has_resource_spec. tauto.
  - split; [lia | apply has_resource_spec; exact H2].
Qed.

(* ------------------------------------------------------------------------------------------ *)
(* statements_with looks at the resources only *)

Lemma keeps_resources_with m f st : keeps_resources f -> resources_with m (f st) = resources_with m st.
Proof.
  intros K. destruct (K st) as [H1 H2].
  apply (resources_with_depends_on_resources_only m (f st) st H1 H2).
Qed.

Lemma positions_from_map {A B} (g : B -> bool) (f : A -> B) l : forall i,
  positions_from g i (map f l) = positions_from (fun x => g (f x)) i l.
Proof. induction l as [|x l IH]; intros i; cbn [map positions_from]; [reflexivity|]. rewrite IH. reflexivity. Qed.

Lemma positions_from_ext {A} (f g : A -> bool) l : (forall x, f x = g x) -> forall i,
  positions_from f i l = positions_from g i l.
Proof. intros E. induction l as [|x l IH]; intros i; cbn [positions_from]; [reflexivity|]. rewrite E, IH. reflexivity. Qed.

Lemma filter_map_comm {A B} (g : B -> bool) (f : A -> B) l :
  filter g (map f l) = map f (filter (fun x => g (f x)) l).
Proof.
  induction l as [|x l IH]; cbn [map filter]; [reflexivity|]. destruct (g (f x)); cbn [map]; rewrite IH; reflexivity.
Qed.

(* rewriting every statement by an update that leaves Resource / NotResource alone (any change of Sid, Effect,
   Principal, NotPrincipal, Action, NotAction) selects the same positions, and returns the rewritten statements *)
Theorem statements_with_depends_on_resources_only m f l :
  keeps_resources f ->
  statements_with_positions m (map f l) = statements_with_positions m l /\
  statements_with m (map f l) = map f (statements_with m l).
Proof.
  intros K. unfold statements_with_positions, statements_with. split.
  - rewrite positions_from_map. apply positions_from_ext. intros st. rewrite (keeps_resources_with m f st K). reflexivity.
  - rewrite filter_map_comm. f_equal. apply filter_ext. intros st. rewrite (keeps_resources_with m f st K). reflexivity.
Qed.

Theorem statements_with_independent m l :
  (forall e, statements_with_positions m (map (set_effect e) l) = statements_with_positions m l) /\
  (forall p np, statements_with_positions m (map (set_principals p np) l) = statements_with_positions m l) /\
  (forall a na, statements_with_positions m (map (set_actions a na) l) = statements_with_positions m l) /\
  (forall s, statements_with_positions m (map (set_sid s) l) = statements_with_positions m l).
Proof.
  repeat split; intros.
  - apply statements_with_depends_on_resources_only, keeps_set_effect.
  - apply statements_with_depends_on_resources_only, keeps_set_principals.
  - apply statements_with_depends_on_resources_only, keeps_set_actions.
  - apply statements_with_depends_on_resources_only, keeps_set_sid.
Qed.

(* ------------------------------------------------------------------------------------------ *)
(* Deny statements ARE visible to statements_with (contrast: PolicyFacts.deny_invisible) *)

(* inserting a statement anywhere adds it to the answer exactly when it has a matching resource: its Effect is
   not consulted *)
Theorem statements_with_insert m l1 l2 d :
  statements_with m (l1 ++ d :: l2) =
    statements_with m l1 ++ (if nonempty (resources_with m d) then [d] else []) ++ statements_with m l2.
Proof. rewrite statements_with_app, statements_with_cons. reflexivity. Qed.

Theorem statements_with_sees_deny m l d r :
  In d l -> effect_of d = Deny -> In (VStr r) (resource_list d) -> m r = true ->
  In d (statements_with m l).
Proof. intros H _ Hr Hm. apply statements_with_spec. split; [exact H|]. exists r. tauto. Qed.

(* the same Deny statement is reported by statements_with and by none of the allowed_* queries *)
Theorem deny_seen_by_statements_with_only m l d r :
  In d l -> effect_of d = Deny -> In (VStr r) (resource_list d) -> m r = true ->
  In d (statements_with m l) /\ ~ In d (allowed l) /\ forall m', ~ In d (allowed_actions_with m' l).
Proof.
  intros H HD Hr Hm. split; [eapply statements_with_sees_deny; eassumption|]. split.
  - intros C. apply In_allowed in C. destruct C as [_ C]. congruence.
  - intros m' C. apply allowed_actions_with_spec in C. destruct C as (_ & C & _). congruence.
Qed.

(* a document of Deny statements only answers statements_with like the same document with every Effect
   turned into Allow (whereas all the allowed_* queries answer nothing on it: PolicyFacts.all_deny_empty) *)
Theorem statements_with_all_deny m l :
  (forall st, In st l -> effect_of st = Deny) ->
  statements_with_positions m l = statements_with_positions m (map (set_effect Allow) l) /\
  (forall m', allowed_actions_with m' l = []).
Proof.
  intros H. split.
  - symmetry. apply statements_with_depends_on_resources_only, keeps_set_effect.
  - intros m'. apply (all_deny_empty (fun _ => []) l H).
Qed.

(* ------------------------------------------------------------------------------------------ *)
(* PolicyDocument.get_iam_actions: no Effect gate either *)

Section Iam.
  Variable expanded : stmt -> list str.

  Theorem iam_actions_spec l a :
    In a (iam_actions expanded l) <->
    exists st, In st l /\ In a (expanded st) /\ starts_with K_iam_colon a = true.
  Proof.
    unfold iam_actions. rewrite In_sort_dedup, filter_In, in_flat_map. split.
    - intros ((st & H1 & H2) & H3). exists st. tauto.
    - intros (st & H1 & H2 & H3). split; [exists st; tauto | exact H3].
  Qed.

  (* written with the prefix spelled out *)
  Theorem iam_actions_spec_prefix l a :
    In a (iam_actions expanded l) <->
    exists st, In st l /\ In a (expanded st) /\ exists rest, a = K_iam_colon ++ rest.
  Proof.
    rewrite iam_actions_spec. split; intros (st & H1 & H2 & H3); exists st; (split; [exact H1|]); (split; [exact H2|]);
      apply starts_with_spec; exact H3.
  Qed.

  Theorem iam_actions_difference_spec cat l a :
    In a (iam_actions_difference expanded cat l) <->
    In a cat /\ starts_with K_iam_colon (lower a) = true /\ ~ In a (iam_actions expanded l).
  Proof.
    unfold iam_actions_difference. rewrite In_sort_dedup, filter_In, andb_true_iff, negb_true_iff.
    split; intros (H1 & H2 & H3); (split; [exact H1|]); (split; [exact H2|]).
    - intros C. apply mem_str_In in C. congruence.
    - destruct (mem_str a (iam_actions expanded l)) eqn:E; [|reflexivity]. apply mem_str_In in E. contradiction.
  Qed.

  (* both answers are canonical: strictly increasing, hence duplicate-free (the API returns sorted(set(..))) *)
  Theorem iam_actions_canonical cat l :
    StronglySorted str_lt (iam_actions expanded l) /\ NoDup (iam_actions expanded l) /\
    StronglySorted str_lt (iam_actions_difference expanded cat l) /\ NoDup (iam_actions_difference expanded cat l).
  Proof.
    unfold iam_actions, iam_actions_difference.
    repeat split; first [apply sort_dedup_sorted | apply sort_dedup_NoDup].
  Qed.

  (* the two answers partition the "iam:" part of the catalogue, provided the expansion stays inside the catalogue *)
  Theorem iam_actions_partition cat l a :
    (forall st x, In st l -> In x (expanded st) -> In x cat) ->
    In a cat -> starts_with K_iam_colon a = true -> starts_with K_iam_colon (lower a) = true ->
    (In a (iam_actions expanded l) \/ In a (iam_actions_difference expanded cat l)) /\
    ~ (In a (iam_actions expanded l) /\ In a (iam_actions_difference expanded cat l)).
  Proof.
    intros Hcat Ha Hp Hpl. split.
    - destruct (mem_str a (iam_actions expanded l)) eqn:E.
      + left. apply mem_str_In. exact E.
      + right. apply iam_actions_difference_spec. split; [exact Ha|]. split; [exact Hpl|].
        intros C. apply mem_str_In in C. congruence.
    - intros [H1 H2]. apply iam_actions_difference_spec in H2. tauto.
  Qed.

  (* a Deny statement contributes like an Allow one: the document order, and the Effect, are not consulted *)
  Theorem iam_actions_sees_deny l d a :
    In d l -> effect_of d = Deny -> In a (expanded d) -> starts_with K_iam_colon a = true ->
    In a (iam_actions expanded l) /\ forall cat, ~ In a (iam_actions_difference expanded cat l).
  Proof.
    intros H _ Ha Hp.
    assert (In a (iam_actions expanded l)) as HI by (apply iam_actions_spec; exists d; tauto).
    split; [exact HI|]. intros cat C. apply iam_actions_difference_spec in C. tauto.
  Qed.

  Theorem iam_actions_effect_blind l :
    (forall e st, expanded (set_effect e st) = expanded st) ->
    forall e cat, iam_actions expanded (map (set_effect e) l) = iam_actions expanded l /\
                  iam_actions_difference expanded cat (map (set_effect e) l) = iam_actions_difference expanded cat l.
  Proof.
    intros HE e cat.
    assert (flat_map expanded (map (set_effect e) l) = flat_map expanded l) as F.
    { induction l as [|st l IH]; cbn [map flat_map]; [reflexivity|]. rewrite HE, IH. reflexivity. }
    assert (iam_actions expanded (map (set_effect e) l) = iam_actions expanded l) as I.
    { unfold iam_actions. rewrite F. reflexivity. }
    split; [exact I|]. unfold iam_actions_difference. rewrite I. reflexivity.
  Qed.

  Theorem iam_actions_order_blind cat l l' :
    Permutation l l' ->
    iam_actions expanded l = iam_actions expanded l' /\
    iam_actions_difference expanded cat l = iam_actions_difference expanded cat l'.
  Proof.
    intros P.
    assert (iam_actions expanded l = iam_actions expanded l') as I.
    { apply sort_dedup_ext. intros a.
      pose proof (iam_actions_spec l a) as A. pose proof (iam_actions_spec l' a) as B.
      unfold iam_actions in A, B. rewrite In_sort_dedup in A, B. rewrite A, B.
      split; intros (st & H & R); exists st; (split; [|exact R]).
      - eapply Permutation_in; [exact P | exact H].
      - eapply Permutation_in; [apply Permutation_sym; exact P | exact H]. }
    split; [exact I|]. unfold iam_actions_difference. rewrite I. reflexivity.
  Qed.

  (* contrast with get_allowed_actions on the same document: what a Deny statement adds to get_iam_actions it does
     not add to get_allowed_actions *)
  Theorem iam_actions_vs_allowed_actions l a :
    In a (allowed_actions expanded l) -> starts_with K_iam_colon a = true -> In a (iam_actions expanded l).
  Proof.
    intros H Hp. apply allowed_actions_spec in H. destruct H as (st & H1 & _ & H2).
    apply iam_actions_spec. exists st. tauto.
  Qed.
End Iam.

(* ------------------------------------------------------------------------------------------ *)
(* from the raw statement: the resources enumerated are those written under the two keys *)

Theorem parse_stmt_resources d st :
  parse_stmt (VDict d) = Ok st ->
  resource_list st = field_items (get K_Resource d) ++ field_items (get K_NotResource d) /\
  forall ia ina, action_list_of ia ina st =
    (if ia then field_items (get K_Action d) else []) ++ (if ina then field_items (get K_NotAction d) else []).
Proof.
  unfold parse_stmt. intros H.
  destruct (lookup K_Effect d) as [v|]; [|discriminate].
  destruct v; try discriminate.
  destruct (effect_norm s) as [e|]; cbn [bind] in H; [|discriminate].
  inversion H; subst st. split; [reflexivity | intros; reflexivity].
Qed.
