(* The generated field table of the live class `Principal` (gen/PrincipalFields.v, rewritten from the
   source on every run) is exactly what the model enumerates.  Re-proved by the kernel on every run. *)
From Coq Require Import List Bool NArith.
From PV Require Import Base.Str Base.Value Policy.Policy.
From PVGen Require PrincipalFields.
Import ListNotations.

(* exactly the four fields AWS, CanonicalUser, Federated, Service, in this order, each optional (default None) *)
Theorem principal_table_ok :
  PrincipalFields.PRINCIPAL_FIELDS_TABLE = map (fun k => (k, true)) PRINCIPAL_FIELDS.
Proof. vm_compute. reflexivity. Qed.

Theorem principal_table_names : map fst PrincipalFields.PRINCIPAL_FIELDS_TABLE = PRINCIPAL_FIELDS.
Proof. vm_compute. reflexivity. Qed.

Theorem principal_table_all_optional : forall k o, In (k, o) PrincipalFields.PRINCIPAL_FIELDS_TABLE -> o = true.
Proof.
  intros k o H.
  assert (forallb (fun p => snd p) PrincipalFields.PRINCIPAL_FIELDS_TABLE = true) as F by (vm_compute; reflexivity).
  rewrite forallb_forall in F. exact (F (k, o) H).
Qed.

(* no other key is accepted in the object form (extra = forbid), so the four fields are all there is *)
Theorem principal_table_closed : PrincipalFields.PRINCIPAL_EXTRA_FORBID = true.
Proof. vm_compute. reflexivity. Qed.

(* the Statement class has exactly two principal-typed slots *)
Theorem statement_principal_slots : PrincipalFields.STATEMENT_PRINCIPAL_SLOTS = [K_Principal; K_NotPrincipal].
Proof. vm_compute. reflexivity. Qed.
