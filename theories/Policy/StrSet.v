(* Python's sorted(set(l)) on strings: a strictly increasing (hence duplicate-free) list with the same
   members.  Used for the policy-document queries whose result is `list(set(...))` (compared as sets with
   the implementation; the model returns the canonical representative). *)
From Coq Require Import List Bool NArith Lia Sorted Permutation.
From PV Require Import Base.Str.
Import ListNotations.

Fixpoint insert_u (x : str) (l : list str) : list str :=
  match l with
  | [] => [x]
  | y :: r => if str_ltb x y then x :: l else if str_eqb x y then l else y :: insert_u x r
  end.
Definition sort_dedup (l : list str) : list str := fold_right insert_u [] l.

Lemma In_insert_u x l z : In z (insert_u x l) <-> z = x \/ In z l.
Proof.
  induction l as [|y r IH]; simpl.
  - split; [intros [H|[]]; left; congruence | intros [H|[]]; left; congruence].
  - destruct (str_ltb x y) eqn:L.
    + simpl. split; [intros [H|H]; [left; congruence | right; exact H] | intros [H|H]; [left; congruence | right; exact H]].
    + destruct (str_eqb x y) eqn:E.
      * apply str_eqb_spec in E. subst y. simpl. split; [intros H; right; exact H | intros [H|H]; [left; congruence | exact H]].
      * simpl. rewrite IH. tauto.
Qed.

Lemma In_sort_dedup l z : In z (sort_dedup l) <-> In z l.
Proof.
  induction l as [|x l IH]; simpl; [tauto|].
  rewrite In_insert_u, IH. split; intros [H|H]; auto.
Qed.

Lemma str_lt_trans a b c : str_lt a b -> str_lt b c -> str_lt a c.
Proof. unfold str_lt. apply str_ltb_trans. Qed.

Lemma insert_u_sorted x l : StronglySorted str_lt l -> StronglySorted str_lt (insert_u x l).
Proof.
  induction l as [|y r IH]; intros S; simpl.
  - constructor; constructor.
  - inversion S as [|y' r' Sr Fy]; subst.
    destruct (str_ltb x y) eqn:L.
    + constructor; [exact S|]. constructor; [exact L|].
      rewrite Forall_forall in *. intros z Hz. eapply str_lt_trans; [exact L | apply Fy; exact Hz].
    + destruct (str_eqb x y) eqn:E; [exact S|].
      constructor; [apply IH; exact Sr|].
      rewrite Forall_forall in *. intros z Hz. apply In_insert_u in Hz. destruct Hz as [->|Hz]; [|apply Fy; exact Hz].
      unfold str_lt. destruct (str_ltb y x) eqn:L'; [reflexivity|].
      pose proof (str_ltb_total _ _ L L') as C. subst y. rewrite str_eqb_refl in E. discriminate.
Qed.

Lemma sort_dedup_sorted l : StronglySorted str_lt (sort_dedup l).
Proof. induction l as [|x l IH]; simpl; [constructor | apply insert_u_sorted; exact IH]. Qed.

Lemma sorted_NoDup l : StronglySorted str_lt l -> NoDup l.
Proof.
  induction 1 as [|x l S IH F]; constructor; [|exact IH].
  intros Hin. rewrite Forall_forall in F. specialize (F _ Hin). unfold str_lt in F.
  rewrite str_ltb_irrefl in F. discriminate.
Qed.

Lemma sort_dedup_NoDup l : NoDup (sort_dedup l).
Proof. apply sorted_NoDup, sort_dedup_sorted. Qed.

(* a strictly increasing list is determined by its members *)
Lemma sorted_unique a : forall b, StronglySorted str_lt a -> StronglySorted str_lt b ->
  (forall x, In x a <-> In x b) -> a = b.
Proof.
  induction a as [|x a IH]; intros [|y b] Sa Sb H.
  - reflexivity.
  - exfalso. apply (proj2 (H y)). left; reflexivity.
  - exfalso. apply (proj1 (H x)). left; reflexivity.
  - inversion Sa as [|x' a' Sa' Fa]; subst. inversion Sb as [|y' b' Sb' Fb]; subst.
    rewrite Forall_forall in Fa, Fb.
    assert (x = y) as ->.
    { destruct (proj1 (H x) (or_introl eq_refl)) as [E|Hx]; [congruence|].
      destruct (proj2 (H y) (or_introl eq_refl)) as [E|Hy]; [congruence|].
      pose proof (Fb _ Hx) as L1. pose proof (Fa _ Hy) as L2. unfold str_lt in *.
      rewrite (str_ltb_asym _ _ L1) in L2. discriminate. }
    f_equal. apply IH; [exact Sa' | exact Sb' |].
    intros z. split; intros Hz.
    + destruct (proj1 (H z) (or_intror Hz)) as [E|Hz']; [|exact Hz'].
      subst z. specialize (Fa _ Hz). unfold str_lt in Fa. rewrite str_ltb_irrefl in Fa. discriminate.
    + destruct (proj2 (H z) (or_intror Hz)) as [E|Hz']; [|exact Hz'].
      subst z. specialize (Fb _ Hz). unfold str_lt in Fb. rewrite str_ltb_irrefl in Fb. discriminate.
Qed.

Lemma sort_dedup_ext l l' : (forall x, In x l <-> In x l') -> sort_dedup l = sort_dedup l'.
Proof.
  intros H. apply sorted_unique; try apply sort_dedup_sorted.
  intros x. rewrite !In_sort_dedup. apply H.
Qed.

Lemma sort_dedup_perm l l' : Permutation l l' -> sort_dedup l = sort_dedup l'.
Proof.
  intros P. apply sort_dedup_ext. intros x. split; intros H.
  - eapply Permutation_in; [exact P | exact H].
  - eapply Permutation_in; [apply Permutation_sym; exact P | exact H].
Qed.

Lemma sort_dedup_idem l : sort_dedup (sort_dedup l) = sort_dedup l.
Proof. apply sort_dedup_ext. intros x. apply In_sort_dedup. Qed.
